#!/usr/bin/env python3
"""Regenerates MANIFEST.json from checks_config.py (single source of truth)."""
import json, os, subprocess, sys
sys.path.insert(0, os.path.dirname(os.path.abspath(__file__)))
from checks_config import CONFIG, MANIFEST_TEXT, NOT_APPLICABLE

ALL = ["C%02d" % i for i in range(1, 21)]
def hook_commits():
    try:
        out = subprocess.run(["git", "-C", "/repo", "log", "--format=%h %s"], stdout=subprocess.PIPE, text=True).stdout
        return [l.split()[0] for l in out.splitlines() if " verif hook:" in l or l.split(" ", 1)[1].startswith("verif:")]
    except Exception:
        return []

checks = []
for pid in ALL:
    if pid not in CONFIG:
        continue
    c = CONFIG[pid]
    t = MANIFEST_TEXT[pid]
    checks.append({
        "property_id": pid,
        "quick_cmd": "./check %s --tier quick" % pid,
        "thorough_cmd": "./check %s --tier thorough" % pid,
        "evidence_file": "/verif/evidence/%s.json" % pid,
        "replay_cmd_template": "./check %s --replay {path}" % pid,
        "engine": "rapid+go-fuzz harness",
        "level_claimed": {"category": c["level"], "text": t["level_text"], "design_ref": "DESIGN.md §4 " + pid},
        "level_note": t["level_note"],
        "technique": t["technique"],
    })
na = [{"property_id": p, "reason": NOT_APPLICABLE.get(p, "check not built yet (work in progress in this session; the design in DESIGN.md §4 covers it)")} for p in ALL if p not in CONFIG]
m = {
    "version": 1,
    "setup_cmd": "./check --setup",
    "hooks": {
        "guard": "verif",
        "enable": "go test -tags verif (the harness module under /verif/harness replaces github.com/whatap/golib with /repo)",
        "baseline_off_cmd": "cd /repo && GOFLAGS=-mod=mod GOPROXY=off GOSUMDB=off go test -vet=off -count=1 -timeout 25m ./...",
        "source_commits": hook_commits(),
        "add_only": True,
    },
    "engines": [{"name": "rapid+go-fuzz harness", "path": "/verif/harness", "serves_properties": [c["property_id"] for c in checks],
                 "kind_free_text": "property-based testing (pgregory.net/rapid v1.3.0: generated values, operation histories, fault schedules; exhaustive sweeps of small finite domains) and Go native coverage-guided fuzzing, each against an explicit oracle (independent reference encoders/models, round-trips, metamorphic relations, history invariants)"}],
    "checks": checks,
    "not_applicable": na,
    "notes": "All checks are driven by ./check (python3) which rebuilds the harness test binaries against /repo's working tree with -tags verif on every run. Exit 0 held / 1 violation (VIOLATION line) / 2 inconclusive. known_findings.json lists open and fixed findings.",
}
json.dump(m, open(os.path.join(os.path.dirname(os.path.abspath(__file__)), "MANIFEST.json"), "w"), indent=1)
print("MANIFEST.json: %d checks, %d not claimed" % (len(checks), len(na)))
