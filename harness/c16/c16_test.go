// C16 Log-sink zip batching emits every record exactly once, in order, decodably.
package c16

import (
	"context"
	"strconv"

	"bytes"
	"fmt"
	"github.com/whatap/golib/config"
	"runtime"
	"sync"
	"sync/atomic"
	"testing"
	"time"

	wio "github.com/whatap/golib/io"
	"github.com/whatap/golib/lang/pack"
	"github.com/whatap/golib/logsink/zip"
	wnet "github.com/whatap/golib/net"
	"github.com/whatap/golib/util/compressutil"
	"pgregory.net/rapid"
	"verif/gpack"
	"verif/pbt"
	"verif/rfl"
)

func TestMain(m *testing.M)   { pbt.Main(m, "C16") }
func TestReplay(t *testing.T) { pbt.Replay(t) }

// recClient records what the sender hands to the TCP client.
type recClient struct {
	mu       sync.Mutex
	retain   bool
	packs    []*pack.ZipPack // retained objects (as handed over)
	snapshot [][]byte        // serialisation at hand-over
	other    int             // packs of another type
	// failEvery > 0: every failEvery-th hand-over is reported as failed to the sender ("connection lost") after the pack
	// has been taken over (queued for transmission, partly written): the pack was handed to the client once all the same
	failEvery int
}

func (c *recClient) Connect() error { return nil }
func (c *recClient) Close() error   { return nil }
func (c *recClient) Send(p pack.Pack, opts ...wnet.TcpClientOption) error {
	return c.SendFlush(p, false, opts...)
}
func (c *recClient) SendFlush(p pack.Pack, flush bool, opts ...wnet.TcpClientOption) error {
	c.mu.Lock()
	defer c.mu.Unlock()
	zp, ok := p.(*pack.ZipPack)
	if !ok {
		c.other++
		return nil
	}
	c.snapshot = append(c.snapshot, append([]byte(nil), pack.ToBytesPack(zp)...))
	c.packs = append(c.packs, zp)
	if c.failEvery > 0 && len(c.snapshot)%c.failEvery == 0 {
		return fmt.Errorf("write tcp: connection lost (reported by the harness client after it took the pack over)")
	}
	return nil
}

func (c *recClient) count() int {
	c.mu.Lock()
	defer c.mu.Unlock()
	return len(c.snapshot)
}

// Rec describes one log record of a case.
type Rec struct {
	Content int    `json:"content"` // content size in bytes
	Dt      int64  `json:"dt"`      // time increment (ms) relative to the previous record
	Seed    uint64 `json:"seed"`    // fills tags / fields
	// Bad: a record that cannot be encoded (its tag map is nil, as in a struct literal that bypassed the constructor):
	// encoding it fails half way. Nothing is asserted about this record itself; the records around it must be unaffected.
	Bad bool `json:"bad,omitempty"`
	// NoTime: the record's time stamp was never set (Time == 0); it is a record like any other (seed C16-s24)
	NoTime bool `json:"notime,omitempty"`
}

func mkRecord(r Rec, tm int64, id int64) *pack.LogSinkPack {
	s := rfl.NewStream(nil, r.Seed, 30)
	p := gpack.ByName["LogSinkPack"].Build(s, 0).(*pack.LogSinkPack)
	b := make([]byte, r.Content)
	for i := range b {
		b[i] = "abcdefghijklmnopqrstuvwxyz0123456789 ERROR info\n"[(i*7+int(r.Seed%13))%48]
	}
	p.Content = string(b)
	p.Time = tm
	if r.NoTime {
		p.Time = 0
	}
	p.Line = id // unique id of the record within the case
	if r.Bad {
		p.Tags = nil
	}
	return p
}

// appendGuarded hands a record to Append; a panic that escapes to the caller for an unencodable record is not judged.
func appendGuarded(z *zip.ZipSendProxyThread, p *pack.LogSinkPack) {
	defer func() { recover() }()
	z.Append(p)
}

func encodeRec(p *pack.LogSinkPack) []byte { return append([]byte(nil), pack.ToBytesPack(p)...) }

// decodePayload decodes the (decompressed) payload of an emitted pack into the encodings of its records.
func decodePayload(zp *pack.ZipPack) (recs [][]byte, rawLen int, err error) {
	payload := zp.Records
	if zp.Status == pack.ZIPPED {
		un, e := compressutil.UnZip(zp.Records)
		if e != nil {
			return nil, 0, fmt.Errorf("payload flagged compressed does not decompress: %v", e)
		}
		payload = un
	} else if zp.Status != 0 {
		return nil, 0, fmt.Errorf("status byte %d", zp.Status)
	}
	rawLen = len(payload)
	var perr interface{}
	func() {
		defer func() { perr = recover() }()
		in := wio.NewDataInputX(append([]byte(nil), payload...))
		for in.Available() > 0 {
			before := int(in.Available())
			p := pack.ReadPack(in)
			if _, ok := p.(*pack.LogSinkPack); !ok {
				panic(fmt.Sprintf("payload holds a %T", p))
			}
			recs = append(recs, payload[len(payload)-before:len(payload)-int(in.Available())])
		}
	}()
	if perr != nil {
		return nil, rawLen, fmt.Errorf("payload does not decode: %v", perr)
	}
	return recs, rawLen, nil
}

// verifyEmitted checks everything the statement says about the emitted packs, given the expected batches.
func verifyEmitted(cl *recClient, batches [][][]byte, zipMin int, checkBatches bool, zipMins ...[]int) error {
	cl.mu.Lock()
	defer cl.mu.Unlock()
	if cl.other > 0 {
		return fmt.Errorf("%d packs of another type were handed to the client", cl.other)
	}
	var all [][]byte
	for _, b := range batches {
		all = append(all, b...)
	}
	var got [][]byte
	for i, snap := range cl.snapshot {
		zp, ok := pack.ToPack(append([]byte(nil), snap...)).(*pack.ZipPack)
		if !ok {
			return fmt.Errorf("emitted pack %d does not decode as a zip pack", i)
		}
		recs, rawLen, err := decodePayload(zp)
		if err != nil {
			return fmt.Errorf("emitted pack %d: %v", i, err)
		}
		if zp.RecordCount != len(recs) {
			return fmt.Errorf("emitted pack %d: RecordCount=%d but the payload holds %d records", i, zp.RecordCount, len(recs))
		}
		if len(zipMins) > 0 && i < len(zipMins[0]) {
			zipMin = zipMins[0][i] // the compression minimum in force when this batch was emitted
		}
		if want := rawLen >= zipMin; (zp.Status == pack.ZIPPED) != want {
			return fmt.Errorf("emitted pack %d: payload of %d bytes, minimum size for compression %d, compressed=%v", i, rawLen, zipMin, zp.Status == pack.ZIPPED)
		}
		if len(recs) == 0 {
			return fmt.Errorf("emitted pack %d is empty", i)
		}
		if checkBatches {
			if i >= len(batches) {
				return fmt.Errorf("%d packs emitted, %d batches expected (pack %d holds %d records)", len(cl.snapshot), len(batches), i, len(recs))
			}
			if len(recs) != len(batches[i]) {
				return fmt.Errorf("emitted pack %d holds %d records, the batch that reaches the buffer size / waiting time / stop holds %d", i, len(recs), len(batches[i]))
			}
		}
		got = append(got, recs...)
		// aliasing: the object handed over must still serialise to what it was at hand-over
		if now := pack.ToBytesPack(cl.packs[i]); !bytes.Equal(now, snap) {
			return fmt.Errorf("pack %d was altered after it had been handed to the client (%d records): its bytes changed from %d to %d bytes / different content", i, len(recs), len(snap), len(now))
		}
	}
	if checkBatches && len(cl.snapshot) != len(batches) {
		return fmt.Errorf("%d packs emitted, %d batches expected", len(cl.snapshot), len(batches))
	}
	if len(got) != len(all) {
		return fmt.Errorf("%d records handed in, %d records emitted", len(all), len(got))
	}
	for i := range all {
		if !bytes.Equal(all[i], got[i]) {
			return fmt.Errorf("record %d of the emitted stream is not record %d handed in (lost, duplicated, reordered or altered)", i, i)
		}
	}
	return nil
}

// ---- sequential histories (direct Append / SendDirect) --------------------------------------

type Op struct {
	K    string `json:"k"` // append | senddirect | flush
	Recs []Rec  `json:"recs,omitempty"`
	// KeepPending (senddirect): records appended earlier and not yet flushed stay pending across the call
	KeepPending bool `json:"keep_pending,omitempty"`
	// config: a configuration update puts these settings in force (buffer size, waiting time, compression minimum)
	Buf, Wait, ZipMin int
}

// mapConf is the configuration handed to ApplyConfig.
type mapConf map[string]string

func (m mapConf) ApplyDefault()              {}
func (m mapConf) GetConfFile() string        { return "" }
func (m mapConf) Destroy()                   {}
func (m mapConf) GetKeys() []string          { return nil }
func (m mapConf) GetValue(key string) string { return m[key] }
func (m mapConf) GetValueDef(key, def string) string {
	if v, ok := m[key]; ok && v != "" {
		return v
	}
	return def
}
func (m mapConf) GetBoolean(key string, def bool) bool { return def }
func (m mapConf) GetInt(key string, def int) int32 {
	if v, err := strconv.Atoi(m[key]); err == nil {
		return int32(v)
	}
	return int32(def)
}
func (m mapConf) GetIntSet(key, def, deli string) []int32 { return nil }
func (m mapConf) GetLong(key string, def int64) int64 {
	if v, err := strconv.ParseInt(m[key], 10, 64); err == nil {
		return v
	}
	return def
}
func (m mapConf) GetStringArray(key string, def string, deli string) []string { return nil }
func (m mapConf) GetStringHashSet(key, def, deli string) []int32              { return nil }
func (m mapConf) GetStringHashCodeSet(key, def, deli string) []int32          { return nil }
func (m mapConf) GetFloat(key string, def float32) float32                    { return def }
func (m mapConf) SetValues(v *map[string]string)                              {}
func (m mapConf) ToString() string                                            { return fmt.Sprint(map[string]string(m)) }
func (m mapConf) String() string                                              { return m.ToString() }

var _ config.Config = mapConf{}

func settingsConf(buf, wait, zipMin int) mapConf {
	return mapConf{"max_buffer_size": strconv.Itoa(buf), "max_wait_time": strconv.Itoa(wait), "logsink_zip_min_size": strconv.Itoa(zipMin), "logsink_queue_size": "1000"}
}

type SeqCase struct {
	Buf    int  `json:"buf"`
	Wait   int  `json:"wait"`
	ZipMin int  `json:"zipmin"`
	Ops    []Op `json:"ops"`
	// ClientFails > 0: the client reports every ClientFails-th hand-over as failed (after taking the pack)
	ClientFails int `json:"client_fails,omitempty"`
}

func drawRec(t *rapid.T, buf int) Rec {
	sz := rapid.OneOf(rapid.IntRange(0, 40), rapid.IntRange(0, 400), rapid.IntRange(0, 2*buf+10)).Draw(t, "content")
	if sz > 200000 {
		sz = 200000
	}
	return Rec{Content: sz, Dt: rapid.OneOf(rapid.Int64Range(0, 3), rapid.Int64Range(0, 3000), rapid.Int64Range(0, 12000)).Draw(t, "dt"), Seed: rapid.Uint64().Draw(t, "seed")}
}

func runSeq(c SeqCase) *pbt.Result {
	cl := &recClient{retain: true, failEvery: c.ClientFails}
	z := zip.NewForVerif(cl, false, int64(c.Wait), 1000, c.Buf, c.ZipMin)
	defer z.StopForVerif()
	var batches [][][]byte
	var cur [][]byte
	curLen := 0
	var first int64
	tm := int64(1_700_000_000_000)
	id := int64(0)
	flush := func() {
		if len(cur) > 0 {
			batches = append(batches, cur)
		}
		cur, curLen, first = nil, 0, 0
	}
	belowZip, badRecords, mixed, reconfigured, noTime := 0, 0, 0, 0, 0
	var zipMinOf []int // compression minimum in force when batch i was emitted
	closeBatch := flush
	flush = func() {
		n := len(batches)
		closeBatch()
		if len(batches) > n {
			zipMinOf = append(zipMinOf, c.ZipMin)
		}
	}
	for _, op := range c.Ops {
		switch op.K {
		case "append":
			for _, r := range op.Recs {
				tm += r.Dt
				id++
				p := mkRecord(r, tm, id)
				if r.Bad {
					appendGuarded(z, p)
					badRecords++
					continue
				}
				enc := encodeRec(p)
				z.Append(p)
				cur = append(cur, enc)
				curLen += len(enc)
				rt := tm // the record's own time stamp: the waiting time of a batch runs from its first time-stamped record
				if r.NoTime {
					rt = 0
					noTime++
				}
				if first == 0 {
					first = rt
					if curLen >= c.Buf {
						flush()
					}
				} else if curLen >= c.Buf || rt-first >= int64(c.Wait) {
					flush()
				}
			}
		case "config":
			// a configuration update: the new settings are in force for everything that follows (pending records
			// are judged by the new limits at the next append, as the sender reads its settings when it appends)
			z.ApplyConfig(settingsConf(op.Buf, op.Wait, op.ZipMin))
			c.Buf, c.Wait, c.ZipMin = op.Buf, op.Wait, op.ZipMin
			reconfigured++
		case "flush":
			z.FlushForVerif()
			flush()
		case "senddirect":
			var arr []*pack.LogSinkPack
			var own [][]byte
			ownLen := 0
			var ownBatches [][][]byte
			for _, r := range op.Recs {
				tm += r.Dt
				id++
				p := mkRecord(r, tm, id)
				enc := encodeRec(p)
				arr = append(arr, p)
				own = append(own, enc)
				ownLen += len(enc)
				if ownLen >= c.Buf {
					ownBatches = append(ownBatches, own)
					own, ownLen = nil, 0
				}
			}
			if len(own) > 0 {
				ownBatches = append(ownBatches, own)
			}
			// SendDirect emits its own packs immediately; the pending Append batch is not touched: it is emitted
			// later, by its own trigger, with exactly its own records. In half of the cases the pending batch is
			// flushed first, otherwise it stays pending across the call.
			if !op.KeepPending {
				z.FlushForVerif()
				flush()
			} else if len(cur) > 0 {
				mixed++
			}
			z.SendDirect(arr)
			batches = append(batches, ownBatches...)
			for range ownBatches {
				zipMinOf = append(zipMinOf, c.ZipMin)
			}
		}
	}
	z.FlushForVerif() // what the run loop does on stop
	flush()
	if err := verifyEmitted(cl, batches, c.ZipMin, true, zipMinOf); err != nil {
		return &pbt.Result{Err: err}
	}
	for bi, b := range batches {
		n := 0
		for _, e := range b {
			n += len(e)
		}
		if n < zipMinOf[bi] {
			belowZip++
		}
	}
	classes := []string{fmt.Sprintf("batches=%s", bucket(len(batches))), fmt.Sprintf("uncompressed-batches=%s", bucket(belowZip))}
	if badRecords > 0 {
		classes = append(classes, "unencodable-record-in-history")
	}
	if mixed > 0 {
		classes = append(classes, "send-direct-while-appended-records-are-pending")
	}
	if noTime > 0 {
		classes = append(classes, "records-without-time-stamp")
	}
	if reconfigured > 0 {
		classes = append(classes, "settings-changed-by-configuration-update")
	}
	return &pbt.Result{NT: len(batches) >= 2 && belowZip >= 1, Classes: classes}
}

func bucket(n int) string {
	switch {
	case n == 0:
		return "0"
	case n == 1:
		return "1"
	case n <= 4:
		return "2-4"
	}
	return ">=5"
}

var specSeq = pbt.Register(pbt.Spec[SeqCase]{
	Prop: "C16", Name: "append-histories",
	Rule:  "histories of append / send-direct (with or without appended records still pending) / flush / configuration update (ApplyConfig with new buffer size, waiting time and compression minimum, in force from then on) on a fresh sender with generated settings (buffer 1..128 KiB, wait 1..10000 ms of record time, compression minimum 0..4 KiB) and a client that RETAINS the pack objects it is given and, in a quarter of the cases, reports every 1st-3rd hand-over as failed after taking the pack (a connection lost while the pack is on its way is still one hand-over); record contents 0..2x buffer, non-decreasing positive record times, one appended record in twenty unencodable (nil tag map: its encoding fails half way; nothing is asserted about it, it must not disturb the others); oracle = a model of the flush rule gives the expected batches: emitted packs hold exactly those batches in order, RecordCount = records contained, payload decodes (after gunzip iff flagged) to the records handed in, compressed iff payload >= minimum, and every retained pack still serialises at the end to what it was at hand-over; non-trivial = >= 2 batches and >= 1 uncompressed batch; distinct by case",
	Quick: 400, Thorough: 40000,
	Draw: func(t *rapid.T) SeqCase {
		c := SeqCase{
			Buf:    rapid.OneOf(rapid.IntRange(1, 600), rapid.IntRange(1, 8192), rapid.IntRange(1, 131072)).Draw(t, "buf"),
			Wait:   rapid.OneOf(rapid.IntRange(1, 50), rapid.IntRange(1, 10000)).Draw(t, "wait"),
			ZipMin: rapid.OneOf(rapid.IntRange(0, 200), rapid.IntRange(0, 4096)).Draw(t, "zipmin"),
		}
		n := rapid.IntRange(1, 12).Draw(t, "nops")
		for i := 0; i < n; i++ {
			k := rapid.SampledFrom([]string{"append", "append", "append", "append", "append", "senddirect", "flush", "config"}).Draw(t, "op")
			op := Op{K: k}
			if k == "config" {
				op.Buf = rapid.OneOf(rapid.IntRange(1, 600), rapid.IntRange(1, 8192), rapid.IntRange(1, 131072)).Draw(t, "buf")
				op.Wait = rapid.OneOf(rapid.IntRange(1, 50), rapid.IntRange(1, 10000)).Draw(t, "wait")
				op.ZipMin = rapid.OneOf(rapid.IntRange(0, 200), rapid.IntRange(0, 4096)).Draw(t, "zipmin")
				c.Ops = append(c.Ops, op)
				continue
			}
			if k == "senddirect" {
				op.KeepPending = rapid.Bool().Draw(t, "keeppending")
			}
			if k != "flush" {
				m := rapid.IntRange(1, 6).Draw(t, "nrec")
				for j := 0; j < m; j++ {
					r := drawRec(t, c.Buf)
					if k == "append" && rapid.IntRange(0, 19).Draw(t, "bad") == 0 {
						r.Bad = true
					}
					if k == "append" && rapid.IntRange(0, 7).Draw(t, "notime") == 0 {
						r.NoTime = true
					}
					op.Recs = append(op.Recs, r)
				}
			}
			c.Ops = append(c.Ops, op)
		}
		if rapid.IntRange(0, 3).Draw(t, "clientfails?") == 0 {
			c.ClientFails = rapid.IntRange(1, 3).Draw(t, "clientfails")
		}
		return c
	},
	Run: runSeq,
})

func TestAppendHistories(t *testing.T) { specSeq.Check(t) }

// ---- built-in defaults -------------------------------------------------------------------------

type DefCase struct {
	Recs []Rec `json:"recs"`
}

func runDefaults(c DefCase) *pbt.Result {
	cl := &recClient{retain: true}
	zip.ResetInstanceForVerif()
	z := zip.GetInstance(zip.WithTcpClient(cl))
	defer zip.ResetInstanceForVerif()
	wait, qsz, buf, zmin := z.SettingsForVerif()
	if wait != 5000 || qsz != 1000 || buf != 64*1024 || zmin != 100 {
		return pbt.Fail("a sender created without configuration has wait=%d ms, queue=%d, buffer=%d bytes, compression minimum=%d; the built-in defaults are 5000, 1000, 65536, 100", wait, qsz, buf, zmin)
	}
	sc := SeqCase{Buf: 64 * 1024, Wait: 5000, ZipMin: 100, Ops: []Op{{K: "append", Recs: c.Recs}}}
	// behavioural check with the singleton itself
	var batches [][][]byte
	var cur [][]byte
	curLen := 0
	var first int64
	tm := int64(1_700_000_000_000)
	for i, r := range c.Recs {
		tm += r.Dt
		p := mkRecord(r, tm, int64(i+1))
		enc := encodeRec(p)
		z.Append(p)
		cur = append(cur, enc)
		curLen += len(enc)
		fl := false
		if first == 0 {
			first = tm
			fl = curLen >= sc.Buf
		} else {
			fl = curLen >= sc.Buf || tm-first >= int64(sc.Wait)
		}
		if fl {
			batches = append(batches, cur)
			cur, curLen, first = nil, 0, 0
		}
		if cl.count() != len(batches) {
			return pbt.Fail("with the built-in defaults (64 KiB, 5 s) %d packs were emitted after record %d; the model expects %d (batch so far: %d bytes, %d ms)", cl.count(), i+1, len(batches), curLen, tm-first)
		}
	}
	z.FlushForVerif()
	if len(cur) > 0 {
		batches = append(batches, cur)
	}
	if err := verifyEmitted(cl, batches, 100, true); err != nil {
		return &pbt.Result{Err: err}
	}
	return &pbt.Result{NT: len(c.Recs) >= 2, Classes: []string{fmt.Sprintf("batches=%s", bucket(len(batches)))}}
}

var specDefaults = pbt.Register(pbt.Spec[DefCase]{
	Prop: "C16", Name: "built-in-defaults",
	Rule:  "a sender obtained from GetInstance with a client and NO settings: the settings in force must be 5000 ms / queue 1000 / 64 KiB / compress from 100 bytes, and generated record sequences must be batched exactly as the model with those values says (nothing emitted below 64 KiB and 5 s of record time; payloads under 100 bytes uncompressed); non-trivial = at least two records; distinct by case",
	Quick: 150, Thorough: 6000,
	Draw: func(t *rapid.T) DefCase {
		var c DefCase
		n := rapid.IntRange(1, 10).Draw(t, "n")
		for i := 0; i < n; i++ {
			c.Recs = append(c.Recs, Rec{Content: rapid.OneOf(rapid.IntRange(0, 60), rapid.IntRange(0, 3000), rapid.IntRange(20000, 40000)).Draw(t, "content"),
				Dt: rapid.OneOf(rapid.Int64Range(0, 10), rapid.Int64Range(0, 2600), rapid.Int64Range(4990, 5010)).Draw(t, "dt"), Seed: rapid.Uint64().Draw(t, "seed")})
		}
		return c
	},
	Run: runDefaults,
})

func TestBuiltInDefaults(t *testing.T) { specDefaults.Check(t) }

// ---- queue mode with the real run() goroutine ------------------------------------------------------

type QueueCase struct {
	Buf       int     `json:"buf"`
	IdleMs    int     `json:"idle_ms"` // wait time: queue idle time-out of the run loop (real ms) and record-time span
	ZipMin    int     `json:"zipmin"`
	Producers [][]Rec `json:"producers"`
	// Future: the records carry time stamps some days ahead of the host clock (the producer's clock, or a log
	// line's own time stamp, is not the agent's): waiting times are intervals, not comparisons with the wall clock
	Future bool `json:"future,omitempty"`
	// IdleFirst / IdleMid: the sender sits idle for this many waiting times (its run loop times out on the empty queue
	// that often) before the producers start / between the first and the second half of every producer's records
	IdleFirst int `json:"idle_first,omitempty"`
	IdleMid   int `json:"idle_mid,omitempty"`
}

func runQueue(c QueueCase) *pbt.Result {
	cl := &recClient{retain: true}
	z := zip.NewForVerif(cl, true, int64(c.IdleMs), 100000, c.Buf, c.ZipMin)
	stopped := false
	defer func() {
		if !stopped {
			z.StopForVerif()
		}
	}()
	total := 0
	perProducer := make([][][]byte, len(c.Producers))
	var wg sync.WaitGroup
	var halves [][2][]*pack.LogSinkPack
	for pi, recs := range c.Producers {
		total += len(recs)
		packs := make([]*pack.LogSinkPack, len(recs))
		tm := int64(1_700_000_000_000)
		if c.Future {
			tm = time.Now().UnixMilli() + 10*86400000
		}
		for i, r := range recs {
			tm += r.Dt
			packs[i] = mkRecord(r, tm, int64(pi)<<32|int64(i+1))
			perProducer[pi] = append(perProducer[pi], encodeRec(packs[i]))
		}
		halves = append(halves, [2][]*pack.LogSinkPack{packs[:len(packs)/2], packs[len(packs)/2:]})
	}
	if c.IdleFirst > 0 {
		time.Sleep(time.Duration(c.IdleFirst*c.IdleMs+10) * time.Millisecond)
	}
	for round := 0; round < 2; round++ {
		if round == 1 && c.IdleMid > 0 {
			time.Sleep(time.Duration(c.IdleMid*c.IdleMs+10) * time.Millisecond)
		}
		for _, h := range halves {
			wg.Add(1)
			go func(packs []*pack.LogSinkPack) {
				defer wg.Done()
				for _, p := range packs {
					z.Add(p)
				}
			}(h[round])
		}
		wg.Wait()
	}
	// wait until the run loop has drained the queue and flushed on idle time-out (bounded safety: 30 s)
	deadline := time.Now().Add(30 * time.Second)
	emitted := func() int {
		cl.mu.Lock()
		defer cl.mu.Unlock()
		n := 0
		for _, zp := range cl.packs {
			n += zp.RecordCount
		}
		return n
	}
	for emitted() < total && time.Now().Before(deadline) {
		time.Sleep(5 * time.Millisecond)
	}
	if n := emitted(); n < total {
		// judged before the sender is stopped: the flush on stop would hide a batch that was never flushed while idle
		return pbt.Fail("%d of %d queued records were emitted within 30 s of the last Add although the queue has been idle far longer than the waiting time in force (%d ms); records stamped ahead of the host clock: %v", n, total, c.IdleMs, c.Future)
	}
	z.StopForVerif()
	stopped = true
	time.Sleep(time.Duration(c.IdleMs+20) * time.Millisecond) // let the run loop see the cancellation
	if n := emitted(); n < total {
		return pbt.Fail("%d of %d queued records were emitted within 30 s of the last Add (queue idle time-out %d ms)", n, total, c.IdleMs)
	}
	// accounting: every record exactly once, per-producer order preserved
	cl.mu.Lock()
	var stream [][]byte
	for i, snap := range cl.snapshot {
		zp := pack.ToPack(append([]byte(nil), snap...)).(*pack.ZipPack)
		recs, rawLen, err := decodePayload(zp)
		if err != nil {
			cl.mu.Unlock()
			return pbt.Fail("emitted pack %d: %v", i, err)
		}
		if zp.RecordCount != len(recs) {
			cl.mu.Unlock()
			return pbt.Fail("emitted pack %d: RecordCount=%d, payload holds %d records", i, zp.RecordCount, len(recs))
		}
		if (zp.Status == pack.ZIPPED) != (rawLen >= c.ZipMin) {
			cl.mu.Unlock()
			return pbt.Fail("emitted pack %d: payload %d bytes, minimum %d, compressed=%v", i, rawLen, c.ZipMin, zp.Status == pack.ZIPPED)
		}
		if now := pack.ToBytesPack(cl.packs[i]); !bytes.Equal(now, snap) {
			cl.mu.Unlock()
			return pbt.Fail("pack %d was altered after hand-over", i)
		}
		stream = append(stream, recs...)
	}
	npacks := len(cl.snapshot)
	cl.mu.Unlock()
	if len(stream) != total {
		return pbt.Fail("%d records queued, %d emitted", total, len(stream))
	}
	next := make([]int, len(c.Producers))
	for k, rec := range stream {
		matched := false
		for pi := range perProducer {
			if next[pi] < len(perProducer[pi]) && bytes.Equal(perProducer[pi][next[pi]], rec) {
				next[pi]++
				matched = true
				break
			}
		}
		if !matched {
			return pbt.Fail("emitted record %d is not the next record of any producer (lost, duplicated or reordered)", k)
		}
	}
	return &pbt.Result{NT: npacks >= 2 || len(c.Producers) >= 2, Classes: []string{fmt.Sprintf("producers=%d", len(c.Producers)), fmt.Sprintf("packs=%s", bucket(npacks)), fmt.Sprintf("idle-before-records=%v", c.IdleFirst+c.IdleMid > 0)}}
}

var specQueue = pbt.Register(pbt.Spec[QueueCase]{
	Prop: "C16", Name: "queue-mode",
	Rule:  "1-4 producer goroutines Add generated records (a third of the cases: stamped ten days ahead of the host clock) to a fresh sender in queue mode whose real run() goroutine batches them (idle time-out 20-50 ms); in half of the cases the sender has been idle for 1-4 waiting times before the first record, in half it is idle for 1-3 waiting times between the two halves of the producers' records; after the queue has drained the sender is stopped; oracle (sound for any schedule) = every record emitted exactly once, each producer's records in order, RecordCount/compression/decodability per pack, no pack altered after hand-over; non-trivial = >= 2 packs or >= 2 producers; distinct by case",
	Quick: 30, Thorough: 1000,
	Draw: func(t *rapid.T) QueueCase {
		c := QueueCase{Buf: rapid.OneOf(rapid.IntRange(1, 2000), rapid.IntRange(1, 65536)).Draw(t, "buf"), IdleMs: rapid.IntRange(20, 50).Draw(t, "idle"), ZipMin: rapid.IntRange(0, 600).Draw(t, "zipmin"),
			Future: rapid.IntRange(0, 2).Draw(t, "future") == 0}
		if rapid.Bool().Draw(t, "idle-first?") {
			c.IdleFirst = rapid.IntRange(1, 4).Draw(t, "idle-first")
		}
		if rapid.Bool().Draw(t, "idle-mid?") {
			c.IdleMid = rapid.IntRange(1, 3).Draw(t, "idle-mid")
		}
		np := rapid.IntRange(1, 4).Draw(t, "producers")
		for i := 0; i < np; i++ {
			n := rapid.IntRange(1, 25).Draw(t, "n")
			var recs []Rec
			for j := 0; j < n; j++ {
				recs = append(recs, Rec{Content: rapid.IntRange(0, 300).Draw(t, "content"), Dt: rapid.Int64Range(0, 30).Draw(t, "dt"), Seed: rapid.Uint64().Draw(t, "seed")})
			}
			c.Producers = append(c.Producers, recs)
		}
		return c
	},
	Run: runQueue,
})

func TestQueueMode(t *testing.T) { specQueue.Check(t) }

// ---- stop racing with producers (queue mode) ------------------------------------------------------------

type StopCase struct {
	Buf       int     `json:"buf"`
	IdleMs    int     `json:"idle_ms"`
	ZipMin    int     `json:"zipmin"`
	Producers [][]Rec `json:"producers"`
	StopAfter int     `json:"stop_after"` // the sender is stopped once this many Add calls have returned (all producers together)
	DelayUs   int     `json:"delay_us"`   // plus this many microseconds
}

// runLoopAlive reports whether a goroutine is still inside the sender's run loop (any sender of this process;
// every case stops its own sender, so at most the current one and ones that are about to exit are alive).
func runLoopAlive() bool {
	buf := make([]byte, 1<<20)
	for {
		n := runtime.Stack(buf, true)
		if n < len(buf) {
			buf = buf[:n]
			break
		}
		buf = make([]byte, 2*len(buf))
	}
	return bytes.Contains(buf, []byte("zip.(*ZipSendProxyThread).run"))
}

func runStop(c StopCase) *pbt.Result {
	cl := &recClient{retain: true}
	z := zip.NewForVerif(cl, true, int64(c.IdleMs), 100000, c.Buf, c.ZipMin)
	stopped := false
	defer func() {
		if !stopped {
			z.StopForVerif()
		}
	}()
	total := 0
	perProducer := make([][][]byte, len(c.Producers))
	var added atomic.Int64
	var wg sync.WaitGroup
	stopCh := make(chan struct{})
	var once sync.Once
	for pi, recs := range c.Producers {
		total += len(recs)
		packs := make([]*pack.LogSinkPack, len(recs))
		tm := int64(1_700_000_000_000)
		for i, r := range recs {
			tm += r.Dt
			packs[i] = mkRecord(r, tm, int64(pi)<<32|int64(i+1))
			perProducer[pi] = append(perProducer[pi], encodeRec(packs[i]))
		}
		wg.Add(1)
		go func(packs []*pack.LogSinkPack) {
			defer wg.Done()
			for _, p := range packs {
				z.Add(p)
				if added.Add(1) >= int64(c.StopAfter) {
					once.Do(func() { close(stopCh) })
				}
			}
		}(packs)
	}
	go func() { wg.Wait(); once.Do(func() { close(stopCh) }) }()
	<-stopCh
	if c.DelayUs > 0 {
		time.Sleep(time.Duration(c.DelayUs) * time.Microsecond)
	}
	z.StopForVerif()
	stopped = true
	wg.Wait()
	// wait until no goroutine is inside a run loop any more: from then on nothing is in flight
	deadline := time.Now().Add(30 * time.Second)
	for runLoopAlive() {
		if time.Now().After(deadline) {
			return &pbt.Result{Classes: []string{"inconclusive:run-loop-still-alive-after-30s"}}
		}
		time.Sleep(2 * time.Millisecond)
	}
	var rest [][]byte
	for {
		x := z.Queue.GetNoWait()
		if x == nil {
			break
		}
		rest = append(rest, encodeRec(x.(*pack.LogSinkPack)))
	}
	cl.mu.Lock()
	var stream [][]byte
	for i, snap := range cl.snapshot {
		zp := pack.ToPack(append([]byte(nil), snap...)).(*pack.ZipPack)
		recs, rawLen, err := decodePayload(zp)
		if err != nil {
			cl.mu.Unlock()
			return pbt.Fail("emitted pack %d: %v", i, err)
		}
		if zp.RecordCount != len(recs) {
			cl.mu.Unlock()
			return pbt.Fail("emitted pack %d: RecordCount=%d, payload holds %d records", i, zp.RecordCount, len(recs))
		}
		if (zp.Status == pack.ZIPPED) != (rawLen >= c.ZipMin) {
			cl.mu.Unlock()
			return pbt.Fail("emitted pack %d: payload %d bytes, minimum %d, compressed=%v", i, rawLen, c.ZipMin, zp.Status == pack.ZIPPED)
		}
		if now := pack.ToBytesPack(cl.packs[i]); !bytes.Equal(now, snap) {
			cl.mu.Unlock()
			return pbt.Fail("pack %d was altered after hand-over", i)
		}
		stream = append(stream, recs...)
	}
	cl.mu.Unlock()
	nEmitted := len(stream)
	if nEmitted+len(rest) != total {
		return pbt.Fail("%d records were handed to the sender; after it was stopped (%d Add calls had returned, +%d us) and its goroutine had ended, %d are emitted and %d are still in its queue: %d record(s) are neither", total, c.StopAfter, c.DelayUs, nEmitted, len(rest), total-nEmitted-len(rest))
	}
	next := make([]int, len(c.Producers))
	for k, rec := range append(stream, rest...) {
		matched := false
		for pi := range perProducer {
			if next[pi] < len(perProducer[pi]) && bytes.Equal(perProducer[pi][next[pi]], rec) {
				next[pi]++
				matched = true
				break
			}
		}
		if !matched {
			return pbt.Fail("record %d of (emitted stream, then queue remainder) is not the next record of any producer (lost, duplicated or reordered)", k)
		}
	}
	cls := []string{fmt.Sprintf("left-in-queue=%s", bucket(len(rest))), fmt.Sprintf("emitted=%s", bucket(nEmitted))}
	return &pbt.Result{NT: nEmitted > 0 && nEmitted < total || len(rest) > 0, Classes: cls}
}

var specStop = pbt.Register(pbt.Spec[StopCase]{
	Prop: "C16", Name: "queue-stop-race",
	Rule:  "1-3 producer goroutines Add generated records to a fresh sender in queue mode (idle time-out 5-40 ms); the sender is stopped as soon as a generated number of Add calls have returned, plus 0 us .. twice the idle time-out, while the run() goroutine is taking records from the queue; once no goroutine is inside run() any more the emitted packs and the remainder of the queue are inspected; oracle (sound for any schedule) = every record is either emitted exactly once or still in the queue, (emitted stream, then queue remainder) keeps each producer's order, RecordCount/compression/decodability per pack, no pack altered after hand-over; non-trivial = the stop found records emitted and others not yet; distinct by case",
	Quick: 120, Thorough: 4000,
	Draw: func(t *rapid.T) StopCase {
		c := StopCase{Buf: rapid.OneOf(rapid.IntRange(1, 2000), rapid.IntRange(1, 65536)).Draw(t, "buf"), IdleMs: rapid.IntRange(5, 40).Draw(t, "idle"), ZipMin: rapid.IntRange(0, 600).Draw(t, "zipmin")}
		np := rapid.IntRange(1, 3).Draw(t, "producers")
		tot := 0
		for i := 0; i < np; i++ {
			n := rapid.IntRange(1, 40).Draw(t, "n")
			tot += n
			var recs []Rec
			for j := 0; j < n; j++ {
				recs = append(recs, Rec{Content: rapid.IntRange(0, 300).Draw(t, "content"), Dt: rapid.Int64Range(0, 30).Draw(t, "dt"), Seed: rapid.Uint64().Draw(t, "seed")})
			}
			c.Producers = append(c.Producers, recs)
		}
		c.StopAfter = rapid.IntRange(1, tot).Draw(t, "stopafter")
		c.DelayUs = rapid.OneOf(rapid.SampledFrom([]int{0, 0, 20, 100, 300, 1000, 3000}), rapid.IntRange(0, 2000*c.IdleMs)).Draw(t, "delay")
		return c
	},
	Run: runStop,
})

func TestQueueStopRace(t *testing.T) { specStop.Check(t) }

// ---- the queue's idle flush follows the waiting time in force ---------------------------------------------

type IdleCase struct {
	OldWait int   `json:"old_wait"` // ms, in force when the sender is created
	NewWait int   `json:"new_wait"` // ms, put in force by a configuration update before the records arrive
	Recs    []Rec `json:"recs"`
}

func runIdle(c IdleCase) *pbt.Result {
	cl := &recClient{retain: true}
	z := zip.NewForVerif(cl, true, int64(c.OldWait), 1000, 1<<20, 100)
	defer z.StopForVerif()
	// the update arrives while the sender is running: wait until its goroutine is inside the queue's timed get
	for deadline := time.Now().Add(10 * time.Second); ; {
		buf := make([]byte, 1<<20)
		buf = buf[:runtime.Stack(buf, true)]
		if i := bytes.Index(buf, []byte("zip.(*ZipSendProxyThread).run")); i >= 0 && bytes.Contains(buf, []byte("RequestQueue).GetTimeout")) {
			break
		}
		if time.Now().After(deadline) {
			return &pbt.Result{Classes: []string{"inconclusive:run-loop-not-started"}}
		}
		time.Sleep(time.Millisecond)
	}
	z.ApplyConfig(settingsConf(1<<20, c.NewWait, 100))
	if w, _, _, _ := z.SettingsForVerif(); w != int64(c.NewWait) {
		return pbt.Fail("after a configuration update with max_wait_time=%d the settings report %d ms", c.NewWait, w)
	}
	var batch [][]byte
	tm := int64(1_700_000_000_000)
	for i, r := range c.Recs {
		tm += r.Dt % 3 // record times stay within the waiting time: only the idle time-out can flush
		p := mkRecord(r, tm, int64(i+1))
		batch = append(batch, encodeRec(p))
		z.Add(p)
	}
	start := time.Now()
	// the run loop polls its queue every (waiting time it last read)/3: with the previous setting still being waited
	// on, the records are noticed within OldWait/3; from then on the waiting time in force (NewWait) decides. The
	// bound below is OldWait*3/4: far more than OldWait/3 + NewWait, far less than a flush after OldWait.
	bound := time.Duration(c.OldWait) * time.Millisecond * 3 / 4
	for cl.count() == 0 && time.Since(start) < bound {
		time.Sleep(5 * time.Millisecond)
	}
	took := time.Since(start)
	if cl.count() == 0 {
		return pbt.Fail("%d records were queued and then left alone; the waiting time in force is %d ms (changed from %d ms by a configuration update before they arrived), but %v later nothing has been flushed", len(c.Recs), c.NewWait, c.OldWait, took.Round(time.Millisecond))
	}
	// let the rest (if the loop split the records) arrive, then verify content
	time.Sleep(time.Duration(3*c.NewWait+30) * time.Millisecond)
	if err := verifyEmitted(cl, [][][]byte{batch}, 100, false); err != nil {
		return &pbt.Result{Err: err}
	}
	pbt.Extra("idle-flush-follows-config", "last_flush_ms", took.Milliseconds())
	return &pbt.Result{NT: true, Classes: []string{fmt.Sprintf("records=%d", len(c.Recs))}}
}

var specIdle = pbt.Register(pbt.Spec[IdleCase]{
	Prop: "C16", Name: "idle-flush-follows-config",
	Rule:  "a sender in queue mode is created with a waiting time of 5-7 s, a configuration update lowers it to 20-80 ms, then 1-3 small records are queued and left alone; the settings must report the new value and the records must be flushed by the idle time-out within 3/4 of the OLD waiting time (the run loop notices them within a third of the value it last read, then the value in force decides): the only timing verdict of this property, with a margin of more than 2 s on either side; non-trivial = every case; distinct by case",
	Quick: 4, Thorough: 48,
	Draw: func(t *rapid.T) IdleCase {
		c := IdleCase{OldWait: rapid.IntRange(5000, 7000).Draw(t, "old"), NewWait: rapid.IntRange(20, 80).Draw(t, "new")}
		for i := rapid.IntRange(1, 3).Draw(t, "n"); i > 0; i-- {
			c.Recs = append(c.Recs, Rec{Content: rapid.IntRange(0, 200).Draw(t, "content"), Dt: rapid.Int64Range(0, 2).Draw(t, "dt"), Seed: rapid.Uint64().Draw(t, "seed")})
		}
		return c
	},
	Run: runIdle,
})

func TestIdleFlushFollowsConfig(t *testing.T) { specIdle.Check(t) }

// ---- the owner stops the sender through the context it gave it ------------------------------------------------
// "a batch is flushed once ... the sender is stopped": the only handle an owner of the GetInstance sender has is the
// context (and cancel function) passed at creation. Every way of passing it must work: cancelling it ends the run loop
// and what was pending is emitted. Verdict from the goroutine list (run loop gone) with a 30 s bound; the loop notices
// the cancellation at its next turn, i.e. within one waiting time (5 s built in).

var sweepOwnerStop = pbt.RegisterSweep(pbt.Sweep{Prop: "C16", Name: "owner-stops-through-context",
	Rule: "exhaustive over the ways an owner can pass its context to GetInstance (queue mode, waiting time 60 ms through ApplyConfig): WithContext(ctx, cancel) stopped by cancel() | WithContext(ctx, nil) stopped by cancelling ctx | WithContext(child, cancelChild) stopped by cancelling the parent | no context, stopped through the hook; one or three records are added and, once the run loop has taken them over from its queue, the sender is stopped: within 30 s the run loop has ended and every record was emitted exactly once, in order; non-trivial = all",
	N:    4,
	Run: func(i uint64) (bool, error) {
		variant, nrec := int(i%4), 1+2*int(i%2)
		cl := &recClient{retain: true}
		zip.ResetInstanceForVerif()
		defer zip.ResetInstanceForVerif()
		for t0 := time.Now(); runLoopAlive() && time.Since(t0) < 30*time.Second; {
			time.Sleep(20 * time.Millisecond) // a sender of an earlier case that is about to exit
		}
		opts := []zip.ZipSendProxyThreadOption{zip.WithTcpClient(cl), zip.WithUseQueue()}
		parent, cancelParent := context.WithCancel(context.Background())
		defer cancelParent()
		var stop func()
		var how string
		switch variant {
		case 0:
			ctx, cancel := context.WithCancel(parent)
			opts = append(opts, zip.WithContext(ctx, cancel))
			stop, how = cancel, "WithContext(ctx, cancel), cancel() called"
		case 1:
			ctx, cancel := context.WithCancel(parent)
			opts = append(opts, zip.WithContext(ctx, nil))
			stop, how = cancel, "WithContext(ctx, nil), the owner cancelled ctx"
		case 2:
			ctx, cancel := context.WithCancel(parent)
			opts = append(opts, zip.WithContext(ctx, cancel))
			stop, how = cancelParent, "WithContext(child, cancelChild), the owner cancelled the parent context"
		}
		z := zip.GetInstance(opts...)
		z.ApplyConfig(settingsConf(64*1024, 60, 100)) // a short waiting time, so that the loop comes round often
		if variant == 3 {
			stop, how = z.StopForVerif, "no context given, stopped through the sender's own cancel function"
		}
		var want [][]byte
		for k := 0; k < nrec; k++ {
			p := mkRecord(Rec{Content: 40 + k, Seed: uint64(i*10) + uint64(k)}, 1_700_000_000_000+int64(k), int64(k+1))
			want = append(want, encodeRec(p))
			z.Add(p)
		}
		// the promise is about the batch: the records must have been taken over from the queue (the loop polls it)
		for t0 := time.Now(); z.Queue.Size() > 0; {
			if time.Since(t0) > 30*time.Second {
				return true, fmt.Errorf("%s: the run loop has not taken %d records from its queue within 30 s", how, nrec)
			}
			time.Sleep(5 * time.Millisecond)
		}
		time.Sleep(50 * time.Millisecond)
		stop()
		t0 := time.Now()
		for runLoopAlive() {
			if time.Since(t0) > 30*time.Second {
				return true, fmt.Errorf("%s: 30 s later the sender's run loop is still running (%d packs emitted so far)", how, cl.count())
			}
			time.Sleep(10 * time.Millisecond)
		}
		cl.mu.Lock()
		defer cl.mu.Unlock()
		var got [][]byte
		for pi, snap := range cl.snapshot {
			recs, _, err := decodePayload(pack.ToPack(append([]byte(nil), snap...)).(*pack.ZipPack))
			if err != nil {
				return true, fmt.Errorf("%s: emitted pack %d: %v", how, pi, err)
			}
			got = append(got, recs...)
		}
		if len(got) != len(want) {
			return true, fmt.Errorf("%s: the run loop has ended; %d records were added before the stop, %d were emitted", how, len(want), len(got))
		}
		for k := range want {
			if !bytes.Equal(got[k], want[k]) {
				return true, fmt.Errorf("%s: emitted record %d is not the record added %d-th", how, k, k)
			}
		}
		return true, nil
	},
	Show: func(i uint64) interface{} { return map[string]interface{}{"variant": i % 4, "records": 1 + 2*(i%2)} },
})

func TestOwnerStopsThroughContext(t *testing.T) { sweepOwnerStop.Check(t, 1) }
