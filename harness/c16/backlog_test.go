package c16

// queue-backlog: the collector is slow. The sender's goroutine is held inside the client with the first batch while
// the producer goes on; the records wait in the sender's queue. What was accepted into the queue is emitted, once and
// in producer order, whatever happens to the queue's settings meanwhile; what a full queue refused is dropped, never
// emitted out of turn.

import (
	"bytes"
	"fmt"
	"strconv"
	"sync"
	"testing"
	"time"

	"github.com/whatap/golib/lang/pack"
	wnet "github.com/whatap/golib/net"
	"github.com/whatap/golib/logsink/zip"
	"pgregory.net/rapid"
	"verif/pbt"
)

// gateClient blocks its first SendFlush until released; it records like recClient.
type gateClient struct {
	recClient
	once    sync.Once
	entered chan struct{}
	release chan struct{}
}

func (c *gateClient) Send(p pack.Pack, opts ...wnet.TcpClientOption) error {
	return c.SendFlush(p, false, opts...)
}
func (c *gateClient) SendFlush(p pack.Pack, flush bool, opts ...wnet.TcpClientOption) error {
	first := false
	c.once.Do(func() { first = true })
	// the pack is recorded as handed over before the client stalls
	err := c.recClient.SendFlush(p, flush, opts...)
	if first {
		close(c.entered)
		<-c.release
	}
	return err
}

type BacklogCase struct {
	Queue   int   `json:"queue"`   // queue size at construction
	Backlog []Rec `json:"backlog"` // records added while the sender's goroutine is held in the client
	// Shrink > 0: while the backlog waits, the configuration changes the queue size to this value (other settings as they were)
	Shrink int `json:"shrink,omitempty"`
	ZipMin int `json:"zipmin"`
}

func runBacklog(c BacklogCase) *pbt.Result {
	cl := &gateClient{entered: make(chan struct{}), release: make(chan struct{})}
	cl.retain = true
	const idle = 30
	z := zip.NewForVerif(cl, true, idle, c.Queue, 1, c.ZipMin) // buffer limit 1 byte: every record is a batch of its own
	defer z.StopForVerif()
	tm := int64(1_700_000_000_000)
	first := mkRecord(Rec{Content: 10, Seed: 1}, tm, 1)
	want := [][]byte{encodeRec(first)}
	z.Add(first)
	select {
	case <-cl.entered:
	case <-time.After(20 * time.Second):
		close(cl.release)
		return pbt.Fail("the first record was not handed to the client within 20 s")
	}
	// the sender's goroutine now sits in the client; the queue is empty and takes c.Queue records
	for i, r := range c.Backlog {
		tm += r.Dt
		p := mkRecord(r, tm, int64(i+2))
		want = append(want, encodeRec(p))
		z.Add(p)
	}
	accepted := len(c.Backlog)
	if c.Queue > 0 && accepted > c.Queue {
		accepted = c.Queue
	}
	if c.Shrink > 0 {
		z.ApplyConfig(mapConf{"logsink_queue_size": strconv.Itoa(c.Shrink), "max_wait_time": strconv.Itoa(idle), "max_buffer_size": "1", "logsink_zip_min_size": strconv.Itoa(c.ZipMin)})
	}
	close(cl.release)
	emitted := func() int {
		cl.mu.Lock()
		defer cl.mu.Unlock()
		n := 0
		for _, zp := range cl.packs {
			n += zp.RecordCount
		}
		return n
	}
	deadline := time.Now().Add(30 * time.Second)
	for emitted() < 1+accepted && time.Now().Before(deadline) {
		time.Sleep(5 * time.Millisecond)
	}
	time.Sleep(3 * idle * time.Millisecond) // anything still on its way
	cl.mu.Lock()
	defer cl.mu.Unlock()
	var stream [][]byte
	for i, snap := range cl.snapshot {
		zp := pack.ToPack(append([]byte(nil), snap...)).(*pack.ZipPack)
		recs, _, err := decodePayload(zp)
		if err != nil {
			return pbt.Fail("emitted pack %d: %v", i, err)
		}
		stream = append(stream, recs...)
	}
	// in producer order, nothing twice: the emitted stream is a subsequence of what was added
	k := 0
	for i, rec := range stream {
		for k < len(want) && !bytes.Equal(want[k], rec) {
			k++
		}
		if k == len(want) {
			return pbt.Fail("emitted record %d is not a later record of the producer than the one emitted before it (reordered, duplicated or foreign); queue size %d, %d records added while the collector was stalled, queue size changed to %d meanwhile", i, c.Queue, len(c.Backlog), c.Shrink)
		}
		k++
	}
	// what the queue had accepted is emitted: the first record and the first min(backlog, queue size) records after it
	if len(stream) < 1+accepted {
		return pbt.Fail("%d records were emitted; the record in flight plus the %d records the queue (size %d) had accepted while the collector was stalled make %d (queue size changed to %d while they waited)", len(stream), accepted, c.Queue, 1+accepted, c.Shrink)
	}
	for i := 0; i < 1+accepted; i++ {
		if !bytes.Equal(stream[i], want[i]) {
			return pbt.Fail("emitted record %d is not record %d of the producer: a record the queue had accepted is missing (queue size %d, changed to %d while %d records waited)", i, i, c.Queue, c.Shrink, len(c.Backlog))
		}
	}
	cls := []string{fmt.Sprintf("overflow=%v", len(c.Backlog) > accepted), fmt.Sprintf("queue-shrunk-below-backlog=%v", c.Shrink > 0 && c.Shrink < accepted)}
	return &pbt.Result{NT: len(c.Backlog) > accepted || (c.Shrink > 0 && c.Shrink < accepted), Classes: cls}
}

var specBacklog = pbt.Register(pbt.Spec[BacklogCase]{
	Prop: "C16", Name: "queue-backlog",
	Rule:  "queue mode with a client that stalls inside the first hand-over (slow collector): while the sender's goroutine is held there, 1-40 records are added to a queue of 2-1000 entries (so in a third of the cases more than it takes), and in a third of the cases the configuration then changes the queue size to a value below the backlog; after the client is released: the emitted records are a subsequence of the added ones in producer order (nothing reordered, duplicated or foreign) and begin with the record in flight followed by every record the queue had accepted (the first min(backlog, queue size)); non-trivial = the queue overflowed or was shrunk below its backlog; distinct by case",
	Quick: 40, Thorough: 1500,
	Draw: func(t *rapid.T) BacklogCase {
		c := BacklogCase{Queue: rapid.SampledFrom([]int{2, 3, 5, 10, 1000, 1000}).Draw(t, "queue"), ZipMin: rapid.SampledFrom([]int{0, 100, 100000}).Draw(t, "zipmin")}
		n := rapid.IntRange(1, 40).Draw(t, "n")
		for j := 0; j < n; j++ {
			c.Backlog = append(c.Backlog, Rec{Content: rapid.IntRange(0, 120).Draw(t, "content"), Dt: rapid.Int64Range(0, 30).Draw(t, "dt"), Seed: rapid.Uint64().Draw(t, "seed")})
		}
		if rapid.IntRange(0, 2).Draw(t, "shrink?") == 0 {
			c.Shrink = rapid.IntRange(1, n).Draw(t, "shrink")
		}
		return c
	},
	Run: runBacklog,
})

func TestQueueBacklog(t *testing.T) { specBacklog.Check(t) }
