package c10

import (
	"fmt"
	"reflect"
	"sort"
	"strings"

	wio "github.com/whatap/golib/io"
	"github.com/whatap/golib/util/hmap"
	wlist "github.com/whatap/golib/util/list"
	"github.com/whatap/golib/util/queue"
)

// ikey is the harness's own key type for LinkedMap / LinkedSet.
type ikey int

func (k ikey) Hash() uint                   { return uint(int(k)%7 + 7) } // few buckets: collisions
func (k ikey) Equals(o hmap.LinkedKey) bool { ok, is := o.(ikey); return is && ok == k }

// panicKey is a caller-supplied key whose methods fail (as a nil key or a key of a foreign type meeting an unchecked
// type assertion does): hashing it panics, comparing it panics.
type panicKey struct{}

func (panicKey) Hash() uint                 { panic("Hash of a broken key") }
func (panicKey) Equals(hmap.LinkedKey) bool { panic("Equals of a foreign key type") }

// ctype describes one shared collection type.
type ctype struct {
	Name string
	New  func() interface{} // fresh instance (pointer)
	Kind string             // "map", "set", "list", "queue"
}

var ctypes = []*ctype{
	{"IntFloatLinkedMap", func() interface{} { return hmap.NewIntFloatLinkedMap() }, "map"},
	{"IntIntLinkedMap", func() interface{} { return hmap.NewIntIntLinkedMap() }, "map"},
	{"IntIntMap", func() interface{} { return hmap.NewIntIntMapDefault() }, "map"},
	{"IntKeyLinkedMap", func() interface{} { return hmap.NewIntKeyLinkedMapDefault() }, "map"},
	{"IntKeyMap", func() interface{} { return hmap.NewIntKeyMapDefault() }, "map"},
	{"IntLinkedSet", func() interface{} { return hmap.NewIntLinkedSet() }, "set"},
	{"IntSet", func() interface{} { return hmap.NewIntSet() }, "set"},
	{"LinkedMap", func() interface{} { return hmap.NewLinkedMapDefault() }, "map"},
	{"LinkedSet", func() interface{} { return hmap.NewLinkedSet() }, "set"},
	{"LongFloatLinkedMap", func() interface{} { return hmap.NewLongFloatLinkedMap() }, "map"},
	{"LongKeyLinkedMap", func() interface{} { return hmap.NewLongKeyLinkedMapDefault() }, "map"},
	{"LongLongLinkedMap", func() interface{} { return hmap.NewLongLongLinkedMapDefault() }, "map"},
	{"StringIntLinkedMap", func() interface{} { return hmap.NewStringIntLinkedMap() }, "map"},
	{"StringKeyLinkedMap", func() interface{} { return hmap.NewStringKeyLinkedMap() }, "map"},
	{"StringLinkedSet", func() interface{} { return hmap.NewStringLinkedSet() }, "set"},
	{"StringLongLinkedMap", func() interface{} { return hmap.NewStringLongLinkedMap() }, "map"},
	{"StringSet", func() interface{} { return hmap.NewStringSet() }, "set"},
	{"LinkedList", func() interface{} { return wlist.NewLinkedList() }, "list"},
	{"RequestQueue", func() interface{} { return queue.NewRequestQueue(0) }, "queue"},
	{"RequestDoubleQueue", func() interface{} { return queue.NewRequestDoubleQueue(0, 0) }, "queue"},
	// bounded variants of the two queues (capacity 2): refusal and eviction paths under concurrency
	{"RequestQueue/bounded", func() interface{} { return queue.NewRequestQueue(2) }, "queue"},
	{"RequestDoubleQueue/bounded", func() interface{} { return queue.NewRequestDoubleQueue(2, 2) }, "queue"},
}

var ctypeByName = func() map[string]*ctype {
	m := map[string]*ctype{}
	for _, c := range ctypes {
		m[c.Name] = c
	}
	return m
}()

var linkedKeyType = reflect.TypeOf((*hmap.LinkedKey)(nil)).Elem()

// arg builds an argument of type t: position 0 is a key (index k), later positions are values (v).
func arg(t reflect.Type, pos, k, v int, self reflect.Value, ct *ctype) reflect.Value {
	n := v
	if pos == 0 {
		n = k
	}
	switch t.Kind() {
	case reflect.Int, reflect.Int8, reflect.Int16, reflect.Int32, reflect.Int64:
		return reflect.ValueOf(n).Convert(t)
	case reflect.Uint, reflect.Uint8, reflect.Uint16, reflect.Uint32, reflect.Uint64:
		return reflect.ValueOf(uint(n)).Convert(t)
	case reflect.Float32, reflect.Float64:
		return reflect.ValueOf(float64(n)).Convert(t)
	case reflect.String:
		return reflect.ValueOf(fmt.Sprintf("k%d", n)).Convert(t)
	case reflect.Bool:
		return reflect.ValueOf(n%2 == 1)
	case reflect.Interface:
		if t == linkedKeyType {
			return reflect.ValueOf(ikey(n)).Convert(t)
		}
		x := reflect.New(t).Elem()
		x.Set(reflect.ValueOf(n + 1000)) // a non-nil comparable value
		return x
	case reflect.Func:
		return reflect.MakeFunc(t, func(args []reflect.Value) []reflect.Value {
			out := make([]reflect.Value, t.NumOut())
			for i := range out {
				out[i] = reflect.Zero(t.Out(i))
			}
			if len(out) == 1 && t.Out(0).Kind() == reflect.Bool && len(args) == 2 {
				out[0] = reflect.ValueOf(fmt.Sprint(args[0].Interface()) < fmt.Sprint(args[1].Interface()))
			}
			if len(out) == 1 && t.Out(0).Kind() == reflect.Int && len(args) == 2 {
				out[0] = reflect.ValueOf(strings.Compare(fmt.Sprint(args[0].Interface()), fmt.Sprint(args[1].Interface())))
			}
			return out
		})
	case reflect.Ptr:
		switch t {
		case reflect.TypeOf((*wio.DataOutputX)(nil)):
			return reflect.ValueOf(wio.NewDataOutputX())
		case reflect.TypeOf((*wio.DataInputX)(nil)):
			// the structure's own serialised form, when it has one
			if m := self.MethodByName("ToBytes"); m.IsValid() && m.Type().NumIn() == 1 {
				o := wio.NewDataOutputX()
				func() {
					defer func() { recover() }()
					m.Call([]reflect.Value{reflect.ValueOf(o)})
				}()
				return reflect.ValueOf(wio.NewDataInputX(append([]byte(nil), o.ToByteArray()...)))
			}
			return reflect.ValueOf(wio.NewDataInputX([]byte{0}))
		case reflect.TypeOf((*wlist.LinkedListEntity)(nil)):
			if m := self.MethodByName("GetFirst"); m.IsValid() {
				return m.Call(nil)[0]
			}
		}
		if t == self.Type() { // another instance of the same type (PutAll, Merge…)
			other := reflect.ValueOf(ct.New())
			populate(other, ct, 2)
			return other
		}
		return reflect.Zero(t)
	}
	return reflect.Zero(t)
}

func callArgs(m reflect.Value, k, v int, self reflect.Value, ct *ctype) []reflect.Value {
	mt := m.Type()
	var in []reflect.Value
	for i := 0; i < mt.NumIn(); i++ {
		if mt.IsVariadic() && i == mt.NumIn()-1 {
			break
		}
		in = append(in, arg(mt.In(i), i, k, v, self, ct))
	}
	return in
}

// populate inserts n distinct elements through the type's own public insert method.
func populate(self reflect.Value, ct *ctype, n int) {
	populateKeys(self, ct, n, func(i int) int { return i })
}

// populateKeys inserts n elements whose keys are key(0) .. key(n-1).
func populateKeys(self reflect.Value, ct *ctype, n int, key func(int) int) {
	names := []string{"Put", "Add", "AddLast", "Put1"}
	for _, name := range names {
		m := self.MethodByName(name)
		if !m.IsValid() {
			continue
		}
		for i := 0; i < n; i++ {
			func() {
				defer func() { recover() }()
				m.Call(callArgs(m, key(i), i+1, self, ct))
			}()
		}
		return
	}
}

func methodNames(ct *ctype) []string {
	t := reflect.TypeOf(ct.New())
	var out []string
	for i := 0; i < t.NumMethod(); i++ {
		out = append(out, t.Method(i).Name)
	}
	sort.Strings(out)
	return out
}

// point operations of the statement (put, add, get, contains, remove, remove-first/last, clear, size, enqueue, dequeue)
var pointOps = map[string]bool{
	"Put": true, "PutFirst": true, "PutLast": true, "Add": true, "AddFirst": true, "AddLast": true, "AddNoOver": true, "AddIfExist": true,
	"Get": true, "GetLRU": true, "ContainsKey": true, "Contains": true, "HasKey": true,
	"Remove": true, "RemoveFirst": true, "RemoveLast": true, "Clear": true, "Size": true, "IsEmpty": true,
	"PutForce": true, "GetNoWait": true, "Put1": true, "Put2": true, "PutForce1": true, "PutForce2": true, "Size1": true, "Size2": true,
}

// scalarSig reports whether all parameters are scalars / interface values the harness can draw as data.
func scalarSig(mt reflect.Type) bool {
	for i := 0; i < mt.NumIn(); i++ {
		switch mt.In(i).Kind() {
		case reflect.Int, reflect.Int32, reflect.Int64, reflect.Float32, reflect.Float64, reflect.String, reflect.Interface, reflect.Bool:
		default:
			return false
		}
	}
	return true
}

func pointOpNames(ct *ctype) []string {
	self := reflect.ValueOf(ct.New())
	var out []string
	for _, n := range methodNames(ct) {
		if !pointOps[n] {
			continue
		}
		if ct.Name == "LinkedList" && n == "Remove" { // takes a node pointer
			continue
		}
		if ct.Kind == "queue" && n == "Get" { // the blocking dequeue waits for a producer by contract; the non-blocking one is used
			continue
		}
		if scalarSig(self.MethodByName(n).Type()) {
			out = append(out, n)
		}
	}
	return out
}

// render prints results deterministically (pointers to entries are rendered by their exported accessors).
func render(vals []reflect.Value) string {
	parts := make([]string, len(vals))
	for i, v := range vals {
		parts[i] = renderOne(v)
	}
	return strings.Join(parts, ",")
}

func renderOne(v reflect.Value) string {
	if !v.IsValid() {
		return "<invalid>"
	}
	switch v.Kind() {
	case reflect.Ptr, reflect.Interface:
		if v.IsNil() {
			return "nil"
		}
		if v.Kind() == reflect.Interface {
			return renderOne(v.Elem())
		}
		if v.Type() == v.Type() && v.Elem().Kind() == reflect.Struct {
			// same receiver returned for chaining, or an entry: do not print addresses
			return "&" + v.Elem().Type().Name()
		}
		return renderOne(v.Elem())
	case reflect.Float32, reflect.Float64:
		return fmt.Sprintf("%g", v.Float())
	}
	return fmt.Sprint(v.Interface())
}
