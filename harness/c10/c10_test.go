// C10 Shared collections are linearizable, race-free and never self-deadlock.
package c10

import (
	"bytes"
	"fmt"
	"os"
	"path/filepath"
	"reflect"
	"regexp"
	"runtime"
	"strconv"
	"strings"
	"sync"
	"sync/atomic"
	"testing"
	"time"

	"github.com/anishathalye/porcupine"
	"github.com/whatap/golib/util/hmap"
	"github.com/whatap/golib/util/queue"
	"pgregory.net/rapid"
	"verif/pbt"
)

func TestMain(m *testing.M)   { pbt.Main(m, "C10") }
func TestReplay(t *testing.T) { pbt.Replay(t) }

// ---- blocked-goroutine detection (no wall-clock verdicts) ---------------------------------------

var stateRe = regexp.MustCompile(`^goroutine (\d+) \[([^\]]*)\]:`)

func curGoid() int64 {
	buf := make([]byte, 64)
	buf = buf[:runtime.Stack(buf, false)]
	f := bytes.Fields(buf)
	if len(f) >= 2 {
		if n, err := strconv.ParseInt(string(f[1]), 10, 64); err == nil {
			return n
		}
	}
	return -1
}

func goroutineState(gid int64) (state, stack string) {
	buf := make([]byte, 1<<20)
	buf = buf[:runtime.Stack(buf, true)]
	for _, blk := range strings.Split(string(buf), "\n\n") {
		m := stateRe.FindStringSubmatch(blk)
		if m == nil {
			continue
		}
		if n, _ := strconv.ParseInt(m[1], 10, 64); n == gid {
			st := m[2]
			if i := strings.Index(st, ","); i >= 0 {
				st = st[:i]
			}
			return st, blk
		}
	}
	return "", ""
}

func blockedState(st string) bool {
	return strings.HasPrefix(st, "sync.") || strings.HasPrefix(st, "semacquire") || strings.HasPrefix(st, "chan ") || st == "select"
}

type callOutcome struct {
	returned bool
	panicked interface{}
	results  []reflect.Value
	blocked  string // non-empty: the call is parked forever; state and stack
}

// guardedCall runs f in its own goroutine. No other goroutine touches the structure, so a call
// found parked on a sync primitive inside golib in three consecutive samples can never be woken:
// that is a self-deadlock. A call that neither returns nor parks for 45 s is reported as not terminating.
func guardedCall(f func() []reflect.Value) callOutcome {
	type res struct {
		r []reflect.Value
		p interface{}
	}
	done := make(chan res, 1)
	gidc := make(chan int64, 1)
	go func() {
		gidc <- curGoid()
		var out res
		defer func() {
			out.p = recover()
			done <- out
		}()
		out.r = f()
	}()
	gid := <-gidc
	select {
	case r := <-done:
		return callOutcome{returned: true, panicked: r.p, results: r.r}
	case <-time.After(300 * time.Millisecond):
	}
	blocked := 0
	start := time.Now()
	for {
		select {
		case r := <-done:
			return callOutcome{returned: true, panicked: r.p, results: r.r}
		case <-time.After(250 * time.Millisecond):
		}
		st, stack := goroutineState(gid)
		if blockedState(st) && strings.Contains(stack, "whatap/golib/") {
			blocked++
			if blocked >= 3 {
				return callOutcome{blocked: fmt.Sprintf("[%s]\n%s", st, trim(stack, 18))}
			}
		} else {
			blocked = 0
		}
		if time.Since(start) > 45*time.Second {
			return callOutcome{blocked: fmt.Sprintf("no return within 45 s, goroutine state [%s]\n%s", st, trim(stack, 18))}
		}
	}
}

func trim(s string, n int) string {
	lines := strings.Split(s, "\n")
	if len(lines) > n {
		lines = lines[:n]
	}
	for i, l := range lines {
		if k := strings.Index(l, " +0x"); k > 0 {
			lines[i] = l[:k]
		}
	}
	return strings.Join(lines, "\n")
}

// ---- 1. self-deadlock sweep over every public method ---------------------------------------------

type sweepItem struct {
	Type   string
	Method string
	State  string // empty | three | grown
}

var sweepItems = func() []sweepItem {
	var out []sweepItem
	for _, ct := range ctypes {
		for _, m := range methodNames(ct) {
			for _, st := range []string{"empty", "three", "grown", "full", "self-arg", "panicking-key", "panicking-callback", "negative-capacity", "negative-keys-grown-full", "callback-reads-accessors"} {
				out = append(out, sweepItem{ct.Name, m, st})
			}
		}
	}
	return out
}()

// legitimately blocking calls are not issued: a blocking dequeue on an empty queue waits for a producer by contract.
func legitBlocking(it sweepItem) bool {
	return strings.HasPrefix(it.Type, "Request") && it.Method == "Get" && it.State == "empty"
}

func runSweepItem(i uint64) (bool, error) {
	it := sweepItems[i]
	if legitBlocking(it) {
		return false, nil
	}
	ct := ctypeByName[it.Type]
	self := reflect.ValueOf(ct.New())
	switch it.State {
	case "three", "self-arg", "panicking-key", "panicking-callback", "negative-capacity", "callback-reads-accessors":
		populate(self, ct, 3)
	case "grown":
		populate(self, ct, 200)
	case "full": // bounded and filled to its bound (eviction paths); types without a bound: three elements
		populate(self, ct, 3)
		if sm := self.MethodByName("SetMax"); sm.IsValid() && sm.Type().NumIn() == 1 {
			sm.Call([]reflect.Value{reflect.ValueOf(3)})
		} else if sc := self.MethodByName("SetCapacity"); sc.IsValid() {
			in := make([]reflect.Value, sc.Type().NumIn())
			for i := range in {
				in[i] = reflect.ValueOf(3)
			}
			sc.Call(in)
		}
	}
	if it.State == "negative-keys-grown-full" {
		// 200 elements with the keys -1 .. -200 (the table has grown twice with them inside), then the bound is set to 200:
		// the call (key 7, absent) has to evict the eldest, a negative key (seed C10-s24)
		sm := self.MethodByName("SetMax")
		if !sm.IsValid() || sm.Type().NumIn() != 1 {
			return false, nil
		}
		populateKeys(self, ct, 200, func(i int) int { return -(i + 1) })
		sm.Call([]reflect.Value{reflect.ValueOf(200)})
	}
	if it.State == "negative-capacity" {
		// "no bound" is written 0 or any negative number (SetMax(-1), SetCapacity(-1)): three elements, bound -1
		set := false
		if sm := self.MethodByName("SetMax"); sm.IsValid() && sm.Type().NumIn() == 1 {
			sm.Call([]reflect.Value{reflect.ValueOf(-1)})
			set = true
		} else if sc := self.MethodByName("SetCapacity"); sc.IsValid() {
			in := make([]reflect.Value, sc.Type().NumIn())
			for i := range in {
				in[i] = reflect.ValueOf(-1)
			}
			sc.Call(in)
			set = true
		}
		if !set {
			return false, nil
		}
	}
	m := self.MethodByName(it.Method)
	k := 1
	if it.State == "full" || it.State == "negative-keys-grown-full" {
		k = 7 // a key that is not present: the call has to make room
	}
	args := callArgs(m, k, 5, self, ct)
	if it.State == "self-arg" {
		// the structure itself where another structure of its type is expected (m.PutAll(m), a.Merge(a) ...)
		aliased := false
		for i := range args {
			if args[i].Type() == self.Type() {
				args[i], aliased = self, true
			}
		}
		if !aliased {
			return false, nil
		}
	}
	if it.State == "panicking-key" {
		// a caller-supplied key whose Hash / Equals panic (nil key, a key of another concrete type meeting an unchecked type assertion):
		// the call may fail, but it must give the structure's lock back
		replaced := false
		for i := range args {
			if args[i].Type() == linkedKeyType || (args[i].Kind() == reflect.Interface && args[i].Type().NumMethod() > 0 && reflect.TypeOf(panicKey{}).Implements(args[i].Type())) {
				args[i] = reflect.ValueOf(panicKey{}).Convert(args[i].Type())
				replaced = true
			}
		}
		if !replaced {
			return false, nil
		}
	}
	if it.State == "panicking-callback" {
		// caller-supplied code run by the structure (a Sort comparator, the Failed / Overflowed callbacks of the queues) panics:
		// the call may fail, but it must give the structure's lock back
		replaced := false
		for i := range args {
			if args[i].Kind() == reflect.Func {
				ft := args[i].Type()
				args[i] = reflect.MakeFunc(ft, func([]reflect.Value) []reflect.Value { panic("caller-supplied function panics") })
				replaced = true
			}
		}
		for _, cb := range []string{"Failed", "Overflowed"} {
			if f := self.Elem().FieldByName(cb); f.IsValid() && f.Kind() == reflect.Func && f.CanSet() {
				f.Set(reflect.MakeFunc(f.Type(), func([]reflect.Value) []reflect.Value { panic("caller-supplied callback panics") }))
				// a bound that makes the callbacks fire: full queue
				if sc := self.MethodByName("SetCapacity"); sc.IsValid() {
					in := make([]reflect.Value, sc.Type().NumIn())
					for i := range in {
						in[i] = reflect.ValueOf(3)
					}
					sc.Call(in)
				}
				replaced = true
			}
		}
		if !replaced {
			return false, nil
		}
	}
	if it.State == "callback-reads-accessors" {
		// the queues' Failed / Overflowed callbacks ask the queue how full it is (Size, GetCapacity), as a callback that
		// logs "queue full" does; the queue is at its bound so that the callbacks fire (seed C10-s19)
		replaced := false
		for _, cb := range []string{"Failed", "Overflowed"} {
			if f := self.Elem().FieldByName(cb); f.IsValid() && f.Kind() == reflect.Func && f.CanSet() {
				f.Set(reflect.MakeFunc(f.Type(), func([]reflect.Value) []reflect.Value {
					for _, acc := range []string{"Size", "GetCapacity"} {
						if am := self.MethodByName(acc); am.IsValid() && am.Type().NumIn() == 0 {
							am.Call(nil)
						}
					}
					return nil
				}))
				replaced = true
			}
		}
		if !replaced {
			return false, nil
		}
		if sc := self.MethodByName("SetCapacity"); sc.IsValid() {
			in := make([]reflect.Value, sc.Type().NumIn())
			for i := range in {
				in[i] = reflect.ValueOf(3)
			}
			sc.Call(in)
		}
		k = 7
		args = callArgs(m, k, 5, self, ct)
	}
	out := guardedCall(func() []reflect.Value { return m.Call(args) })
	if out.blocked != "" {
		return true, fmt.Errorf("%s.%s on a structure no other goroutine touches (state %s) never returns: it blocks on the structure's own lock %s", it.Type, it.Method, it.State, out.blocked)
	}
	// whatever the call did (returned or panicked), the lock must be free again: a locking method must still run
	probe := self.MethodByName("Clear")
	if probe.IsValid() {
		p := guardedCall(func() []reflect.Value { return probe.Call(nil) })
		if p.blocked != "" {
			how := "returned"
			if out.panicked != nil {
				how = fmt.Sprintf("panicked (%v)", out.panicked)
			}
			return true, fmt.Errorf("%s.%s (state %s) %s and left the structure's lock held: the next Clear() blocks forever %s", it.Type, it.Method, it.State, how, p.blocked)
		}
	}
	return true, nil
}

// The same sweep runs a second time in a process started with WHATAP_DATETIME_MODE=sync (the library's cached clock:
// dateutil.SystemNow() is a value a ticker refreshes every millisecond): timed operations must complete there too.
var sweepDeadlockName, sweepDeadlockMode = func() (string, string) {
	if m := os.Getenv("WHATAP_DATETIME_MODE"); m != "" && m != "default" {
		return "method-self-deadlock-cached-clock", "in a process started with WHATAP_DATETIME_MODE=" + m + " (cached clock refreshed by a 1 ms ticker), "
	}
	return "method-self-deadlock", ""
}()

var sweepDeadlock = pbt.RegisterSweep(pbt.Sweep{Prop: "C10", Name: sweepDeadlockName,
	Rule: sweepDeadlockMode + "exhaustive over (type, exported method, state) for the 17 hash map/set types, the linked list and the two request queues (reflection over the method sets; states empty / 3 elements / 200 elements / bounded and full / 3 elements with the structure itself passed wherever a structure of its own type is expected / 3 elements and a key whose Hash and Equals panic / 3 elements with the bound set to -1 (unbounded) / 3 elements at the bound with Failed and Overflowed callbacks that read Size() and GetCapacity() / 200 elements with negative keys and then the bound set to 200, so that the call evicts an entry that went through two table growths / 3 elements and caller-supplied functions - Sort comparators, the queues' Failed and Overflowed callbacks with the queue at its bound - that panic): the method is invoked with generated arguments in its own goroutine on an instance nobody else touches, followed by a locking probe (Clear); a call found parked on a sync primitive inside golib in three consecutive goroutine-stack samples is a self-deadlock (no wall-clock verdict; a blocking dequeue on an empty queue is not issued); every (type, method, state) is a distinct non-trivial case",
	N:    uint64(len(sweepItems)), Run: runSweepItem,
	Show: func(i uint64) interface{} { return sweepItems[i] }})

func TestMethodSelfDeadlock(t *testing.T) {
	sweepDeadlock.Check(t, 8)
	sweepTimedGet.Check(t, 8)
}

// A timed dequeue on a queue nobody feeds comes back when its time is up - in either clock mode of the library.
var timedGetTypes = []string{"RequestQueue", "RequestDoubleQueue"}

var sweepTimedGet = pbt.RegisterSweep(pbt.Sweep{Prop: "C10", Name: "timed-get-completes" + strings.TrimPrefix(sweepDeadlockName, "method-self-deadlock"),
	Rule: sweepDeadlockMode + "GetTimeout(5..30 ms) on an empty request queue / double queue that no producer feeds, 30 (quick) / 300 (thorough) times per type on fresh instances: the call must return (verdict from goroutine stacks as in the method sweep: parked on a sync primitive inside golib in three consecutive samples = blocked on the structure's own lock / condition); every call is a distinct non-trivial case",
	N:    uint64(len(timedGetTypes) * pbt.Pick(30, 300)),
	Run: func(i uint64) (bool, error) {
		ct := ctypeByName[timedGetTypes[i%uint64(len(timedGetTypes))]]
		self := reflect.ValueOf(ct.New())
		ms := 5 + int(i/2)%6*5
		m := self.MethodByName("GetTimeout")
		out := guardedCall(func() []reflect.Value { return m.Call([]reflect.Value{reflect.ValueOf(ms)}) })
		if out.blocked != "" {
			return true, fmt.Errorf("%s.GetTimeout(%d) on an empty queue nobody feeds never returns %s", ct.Name, ms, out.blocked)
		}
		return true, nil
	},
	Show: func(i uint64) interface{} { return fmt.Sprintf("%s call %d", timedGetTypes[i%2], i/2) }})

// ---- concurrent programs ----------------------------------------------------------------------------

type OpC struct {
	M string `json:"m"`
	K int    `json:"k"`
	V int    `json:"v"`
}

type ConcCase struct {
	Type     string  `json:"type"`
	Prefill  int     `json:"prefill"`
	Programs [][]OpC `json:"programs"`
}

var unlockedReaders = map[string]bool{"Size": true, "IsEmpty": true, "IsFull": true, "Size1": true, "Size2": true}

// noUnlockedReaders is set while drawing linearizability cases.
var noUnlockedReaders bool

func drawConc(t *rapid.T, maxG, maxOps int, types []string) ConcCase {
	c := ConcCase{Type: rapid.SampledFrom(types).Draw(t, "type"), Prefill: rapid.SampledFrom([]int{0, 0, 2, 5}).Draw(t, "prefill")}
	ct := ctypeByName[c.Type]
	ops := pointOpNames(ct)
	if noUnlockedReaders && pbt.KnownOpen("F25") {
		// open known finding F25: Size/IsEmpty/IsFull read the count without the lock and can observe the
		// intermediate state of a compound operation (e.g. evict-then-append of a forced put). They are excluded
		// by construction from the linearizability programs (and still exercised by the race-detector sub-check).
		var kept []string
		for _, o := range ops {
			if unlockedReaders[o] {
				continue
			}
			kept = append(kept, o)
		}
		ops = kept
	}
	// contention pattern "drain": mostly removals around an almost empty structure (check-then-act windows)
	drain := rapid.IntRange(0, 2).Draw(t, "pattern") == 0
	if drain {
		var d []string
		for _, o := range ops {
			if strings.HasPrefix(o, "Remove") || o == "Clear" || o == "GetNoWait" || o == "Put" || o == "Add" || o == "AddLast" || o == "Put1" || o == "Put2" {
				d = append(d, o)
				if strings.HasPrefix(o, "Remove") || o == "GetNoWait" {
					d = append(d, o) // twice as likely
				}
			}
		}
		if len(d) >= 2 {
			ops = d
			c.Prefill = rapid.SampledFrom([]int{0, 1, 1, 2}).Draw(t, "prefill2")
		}
	}
	g := rapid.IntRange(2, maxG).Draw(t, "goroutines")
	for i := 0; i < g; i++ {
		n := rapid.IntRange(1, maxOps).Draw(t, "nops")
		var prog []OpC
		for j := 0; j < n; j++ {
			k := rapid.IntRange(0, 3).Draw(t, "k")
			if drain {
				k = k % 2
			}
			prog = append(prog, OpC{M: rapid.SampledFrom(ops).Draw(t, "op"), K: k, V: rapid.IntRange(1, 9).Draw(t, "v")})
		}
		c.Programs = append(c.Programs, prog)
	}
	return c
}

type opRecord struct {
	g, i      int
	op        OpC
	call, ret int64
	out       string
}

var clock0 = time.Now()

func nowNs() int64 { return int64(time.Since(clock0)) }

func invoke(self reflect.Value, ct *ctype, op OpC) (out string) {
	defer func() {
		if p := recover(); p != nil {
			out = fmt.Sprintf("panic:%v", p)
		}
	}()
	m := self.MethodByName(op.M)
	return render(m.Call(callArgs(m, op.K, op.V, self, ct)))
}

// runConcurrent executes the programs on one shared instance and returns the per-operation history.
func runConcurrent(c ConcCase, timestamps bool) (reflect.Value, []opRecord, string) {
	ct := ctypeByName[c.Type]
	self := reflect.ValueOf(ct.New())
	populate(self, ct, c.Prefill)
	recs := make([][]opRecord, len(c.Programs))
	var wg sync.WaitGroup
	var ready, gate atomic.Int32
	for g := range c.Programs {
		wg.Add(1)
		go func(g int) {
			defer wg.Done()
			ready.Add(1)
			for gate.Load() == 0 { // spin barrier: all goroutines start their first operation together
			}
			for i, op := range c.Programs[g] {
				r := opRecord{g: g, i: i, op: op}
				if timestamps {
					r.call = nowNs()
				}
				r.out = invoke(self, ct, op)
				if timestamps {
					r.ret = nowNs()
				}
				recs[g] = append(recs[g], r)
			}
		}(g)
	}
	doneCh := make(chan struct{})
	go func() { wg.Wait(); close(doneCh) }()
	for int(ready.Load()) < len(c.Programs) {
		runtime.Gosched()
	}
	gate.Store(1)
	select {
	case <-doneCh:
	case <-time.After(120 * time.Second):
		buf := make([]byte, 1<<18)
		buf = buf[:runtime.Stack(buf, true)]
		return self, nil, "concurrent programs did not finish within 120 s (deadlock between operations):\n" + trim(string(buf), 60)
	}
	var all []opRecord
	for _, r := range recs {
		all = append(all, r...)
	}
	return self, all, ""
}

// structuralAudit: after the goroutines have finished the structure must be intact.
func structuralAudit(self reflect.Value, ct *ctype) error {
	sizeM := self.MethodByName("Size")
	size := int(sizeM.Call(nil)[0].Int())
	switch ct.Kind {
	case "list":
		var arr []reflect.Value
		out := guardedCall(func() []reflect.Value { return self.MethodByName("ToArray").Call(nil) })
		if out.blocked != "" || out.panicked != nil {
			return fmt.Errorf("ToArray after the concurrent run: blocked=%q panic=%v", out.blocked, out.panicked)
		}
		arr = out.results
		if n := arr[0].Len(); n != size {
			return fmt.Errorf("list holds %d nodes but Size() is %d", n, size)
		}
	case "queue":
		n := 0
		for n <= size+5 {
			out := guardedCall(func() []reflect.Value { return self.MethodByName("GetNoWait").Call(nil) })
			if out.blocked != "" || out.panicked != nil {
				return fmt.Errorf("GetNoWait after the concurrent run: blocked=%q panic=%v", out.blocked, out.panicked)
			}
			if out.results[0].IsNil() {
				break
			}
			n++
		}
		if n != size {
			return fmt.Errorf("queue yields %d elements but Size() was %d", n, size)
		}
	default:
		km := self.MethodByName("Keys")
		if !km.IsValid() {
			km = self.MethodByName("Values") // IntSet enumerates through Values()
		}
		if !km.IsValid() {
			return nil
		}
		out := guardedCall(func() []reflect.Value {
			en := km.Call(nil)[0]
			n := 0
			var keys []reflect.Value
			for en.MethodByName("HasMoreElements").Call(nil)[0].Bool() {
				var k reflect.Value
				for _, nm := range []string{"NextInt", "NextLong", "NextString", "NextElement"} {
					if nx := en.MethodByName(nm); nx.IsValid() {
						k = nx.Call(nil)[0]
						break
					}
				}
				keys = append(keys, k)
				if n++; n > size+1000 {
					break
				}
			}
			return keys
		})
		if out.blocked != "" {
			return fmt.Errorf("enumeration after the concurrent run blocks: %s", out.blocked)
		}
		if out.panicked != nil {
			return fmt.Errorf("enumeration after the concurrent run panics: %v", out.panicked)
		}
		if len(out.results) != size {
			return fmt.Errorf("enumeration yields %d keys but Size() is %d (structure corrupted: cycle or lost link)", len(out.results), size)
		}
		for _, nm := range []string{"ContainsKey", "Contains"} {
			if cm := self.MethodByName(nm); cm.IsValid() && cm.Type().NumIn() == 1 {
				for _, k := range out.results {
					kk := k
					if kk.Kind() == reflect.Interface && !kk.IsNil() {
						kk = kk.Elem()
					}
					if !kk.Type().AssignableTo(cm.Type().In(0)) {
						if kk.Type().ConvertibleTo(cm.Type().In(0)) && cm.Type().In(0).Kind() != reflect.Interface {
							kk = kk.Convert(cm.Type().In(0))
						} else if !kk.Type().Implements(cm.Type().In(0)) {
							continue
						}
					}
					if !cm.Call([]reflect.Value{kk})[0].Bool() {
						return fmt.Errorf("key %v is enumerated but %s says it is absent (hash chain and order list disagree)", k, nm)
					}
				}
				break
			}
		}
	}
	return nil
}

// ---- 3. linearizability --------------------------------------------------------------------------------

// The sequential specification of a structure is its own single-goroutine behaviour (checked against
// independent models by C09/C11/C12/C13): a state is the list of operations applied so far, replayed on a fresh instance.
type seqState struct {
	ops []OpC
}

func replay(ct *ctype, prefill int, ops []OpC) (reflect.Value, string) {
	self := reflect.ValueOf(ct.New())
	populate(self, ct, prefill)
	last := ""
	for _, op := range ops {
		last = invoke(self, ct, op)
	}
	return self, last
}

// fingerprint renders the complete observable content of a (throw-away, replayed) instance;
// two sequential states are equal exactly when their fingerprints are.
func fingerprint(self reflect.Value, ct *ctype) string {
	var sb strings.Builder
	safe := func(f func()) {
		defer func() {
			if p := recover(); p != nil {
				sb.WriteString(fmt.Sprintf("panic:%v", p))
			}
		}()
		f()
	}
	for _, nm := range []string{"Size", "Size1", "Size2"} { // the double queue's content is (queue 1, queue 2)
		if m := self.MethodByName(nm); m.IsValid() {
			fmt.Fprintf(&sb, "%s=%d|", nm, m.Call(nil)[0].Int())
		}
	}
	switch ct.Kind {
	case "queue": // drain the copy
		safe(func() {
			for i := 0; i < 100000; i++ {
				r := self.MethodByName("GetNoWait").Call(nil)[0]
				if r.IsNil() {
					break
				}
				sb.WriteString(renderOne(r) + ";")
			}
		})
	case "list":
		safe(func() {
			arr := self.MethodByName("ToArray").Call(nil)[0]
			for i := 0; i < arr.Len(); i++ {
				sb.WriteString(renderOne(arr.Index(i)) + ";")
			}
		})
	default:
		km := self.MethodByName("Keys")
		if !km.IsValid() {
			km = self.MethodByName("Values")
		}
		get := self.MethodByName("Get")
		safe(func() {
			en := km.Call(nil)[0]
			for n := 0; n < 100000 && en.MethodByName("HasMoreElements").Call(nil)[0].Bool(); n++ {
				var k reflect.Value
				for _, nm := range []string{"NextInt", "NextLong", "NextString", "NextElement"} {
					if nx := en.MethodByName(nm); nx.IsValid() {
						k = nx.Call(nil)[0]
						break
					}
				}
				sb.WriteString(renderOne(k))
				if get.IsValid() && get.Type().NumIn() == 1 {
					kk := k
					if kk.Kind() == reflect.Interface && !kk.IsNil() {
						kk = kk.Elem()
					}
					if kk.Type().AssignableTo(get.Type().In(0)) {
						sb.WriteString("=" + render(get.Call([]reflect.Value{kk})))
					}
				}
				sb.WriteString(";")
			}
		})
	}
	return sb.String()
}

func linModel(ct *ctype, prefill int) porcupine.Model {
	cacheOut := map[string]string{}
	cacheFp := map[string]string{}
	key := func(ops []OpC) string {
		var sb strings.Builder
		for _, o := range ops {
			fmt.Fprintf(&sb, "%s(%d,%d);", o.M, o.K, o.V)
		}
		return sb.String()
	}
	return porcupine.Model{
		Init: func() interface{} { return seqState{} },
		Step: func(state, input, output interface{}) (bool, interface{}) {
			st := state.(seqState)
			op := input.(OpC)
			next := seqState{ops: append(append([]OpC(nil), st.ops...), op)}
			k := key(next.ops)
			out, ok := cacheOut[k]
			if !ok {
				var self reflect.Value
				self, out = replay(ct, prefill, next.ops)
				cacheOut[k] = out
				cacheFp[k] = fingerprint(self, ct)
			}
			return out == output.(string), next
		},
		Equal: func(a, b interface{}) bool {
			ka, kb := key(a.(seqState).ops), key(b.(seqState).ops)
			if ka == kb {
				return true
			}
			fa, oka := cacheFp[ka]
			fb, okb := cacheFp[kb]
			if !oka {
				self, _ := replay(ct, prefill, a.(seqState).ops)
				fa = fingerprint(self, ct)
				cacheFp[ka] = fa
			}
			if !okb {
				self, _ := replay(ct, prefill, b.(seqState).ops)
				fb = fingerprint(self, ct)
				cacheFp[kb] = fb
			}
			return fa == fb
		},
		DescribeOperation: func(input, output interface{}) string {
			op := input.(OpC)
			return fmt.Sprintf("%s(%d,%d) -> %s", op.M, op.K, op.V, output.(string))
		},
	}
}

func runLin(c ConcCase) *pbt.Result {
	ct := ctypeByName[c.Type]
	self, recs, hang := runConcurrent(c, true)
	if hang != "" {
		return pbt.Fail("%s: %s", c.Type, hang)
	}
	var ops []porcupine.Operation
	for _, r := range recs {
		ops = append(ops, porcupine.Operation{ClientId: r.g, Input: r.op, Call: r.call, Output: r.out, Return: r.ret})
	}
	res := porcupine.CheckOperationsTimeout(linModel(ct, c.Prefill), ops, 60*time.Second)
	if res == porcupine.Illegal {
		var sb strings.Builder
		for _, r := range recs {
			fmt.Fprintf(&sb, "  g%d #%d %s(%d,%d) -> %s  [%d, %d]\n", r.g, r.i, r.op.M, r.op.K, r.op.V, r.out, r.call, r.ret)
		}
		return pbt.Fail("%s: the observed concurrent history is not linearizable with respect to the structure's sequential behaviour:\n%s", c.Type, sb.String())
	}
	if err := structuralAudit(self, ct); err != nil {
		return pbt.Fail("%s: %v", c.Type, err)
	}
	// non-trivial: at least two goroutines touch the same key / both ends
	touch := map[int]map[int]bool{}
	for g, p := range c.Programs {
		for _, op := range p {
			if touch[op.K] == nil {
				touch[op.K] = map[int]bool{}
			}
			touch[op.K][g] = true
		}
	}
	shared := false
	for _, gs := range touch {
		if len(gs) >= 2 {
			shared = true
		}
	}
	overlaps := 0
	for i := range recs {
		for j := i + 1; j < len(recs); j++ {
			if recs[i].g != recs[j].g && recs[i].call < recs[j].ret && recs[j].call < recs[i].ret {
				overlaps++
			}
		}
	}
	ocl := "overlapping-op-pairs=0"
	switch {
	case overlaps >= 5:
		ocl = "overlapping-op-pairs>=5"
	case overlaps >= 1:
		ocl = "overlapping-op-pairs=1-4"
	}
	cl := "porcupine=ok"
	if res == porcupine.Unknown {
		cl = "porcupine=timeout-inconclusive"
	}
	return &pbt.Result{NT: shared && overlaps >= 1, Classes: []string{"type=" + c.Type, cl, ocl}}
}

func typeNames() []string {
	var out []string
	for _, ct := range ctypes {
		out = append(out, ct.Name)
	}
	return out
}

var specLin = pbt.Register(pbt.Spec[ConcCase]{
	Prop: "C10", Name: "linearizability",
	Rule:  "for one of the 20 collection types (+ bounded variants of the two queues), 2-4 goroutine programs of 1-7 point operations (every exported put/add/get/contains/remove/remove-first/last/clear/size/enqueue/dequeue method with scalar arguments, keys from {0..3} so that goroutines collide) run concurrently on one instance with invocation/response times recorded around every call; oracle = porcupine finds a linearization with respect to the structure's own sequential behaviour (replayed on a fresh instance), and a structural audit afterwards (enumeration length = Size(), no cycle, every enumerated key found by contains; list/queue drained count = Size()); non-trivial = two goroutines touch the same key; distinct by case",
	Quick: 2400, Thorough: 120000,
	Draw: func(t *rapid.T) ConcCase {
		noUnlockedReaders = true
		defer func() { noUnlockedReaders = false }()
		return drawConc(t, 4, 7, typeNames())
	},
	Run: runLin,
})

func TestLinearizability(t *testing.T) { specLin.Check(t) }

// ---- 3b. drain stress: many iterations around an almost empty structure ------------------------------------

type StressCase struct {
	Type      string   `json:"type"`
	Producers int      `json:"producers"`
	Consumers []string `json:"consumers"` // removal method each consumer goroutine uses
	N         int      `json:"n"`         // insertions per producer
}

func removalOps(ct *ctype) []string {
	var out []string
	for _, o := range pointOpNames(ct) {
		if o == "RemoveFirst" || o == "RemoveLast" || o == "GetNoWait" || o == "Clear" {
			out = append(out, o)
		}
	}
	return out
}

func insertOp(ct *ctype) string {
	self := reflect.ValueOf(ct.New())
	for _, n := range []string{"Put", "AddLast", "Put1"} {
		if self.MethodByName(n).IsValid() {
			return n
		}
	}
	return ""
}

func stressTypes() []string {
	var out []string
	for _, ct := range ctypes {
		if insertOp(ct) != "" && len(removalOps(ct)) >= 2 {
			out = append(out, ct.Name)
		}
	}
	return out
}

func runStress(c StressCase) *pbt.Result {
	ct := ctypeByName[c.Type]
	self := reflect.ValueOf(ct.New())
	ins := self.MethodByName(insertOp(ct))
	var wg, pwg sync.WaitGroup
	var gate atomic.Int32
	var producersDone atomic.Bool
	removed := make([][]string, len(c.Consumers))
	var panics sync.Map
	for p := 0; p < c.Producers; p++ {
		wg.Add(1)
		pwg.Add(1)
		go func(p int) {
			defer wg.Done()
			defer pwg.Done()
			for gate.Load() == 0 {
			}
			for i := 0; i < c.N; i++ {
				id := 1 + p*c.N + i // unique key and value (>= 1: never a "none" value)
				func() {
					defer func() {
						if r := recover(); r != nil {
							panics.Store(fmt.Sprintf("%s: %v", insertOp(ct), r), true)
						}
					}()
					ins.Call(callArgs(ins, id, id, self, ct))
				}()
			}
		}(p)
	}
	for ci, m := range c.Consumers {
		wg.Add(1)
		go func(ci int, m string) {
			defer wg.Done()
			rm := self.MethodByName(m)
			for gate.Load() == 0 {
			}
			idle := 0
			for idle < 3 {
				var out string
				func() {
					defer func() {
						if r := recover(); r != nil {
							panics.Store(fmt.Sprintf("%s: %v", m, r), true)
						}
					}()
					out = render(rm.Call(nil))
				}()
				if m != "Clear" && out != "" && out != "0" && out != "nil" && out != "<nil>" {
					removed[ci] = append(removed[ci], out)
				}
				if producersDone.Load() {
					idle++
				}
			}
		}(ci, m)
	}
	go func() { pwg.Wait(); producersDone.Store(true) }()
	doneCh := make(chan struct{})
	go func() { wg.Wait(); close(doneCh) }()
	gate.Store(1)
	select {
	case <-doneCh:
	case <-time.After(180 * time.Second):
		return pbt.Fail("%s: drain stress did not finish within 180 s", c.Type)
	}
	var perr []string
	panics.Range(func(k, v interface{}) bool { perr = append(perr, k.(string)); return true })
	if len(perr) > 0 {
		return pbt.Fail("%s: an operation panicked while other goroutines emptied the structure (no sequential order of the operations panics): %v", c.Type, perr)
	}
	seen := map[string]int{}
	total := 0
	for ci, list := range removed {
		for _, v := range list {
			if prev, dup := seen[v]; dup {
				return pbt.Fail("%s: element %s was handed out twice (consumers %d and %d)", c.Type, v, prev, ci)
			}
			seen[v] = ci
			total++
		}
	}
	if total > c.Producers*c.N {
		return pbt.Fail("%s: %d elements removed, only %d inserted", c.Type, total, c.Producers*c.N)
	}
	if err := structuralAudit(self, ct); err != nil {
		return pbt.Fail("%s: %v", c.Type, err)
	}
	return &pbt.Result{NT: total >= 1 && len(c.Consumers) >= 2, Classes: []string{"type=" + c.Type}}
}

var specStress = pbt.Register(pbt.Spec[StressCase]{
	Prop: "C10", Name: "drain-stress",
	Rule:  "1-2 producer goroutines insert fresh unique elements while 2-4 consumer goroutines call RemoveFirst / RemoveLast / GetNoWait / Clear in a loop until the producers are done (hundreds of empty<->non-empty transitions per case); history invariants sound for any schedule: no operation panics, no element is handed out twice, not more elements removed than inserted, structural audit at the end; non-trivial = at least one element removed with >= 2 consumers; distinct by case",
	Quick: 160, Thorough: 8000,
	Draw: func(t *rapid.T) StressCase {
		c := StressCase{Type: rapid.SampledFrom(stressTypes()).Draw(t, "type"), Producers: rapid.IntRange(1, 2).Draw(t, "producers"), N: rapid.IntRange(50, pbt.Pick(400, 1500)).Draw(t, "n")}
		ops := removalOps(ctypeByName[c.Type])
		nc := rapid.IntRange(2, 4).Draw(t, "consumers")
		for i := 0; i < nc; i++ {
			c.Consumers = append(c.Consumers, rapid.SampledFrom(ops).Draw(t, "rm"))
		}
		return c
	},
	Run: runStress,
})

func TestDrainStress(t *testing.T) { specStress.Check(t) }

// ---- 3b'. blocking-get stress: several consumers parked in the blocking Get of a queue --------------------------------

type BlockCase struct {
	Type      string `json:"type"` // RequestQueue | RequestDoubleQueue
	Producers int    `json:"producers"`
	Consumers int    `json:"consumers"`
	N         int    `json:"n"`     // elements per producer
	Burst     int    `json:"burst"` // producers pause after every Burst puts so that the consumers run the queue empty again
	// Reconf: meanwhile another goroutine keeps changing the queue's capacity (a configuration reload): small, then
	// unbounded again; a producer whose put is refused tries again. What the queue accepted is delivered all the same
	Reconf bool `json:"reconf,omitempty"`
}

func runBlock(c BlockCase) *pbt.Result {
	total := c.Producers * c.N
	var put func(p, i int) bool
	var get func() interface{}
	var size func() int
	var setcap func(n int)
	switch c.Type {
	case "RequestQueue":
		q := queue.NewRequestQueue(0)
		put = func(p, i int) bool { return q.Put(1 + p*c.N + i) }
		get, size = q.Get, q.Size
		setcap = func(n int) { q.SetCapacity(n) }
	case "RequestDoubleQueue":
		q := queue.NewRequestDoubleQueue(0, 0)
		setcap = func(n int) { q.SetCapacity(n, n) }
		put = func(p, i int) bool {
			if (p+i)%2 == 0 {
				return q.Put1(1 + p*c.N + i)
			}
			return q.Put2(1 + p*c.N + i)
		}
		get, size = q.Get, q.Size
	default:
		return pbt.Fail("unknown queue type %q", c.Type)
	}
	var claimed, returned, accepted atomic.Int64
	got := make([][]interface{}, c.Consumers)
	var wg, pwg sync.WaitGroup
	for ci := 0; ci < c.Consumers; ci++ {
		wg.Add(1)
		go func(ci int) {
			defer wg.Done()
			for claimed.Add(1) <= int64(total) { // exactly as many blocking gets as there will be elements
				got[ci] = append(got[ci], get())
				returned.Add(1)
			}
		}(ci)
	}
	time.Sleep(200 * time.Microsecond) // let the consumers park (not required for soundness)
	for p := 0; p < c.Producers; p++ {
		pwg.Add(1)
		go func(p int) {
			defer pwg.Done()
			for i := 0; i < c.N; i++ {
				ok := put(p, i)
				for tries := 0; !ok && c.Reconf && tries < 1<<22; tries++ { // refused while the capacity is small: try again
					runtime.Gosched()
					ok = put(p, i)
				}
				if ok {
					accepted.Add(1)
				}
				if c.Burst > 0 && i%c.Burst == c.Burst-1 {
					for k := 0; k < 200 && size() > 0; k++ {
						runtime.Gosched()
					}
				}
			}
		}(p)
	}
	var reconfStop atomic.Bool
	var rwg sync.WaitGroup
	if c.Reconf {
		rwg.Add(1)
		go func() {
			defer rwg.Done()
			for n := 0; !reconfStop.Load(); n++ {
				setcap([]int{3, 0, 1, 0, 50, 0}[n%6])
				for k := 0; k < 20; k++ {
					runtime.Gosched()
				}
			}
			setcap(0)
		}()
	}
	pwg.Wait()
	reconfStop.Store(true)
	rwg.Wait()
	if accepted.Load() != int64(total) {
		return pbt.Fail("%s: %d of %d puts on an unbounded queue were refused", c.Type, int64(total)-accepted.Load(), total)
	}
	done := make(chan struct{})
	go func() { wg.Wait(); close(done) }()
	select {
	case <-done:
	case <-time.After(90 * time.Second):
		// all producers are finished: nothing but the consumers can change the queue any more
		return pbt.Fail("%s: %d elements were put, %d blocking gets have returned, Size()=%d, and the remaining consumers have been waiting for 90 s after the last put (an element or a wake-up was lost)", c.Type, total, returned.Load(), size())
	}
	seen := map[int]int{}
	for ci, l := range got {
		for _, v := range l {
			id, ok := v.(int)
			if !ok {
				return pbt.Fail("%s: a blocking Get returned %v although %d elements were put and %d gets issued (no sequential order lets a blocking get come back empty-handed)", c.Type, v, total, total)
			}
			if prev, dup := seen[id]; dup {
				return pbt.Fail("%s: element %d was handed out twice (consumers %d and %d)", c.Type, id, prev, ci)
			}
			seen[id] = ci
		}
	}
	if len(seen) != total {
		return pbt.Fail("%s: %d distinct elements delivered, %d put", c.Type, len(seen), total)
	}
	if size() != 0 {
		return pbt.Fail("%s: Size()=%d after every element was taken", c.Type, size())
	}
	return &pbt.Result{NT: c.Consumers >= 2, Classes: []string{"type=" + c.Type, fmt.Sprintf("consumers=%d", c.Consumers)}}
}

var specBlock = pbt.Register(pbt.Spec[BlockCase]{
	Prop: "C10", Name: "blocking-get-stress",
	Rule:  "2-6 consumer goroutines issue, between them, exactly as many blocking Get calls on an unbounded RequestQueue / RequestDoubleQueue as 1-3 producers put elements (bursts of 1-8 puts, then the producers let the queue run empty, so that several consumers are woken for fewer elements over and over); in a third of the cases another goroutine keeps changing the capacity (3, unbounded, 1, unbounded, 50, ...) and refused puts are repeated; invariants sound for any schedule: every put is accepted, every blocking get returns an element (never empty-handed), every element is delivered exactly once, the queue ends empty, and all gets return once the last put is done; non-trivial = at least 2 consumers; distinct by case",
	Quick: 60, Thorough: 3000,
	Draw: func(t *rapid.T) BlockCase {
		return BlockCase{Type: rapid.SampledFrom([]string{"RequestQueue", "RequestDoubleQueue", "RequestDoubleQueue"}).Draw(t, "type"),
			Producers: rapid.IntRange(1, 3).Draw(t, "producers"), Consumers: rapid.IntRange(2, 6).Draw(t, "consumers"),
			N: rapid.IntRange(100, pbt.Pick(1500, 6000)).Draw(t, "n"), Burst: rapid.IntRange(1, 8).Draw(t, "burst"), Reconf: rapid.IntRange(0, 2).Draw(t, "reconf") == 0}
	},
	Run: runBlock,
})

func TestBlockingGetStress(t *testing.T) { specBlock.Check(t) }

// ---- 3b''. two structures handed to each other ---------------------------------------------------------------------

type CrossCase struct {
	N      int `json:"n"`      // keys held by both maps (the same keys: copying changes values only, never the structure)
	Rounds int `json:"rounds"` // PutAll calls per goroutine
}

func runCross(c CrossCase) *pbt.Result {
	a, b := hmap.NewIntKeyMapDefault(), hmap.NewIntKeyMapDefault()
	for i := 0; i < c.N; i++ {
		a.Put(int32(i), i)
		b.Put(int32(i), -i)
	}
	var progress [2]atomic.Int64
	var gids [2]atomic.Int64
	var wg sync.WaitGroup
	run := func(w int, dst, src *hmap.IntKeyMap) {
		defer wg.Done()
		gids[w].Store(curGoid())
		for r := 0; r < c.Rounds; r++ {
			dst.PutAll(src)
			progress[w].Add(1)
		}
	}
	wg.Add(2)
	go run(0, a, b)
	go run(1, b, a)
	done := make(chan struct{})
	go func() { wg.Wait(); close(done) }()
	stuck := 0
	last := [2]int64{-1, -1}
	for {
		select {
		case <-done:
			if a.Size() != c.N || b.Size() != c.N {
				return pbt.Fail("after a.PutAll(b) and b.PutAll(a) ran side by side over the same %d keys the maps hold %d and %d keys", c.N, a.Size(), b.Size())
			}
			return &pbt.Result{NT: true, Classes: []string{"type=IntKeyMap"}}
		case <-time.After(100 * time.Millisecond):
		}
		cur := [2]int64{progress[0].Load(), progress[1].Load()}
		if cur != last {
			last, stuck = cur, 0
			continue
		}
		// no progress: are both workers parked on a lock inside golib?
		both := true
		var stacks []string
		for w := 0; w < 2; w++ {
			st, stack := goroutineState(gids[w].Load())
			if !blockedState(st) || !strings.Contains(stack, "github.com/whatap/golib/") {
				both = false
			}
			stacks = append(stacks, trim(stack, 8))
		}
		if both {
			stuck++
		} else {
			stuck = 0
		}
		if stuck >= 3 {
			return pbt.Fail("a.PutAll(b) and b.PutAll(a), run side by side, are both parked on a lock inside golib and nothing else can release them (lock-order deadlock) after %v rounds:\n%s\n--\n%s", cur, stacks[0], stacks[1])
		}
	}
}

var specCross = pbt.Register(pbt.Spec[CrossCase]{
	Prop: "C10", Name: "cross-putall",
	Rule:  "the only operation of the covered types that takes a second structure of its own type, IntKeyMap.PutAll: two maps holding the same 50-3000 keys are copied into each other by two goroutines for 20-400 rounds each (values change, the structure of neither map does); the calls must all return - two workers found parked on a lock inside golib in three consecutive samples without progress are a lock-order deadlock - and both maps keep exactly their keys; every case is non-trivial; distinct by case",
	Quick: 24, Thorough: 600,
	Draw: func(t *rapid.T) CrossCase {
		return CrossCase{N: rapid.IntRange(50, 3000).Draw(t, "n"), Rounds: rapid.IntRange(20, 400).Draw(t, "rounds")}
	},
	Run: runCross,
})

func TestCrossPutAll(t *testing.T) { specCross.Check(t) }

// ---- counters: concurrent adds to the same key -----------------------------------------------------------------------

type AddCase struct {
	Type   string `json:"type"`
	G      int    `json:"g"`
	K      int    `json:"k"`      // adds per goroutine and key
	Rounds int    `json:"rounds"` // fresh keys (the entry does not exist when the goroutines start)
	Method string `json:"method"` // Add | AddLast | AddFirst
}

func addTypes() []string {
	var out []string
	for _, ct := range ctypes {
		if ct.Kind != "map" {
			continue
		}
		self := reflect.ValueOf(ct.New())
		if m := self.MethodByName("Add"); m.IsValid() && m.Type().NumIn() == 2 {
			switch m.Type().In(1).Kind() {
			case reflect.Int, reflect.Int32, reflect.Int64, reflect.Float32, reflect.Float64:
				if g := self.MethodByName("Get"); g.IsValid() && g.Type().NumIn() == 1 {
					out = append(out, ct.Name)
				}
			}
		}
	}
	return out
}

func runAdd(c AddCase) *pbt.Result {
	if c.Type == "" { // every type that has an accumulating Add
		for _, ty := range addTypes() {
			cc := c
			cc.Type = ty
			if r := runAdd(cc); r.Err != nil {
				return r
			}
		}
		return &pbt.Result{NT: true, Classes: []string{"all-accumulating-map-types", "method=" + c.Method}}
	}
	ct := ctypeByName[c.Type]
	self := reflect.ValueOf(ct.New())
	add := self.MethodByName(c.Method)
	if !add.IsValid() || add.Type().NumIn() != 2 {
		add = self.MethodByName("Add")
	}
	get := self.MethodByName("Get")
	want := renderOne(reflect.ValueOf(c.G * c.K).Convert(get.Type().Out(0)))
	for round := 0; round < c.Rounds; round++ {
		key := 1 + round
		var wg sync.WaitGroup
		var gate, ready atomic.Int32
		var panicked atomic.Value
		for g := 0; g < c.G; g++ {
			wg.Add(1)
			go func() {
				defer wg.Done()
				defer func() {
					if r := recover(); r != nil {
						panicked.Store(fmt.Sprint(r))
					}
				}()
				args := callArgs(add, key, 1, self, ct) // built before the start signal: the calls themselves are what overlaps
				ready.Add(1)
				for gate.Load() == 0 {
				}
				for i := 0; i < c.K; i++ {
					add.Call(args)
				}
			}()
		}
		for int(ready.Load()) < c.G {
		}
		gate.Store(1)
		wg.Wait()
		if v := panicked.Load(); v != nil {
			return pbt.Fail("%s.%s panicked under concurrency: %v", c.Type, c.Method, v)
		}
		if got := render(get.Call(callArgs(get, key, 0, self, ct))); got != want {
			return pbt.Fail("%s: %d goroutines each added 1 to key %d (not present before) %d times with %s; Get says %s, every sequential order gives %s (round %d)", c.Type, c.G, key, c.K, c.Method, got, want, round)
		}
	}
	if err := structuralAudit(self, ct); err != nil {
		return pbt.Fail("%s: %v", c.Type, err)
	}
	return &pbt.Result{NT: true, Classes: []string{"type=" + c.Type, "method=" + c.Method}}
}

var specAdd = pbt.Register(pbt.Spec[AddCase]{
	Prop: "C10", Name: "add-stress",
	Rule:  "for each of the 7 map types whose Add accumulates into the entry of a key: 200-800 rounds, each with a fresh key (no entry yet), in which 2-8 goroutines start together and add 1 to that key 1-3 times each through Add / AddLast / AddFirst; additions commute, so every sequential order ends with Get(key) = number of additions; structural audit at the end; every case is non-trivial; distinct by case",
	Quick: 8, Thorough: 400,
	Draw: func(t *rapid.T) AddCase {
		return AddCase{G: rapid.IntRange(2, 8).Draw(t, "g"), K: rapid.IntRange(1, 3).Draw(t, "k"),
			Rounds: rapid.IntRange(200, pbt.Pick(800, 3000)).Draw(t, "rounds"), Method: rapid.SampledFrom([]string{"Add", "Add", "AddLast", "AddFirst"}).Draw(t, "method")}
	},
	Run: runAdd,
})

func TestAddStress(t *testing.T) { specAdd.Check(t) }

// ---- 3c. growth stress: concurrent insertions of distinct keys across several table growths -----------------------

type GrowthCase struct {
	Type      string `json:"type"`
	Producers int    `json:"producers"`
	N         int    `json:"n"`                 // distinct elements inserted by each producer
	Readers   int    `json:"readers"`           // goroutines looking up keys while the table grows
	Sorters   int    `json:"sorters,omitempty"` // goroutines calling Sort(comparator) in a loop meanwhile (types that have it)
}

func growthTypes() []string {
	var out []string
	for _, ct := range ctypes {
		if insertOp(ct) != "" && !strings.Contains(ct.Name, "bounded") {
			out = append(out, ct.Name)
		}
	}
	return out
}

func lookupOp(self reflect.Value) reflect.Value {
	for _, n := range []string{"ContainsKey", "Contains", "HasKey"} {
		if m := self.MethodByName(n); m.IsValid() && m.Type().NumIn() == 1 && m.Type().NumOut() == 1 && m.Type().Out(0).Kind() == reflect.Bool {
			return m
		}
	}
	return reflect.Value{}
}

func runGrowth(c GrowthCase) *pbt.Result {
	ct := ctypeByName[c.Type]
	self := reflect.ValueOf(ct.New())
	ins := self.MethodByName(insertOp(ct))
	look := lookupOp(self)
	var wg sync.WaitGroup
	var gate atomic.Int32
	var stop atomic.Bool
	var panics sync.Map
	for p := 0; p < c.Producers; p++ {
		wg.Add(1)
		go func(p int) {
			defer wg.Done()
			for gate.Load() == 0 {
			}
			for i := 0; i < c.N; i++ {
				id := 1 + p*c.N + i
				func() {
					defer func() {
						if r := recover(); r != nil {
							panics.Store(fmt.Sprintf("%s: %v", insertOp(ct), r), true)
						}
					}()
					ins.Call(callArgs(ins, id, id, self, ct))
				}()
			}
		}(p)
	}
	var rwg sync.WaitGroup
	if look.IsValid() {
		for r := 0; r < c.Readers; r++ {
			rwg.Add(1)
			go func(r int) {
				defer rwg.Done()
				for gate.Load() == 0 {
				}
				for i := 0; !stop.Load(); i++ {
					func() {
						defer func() {
							if rr := recover(); rr != nil {
								panics.Store(fmt.Sprintf("lookup: %v", rr), true)
							}
						}()
						look.Call(callArgs(look, 1+(i*7+r)%(c.Producers*c.N), 0, self, ct))
					}()
				}
			}(r)
		}
	}
	sorted := false
	if sm := self.MethodByName("Sort"); sm.IsValid() && sm.Type().NumIn() == 1 && sm.Type().In(0).Kind() == reflect.Func {
		for r := 0; r < c.Sorters; r++ {
			sorted = true
			rwg.Add(1)
			go func() {
				defer rwg.Done()
				for gate.Load() == 0 {
				}
				for !stop.Load() {
					func() {
						defer func() {
							if rr := recover(); rr != nil {
								panics.Store(fmt.Sprintf("Sort: %v", rr), true)
							}
						}()
						sm.Call(callArgs(sm, 0, 0, self, ct))
					}()
				}
			}()
		}
	}
	done := make(chan struct{})
	go func() { wg.Wait(); stop.Store(true); rwg.Wait(); close(done) }()
	gate.Store(1)
	select {
	case <-done:
	case <-time.After(180 * time.Second):
		stop.Store(true)
		return pbt.Fail("%s: concurrent insertions did not finish within 180 s", c.Type)
	}
	var perr []string
	panics.Range(func(k, v interface{}) bool { perr = append(perr, k.(string)); return true })
	if len(perr) > 0 {
		return pbt.Fail("%s: an operation panicked during concurrent insertions: %v", c.Type, perr)
	}
	total := c.Producers * c.N
	if size := int(self.MethodByName("Size").Call(nil)[0].Int()); size != total {
		return pbt.Fail("%s: %d distinct elements were inserted by %d goroutines, Size() is %d", c.Type, total, c.Producers, size)
	}
	if look.IsValid() {
		for id := 1; id <= total; id++ {
			if !look.Call(callArgs(look, id, 0, self, ct))[0].Bool() {
				return pbt.Fail("%s: element %d was inserted (the call returned) but the structure does not contain it after the %d concurrent insertions (lost across a table growth)", c.Type, id, total)
			}
		}
	}
	if err := structuralAudit(self, ct); err != nil {
		return pbt.Fail("%s: %v", c.Type, err)
	}
	if res := classifyNewRaces(c.Type); res != nil {
		return res
	}
	classes := []string{"type=" + c.Type, fmt.Sprintf("producers=%d", c.Producers)}
	if sorted {
		classes = append(classes, "sorted-meanwhile")
	}
	return &pbt.Result{NT: total > 76 && c.Producers >= 2, Classes: classes}
}

var specGrowth = pbt.Register(pbt.Spec[GrowthCase]{
	Prop: "C10", Name: "growth-stress",
	Rule:  "2-4 goroutines insert disjoint ranges of fresh keys (40..400 each, so the bucket table grows one to three times while others insert) into one instance while 0-2 reader goroutines look keys up and, in half of the cases, another goroutine keeps calling Sort with a comparator (the 14 types that have one); history invariants sound for any schedule: nothing panics, Size() equals the number of insertions, every inserted key is found afterwards, structural audit; in the -race group every new race-detector report is classified as in race-detector; non-trivial = more than 76 elements from >= 2 producers; distinct by case",
	Quick: 160, Thorough: 8000,
	Draw: func(t *rapid.T) GrowthCase {
		return GrowthCase{Type: rapid.SampledFrom(growthTypes()).Draw(t, "type"), Producers: rapid.IntRange(2, 4).Draw(t, "producers"),
			N: rapid.IntRange(40, pbt.Pick(200, 400)).Draw(t, "n"), Readers: rapid.IntRange(0, 2).Draw(t, "readers"), Sorters: rapid.IntRange(0, 1).Draw(t, "sorters")}
	},
	Run: runGrowth,
})

func TestGrowthStress(t *testing.T) {
	defer func() {
		if raceLogPrefix != "" {
			pbt.Extra("growth-stress", "reports_classified_as_open_finding_F25", raceStats.known)
		}
	}()
	specGrowth.Check(t)
}

// ---- 3d. bound stress: concurrent insertions into a bounded structure ----------------------------------------------

type BoundCase struct {
	Type      string `json:"type"`
	Bound     int    `json:"bound"`
	Producers int    `json:"producers"`
	N         int    `json:"n"`      // insertions per producer per round
	Rounds    int    `json:"rounds"` // fresh instance per round
	// Collide: keys are chosen so that the element coming in and the eldest one going out share a hash bucket
	Collide bool `json:"collide,omitempty"`
}

func boundTypes() []string {
	var out []string
	for _, ct := range ctypes {
		self := reflect.ValueOf(ct.New())
		if strings.Contains(ct.Name, "bounded") || insertOp(ct) == "" {
			continue
		}
		// a bound that evicts exists on the linked maps/sets (SetMax) and the queues (capacity);
		// IntIntMap.SetMax only feeds IsFull() and does not bound the plain map
		if strings.Contains(ct.Name, "Linked") && self.MethodByName("SetMax").IsValid() {
			out = append(out, ct.Name)
		} else if self.MethodByName("SetCapacity").IsValid() {
			out = append(out, ct.Name, ct.Name, ct.Name, ct.Name) // the queues' capacity test has the narrowest window: drawn four times as often
		}
	}
	return out
}

func runBound(c BoundCase) *pbt.Result {
	ct := ctypeByName[c.Type]
	isQueue := ct.Kind == "queue"
	// key of the id-th element: the id itself, or (Collide) a key that falls into the bucket of the element inserted
	// `bound` insertions earlier - the one that has to make room for it - and of no element in between (default table of 101 buckets)
	key := func(id int) int {
		if c.Collide && c.Bound > 0 && c.Bound < 101 {
			return id%c.Bound + 101*(id/c.Bound)
		}
		return id
	}
	for round := 0; round < c.Rounds; round++ {
		self := reflect.ValueOf(ct.New())
		if sm := self.MethodByName("SetMax"); sm.IsValid() && sm.Type().NumIn() == 1 {
			sm.Call([]reflect.Value{reflect.ValueOf(c.Bound)})
		} else if sc := self.MethodByName("SetCapacity"); sc.IsValid() {
			in := make([]reflect.Value, sc.Type().NumIn())
			for i := range in {
				in[i] = reflect.ValueOf(c.Bound)
			}
			sc.Call(in)
		}
		ins := self.MethodByName(insertOp(ct))
		getM, hasM := reflect.Value{}, reflect.Value{}
		if !isQueue {
			if m := self.MethodByName("Get"); m.IsValid() && m.Type().NumIn() == 1 && m.Type().NumOut() == 1 {
				getM = m
			}
			if m := self.MethodByName("ContainsKey"); m.IsValid() && m.Type().NumIn() == 1 {
				hasM = m
			}
		}
		var wg sync.WaitGroup
		var gate atomic.Int32
		var accepted atomic.Int64
		var panicked atomic.Value
		for p := 0; p < c.Producers; p++ {
			wg.Add(1)
			go func(p int) {
				defer wg.Done()
				defer func() {
					if r := recover(); r != nil {
						panicked.Store(fmt.Sprint(r))
					}
				}()
				for gate.Load() == 0 {
				}
				for i := 0; i < c.N; i++ {
					id := 1 + p*c.N + i
					out := ins.Call(callArgs(ins, key(id), id, self, ct))
					if isQueue && len(out) == 1 && out[0].Kind() == reflect.Bool && out[0].Bool() {
						accepted.Add(1)
					}
					if getM.IsValid() { // read the element just inserted and an older one (it may have been evicted meanwhile)
						getM.Call(callArgs(getM, key(id), 0, self, ct))
						if i > 0 {
							getM.Call(callArgs(getM, key(id-1), 0, self, ct))
						}
					}
				}
			}(p)
		}
		gate.Store(1)
		wg.Wait()
		if v := panicked.Load(); v != nil {
			return pbt.Fail("%s (bound %d): an insertion panicked under concurrency: %v", c.Type, c.Bound, v)
		}
		total := c.Producers * c.N
		size := int(self.MethodByName("Size").Call(nil)[0].Int())
		limit := c.Bound
		if c.Type == "RequestDoubleQueue" {
			limit = c.Bound // only queue 1 is used by the insert op
		}
		want := total
		if want > limit {
			want = limit
		}
		if size > limit {
			return pbt.Fail("%s: bounded to %d, but after %d concurrent insertions from %d goroutines (round %d) it holds %d elements", c.Type, limit, total, c.Producers, round, size)
		}
		if size != want {
			return pbt.Fail("%s: bounded to %d, %d concurrent insertions of distinct elements, Size() = %d (expected %d)", c.Type, limit, total, size, want)
		}
		if isQueue {
			if a := int(accepted.Load()); a != want {
				return pbt.Fail("%s: capacity %d, no consumer: %d of %d concurrent puts were accepted (returned true), at most %d fit", c.Type, limit, a, total, want)
			}
		}
		if err := structuralAudit(self, ct); err != nil {
			return pbt.Fail("%s: %v", c.Type, err)
		}
		// lookups agree with each other for every element that was ever inserted (present or evicted)
		if getM.IsValid() && hasM.IsValid() {
			none := render(getM.Call(callArgs(getM, 987654, 0, self, ct)))
			for id := 1; id <= total; id++ {
				has := hasM.Call(callArgs(hasM, key(id), 0, self, ct))[0].Bool()
				got := render(getM.Call(callArgs(getM, key(id), 0, self, ct)))
				if has != (got != none) {
					return pbt.Fail("%s (bound %d, round %d): after %d concurrent insertions ContainsKey(%d)=%v but Get(%d)=%s (a key never inserted reads %s): the two lookups disagree", c.Type, limit, round, total, id, has, id, got, none)
				}
			}
			// one element is looked up, pushed out by `bound` fresh insertions made without any lookup in between, and
			// inserted again with another value: the lookup must show that value (nothing remembered from before)
			if size > 0 && len(callArgs(ins, 1, 1, self, ct)) == 2 {
				k := key(total) // the newest element is present
				if hasM.Call(callArgs(hasM, k, 0, self, ct))[0].Bool() {
					getM.Call(callArgs(getM, k, 0, self, ct))
					for j := 1; j <= limit; j++ {
						ins.Call(callArgs(ins, 1000003+j*977, 1, self, ct))
					}
					if !hasM.Call(callArgs(hasM, k, 0, self, ct))[0].Bool() {
						args := callArgs(ins, k, k+7000, self, ct)
						ins.Call(args)
						if got, want := render(getM.Call(callArgs(getM, k, 0, self, ct))), renderOne(args[1]); got != want {
							return pbt.Fail("%s (bound %d): key %d was looked up, then evicted by %d insertions, then inserted again with the value %s: Get(%d)=%s", c.Type, limit, k, limit, want, k, got)
						}
					}
				}
			}
			// elements that were looked up and then evicted come back (single goroutine now): what is put is found
			for id := 1; id <= total && id <= 3*limit+3; id++ {
				if !hasM.Call(callArgs(hasM, key(id), 0, self, ct))[0].Bool() {
					args := callArgs(ins, key(id), id+5000, self, ct) // a value the key never had before
					ins.Call(args)
					want := ""
					if len(args) == 2 {
						want = renderOne(args[1])
					}
					if got := render(getM.Call(callArgs(getM, key(id), 0, self, ct))); got == none || (want != "" && got != want) || !hasM.Call(callArgs(hasM, key(id), 0, self, ct))[0].Bool() {
						return pbt.Fail("%s (bound %d): key %d was looked up, evicted by later insertions and inserted again with the value %s; right after that insertion Get(%d)=%s (absent reads %s)", c.Type, limit, id, want, id, got, none)
					}
				}
			}
		}
	}
	if res := classifyNewRaces(c.Type); res != nil {
		return res
	}
	return &pbt.Result{NT: c.Producers*c.N > c.Bound, Classes: []string{"type=" + c.Type, fmt.Sprintf("bound=%d", c.Bound), fmt.Sprintf("incoming-key-shares-bucket-with-outgoing=%v", c.Collide)}}
}

var specBound = pbt.Register(pbt.Spec[BoundCase]{
	Prop: "C10", Name: "bound-stress",
	Rule:  "for every type with a bound (SetMax / queue capacity): 500-4000 rounds (quick) in which 2-6 goroutines insert distinct fresh elements into a fresh instance bounded to 1..5 elements (no consumer), or - one case in four - 20-200 rounds of 1-3 goroutines inserting 4-40 elements each whose keys are chosen so that the element coming in and the eldest one going out share a hash bucket (numeric keys k mod bound + 101 (k div bound)); invariants sound for any schedule: never more elements than the bound, exactly min(total, bound) at the end, for the queues exactly that many puts accepted, structural audit, and (maps, whose producers also look up what they insert) Get and ContainsKey agree for every element ever inserted; non-trivial = more insertions than the bound; distinct by case",
	Quick: 120, Thorough: 6000,
	Draw: func(t *rapid.T) BoundCase {
		if rapid.IntRange(0, 3).Draw(t, "shape") == 0 {
			// the element that is inserted and the eldest one that makes room for it meet in one bucket; with one producer
			// exactly, with several approximately
			return BoundCase{Type: rapid.SampledFrom(boundTypes()).Draw(t, "type"), Bound: rapid.IntRange(1, 6).Draw(t, "bound"), Producers: rapid.IntRange(1, 3).Draw(t, "producers"),
				N: rapid.IntRange(4, 40).Draw(t, "n"), Rounds: rapid.IntRange(20, 200).Draw(t, "rounds"), Collide: true}
		}
		return BoundCase{Type: rapid.SampledFrom(boundTypes()).Draw(t, "type"), Bound: rapid.IntRange(1, 5).Draw(t, "bound"), Producers: rapid.IntRange(2, 6).Draw(t, "producers"),
			N: rapid.IntRange(1, 4).Draw(t, "n"), Rounds: rapid.IntRange(500, pbt.Pick(4000, 10000)).Draw(t, "rounds")}
	},
	Run: runBound,
})

func TestBoundStress(t *testing.T) { specBound.Check(t) }

// ---- 2. race detector ---------------------------------------------------------------------------------------

// The binary of this group is built with -race and started with GORACE=log_path=…; after every case the
// report file is read and each new report is classified by the frames of its two accesses.

var raceLogPrefix = os.Getenv("VERIF_RACE_LOG")

func readRaceLog() string {
	if raceLogPrefix == "" {
		return ""
	}
	files, _ := filepath.Glob(raceLogPrefix + ".*")
	var sb strings.Builder
	for _, f := range files {
		b, _ := os.ReadFile(f)
		sb.Write(b)
	}
	return sb.String()
}

var raceSeen int

type raceReport struct {
	text     string
	accesses []string // top golib frame (function name) of each access block
}

var fnRe = regexp.MustCompile(`(?m)^\s+(github\.com/whatap/golib/[^\s(]+(?:\([^)]*\))?[^\s(]*)\(`)

func parseRaces(log string) []raceReport {
	var out []raceReport
	for _, blk := range strings.Split(log, "==================") {
		if !strings.Contains(blk, "WARNING: DATA RACE") {
			continue
		}
		r := raceReport{text: blk}
		// access blocks: "Read at", "Write at", "Previous read at", "Previous write at" … up to the next blank line
		for _, part := range strings.Split(blk, "\n\n") {
			head := strings.TrimSpace(part)
			if !(strings.HasPrefix(head, "Read at") || strings.HasPrefix(head, "Write at") || strings.HasPrefix(head, "Previous read at") || strings.HasPrefix(head, "Previous write at") ||
				strings.HasPrefix(head, "WARNING: DATA RACE")) {
				continue
			}
			for _, sub := range regexp.MustCompile(`(?m)^(Previous )?(Read|Write|read|write) at .*$`).FindAllStringIndex(part, -1) {
				rest := part[sub[0]:]
				kind := "read"
				if strings.Contains(strings.ToLower(strings.SplitN(rest, "\n", 2)[0]), "write") {
					kind = "write"
				}
				fn := "?"
				if m := fnRe.FindStringSubmatch(rest); m != nil {
					fn = m[1]
				}
				r.accesses = append(r.accesses, kind+" "+fn)
			}
		}
		out = append(out, r)
	}
	return out
}

// knownF25: the racing READ is one of the documented unlocked readers (Size / IsEmpty / IsFull).
func knownF25(r raceReport) bool {
	for _, a := range r.accesses {
		if strings.HasPrefix(a, "read ") {
			fn := a[5:]
			for _, nm := range []string{".Size", ".IsEmpty", ".IsFull", ".Size1", ".Size2"} {
				if strings.HasSuffix(fn, nm) {
					return true
				}
			}
		}
	}
	return false
}

var raceStats = struct{ known, cases int }{}

func runRace(c ConcCase) *pbt.Result {
	ct := ctypeByName[c.Type]
	self, _, hang := runConcurrent(c, false)
	if hang != "" {
		return pbt.Fail("%s: %s", c.Type, hang)
	}
	if err := structuralAudit(self, ct); err != nil {
		return pbt.Fail("%s: %v", c.Type, err)
	}
	raceStats.cases++
	if res := classifyNewRaces(c.Type); res != nil {
		return res
	}
	touch := map[int]map[int]bool{}
	for g, p := range c.Programs {
		for _, op := range p {
			if touch[op.K] == nil {
				touch[op.K] = map[int]bool{}
			}
			touch[op.K][g] = true
		}
	}
	shared := false
	for _, gs := range touch {
		if len(gs) >= 2 {
			shared = true
		}
	}
	return &pbt.Result{NT: shared, Classes: []string{"type=" + c.Type, fmt.Sprintf("goroutines=%d", len(c.Programs))}}
}

// classifyNewRaces reads the race detector's log (only in the -race group) and judges the reports added since the last call.
func classifyNewRaces(typ string) *pbt.Result {
	if raceLogPrefix == "" {
		return nil
	}
	reports := parseRaces(readRaceLog())
	fresh := reports[minInt(raceSeen, len(reports)):]
	raceSeen = len(reports)
	for _, r := range fresh {
		if knownF25(r) && pbt.KnownOpen("F25") {
			raceStats.known++
			continue
		}
		return pbt.Fail("%s: the race detector reports unsynchronised access between %v:\n%s", typ, r.accesses, trim(r.text, 40))
	}
	return nil
}

func minInt(a, b int) int {
	if a < b {
		return a
	}
	return b
}

var specRace = pbt.Register(pbt.Spec[ConcCase]{
	Prop: "C10", Name: "race-detector",
	Rule:  "the same kind of concurrent programs (2-8 goroutines x 1-20 point operations) executed in a binary built with -race; after every case the race detector's report file is read: any report between two golib accesses is a violation, except reports whose racing read is one of the listed unlocked readers Size/IsEmpty/IsFull (open known finding F25, counted); plus the structural audit; non-trivial = two goroutines touch the same key; distinct by case",
	Quick: 300, Thorough: 20000,
	Draw: func(t *rapid.T) ConcCase { return drawConc(t, 8, 20, typeNames()) },
	Run:  runRace,
})

// TestKnownFindings probes F25 (only meaningful in the -race binary).
func TestKnownFindings(t *testing.T) {
	if raceLogPrefix == "" {
		t.Skip("not the -race group")
	}
	pbt.ProbeKnown("F25", func() (bool, string) {
		before := len(parseRaces(readRaceLog()))
		for _, name := range []string{"IntIntLinkedMap", "LinkedList", "RequestQueue"} {
			c := ConcCase{Type: name, Programs: [][]OpC{{}, {}}}
			for i := 0; i < 200; i++ {
				put := "Put"
				if name == "LinkedList" {
					put = "AddLast"
				}
				c.Programs[0] = append(c.Programs[0], OpC{M: put, K: i % 4, V: 1})
				c.Programs[1] = append(c.Programs[1], OpC{M: "Size"})
			}
			runConcurrent(c, false)
		}
		reports := parseRaces(readRaceLog())
		raceSeen = len(reports)
		n := 0
		for _, r := range reports[minInt(before, len(reports)):] {
			if knownF25(r) {
				n++
			}
		}
		return n > 0, fmt.Sprintf("%d race reports whose read side is Size/IsEmpty/IsFull against a concurrent writer", n)
	})
}

func TestRaceDetector(t *testing.T) {
	if raceLogPrefix == "" {
		t.Skip("VERIF_RACE_LOG not set: this sub-check runs in the -race group of the driver")
	}
	// the testing package marks the test failed as soon as any report (also a listed known one) was printed,
	// and rapid then stops the test function: record the measured numbers in a deferred call
	defer func() {
		pbt.Extra("race-detector", "reports_classified_as_open_finding_F25", raceStats.known)
		pbt.Extra("race-detector", "race_reports_read_from_detector_log", raceSeen)
	}()
	specRace.Check(t)
}

// TestRacePairs: exhaustive over (type, pair of point operations).
func TestRacePairs(t *testing.T) {
	if raceLogPrefix == "" {
		t.Skip("VERIF_RACE_LOG not set: this sub-check runs in the -race group of the driver")
	}
	// every pair of point operations of every type, each operation run by its own goroutine on the same keys: the
	// generated programs of race-detector sample such pairs, this loop has them all. The detector's log is read once
	// per type (its reports name the two methods).
	shard, nshards := pbt.Shard()
	for ti, ct := range ctypes {
		if ti%nshards != shard {
			continue
		}
		ops := pointOpNames(ct)
		pairs := 0
		for i, a := range ops {
			for _, b := range ops[i:] {
				var pa, pb []OpC
				for k := 0; k < 6; k++ {
					pa = append(pa, OpC{M: a, K: k % 3, V: k})
					pb = append(pb, OpC{M: b, K: k % 3, V: k + 10})
				}
				c := ConcCase{Type: ct.Name, Prefill: 3, Programs: [][]OpC{pa, pb}}
				self, _, hang := runConcurrent(c, false)
				if hang != "" {
					specRace.RunCase(t, c) // reproduces and reports through the usual path
					t.Fatalf("%s: %s", ct.Name, hang)
				}
				if err := structuralAudit(self, ct); err != nil {
					specRace.RunCase(t, c)
					t.Fatalf("%s: %s and %s side by side: %v", ct.Name, a, b, err)
				}
				pairs++
			}
		}
		if res := classifyNewRaces(ct.Name); res != nil && res.Err != nil {
			t.Fatalf("C10/race-detector violated (all %d pairs of point operations of %s, two goroutines): %v", pairs, ct.Name, res.Err)
		}
		pbt.Extra("race-detector", "operation_pairs_run_side_by_side:"+ct.Name, pairs)
	}
}

// TestRaceInstances: two instances of a type share nothing. Each of two goroutines runs every exported method on its own
// instance; any report of the race detector means the type keeps state outside its instances (a package-level scratch
// buffer, a shared enumerator). For the double queue the two lane views ToString1 / ToString2 of ONE instance run side
// by side as well (each delegates to another inner list).
func TestRaceInstances(t *testing.T) {
	if raceLogPrefix == "" {
		t.Skip("VERIF_RACE_LOG not set: this sub-check runs in the -race group of the driver")
	}
	shard, nshards := pbt.Shard()
	for ti, ct := range ctypes {
		if ti%nshards != shard {
			continue
		}
		calls := 0
		for round := 0; round < pbt.Pick(3, 30); round++ {
			inst := []reflect.Value{reflect.ValueOf(ct.New()), reflect.ValueOf(ct.New())}
			var wg sync.WaitGroup
			var gate atomic.Int32
			for g := range inst {
				populate(inst[g], ct, 3)
				wg.Add(1)
				go func(self reflect.Value) {
					defer wg.Done()
					for gate.Load() == 0 {
					}
					for _, name := range methodNames(ct) {
						if ct.Kind == "queue" && (name == "Get" || name == "GetTimeout") {
							populate(self, ct, 1) // never block: something is there
						}
						m := self.MethodByName(name)
						func() {
							defer func() { recover() }()
							m.Call(callArgs(m, 1, 5, self, ct))
						}()
					}
				}(inst[g])
				calls += len(methodNames(ct))
			}
			gate.Store(1)
			wg.Wait()
			if ct.Name == "RequestDoubleQueue" {
				self := inst[0]
				populate(self, ct, 3)
				if p2 := self.MethodByName("Put2"); p2.IsValid() {
					p2.Call(callArgs(p2, 7, 7, self, ct))
				}
				var wg2 sync.WaitGroup
				for _, name := range []string{"ToString1", "ToString2"} {
					if m := self.MethodByName(name); m.IsValid() {
						wg2.Add(1)
						go func(m reflect.Value) {
							defer wg2.Done()
							for i := 0; i < 50; i++ {
								m.Call(nil)
							}
						}(m)
					}
				}
				wg2.Wait()
			}
		}
		if res := classifyNewRaces(ct.Name); res != nil && res.Err != nil {
			t.Fatalf("C10/race-detector violated (two goroutines, each calling every exported method of %s on an instance of its own): %v", ct.Name, res.Err)
		}
		pbt.Extra("race-detector", "method_calls_on_separate_instances:"+ct.Name, calls)
	}
}

// ---- first operations on a fresh structure ---------------------------------------------------------------------
// A structure that has just been constructed gets its first insertion from one goroutine while another one asks for
// an enumeration (a reporter that starts to walk the map, a ToString for a log line). Whatever the second goroutine
// sees, the insertion must have happened once it has returned.

type FreshCase struct {
	Type   string `json:"type"`
	Rounds int    `json:"rounds"`
	Other  string `json:"other"` // zero-argument method the second goroutine calls
}

func freshOthers(ct *ctype) []string {
	self := reflect.ValueOf(ct.New())
	var out []string
	for _, n := range []string{"Keys", "Values", "Entries", "ToString", "KeyArray", "Size", "IsEmpty", "GetFirst", "GetLast", "GetFirstKey", "GetLastKey"} {
		if m := self.MethodByName(n); m.IsValid() && m.Type().NumIn() == 0 {
			out = append(out, n)
		}
	}
	return out
}

func runFresh(c FreshCase) *pbt.Result {
	ct := ctypeByName[c.Type]
	insName := insertOp(ct)
	for round := 0; round < c.Rounds; round++ {
		self := reflect.ValueOf(ct.New())
		ins := self.MethodByName(insName)
		other := self.MethodByName(c.Other)
		var gate atomic.Int32
		var wg sync.WaitGroup
		var pv atomic.Value
		wg.Add(2)
		go func() {
			defer wg.Done()
			defer func() {
				if r := recover(); r != nil {
					pv.Store(fmt.Sprint(r))
				}
			}()
			for gate.Load() == 0 {
			}
			ins.Call(callArgs(ins, 7, 70, self, ct))
		}()
		go func() {
			defer wg.Done()
			defer func() { recover() }() // what the reader gets is not judged
			for gate.Load() == 0 {
			}
			other.Call(nil)
		}()
		gate.Store(1)
		wg.Wait()
		if v := pv.Load(); v != nil {
			return pbt.Fail("%s: the first %s on a fresh structure panicked while another goroutine called %s: %v", c.Type, insName, c.Other, v)
		}
		if size := int(self.MethodByName("Size").Call(nil)[0].Int()); size != 1 {
			return pbt.Fail("%s (round %d): after the first %s on a fresh structure returned (another goroutine called %s meanwhile) Size()=%d", c.Type, round, insName, c.Other, size)
		}
		for _, probe := range []string{"ContainsKey", "Contains"} {
			if m := self.MethodByName(probe); m.IsValid() && m.Type().NumIn() == 1 && ct.Kind != "queue" && ct.Kind != "list" {
				if !m.Call(callArgs(m, 7, 0, self, ct))[0].Bool() {
					return pbt.Fail("%s (round %d): the first %s on a fresh structure has returned (another goroutine called %s meanwhile), Size()=1, but %s of the inserted key is false: the insertion went into a table that was replaced", c.Type, round, insName, c.Other, probe)
				}
			}
		}
		if err := structuralAudit(self, ct); err != nil {
			return pbt.Fail("%s (round %d, first %s racing %s on a fresh structure): %v", c.Type, round, insName, c.Other, err)
		}
	}
	return &pbt.Result{NT: true, Classes: []string{"type=" + c.Type, "other=" + c.Other}}
}

var specFresh = pbt.Register(pbt.Spec[FreshCase]{
	Prop: "C10", Name: "fresh-structure-stress",
	Rule:  "for every collection type: 300-3000 rounds in which the first insertion into a freshly constructed instance runs against one call of a zero-argument reader (Keys / Values / Entries / ToString / KeyArray / Size / IsEmpty / first / last) from another goroutine, both released by a spin barrier; once both have returned the structure holds exactly that element: Size()=1, the key is found, structural audit passes (what the reader saw is not judged); every (type, reader) pair at least once per run; non-trivial = every case; distinct by case",
	Quick: 40, Thorough: 2000,
	Draw: func(t *rapid.T) FreshCase {
		ct := ctypeByName[rapid.SampledFrom(typeNames()).Draw(t, "type")]
		return FreshCase{Type: ct.Name, Rounds: rapid.IntRange(300, pbt.Pick(3000, 10000)).Draw(t, "rounds"), Other: rapid.SampledFrom(freshOthers(ct)).Draw(t, "other")}
	},
	Run: runFresh,
})

func TestFreshStructureStress(t *testing.T) {
	shard, n := pbt.Shard()
	k := 0
	for _, ct := range ctypes {
		for _, o := range freshOthers(ct) {
			k++
			if k%n == shard {
				specFresh.RunCase(t, FreshCase{Type: ct.Name, Rounds: pbt.Pick(1500, 6000), Other: o})
			}
		}
	}
	specFresh.Check(t)
}
