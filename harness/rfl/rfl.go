// Package rfl fills arbitrary golib structs with generated values and turns
// objects into a canonical flat form for field-by-field comparison.
//
// All choices are taken from a Stream: a finite list of numbers drawn by rapid
// (the JSON-serialisable part of a case) optionally followed by a
// deterministic expansion of a drawn seed; when the stream is exhausted every
// further choice is the simplest one (zero value), so shrinking the stream
// shrinks the object.
package rfl

import (
	"fmt"
	"math"
	"reflect"
	"sort"
	"strings"
	"unsafe"

	"verif/gen"
)

// Stream is a deterministic source of choices.
type Stream struct {
	Prefix []uint64 // values used first
	Seed   uint64   // expanded by splitmix64 after the prefix
	Len    int      // how many expanded values are served before the stream turns to zeros
	i      int
	state  uint64
}

func NewStream(prefix []uint64, seed uint64, n int) *Stream {
	return &Stream{Prefix: prefix, Seed: seed, Len: n, state: seed}
}

// Next returns the next raw choice.
func (s *Stream) Next() uint64 {
	k := s.i
	s.i++
	if k < len(s.Prefix) {
		return s.Prefix[k]
	}
	if k-len(s.Prefix) < s.Len {
		s.state += 0x9e3779b97f4a7c15
		x := s.state
		x = (x ^ (x >> 30)) * 0xbf58476d1ce4e5b9
		x = (x ^ (x >> 27)) * 0x94d049bb133111eb
		return x ^ (x >> 31)
	}
	return 0
}

// Exhausted reports whether only zeros remain.
func (s *Stream) Exhausted() bool { return s.i >= len(s.Prefix)+s.Len }

// Intn returns a choice in [0,n).
func (s *Stream) Intn(n int) int {
	if n <= 1 {
		return 0
	}
	return int(s.Next() % uint64(n))
}

func (s *Stream) Bool() bool { return s.Next()&1 == 1 }

// Int64 is boundary-biased; zero when the stream is exhausted.
func (s *Stream) Int64() int64 {
	k := s.Next()
	switch k % 5 {
	case 0:
		return int64(k>>8) % 200
	case 1:
		return gen.Int64Boundaries[int(k>>8)%len(gen.Int64Boundaries)]
	case 2:
		return int64(s.Next())
	case 3:
		bits := uint((k >> 8) % 64)
		v := int64(s.Next() >> (63 - bits))
		if (k>>16)&1 == 1 {
			v = -v
		}
		return v
	}
	return -(int64(k>>8) % 200)
}

var f32Specials = []uint32{0, 0x80000000, 0x3f800000, 0xbf800000, 0x7f7fffff, 1, 0x7f800000, 0xff800000, 0x7fc00000, 0x7f800001, 0x3dcccccd, 0x42c80000}
var f64Specials = []uint64{0, 0x8000000000000000, 0x3ff0000000000000, 0xbff0000000000000, 0x7fefffffffffffff, 1, 0x7ff0000000000000, 0xfff0000000000000, 0x7ff8000000000000, 0x7ff0000000000001, 0x3fb999999999999a, 0x4059000000000000}

func (s *Stream) Float32() float32 {
	k := s.Next()
	if k%3 == 0 {
		return math.Float32frombits(f32Specials[int(k>>8)%len(f32Specials)])
	}
	if k%3 == 1 {
		return float32(int64(k>>8)%100000) / 16
	}
	return math.Float32frombits(uint32(k >> 16))
}

func (s *Stream) Float64() float64 {
	k := s.Next()
	if k%3 == 0 {
		return math.Float64frombits(f64Specials[int(k>>8)%len(f64Specials)])
	}
	if k%3 == 1 {
		return float64(int64(k>>8)%100000) / 16
	}
	return math.Float64frombits(s.Next())
}

var alphabets = []string{"abcXYZ019 _-=;:/.", "가나다テスト", "\x00\x01\x7f\x80\xff\xc0", "é€😀ß"}

// Len draws a small length, sometimes a threshold length.
func (s *Stream) LenSmall(max int) int {
	k := s.Next()
	var n int
	switch {
	case k%10 < 2:
		n = 0
	case k%10 < 8:
		n = int(k>>8) % 12
	default:
		n = int(k>>8) % 60
	}
	if n > max {
		n = max
	}
	return n
}

// String draws a string; rarely one at a blob-prefix threshold length.
func (s *Stream) String() string {
	k := s.Next()
	var n int
	switch {
	case k%20 == 0:
		n = []int{253, 254, 255, 256, 300}[int(k>>8)%5]
	case k%20 < 4:
		n = 0
	case k%20 == 5:
		// one of two pairs of different strings with the same 32-bit string hash: texts that are identified by their hash
		// somewhere (intern tables, caches) meet their twin within a run
		return gen.HashTwins[int(k>>8)%4]
	default:
		n = 1 + int(k>>8)%14
	}
	if n == 0 {
		return ""
	}
	a := alphabets[int(k>>20)%len(alphabets)]
	if (k>>20)%7 < 4 {
		a = alphabets[0]
	}
	b := make([]byte, n)
	off := int(k >> 32)
	for i := range b {
		b[i] = a[(off+i*7)%len(a)]
	}
	return string(b)
}

// Bytes draws a byte string (nil when empty and the next choice says so).
func (s *Stream) Bytes() []byte {
	k := s.Next()
	var n int
	switch {
	case k%20 == 0:
		n = []int{253, 254, 255, 256, 300}[int(k>>8)%5]
	case k%20 < 4:
		n = 0
	default:
		n = 1 + int(k>>8)%20
	}
	if n == 0 {
		if (k>>8)&1 == 1 {
			return nil
		}
		return []byte{}
	}
	b := make([]byte, n)
	for i := range b {
		b[i] = byte(k>>16) + byte(i*13)
	}
	return b
}

// ---- Fill -----------------------------------------------------------------------

// Opts control Fill.
type Opts struct {
	Unexported bool                  // also fill unexported fields (through unsafe)
	MaxSlice   int                   // maximum generated slice length (default 4)
	SkipTypes  map[reflect.Type]bool // field types left untouched
	SkipFields map[string]bool       // field names (Type.Field) left untouched
	Int3Fields map[string]bool       // int32 fields carried in 24 bits (Type.Field)
	NoZeroBias bool                  // do not leave one scalar field in five at its zero value
}

// Fill assigns generated values to every settable field reachable from v (a pointer).
func Fill(ptr interface{}, s *Stream, o *Opts) {
	if o == nil {
		o = &Opts{}
	}
	if o.MaxSlice == 0 {
		o.MaxSlice = 4
	}
	fill(reflect.ValueOf(ptr).Elem(), s, o, 0)
}

func settable(f reflect.Value) reflect.Value {
	if f.CanSet() {
		return f
	}
	if !f.CanAddr() {
		return reflect.Value{}
	}
	return reflect.NewAt(f.Type(), unsafe.Pointer(f.UnsafeAddr())).Elem()
}

func fill(v reflect.Value, s *Stream, o *Opts, depth int) {
	if o.SkipTypes[v.Type()] {
		return
	}
	switch v.Kind() {
	case reflect.Bool:
		v.SetBool(s.Bool())
	case reflect.Int8, reflect.Int16, reflect.Int32, reflect.Int64, reflect.Int:
		x := s.Int64()
		switch v.Kind() {
		case reflect.Int8:
			x = int64(int8(x))
		case reflect.Int16:
			x = int64(int16(x))
		case reflect.Int32:
			x = int64(int32(x))
		}
		v.SetInt(x)
	case reflect.Uint8, reflect.Uint16, reflect.Uint32, reflect.Uint64, reflect.Uint:
		x := uint64(s.Int64())
		switch v.Kind() {
		case reflect.Uint8:
			x = uint64(uint8(x))
		case reflect.Uint16:
			x = uint64(uint16(x))
		case reflect.Uint32:
			x = uint64(uint32(x))
		}
		v.SetUint(x)
	case reflect.Float32:
		v.SetFloat(float64(s.Float32()))
		// SetFloat converts through float64: signalling NaN payloads may be quieted; re-set the exact bits
	case reflect.Float64:
		v.SetFloat(s.Float64())
	case reflect.String:
		v.SetString(s.String())
	case reflect.Slice:
		if v.Type().Elem().Kind() == reflect.Uint8 {
			v.SetBytes(s.Bytes())
			return
		}
		n := s.LenSmall(o.MaxSlice)
		if n == 0 {
			if s.Bool() {
				v.Set(reflect.Zero(v.Type()))
			} else {
				v.Set(reflect.MakeSlice(v.Type(), 0, 0))
			}
			return
		}
		sl := reflect.MakeSlice(v.Type(), n, n)
		for i := 0; i < n; i++ {
			fill(sl.Index(i), s, o, depth+1)
		}
		v.Set(sl)
	case reflect.Array:
		for i := 0; i < v.Len(); i++ {
			fill(v.Index(i), s, o, depth+1)
		}
	case reflect.Ptr:
		et := v.Type().Elem()
		if et.Kind() == reflect.String {
			if s.Intn(4) == 0 {
				v.Set(reflect.Zero(v.Type()))
				return
			}
			str := s.String()
			v.Set(reflect.ValueOf(&str))
			return
		}
		if et.Kind() == reflect.Struct && depth < 6 && !o.SkipTypes[v.Type()] {
			if v.IsNil() {
				v.Set(reflect.New(et))
			}
			fill(v.Elem(), s, o, depth+1)
		}
	case reflect.Struct:
		t := v.Type()
		if t.PkgPath() == "sync" {
			return
		}
		for i := 0; i < v.NumField(); i++ {
			sf := t.Field(i)
			name := t.Name() + "." + sf.Name
			if o.SkipFields[name] || o.SkipTypes[sf.Type] {
				continue
			}
			f := v.Field(i)
			if !sf.IsExported() {
				if !o.Unexported {
					continue
				}
			}
			f = settable(f)
			if !f.IsValid() {
				continue
			}
			if o.Int3Fields[name] && f.Kind() == reflect.Int32 {
				f.SetInt(int64(int32(uint32(s.Int64())<<8) >> 8))
				continue
			}
			// one scalar / string field in five keeps its zero value: optional sections, "unset" markers and omitted
			// tails depend on particular fields being zero TOGETHER, which independent random values almost never are
			switch f.Kind() {
			case reflect.Int8, reflect.Int16, reflect.Int32, reflect.Int64, reflect.Int, reflect.String, reflect.Float32, reflect.Float64, reflect.Bool:
				if !o.NoZeroBias && s.Intn(5) == 0 {
					f.Set(reflect.Zero(f.Type()))
					continue
				}
			}
			fill(f, s, o, depth+1)
		}
	case reflect.Interface, reflect.Map, reflect.Chan, reflect.Func:
		// left to per-type fix-ups
	}
}

// Field returns a settable reflect.Value for the named (possibly unexported) field of the struct ptr points to.
func Field(ptr interface{}, name string) reflect.Value {
	v := reflect.ValueOf(ptr).Elem()
	f := v.FieldByName(name)
	if !f.IsValid() {
		panic("rfl: no field " + name + " in " + v.Type().String())
	}
	return settable(f)
}

// ---- canonical form --------------------------------------------------------------

// KV is one leaf of the canonical form.
type KV struct {
	Path string
	Val  string
}

// Hook turns a value of a special type into leaves; return handled=false to fall back to the generic walk.
type Hook func(path string, v reflect.Value, out *[]KV) (handled bool)

// Canon flattens x into (path, value) leaves. nil and empty slices are the same; floats are compared by bit pattern.
func Canon(x interface{}, hook Hook) []KV {
	var out []KV
	canon("", reflect.ValueOf(x), hook, &out, 0)
	return out
}

func canon(path string, v reflect.Value, hook Hook, out *[]KV, depth int) {
	if depth > 40 {
		*out = append(*out, KV{path, "<too deep>"})
		return
	}
	if !v.IsValid() {
		*out = append(*out, KV{path, "<nil>"})
		return
	}
	if hook != nil && hook(path, v, out) {
		return
	}
	switch v.Kind() {
	case reflect.Bool:
		*out = append(*out, KV{path, fmt.Sprint(v.Bool())})
	case reflect.Int8, reflect.Int16, reflect.Int32, reflect.Int64, reflect.Int:
		*out = append(*out, KV{path, fmt.Sprint(v.Int())})
	case reflect.Uint8, reflect.Uint16, reflect.Uint32, reflect.Uint64, reflect.Uint:
		*out = append(*out, KV{path, fmt.Sprint(v.Uint())})
	case reflect.Float32:
		*out = append(*out, KV{path, fmt.Sprintf("f32:%#x", math.Float32bits(float32(v.Float())))})
	case reflect.Float64:
		*out = append(*out, KV{path, fmt.Sprintf("f64:%#x", math.Float64bits(v.Float()))})
	case reflect.String:
		*out = append(*out, KV{path, "s:" + v.String()})
	case reflect.Slice, reflect.Array:
		if v.Type().Elem().Kind() == reflect.Uint8 {
			n := v.Len()
			b := make([]byte, n)
			for i := 0; i < n; i++ {
				b[i] = byte(v.Index(i).Uint())
			}
			*out = append(*out, KV{path, "b:" + gen.Hex(b)})
			return
		}
		*out = append(*out, KV{path + ".len", fmt.Sprint(v.Len())})
		for i := 0; i < v.Len(); i++ {
			canon(fmt.Sprintf("%s[%d]", path, i), v.Index(i), hook, out, depth+1)
		}
	case reflect.Ptr, reflect.Interface:
		if v.IsNil() {
			if v.Kind() == reflect.Ptr && v.Type().Elem().Kind() == reflect.String {
				*out = append(*out, KV{path, "s:"})
				return
			}
			*out = append(*out, KV{path, "<nil>"})
			return
		}
		canon(path, v.Elem(), hook, out, depth+1)
	case reflect.Struct:
		t := v.Type()
		if t.PkgPath() == "sync" {
			return
		}
		for i := 0; i < v.NumField(); i++ {
			f := v.Field(i)
			if !t.Field(i).IsExported() {
				if !f.CanAddr() {
					// copy to an addressable value to read unexported fields
					c := reflect.New(t).Elem()
					c.Set(v)
					f = c.Field(i)
				}
				f = reflect.NewAt(f.Type(), unsafe.Pointer(f.UnsafeAddr())).Elem()
			}
			p := t.Field(i).Name
			if path != "" {
				p = path + "." + p
			}
			canon(p, f, hook, out, depth+1)
		}
	case reflect.Map:
		keys := v.MapKeys()
		sort.Slice(keys, func(i, j int) bool { return fmt.Sprint(keys[i]) < fmt.Sprint(keys[j]) })
		*out = append(*out, KV{path + ".len", fmt.Sprint(len(keys))})
		for _, k := range keys {
			canon(fmt.Sprintf("%s{%v}", path, k), v.MapIndex(k), hook, out, depth+1)
		}
	default:
		*out = append(*out, KV{path, fmt.Sprintf("<%s>", v.Kind())})
	}
}

// Diff returns "" when the canonical forms agree on every leaf whose path is
// not ignored, otherwise a description of the first difference.
func Diff(a, b []KV, ignore func(path string) bool) string {
	fa := filter(a, ignore)
	fb := filter(b, ignore)
	n := len(fa)
	if len(fb) < n {
		n = len(fb)
	}
	for i := 0; i < n; i++ {
		if fa[i] != fb[i] {
			if fa[i].Path == fb[i].Path {
				return fmt.Sprintf("%s: %s  vs  %s", fa[i].Path, clip(fa[i].Val), clip(fb[i].Val))
			}
			return fmt.Sprintf("structure differs at leaf %d: %s=%s  vs  %s=%s", i, fa[i].Path, clip(fa[i].Val), fb[i].Path, clip(fb[i].Val))
		}
	}
	if len(fa) != len(fb) {
		var extra KV
		if len(fa) > n {
			extra = fa[n]
		} else {
			extra = fb[n]
		}
		return fmt.Sprintf("%d vs %d leaves; first extra: %s=%s", len(fa), len(fb), extra.Path, clip(extra.Val))
	}
	return ""
}

func filter(a []KV, ignore func(string) bool) []KV {
	if ignore == nil {
		return a
	}
	out := make([]KV, 0, len(a))
	for _, kv := range a {
		if !ignore(kv.Path) {
			out = append(out, kv)
		}
	}
	return out
}

func clip(s string) string {
	if len(s) > 80 {
		return s[:80] + "…"
	}
	return s
}

// IgnorePrefixes builds an ignore predicate from path prefixes / exact names.
func IgnorePrefixes(prefixes ...string) func(string) bool {
	return func(p string) bool {
		for _, x := range prefixes {
			if p == x || strings.HasPrefix(p, x+".") || strings.HasPrefix(p, x+"[") || strings.HasPrefix(p, x+"{") {
				return true
			}
		}
		return false
	}
}

// NonDefault counts leaves whose value is not a zero-ish default (for the non-triviality rule).
func NonDefault(a []KV) (nonDefault, total int) {
	for _, kv := range a {
		if strings.HasSuffix(kv.Path, ".len") {
			continue
		}
		total++
		switch kv.Val {
		case "0", "false", "s:", "b:", "<nil>", "f32:0x0", "f64:0x0":
		default:
			nonDefault++
		}
	}
	return
}
