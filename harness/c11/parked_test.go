package c11

// Two history shapes the producer/consumer accounting does not produce:
//
//   parked-consumers: consumers block in Get on an EMPTY queue, then the owner reconfigures the queue (clear, capacity
//   changes, empty-handed polls) while they are parked, and only then do elements arrive. Every consumer must come back
//   with one of them ("a blocking get returns as soon as an element is available ... including consumers that block
//   before the first producer arrives"); verdict from the hang limit, like every other blocking-get verdict here.
//
//   get-during-callback: the queue holds elements during the whole of a GetNoWait call that overlaps a put whose
//   Failed / Overflowed callback is still running. The queue was never empty while the call ran and nobody else removes
//   anything, so in every order of the two calls the sequential model lets the get return the head element; a nil is
//   an element that was there and was not delivered. (A timed get is only held to its own clause: nil only after the
//   timeout.) Holds under any schedule: the harness, not the clock, keeps the callback open until the get has returned
//   or is seen blocked.

import (
	"fmt"
	"runtime"
	"sync"
	"testing"
	"time"

	"github.com/whatap/golib/util/queue"
	"pgregory.net/rapid"
	"verif/pbt"
)

type ParkedCase struct {
	Double bool     `json:"double,omitempty"`
	Cons   int      `json:"cons"`
	Pre    []string `json:"pre"`  // while the consumers are parked: clear | cap0 | cap5 | capneg | nowait | timed | size | putclear (an element is put and the queue cleared at once is NOT used: a consumer may take it first)
	Puts   string   `json:"puts"` // one letter per arriving element: p put, f put-force; upper case = queue 2 of the double queue
}

func runParked(c ParkedCase) *pbt.Result {
	var (
		get    func() interface{}
		nowait func() interface{}
		timed  func(int) interface{}
		clear  func()
		setcap func(int)
		size   func() int
		put    func(letter byte, v interface{}) bool
	)
	if c.Double {
		q := queue.NewRequestDoubleQueue(0, 0)
		get, nowait, timed, clear, size = q.Get, q.GetNoWait, q.GetTimeout, q.Clear, q.Size
		setcap = func(n int) { q.SetCapacity(n, n) }
		put = func(l byte, v interface{}) bool {
			switch l {
			case 'p':
				return q.Put1(v)
			case 'f':
				return q.PutForce1(v)
			case 'P':
				return q.Put2(v)
			default:
				return q.PutForce2(v)
			}
		}
	} else {
		q := queue.NewRequestQueue(0)
		get, nowait, timed, clear, size, setcap = q.Get, q.GetNoWait, q.GetTimeout, q.Clear, q.Size, q.SetCapacity
		put = func(l byte, v interface{}) bool {
			if l == 'p' || l == 'P' {
				return q.Put(v)
			}
			return q.PutForce(v)
		}
	}
	buf := make([]byte, 1<<20)
	base := blockedInGet(buf)
	got := make(chan interface{}, c.Cons)
	for i := 0; i < c.Cons; i++ {
		go func() { got <- get() }()
	}
	limit := hangLimit()
	deadline := time.Now().Add(limit)
	for blockedInGet(buf) < base+c.Cons {
		if time.Now().After(deadline) {
			return &pbt.Result{Classes: []string{"consumers-not-parked"}} // machine too busy to set the scene: no verdict
		}
		time.Sleep(200 * time.Microsecond)
	}
	for _, op := range c.Pre {
		switch op {
		case "clear":
			clear()
		case "cap0":
			setcap(0)
		case "cap5":
			setcap(c.Cons + 5)
		case "capneg":
			setcap(-1)
		case "nowait":
			if v := nowait(); v != nil {
				return pbt.Fail("GetNoWait on a queue nothing was ever put into returned %v", v)
			}
		case "timed":
			if v := timed(2); v != nil {
				return pbt.Fail("GetTimeout on a queue nothing was ever put into returned %v", v)
			}
		case "size":
			if n := size(); n != 0 {
				return pbt.Fail("Size() = %d on a queue nothing was ever put into", n)
			}
		}
	}
	want := map[int]bool{}
	for i := 0; i < len(c.Puts); i++ {
		if !put(c.Puts[i], i+1) {
			// capacity is unbounded or above the number of elements: nothing may be refused or evicted
			return pbt.Fail("put #%d (%c) into a queue with room (capacity unbounded or %d, %d consumers waiting) returned false", i+1, c.Puts[i], c.Cons+5, c.Cons)
		}
		want[i+1] = true
	}
	expect := c.Cons
	if len(c.Puts) < expect {
		expect = len(c.Puts)
	}
	seen := map[int]bool{}
	timeout := time.After(limit)
	for n := 0; n < expect; n++ {
		select {
		case v := <-got:
			k, ok := v.(int)
			if !ok || !want[k] || seen[k] {
				return pbt.Fail("a consumer parked before the first put received %v (elements put: 1..%d, already delivered: %v)", v, len(c.Puts), seen)
			}
			seen[k] = true
		case <-timeout:
			hangSeen.Store(true)
			return pbt.Fail("%d consumers were parked in Get, the owner ran %v, then %d elements were accepted: after %v only %d consumers have returned, %d are still blocked, Size() = %d", c.Cons, c.Pre, len(c.Puts), limit, n, blockedInGet(buf)-base, size())
		}
	}
	// release the consumers that are still (legitimately) parked, and check that what is left is what was not delivered
	left := len(c.Puts) - expect
	for i := expect; i < c.Cons; i++ {
		put('p', -1)
	}
	for i := expect; i < c.Cons; i++ {
		select {
		case <-got:
		case <-time.After(limit):
			hangSeen.Store(true)
			return pbt.Fail("a consumer still parked after the history did not wake up for a further element within %v", limit)
		}
	}
	rest := 0
	for v := nowait(); v != nil; v = nowait() {
		if k, ok := v.(int); ok && k > 0 {
			if !want[k] || seen[k] {
				return pbt.Fail("draining: %v is not an undelivered element", v)
			}
			seen[k] = true
			rest++
		}
	}
	if rest != left {
		return pbt.Fail("%d elements were accepted, %d delivered to the parked consumers, but %d (not %d) are left in the queue", len(c.Puts), expect, rest, left)
	}
	reconf := false
	for _, op := range c.Pre {
		if op == "clear" || op[:3] == "cap" {
			reconf = true
		}
	}
	return &pbt.Result{NT: reconf && len(c.Puts) > 0, Classes: []string{fmt.Sprintf("double=%v", c.Double), fmt.Sprintf("reconfigured=%v", reconf)}}
}

var specParked = pbt.Register(pbt.Spec[ParkedCase]{
	Prop: "C11", Name: "parked-consumers",
	Rule:  "1-4 consumers confirmed parked in the blocking Get of an empty RequestQueue / RequestDoubleQueue; the owner then runs 0-4 of clear / set-capacity (unbounded, negative, above the number of elements) / empty-handed polls / size; then 0-6 elements arrive (plain and forced puts, either queue of the double queue): min(consumers, elements) consumers must return, each with a different one of the elements, the rest stays in the queue; verdict by the hang limit; non-trivial = the queue was cleared or reconfigured while consumers were parked and at least one element arrived; distinct by case",
	Quick: 400, Thorough: 20000,
	Draw: func(t *rapid.T) ParkedCase {
		c := ParkedCase{Double: rapid.Bool().Draw(t, "double"), Cons: rapid.IntRange(1, 4).Draw(t, "cons")}
		c.Pre = rapid.SliceOfN(rapid.SampledFrom([]string{"clear", "clear", "cap0", "cap5", "capneg", "nowait", "timed", "size"}), 0, 4).Draw(t, "pre")
		letters := []byte("pf")
		if c.Double {
			letters = []byte("pfPF")
		}
		n := rapid.IntRange(0, 6).Draw(t, "puts")
		for i := 0; i < n; i++ {
			c.Puts += string(rapid.SampledFrom(letters).Draw(t, "put"))
		}
		return c
	},
	Run: runParked,
})

func TestParkedConsumers(t *testing.T) {
	skipIfSeqFailed(t)
	for _, c := range []ParkedCase{
		{Cons: 1, Pre: []string{"clear"}, Puts: "p"},
		{Double: true, Cons: 1, Pre: []string{"clear"}, Puts: "p"},
		{Double: true, Cons: 2, Pre: []string{"clear", "clear"}, Puts: "PF"},
		{Cons: 3, Pre: []string{"cap5", "clear"}, Puts: "fff"},
	} {
		specParked.RunCase(t, c)
	}
	specParked.Check(t)
}

// ---- a get that overlaps a put whose callback is still running ------------------------------------------------

type HeldCase struct {
	Kind  string `json:"kind"` // failed | overflowed
	Get   string `json:"get"`  // nowait | timed
	Ms    int    `json:"ms,omitempty"`
	Extra int    `json:"extra"` // elements in the queue beyond the two the scenario needs
}

func runHeld(c HeldCase) *pbt.Result {
	capacity := 2 + c.Extra
	q := queue.NewRequestQueue(capacity)
	for i := 1; i <= capacity; i++ {
		q.Put(i)
	}
	entered, release := make(chan interface{}, 4), make(chan struct{})
	var once sync.Once
	hold := func(v interface{}) {
		entered <- v
		<-release
	}
	q.Failed, q.Overflowed = hold, hold
	defer once.Do(func() { close(release) })
	putDone := make(chan bool, 1)
	go func() {
		if c.Kind == "failed" {
			putDone <- q.Put(1000)
		} else {
			putDone <- q.PutForce(1000)
		}
	}()
	limit := hangLimit()
	var handed interface{}
	select {
	case handed = <-entered:
	case <-time.After(limit):
		hangSeen.Store(true)
		return pbt.Fail("a %s put into a full queue of %d did not reach its callback within %v", c.Kind, capacity, limit)
	}
	// from here until `release` is closed the queue holds: failed -> 1..capacity; overflowed -> 2..capacity (1 is in the
	// callback's hands) -- at least one element in either case, and its head is known
	head := 1
	if c.Kind == "overflowed" {
		head = 2
		if handed != 1 {
			return pbt.Fail("forced put into the full queue 1..%d handed %v to the overflow callback, not the oldest element", capacity, handed)
		}
	} else if handed != 1000 {
		return pbt.Fail("refused put handed %v to the failure callback, not the refused element", handed)
	}
	type res struct {
		v       interface{}
		elapsed time.Duration
	}
	getDone := make(chan res, 1)
	go func() {
		t0 := time.Now()
		var v interface{}
		if c.Get == "nowait" {
			v = q.GetNoWait()
		} else {
			v = q.GetTimeout(c.Ms)
		}
		getDone <- res{v, time.Since(t0)}
	}()
	// keep the callback open until the get has returned, or has been given ample time to be blocked behind the put
	var r res
	returned := false
	select {
	case r = <-getDone:
		returned = true
	case <-time.After(time.Duration(20+c.Ms) * time.Millisecond):
	}
	once.Do(func() { close(release) })
	if !returned {
		select {
		case r = <-getDone:
		case <-time.After(limit):
			hangSeen.Store(true)
			return pbt.Fail("%s did not return within %v after the %s callback it overlapped had returned", c.Get, limit, c.Kind)
		}
	}
	select {
	case <-putDone:
	case <-time.After(limit):
		hangSeen.Store(true)
		return pbt.Fail("the %s put did not return within %v after its callback returned", c.Kind, limit)
	}
	runtime.Gosched()
	cls := []string{c.Kind + "/" + c.Get, fmt.Sprintf("get-returned-while-callback-open=%v", returned)}
	if r.v == nil {
		if c.Get == "nowait" {
			return pbt.Fail("GetNoWait returned nil although the queue held %d..%d during the whole call (a %s put of another goroutine was inside its callback; nothing else removes elements)", head, capacity, c.Kind)
		}
		if r.elapsed < time.Duration(c.Ms)*time.Millisecond {
			return pbt.Fail("GetTimeout(%d) returned empty-handed after %v", c.Ms, r.elapsed)
		}
		return &pbt.Result{NT: true, Classes: append(cls, "timed-out-behind-the-callback")}
	}
	if r.v != head {
		return pbt.Fail("%s returned %v; the head of the queue during the whole call was %d (a %s put of another goroutine was inside its callback)", c.Get, r.v, head, c.Kind)
	}
	return &pbt.Result{NT: true, Classes: cls}
}

var specHeld = pbt.Register(pbt.Spec[HeldCase]{
	Prop: "C11", Name: "get-during-callback",
	Rule:  "a full RequestQueue 1..n (n = 2..5); another goroutine's plain put (refused: Failed callback) or forced put (evicts 1: Overflowed callback) is held inside its callback by the harness while a GetNoWait / GetTimeout(1..30 ms) runs; the callback is released when the get has returned or after 20 ms + timeout; the callback must have been handed the refused / the oldest element; GetNoWait must return the head of the queue (1, or 2 after the eviction) - the queue held it during the whole call; GetTimeout must return that head or, empty-handed, not before its timeout; every case is non-trivial; distinct by case",
	Quick: 120, Thorough: 4000,
	Draw: func(t *rapid.T) HeldCase {
		return HeldCase{Kind: rapid.SampledFrom([]string{"failed", "overflowed"}).Draw(t, "kind"), Get: rapid.SampledFrom([]string{"nowait", "nowait", "timed"}).Draw(t, "get"),
			Ms: rapid.IntRange(1, 30).Draw(t, "ms"), Extra: rapid.IntRange(0, 3).Draw(t, "extra")}
	},
	Run: runHeld,
})

func TestGetDuringCallback(t *testing.T) {
	skipIfSeqFailed(t)
	defer flushTimed("get-during-callback")
	specHeld.Check(t)
}
