// C11 Request queues are bounded FIFOs that lose, duplicate or strand nothing.
//
// Sub-checks of this package
//
//	seq-single   sequential state machine of RequestQueue against a slice+capacity model
//	seq-double   the same for RequestDoubleQueue (two slices, queue 1 served first)
//	conc-single  generated producer/consumer scenarios on RequestQueue, accounting oracle
//	conc-double  the same on RequestDoubleQueue, plus the priority rule under concurrency
//
// The models below are written from the property text (FIFO, capacity <= 0 means
// unbounded, refusal when full, oldest-first eviction on a forced put) and share
// no code with golib.
package c11

import (
	"fmt"
	"github.com/whatap/golib/util/dateutil"
	"os"
	"strconv"
	"strings"
	"sync"
	"sync/atomic"
	"testing"
	"time"

	"github.com/whatap/golib/util/queue"
	"pgregory.net/rapid"
	"verif/pbt"
)

func TestMain(m *testing.M) { pbt.Main(m, "C11") }

func TestReplay(t *testing.T) { pbt.Replay(t) }

// hangLimit is the single wall-clock bound of this property: an operation that
// must complete (a blocking Get while an element is available, a whole
// scenario that makes no progress) is reported after this long. 30 s is six
// orders of magnitude above a condition-variable wake-up.
//
// Once a hang has been reported in this process (the run is failing already),
// rapid re-executes variants of the failing case while shrinking; those
// re-executions use a 5 s limit so that shrinking terminates in reasonable time.
// A replay of the shrunk case runs in a fresh process with the full limit.
var hangSeen atomic.Bool

func hangLimit() time.Duration {
	d := baseHangLimit()
	if hangSeen.Load() && d > 5*time.Second {
		return 5 * time.Second
	}
	return d
}

func baseHangLimit() time.Duration {
	if v := os.Getenv("VERIF_C11_HANG_S"); v != "" {
		if n, err := strconv.Atoi(v); err == nil && n > 0 {
			return time.Duration(n) * time.Second
		}
	}
	return 30 * time.Second
}

// ---- the one-sided timeout rule ---------------------------------------------

// stamp is one reading of the clock: Go's time.Time carries the wall and the
// monotonic reading of the same instant.
type stamp struct{ t time.Time }

func clockNow() stamp { return stamp{time.Now()} }

// Measured for the evidence: how far the monotonic elapsed time of an
// empty-handed timed get stayed below its timeout (expected: below 1000 us, the
// granularity of the millisecond clock the queue uses), and how many were checked.
var (
	maxShortfallUs atomic.Int64
	emptyTimed     atomic.Int64
)

func flushTimed(sub string) {
	pbt.Extra(sub, "empty_handed_timed_gets_checked_so_far_in_this_process", emptyTimed.Load())
	pbt.Extra(sub, "max_us_by_which_monotonic_elapsed_stayed_below_timeout", maxShortfallUs.Load())
}

// tooEarly reports whether a timed get that came back empty-handed between the
// two readings returned before its timeout (milliseconds) had elapsed. The
// queue measures its timeout on the millisecond wall clock, so the elapsed time
// is counted in ticks of that clock (start tick read before the call, end tick
// read after it: for a correct queue end-start >= timeout always holds). To be
// sound against a wall-clock step during the call the monotonic elapsed time
// must be short as well. There is no upper bound of any kind.
func tooEarly(before, after stamp, timeoutMs int) (bool, string) {
	wall := after.t.UnixMilli() - before.t.UnixMilli()
	mono := after.t.Sub(before.t)
	if short := (time.Duration(timeoutMs)*time.Millisecond - mono).Microseconds(); short > maxShortfallUs.Load() {
		maxShortfallUs.Store(short) // measured for the evidence only (single writer at a time is not required: a lost update only loses a maximum)
	}
	emptyTimed.Add(1)
	if wall < int64(timeoutMs) && mono < time.Duration(timeoutMs)*time.Millisecond {
		return true, fmt.Sprintf("%d ms clock ticks / %v monotonic elapsed, timeout %d ms", wall, mono, timeoutMs)
	}
	return false, ""
}

// watched executes a sequential history in its own goroutine. The history
// announces every call before making it; when a call has not returned after
// hangLimit the history is reported as hanging at that call (for the blocking
// Get, which the histories only ever issue while an element is available, this
// is the "returns as soon as an element is available" clause; for any other call
// the queue has stopped working altogether).
func watched(run func(announce func(string)) *pbt.Result) *pbt.Result {
	var (
		mu   sync.Mutex
		step int64
		what string
	)
	announce := func(s string) {
		mu.Lock()
		step++
		what = s
		mu.Unlock()
	}
	type out struct {
		r *pbt.Result
		p interface{}
	}
	done := make(chan out, 1)
	go func() {
		var o out
		defer func() {
			o.p = recover()
			done <- o
		}()
		o.r = run(announce)
	}()
	tick := time.NewTicker(20 * time.Millisecond)
	defer tick.Stop()
	last, lastAt := int64(-1), time.Now()
	for {
		select {
		case o := <-done:
			if o.p != nil {
				panic(o.p) // becomes a violation in pbt.SafeRun, like any unexpected panic
			}
			return o.r
		case <-tick.C:
			mu.Lock()
			cur, w := step, what
			mu.Unlock()
			if cur != last {
				last, lastAt = cur, time.Now()
			} else if limit := hangLimit(); time.Since(lastAt) > limit {
				hangSeen.Store(true)
				return pbt.Fail("%s: the call did not return within %v", w, limit)
			}
		}
	}
}

// ---- sequential state machine: RequestQueue ---------------------------------

// SOp is one operation of a sequential history. The element put by the i-th
// operation is the integer i+1 (distinct, never nil).
type SOp struct {
	K string `json:"k"`           // put | force | get | nowait | timed | clear | cap | size
	A int    `json:"a,omitempty"` // timed: timeout in ms; cap: new capacity (queue 1)
	B int    `json:"b,omitempty"` // cap on the double queue: new capacity of queue 2
	J int    `json:"j,omitempty"` // timed: the agent's server-time offset (dateutil.SetDelta) changes by J ms while the get is waiting
}

// withJump runs call; when op.J != 0 the server-time offset is changed by J ms a fifth of the timeout into the call
// (a time sync with the collector arriving meanwhile) and restored afterwards. Timeouts are measured in elapsed time,
// whatever the agent currently believes the server's clock shows.
func withJump(op SOp, call func()) {
	if op.J == 0 {
		call()
		return
	}
	old := dateutil.GetDelta()
	done := make(chan struct{})
	go func() {
		defer close(done)
		time.Sleep(time.Duration(op.A) * time.Millisecond / 5)
		dateutil.SetDelta(old + int64(op.J))
	}()
	call()
	<-done
	dateutil.SetDelta(old)
}

type SeqCase struct {
	Cap    int   `json:"cap"`
	NoFail bool  `json:"nofail,omitempty"` // leave the Failed callback nil
	NoOver bool  `json:"noover,omitempty"` // leave the Overflowed callback nil
	Ops    []SOp `json:"ops"`
}

var capChoices = []int{-7, -1, 0, 1, 1, 2, 2, 3, 3, 4, 6, 10}

// drawWaitingTimeout draws a timeout of at least 1 ms (consumer loops of the concurrent scenarios).
func drawWaitingTimeout(t *rapid.T) int {
	if rapid.IntRange(0, 9).Draw(t, "long") == 0 {
		return rapid.IntRange(1, 30).Draw(t, "ms")
	}
	return rapid.IntRange(1, 6).Draw(t, "ms")
}

func drawTimeout(t *rapid.T) int {
	switch rapid.IntRange(0, 9).Draw(t, "long") {
	case 0:
		return rapid.IntRange(1, 30).Draw(t, "ms")
	case 1:
		// a timeout that has elapsed before the call starts (seed C11-s23): the get looks once and returns
		return rapid.SampledFrom([]int{0, 0, -1, -1000}).Draw(t, "elapsed-ms")
	}
	return rapid.IntRange(1, 6).Draw(t, "ms")
}

// drawOps draws the history length first so that long histories are as likely as short ones.
func drawOps(t *rapid.T, one func(*rapid.T) SOp) []SOp {
	n := rapid.IntRange(1, 60).Draw(t, "len")
	return rapid.SliceOfN(rapid.Custom(one), n, n).Draw(t, "ops")
}

func drawSOp(t *rapid.T) SOp {
	r := rapid.IntRange(0, 99).Draw(t, "kind")
	switch {
	case r < 32:
		return SOp{K: "put"}
	case r < 54:
		return SOp{K: "force"}
	case r < 67:
		return SOp{K: "nowait"}
	case r < 75:
		return SOp{K: "get"}
	case r < 82:
		return SOp{K: "timed", A: drawTimeout(t), J: rapid.SampledFrom([]int{0, 0, 0, 3600000, 60000, 50, -3}).Draw(t, "jump")}
	case r < 85:
		return SOp{K: "clear"}
	case r < 93:
		return SOp{K: "cap", A: rapid.SampledFrom(capChoices).Draw(t, "newcap")}
	}
	return SOp{K: "size"}
}

func ints(vs []interface{}) string {
	s := make([]string, len(vs))
	for i, v := range vs {
		s[i] = fmt.Sprint(v)
	}
	return "[" + strings.Join(s, " ") + "]"
}

func sameInts(a []interface{}, b []int) bool {
	if len(a) != len(b) {
		return false
	}
	for i := range a {
		if v, ok := a[i].(int); !ok || v != b[i] {
			return false
		}
	}
	return true
}

// fifo is the reference model of one bounded queue.
type fifo struct {
	q   []int
	cap int
}

// brief renders a model content for messages (long backlogs abbreviated).
func brief(q []int) string {
	if len(q) <= 16 {
		return fmt.Sprint(q)
	}
	return fmt.Sprintf("[%d %d %d … %d %d] (%d elements)", q[0], q[1], q[2], q[len(q)-2], q[len(q)-1], len(q))
}

func (m *fifo) full() bool { return m.cap > 0 && len(m.q) >= m.cap }

// put returns whether the element is accepted.
func (m *fifo) put(v int) bool {
	if m.full() {
		return false
	}
	m.q = append(m.q, v)
	return true
}

// force appends v after evicting oldest-first until there is room; it returns the evicted elements.
func (m *fifo) force(v int) (evicted []int) {
	for m.full() {
		evicted = append(evicted, m.q[0])
		m.q = m.q[1:]
	}
	m.q = append(m.q, v)
	return evicted
}

func (m *fifo) pop() (int, bool) {
	if len(m.q) == 0 {
		return 0, false
	}
	v := m.q[0]
	m.q = m.q[1:]
	return v, true
}

func runSeqSingle(c SeqCase) *pbt.Result {
	return watched(func(announce func(string)) *pbt.Result { return seqSingle(c, announce) })
}

func seqSingle(c SeqCase, announce func(string)) *pbt.Result {
	q := queue.NewRequestQueue(c.Cap)
	var failed, over []interface{}
	// the callbacks ask the queue for its size, as a callback that logs "queue full (n waiting)" does (seed C11-s22);
	// a refused put leaves the content unchanged, so the failure callback sees the size before the put
	var sizeInFailed []int
	if !c.NoFail {
		q.Failed = func(v interface{}) { sizeInFailed = append(sizeInFailed, q.Size()); failed = append(failed, v) }
	}
	if !c.NoOver {
		q.Overflowed = func(v interface{}) { _ = q.Size(); _ = q.GetCapacity(); over = append(over, v) }
	}
	m := &fifo{cap: c.Cap}
	cl := map[string]bool{}
	refusals, evictions := 0, 0
	for i, op := range c.Ops {
		v := i + 1
		nf, no := len(failed), len(over)
		var wantFailed, wantOver []int
		at := fmt.Sprintf("op %d (%s) with capacity %d and model content %s", i, op.K, m.cap, brief(m.q))
		announce(at)
		switch op.K {
		case "put":
			before := len(m.q)
			want := m.put(v)
			sizeInFailed = sizeInFailed[:0]
			got := q.Put(v)
			if got != want {
				return pbt.Fail("%s: Put(%d) returned %v, model says %v", at, v, got, want)
			}
			if !want && !c.NoFail && (len(sizeInFailed) != 1 || sizeInFailed[0] != before) {
				return pbt.Fail("%s: Size() read inside the failure callback of the refused Put(%d) = %v, the queue holds %d elements", at, v, sizeInFailed, before)
			}
			if !want {
				refusals++
				cl["refusal"] = true
				if !c.NoFail {
					wantFailed = []int{v}
				}
			}
		case "force":
			ev := m.force(v)
			got := q.PutForce(v)
			if len(ev) > 0 {
				evictions += len(ev)
				cl["eviction"] = true
				if len(ev) > 1 {
					cl["multi-eviction"] = true
				}
				if !c.NoOver {
					wantOver = ev
				}
			}
			cl[fmt.Sprintf("force-returned-%v-evicted-%v", got, len(ev) > 0)] = true // recorded, not asserted (the property does not state it)
		case "nowait", "get", "timed":
			head, have := m.pop()
			var got interface{}
			switch {
			case op.K == "get" && have:
				// the blocking Get is only ever called when an element is available (see watched)
				got = q.Get()
				cl["blocking-get"] = true
			case op.K == "timed":
				t0 := clockNow()
				withJump(op, func() { got = q.GetTimeout(op.A) })
				t1 := clockNow()
				if !have {
					cl["timed-get-empty"] = true
					if op.J != 0 {
						cl["timed-get-empty-during-server-time-change"] = true
					}
					if got == nil {
						if early, how := tooEarly(t0, t1, op.A); early {
							return pbt.Fail("%s: GetTimeout(%d) came back empty-handed before the timeout elapsed: %s", at, op.A, how)
						}
					}
				} else {
					cl["timed-get-nonempty"] = true
				}
			default:
				got = q.GetNoWait()
			}
			if have {
				if g, ok := got.(int); !ok || g != head {
					return pbt.Fail("%s: %s returned %v, the oldest element is %d", at, op.K, got, head)
				}
			} else if got != nil {
				return pbt.Fail("%s: %s returned %v from an empty queue", at, op.K, got)
			}
		case "clear":
			q.Clear()
			m.q = nil
			cl["clear"] = true
		case "cap":
			if op.A > 0 && op.A < len(m.q) {
				cl["capacity-below-size"] = true
			}
			if op.A <= 0 {
				cl["set-unbounded"] = true
			}
			q.SetCapacity(op.A)
			m.cap = op.A
		case "size":
		default:
			panic("unknown op " + op.K)
		}
		if got := failed[nf:]; !sameInts(got, wantFailed) {
			return pbt.Fail("%s: Failed callback received %s, expected %v", at, ints(got), wantFailed)
		}
		if got := over[no:]; !sameInts(got, wantOver) {
			return pbt.Fail("%s: Overflowed callback received %s, expected %v (oldest first)", at, ints(got), wantOver)
		}
		if s := q.Size(); s != len(m.q) {
			return pbt.Fail("%s: Size() = %d afterwards, model holds %d elements %v", at, s, len(m.q), m.q)
		}
	}
	// what is left must come out in model order
	announce("final drain with GetNoWait")
	var rest []interface{}
	for n := 0; n <= len(m.q); n++ {
		v := q.GetNoWait()
		if v == nil {
			break
		}
		rest = append(rest, v)
	}
	if !sameInts(rest, m.q) {
		return pbt.Fail("after the history the queue drains as %s, model content is %v", ints(rest), m.q)
	}
	if v := q.GetNoWait(); v != nil {
		return pbt.Fail("after draining %d elements the queue still returns %v", len(rest), v)
	}
	if c.Cap <= 0 {
		cl["initially-unbounded"] = true
	}
	return &pbt.Result{NT: refusals+evictions > 0, Classes: keys(cl)}
}

func keys(m map[string]bool) []string {
	var out []string
	for k := range m {
		out = append(out, k)
	}
	return out
}

var specSeqSingle = pbt.Register(pbt.Spec[SeqCase]{
	Prop: "C11", Name: "seq-single",
	Rule:  "rapid-generated histories of 1-60 operations (put, put-force, blocking get only when non-empty, get-no-wait, get-timeout 1-30 ms and, one in ten, 0 / -1 / -1000 ms (in three of seven cases the server-time offset of dateutil changes by -3 ms .. +1 h while the get waits; the timeout is elapsed time), clear, set-capacity incl. 0/negative/below current size, size) on one RequestQueue with recording Failed/Overflowed callbacks that read Size()/GetCapacity() (each sometimes left nil); unbounded queues with a backlog of 70000 in the boundary histories, compared step by step with a slice+capacity model; non-trivial = history with at least one refused put or one eviction; distinct by operation sequence",
	Quick: 8000, Thorough: 400000,
	Draw: func(t *rapid.T) SeqCase {
		return SeqCase{
			Cap:    rapid.SampledFrom(capChoices).Draw(t, "cap"),
			NoFail: rapid.IntRange(0, 11).Draw(t, "nofail") == 0,
			NoOver: rapid.IntRange(0, 11).Draw(t, "noover") == 0,
			Ops:    drawOps(t, drawSOp),
		}
	},
	Run: runSeqSingle,
})

// seqFailed is set when a sequential sub-check failed in this process. The
// concurrent sub-checks are then skipped: the run is failing already, and a queue
// that is broken sequentially can spin or block forever under load.
var seqFailed atomic.Bool

func noteSeq(t *testing.T) {
	if t.Failed() {
		seqFailed.Store(true)
	}
}

func TestSeqSingle(t *testing.T) {
	defer noteSeq(t)
	defer flushTimed("seq-single")
	specSeqSingle.Check(t)
}

func rep(k string, n int) []SOp {
	out := make([]SOp, n)
	for i := range out {
		out[i] = SOp{K: k}
	}
	return out
}

func cat(parts ...[]SOp) []SOp {
	var out []SOp
	for _, p := range parts {
		out = append(out, p...)
	}
	return out
}

// Hand-written boundary histories, run through the same machinery.
func TestSeqSingleBoundaries(t *testing.T) {
	defer noteSeq(t)
	for _, c := range []SeqCase{
		{Cap: 1, Ops: cat(rep("put", 3), rep("force", 3), rep("get", 2))},
		{Cap: 3, Ops: cat(rep("put", 5), rep("nowait", 5))},
		{Cap: 3, Ops: cat(rep("force", 7), rep("get", 4))},
		{Cap: 0, Ops: cat(rep("put", 40), rep("force", 10), rep("nowait", 51))},
		{Cap: -1, Ops: cat(rep("put", 5), []SOp{{K: "cap", A: 2}}, rep("put", 1), rep("force", 1), rep("nowait", 3))},
		{Cap: 6, Ops: cat(rep("put", 6), []SOp{{K: "cap", A: 1}}, rep("force", 2), rep("get", 2))},
		{Cap: 2, Ops: cat(rep("put", 3), []SOp{{K: "cap", A: 0}}, rep("put", 3), []SOp{{K: "cap", A: -7}}, rep("force", 3), rep("nowait", 9))},
		{Cap: 2, Ops: cat(rep("put", 2), rep("clear", 1), rep("put", 3), rep("get", 2), rep("nowait", 1))},
		{Cap: 2, Ops: []SOp{{K: "timed", A: 1}, {K: "timed", A: 2}, {K: "timed", A: 3}, {K: "timed", A: 30}, {K: "put"}, {K: "timed", A: 30}, {K: "timed", A: 7}}},
		{Cap: 2, NoFail: true, NoOver: true, Ops: cat(rep("put", 4), rep("force", 3), rep("nowait", 3))},
		{Cap: 1, Ops: cat(rep("put", 1), rep("get", 1), rep("put", 1), rep("get", 1), rep("put", 2), rep("nowait", 2))},
		{Cap: 2, Ops: []SOp{{K: "timed", A: 0}, {K: "timed", A: -1}, {K: "put"}, {K: "timed", A: 0}, {K: "timed", A: -1000}, {K: "timed", A: 0}}},
		// unbounded means unbounded: backlogs beyond 2^16 (seed C11-s24)
		{Cap: 0, Ops: cat(rep("put", 66000), rep("force", 10), rep("put", 10), rep("nowait", 5), rep("size", 1))},
		{Cap: -1, Ops: cat(rep("force", 33000), rep("put", 33000), rep("force", 3), rep("get", 5))},
		{Cap: 3, Ops: cat(rep("put", 4), []SOp{{K: "cap", A: 0}}, rep("put", 65600), rep("force", 2), rep("nowait", 3))},
	} {
		specSeqSingle.RunCase(t, c)
	}
}

// ---- sequential state machine: RequestDoubleQueue -----------------------------

// DOp kinds: put1 put2 force1 force2 get nowait timed clear cap size.
type DSeqCase struct {
	Cap1 int   `json:"cap1"`
	Cap2 int   `json:"cap2"`
	Ops  []SOp `json:"ops"`
}

func drawDOp(t *rapid.T) SOp {
	r := rapid.IntRange(0, 99).Draw(t, "kind")
	switch {
	case r < 16:
		return SOp{K: "put1"}
	case r < 32:
		return SOp{K: "put2"}
	case r < 43:
		return SOp{K: "force1"}
	case r < 54:
		return SOp{K: "force2"}
	case r < 67:
		return SOp{K: "nowait"}
	case r < 75:
		return SOp{K: "get"}
	case r < 82:
		return SOp{K: "timed", A: drawTimeout(t), J: rapid.SampledFrom([]int{0, 0, 0, 3600000, 60000, 50, -3}).Draw(t, "jump")}
	case r < 85:
		return SOp{K: "clear"}
	case r < 93:
		return SOp{K: "cap", A: rapid.SampledFrom(capChoices).Draw(t, "newcap1"), B: rapid.SampledFrom(capChoices).Draw(t, "newcap2")}
	}
	return SOp{K: "size"}
}

func joinInts(q []int) string {
	s := make([]string, len(q))
	for i, v := range q {
		s[i] = strconv.Itoa(v)
	}
	return strings.Join(s, ",")
}

func runSeqDouble(c DSeqCase) *pbt.Result {
	return watched(func(announce func(string)) *pbt.Result { return seqDouble(c, announce) })
}

func seqDouble(c DSeqCase, announce func(string)) *pbt.Result {
	q := queue.NewRequestDoubleQueue(c.Cap1, c.Cap2)
	m := [3]*fifo{nil, {cap: c.Cap1}, {cap: c.Cap2}}
	cl := map[string]bool{}
	refusals, evictions := 0, 0
	for i, op := range c.Ops {
		v := i + 1
		at := fmt.Sprintf("op %d (%s) with capacities %d/%d and model content %s / %s", i, op.K, m[1].cap, m[2].cap, brief(m[1].q), brief(m[2].q))
		announce(at)
		switch op.K {
		case "put1", "put2":
			k := int(op.K[3] - '0')
			want := m[k].put(v)
			var got bool
			if k == 1 {
				got = q.Put1(v)
			} else {
				got = q.Put2(v)
			}
			if got != want {
				return pbt.Fail("%s: Put%d(%d) returned %v, model says %v", at, k, v, got, want)
			}
			if !want {
				refusals++
				cl["refusal"] = true
			}
		case "force1", "force2":
			k := int(op.K[5] - '0')
			ev := m[k].force(v)
			if k == 1 {
				q.PutForce1(v)
			} else {
				q.PutForce2(v)
			}
			if len(ev) > 0 {
				evictions += len(ev)
				cl["eviction"] = true
				if len(ev) > 1 {
					cl["multi-eviction"] = true
				}
			}
		case "nowait", "get", "timed":
			head, have := m[1].pop()
			if have && len(m[2].q) > 0 {
				cl["queue1-served-while-queue2-waits"] = true
			}
			if !have {
				head, have = m[2].pop()
			}
			var got interface{}
			switch {
			case op.K == "get" && have:
				got = q.Get()
				cl["blocking-get"] = true
			case op.K == "timed":
				t0 := clockNow()
				withJump(op, func() { got = q.GetTimeout(op.A) })
				t1 := clockNow()
				if !have {
					cl["timed-get-empty"] = true
					if op.J != 0 {
						cl["timed-get-empty-during-server-time-change"] = true
					}
					if got == nil {
						if early, how := tooEarly(t0, t1, op.A); early {
							return pbt.Fail("%s: GetTimeout(%d) came back empty-handed before the timeout elapsed: %s", at, op.A, how)
						}
					}
				} else {
					cl["timed-get-nonempty"] = true
				}
			default:
				got = q.GetNoWait()
			}
			if have {
				if g, ok := got.(int); !ok || g != head {
					return pbt.Fail("%s: %s returned %v, expected %d (queue 1 first, each queue oldest first)", at, op.K, got, head)
				}
			} else if got != nil {
				return pbt.Fail("%s: %s returned %v from an empty double queue", at, op.K, got)
			}
		case "clear":
			q.Clear()
			m[1].q, m[2].q = nil, nil
			cl["clear"] = true
		case "cap":
			if (op.A > 0 && op.A < len(m[1].q)) || (op.B > 0 && op.B < len(m[2].q)) {
				cl["capacity-below-size"] = true
			}
			q.SetCapacity(op.A, op.B)
			m[1].cap, m[2].cap = op.A, op.B
		case "size":
		default:
			panic("unknown op " + op.K)
		}
		if s1, s2, s := q.Size1(), q.Size2(), q.Size(); s1 != len(m[1].q) || s2 != len(m[2].q) || s != s1+s2 {
			return pbt.Fail("%s: Size1/Size2/Size = %d/%d/%d afterwards, model holds %s / %s", at, s1, s2, s, brief(m[1].q), brief(m[2].q))
		}
		// content, observed without removing anything (the elements are integers)
		// (long backlogs: after every 1000th operation and after the last, the rendering is linear in the content)
		if len(m[1].q)+len(m[2].q) <= 200 || i%1000 == 0 || i == len(c.Ops)-1 {
			if g1, g2 := q.ToString1(), q.ToString2(); g1 != joinInts(m[1].q) || g2 != joinInts(m[2].q) {
				return pbt.Fail("%s: content afterwards is [%.300s] / [%.300s], model holds %s / %s", at, g1, g2, brief(m[1].q), brief(m[2].q))
			}
		}
	}
	want := append(append([]int(nil), m[1].q...), m[2].q...)
	announce("final drain with GetNoWait")
	var rest []interface{}
	for n := 0; n <= len(want); n++ {
		v := q.GetNoWait()
		if v == nil {
			break
		}
		rest = append(rest, v)
	}
	if !sameInts(rest, want) {
		return pbt.Fail("after the history the double queue drains as %s, expected %v (all of queue 1, then queue 2)", ints(rest), want)
	}
	return &pbt.Result{NT: refusals+evictions > 0, Classes: keys(cl)}
}

var specSeqDouble = pbt.Register(pbt.Spec[DSeqCase]{
	Prop: "C11", Name: "seq-double",
	Rule:  "rapid-generated histories of 1-60 operations (put1/2, put-force1/2, blocking get only when non-empty, get-no-wait, get-timeout 1-30 ms and, one in ten, 0 / -1 / -1000 ms (in three of seven cases the server-time offset of dateutil changes by -3 ms .. +1 h while the get waits; the timeout is elapsed time), clear, set-capacity, size) on one RequestDoubleQueue compared step by step with a two-slice model that serves queue 1 first; refusal/eviction observed through return values, Size1/Size2 and content (the callbacks are unexported); non-trivial = history with at least one refused put or one eviction; distinct by operation sequence",
	Quick: 6000, Thorough: 300000,
	Draw: func(t *rapid.T) DSeqCase {
		return DSeqCase{
			Cap1: rapid.SampledFrom(capChoices).Draw(t, "cap1"),
			Cap2: rapid.SampledFrom(capChoices).Draw(t, "cap2"),
			Ops:  drawOps(t, drawDOp),
		}
	},
	Run: runSeqDouble,
})

func TestSeqDouble(t *testing.T) {
	defer noteSeq(t)
	defer flushTimed("seq-double")
	specSeqDouble.Check(t)
}

func TestSeqDoubleBoundaries(t *testing.T) {
	defer noteSeq(t)
	for _, c := range []DSeqCase{
		{Cap1: 2, Cap2: 2, Ops: cat(rep("put2", 3), rep("put1", 3), rep("get", 4), rep("nowait", 1))},
		{Cap1: 1, Cap2: 1, Ops: cat(rep("force2", 3), rep("force1", 3), rep("get", 2))},
		{Cap1: 0, Cap2: -1, Ops: cat(rep("put2", 20), rep("put1", 20), rep("nowait", 41))},
		{Cap1: 3, Cap2: 3, Ops: cat(rep("put1", 3), rep("put2", 3), []SOp{{K: "cap", A: 1, B: 1}}, rep("force1", 1), rep("force2", 1), rep("put1", 1), rep("put2", 1), rep("nowait", 3))},
		{Cap1: 2, Cap2: 2, Ops: []SOp{{K: "timed", A: 2}, {K: "put2"}, {K: "timed", A: 9}, {K: "put2"}, {K: "put1"}, {K: "timed", A: 9}, {K: "timed", A: 9}, {K: "timed", A: 4}}},
		{Cap1: 2, Cap2: 2, Ops: cat(rep("put1", 2), rep("put2", 2), rep("clear", 1), rep("put2", 1), rep("put1", 1), rep("get", 2))},
		{Cap1: 2, Cap2: 2, Ops: []SOp{{K: "timed", A: 0}, {K: "timed", A: -1}, {K: "put2"}, {K: "timed", A: 0}, {K: "timed", A: -1000}}},
		{Cap1: 0, Cap2: 2, Ops: cat(rep("put1", 66000), rep("force1", 5), rep("put1", 5), rep("put2", 3), rep("nowait", 4))},
		{Cap1: 2, Cap2: -1, Ops: cat(rep("put2", 33000), rep("force2", 33000), rep("put2", 5), rep("put1", 3), rep("get", 4))},
	} {
		specSeqDouble.RunCase(t, c)
	}
}
