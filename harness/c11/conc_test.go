package c11

// Concurrent accounting: P producers, C consumers, one queue. Every oracle below
// is a consequence of the property for ANY goroutine schedule:
//
//   - every element is put by exactly one goroutine, every sighting (delivery to a
//     consumer, Overflowed callback, Failed callback, final drain) is recorded;
//   - accepted = delivered + evicted + left as multisets, nothing seen twice;
//   - order: each consumer calls Get sequentially, so its sequence is a
//     subsequence of the removal order; a producer puts sequentially, so its
//     elements enter (one queue) in index order;
//   - "definitely before" between operations of different goroutines is taken
//     from a shared atomic counter read before each call and after each return
//     (a.done < b.inv  =>  a completed before b began), never from the clock.
//
// The only wall-clock bound is the hang detector (no progress at all for 30 s).

import (
	"fmt"
	"runtime"
	"strings"
	"sync"
	"sync/atomic"
	"testing"
	"time"

	"github.com/whatap/golib/util/queue"
	"pgregory.net/rapid"
	"verif/pbt"
)

// elem is what travels through the queue: element I of producer P (P < 0: a poison
// element that tells a consumer to stop).
type elem struct{ P, I int }

func (e elem) String() string { return fmt.Sprintf("(%d,%d)", e.P, e.I) }

type Prod struct {
	Ops  string `json:"ops"`            // one letter per element: p put, f put-force; on the double queue lower case = queue 1, upper case (P, F) = queue 2
	Pace int    `json:"pace,omitempty"` // 0 no yields, 1 Gosched before every op, 2 Gosched before every 4th, 3 a 20 us sleep before every 8th
}

type Cons struct {
	Timed int `json:"timed,omitempty"` // 0: blocking Get; > 0: GetTimeout(Timed ms) in a loop
	Quota int `json:"quota,omitempty"` // stop after this many elements (0: stop only at a poison element)
}

type ConcCase struct {
	Cap     int    `json:"cap"`
	Cap2    int    `json:"cap2,omitempty"`    // double queue only
	Phase   string `json:"phase"`             // consumers-first | together | producers-first
	PoisonQ int    `json:"poisonq,omitempty"` // double queue: which queue receives the poison elements
	Prods   []Prod `json:"prods"`
	Cons    []Cons `json:"cons"`
}

type putRec struct {
	e         elem
	k         int // queue number (1, or 2 on the double queue)
	force     bool
	ret       bool
	inv, done int64
}

type rmRec struct { // one removal: a delivery or an eviction
	e       elem
	low, up int64 // the removal happened after low and before up (counter values)
	by      string
}

type api struct {
	put, force func(k int, v interface{}) bool
	get        func() interface{}
	timed      func(ms int) interface{}
	nowait     func() interface{}
	size       func() int
	sizeOf     func(k int) int
}

// blockedInGet counts goroutines parked in the condition variable of a request queue.
func blockedInGet(buf []byte) int {
	n := runtime.Stack(buf, true)
	cnt := 0
	for _, g := range strings.Split(string(buf[:n]), "\n\n") {
		if strings.Contains(g, "sync.(*Cond).Wait") && strings.Contains(g, "util/queue.(*Request") {
			cnt++
		}
	}
	return cnt
}

func runConc(c ConcCase, double bool) *pbt.Result {
	var (
		seq          atomic.Int64 // logical clock for "definitely before"
		progress     atomic.Int64
		abort        atomic.Bool
		live         atomic.Int32
		logMu        sync.Mutex
		failed       []interface{}
		failedPoison int
		over         []rmRec
		overBad      []interface{}
	)
	// a callback cannot legitimately be called more often than there are puts; the logs stop growing there
	logCap := 64 + len(c.Cons)
	for _, p := range c.Prods {
		logCap += len(p.Ops)
	}
	caps := [3]int{0, c.Cap, c.Cap2}
	nq := 1
	var a api
	if !double {
		q := queue.NewRequestQueue(c.Cap)
		q.Failed = func(v interface{}) {
			logMu.Lock()
			if e, ok := v.(elem); ok && e.P < 0 {
				failedPoison++
			} else if len(failed) < logCap {
				failed = append(failed, v)
			}
			logMu.Unlock()
		}
		q.Overflowed = func(v interface{}) {
			at := seq.Add(1)
			logMu.Lock()
			if e, ok := v.(elem); ok && len(over) < logCap {
				low := int64(0)
				if len(over) > 0 {
					low = over[len(over)-1].up
				}
				over = append(over, rmRec{e: e, low: low, up: at, by: "Overflowed"})
			} else if len(overBad) < 4 {
				overBad = append(overBad, v)
			}
			logMu.Unlock()
		}
		a = api{
			put:    func(k int, v interface{}) bool { return q.Put(v) },
			force:  func(k int, v interface{}) bool { return q.PutForce(v) },
			get:    q.Get,
			timed:  q.GetTimeout,
			nowait: q.GetNoWait,
			size:   q.Size,
			sizeOf: func(int) int { return q.Size() },
		}
	} else {
		nq = 2
		q := queue.NewRequestDoubleQueue(c.Cap, c.Cap2)
		a = api{
			put: func(k int, v interface{}) bool {
				if k == 2 {
					return q.Put2(v)
				}
				return q.Put1(v)
			},
			force: func(k int, v interface{}) bool {
				if k == 2 {
					return q.PutForce2(v)
				}
				return q.PutForce1(v)
			},
			get:    q.Get,
			timed:  q.GetTimeout,
			nowait: q.GetNoWait,
			size:   q.Size,
			sizeOf: func(k int) int {
				if k == 2 {
					return q.Size2()
				}
				return q.Size1()
			},
		}
	}
	poisonQ := 1
	if double && c.PoisonQ == 2 {
		poisonQ = 2
	}

	// ---- goroutines ----
	puts := make([][]putRec, len(c.Prods))
	recv := make([][]rmRec, len(c.Cons))
	consErr := make([]string, len(c.Cons))
	inGet := make([]atomic.Bool, len(c.Cons))
	nilTimed := make([]int, len(c.Cons))
	var prodWG, consWG sync.WaitGroup
	gate := make(chan struct{})
	var prodsLeft atomic.Int32
	prodsLeft.Store(int32(len(c.Prods)))

	producer := func(p int, wait bool) {
		defer prodWG.Done()
		defer prodsLeft.Add(-1)
		if wait {
			<-gate
		}
		pr := c.Prods[p]
		recs := make([]putRec, 0, len(pr.Ops))
		for i := 0; i < len(pr.Ops); i++ {
			switch pr.Pace {
			case 1:
				runtime.Gosched()
			case 2:
				if i%4 == 3 {
					runtime.Gosched()
				}
			case 3:
				if i%8 == 7 {
					time.Sleep(20 * time.Microsecond)
				}
			}
			ch := pr.Ops[i]
			r := putRec{e: elem{p, i}, k: 1, force: ch == 'f' || ch == 'F'}
			if double && (ch == 'P' || ch == 'F') {
				r.k = 2
			}
			r.inv = seq.Add(1)
			if r.force {
				r.ret = a.force(r.k, r.e)
			} else {
				r.ret = a.put(r.k, r.e)
			}
			r.done = seq.Add(1)
			recs = append(recs, r)
			progress.Add(1)
		}
		puts[p] = recs
	}
	consumer := func(ci int, wait bool) {
		defer consWG.Done()
		defer live.Add(-1)
		if wait {
			<-gate
		}
		cs := c.Cons[ci]
		var got []rmRec
		defer func() { recv[ci] = got }()
		for {
			if cs.Quota > 0 && len(got) >= cs.Quota {
				return
			}
			if abort.Load() {
				return
			}
			var v interface{}
			inv := seq.Add(1)
			inGet[ci].Store(true)
			if cs.Timed > 0 {
				t0 := clockNow()
				v = a.timed(cs.Timed)
				t1 := clockNow()
				if v == nil {
					nilTimed[ci]++
					if early, how := tooEarly(t0, t1, cs.Timed); early && consErr[ci] == "" {
						consErr[ci] = fmt.Sprintf("consumer %d: GetTimeout(%d) came back empty-handed before the timeout elapsed: %s", ci, cs.Timed, how)
					}
				}
			} else {
				v = a.get()
			}
			inGet[ci].Store(false)
			done := seq.Add(1)
			if v == nil {
				if cs.Timed == 0 {
					if consErr[ci] == "" {
						consErr[ci] = fmt.Sprintf("consumer %d: blocking Get returned nil instead of an element", ci)
					}
					return
				}
				continue
			}
			progress.Add(1)
			e, ok := v.(elem)
			if !ok {
				consErr[ci] = fmt.Sprintf("consumer %d received %v, which was never put", ci, v)
				return
			}
			if e.P < 0 {
				return
			}
			got = append(got, rmRec{e: e, low: inv, up: done, by: fmt.Sprintf("consumer %d", ci)})
		}
	}

	// await waits for ch; it gives up when nothing at all progressed for hangLimit.
	await := func(ch <-chan struct{}) bool {
		last, lastAt := progress.Load(), time.Now()
		tick := time.NewTicker(10 * time.Millisecond)
		defer tick.Stop()
		for {
			select {
			case <-ch:
				return true
			case <-tick.C:
				if p := progress.Load(); p != last {
					last, lastAt = p, time.Now()
				} else if time.Since(lastAt) > hangLimit() {
					return false
				}
			}
		}
	}
	waitCh := func(wg *sync.WaitGroup) <-chan struct{} {
		ch := make(chan struct{})
		go func() { wg.Wait(); close(ch) }()
		return ch
	}
	stalled := func(stage string) *pbt.Result {
		limit := hangLimit()
		hangSeen.Store(true)
		nIn := 0
		for i := range inGet {
			if inGet[i].Load() {
				nIn++
			}
		}
		sz := a.size()
		msg := fmt.Sprintf("%s: no progress for %v: %d producer(s) unfinished, %d consumer(s) alive, %d inside Get/GetTimeout, Size()=%d",
			stage, limit, prodsLeft.Load(), live.Load(), nIn, sz)
		if nIn > 0 && sz > 0 {
			msg += " - a consumer is still blocked although an accepted element is waiting (lost wake-up)"
		}
		// best effort to release what is stuck
		abort.Store(true)
		go func() {
			for range c.Cons {
				a.force(poisonQ, elem{-1, -1})
			}
		}()
		select {
		case <-waitCh(&consWG):
		case <-time.After(2 * time.Second):
		}
		return pbt.Fail("%s", msg)
	}

	blockedFirst := 0
	live.Store(int32(len(c.Cons)))
	consWG.Add(len(c.Cons))
	prodWG.Add(len(c.Prods))
	preloadNote := ""
	switch c.Phase {
	case "consumers-first":
		nBlocking := 0
		for _, cs := range c.Cons {
			if cs.Timed == 0 {
				nBlocking++
			}
		}
		buf := make([]byte, 1<<18)
		base := blockedInGet(buf)
		for ci := range c.Cons {
			go consumer(ci, false)
		}
		for try := 0; try < 400; try++ {
			blockedFirst = blockedInGet(buf) - base
			if blockedFirst >= nBlocking {
				break
			}
			time.Sleep(50 * time.Microsecond)
		}
		if blockedFirst < 0 {
			blockedFirst = 0
		}
		for p := range c.Prods {
			go producer(p, false)
		}
	case "producers-first":
		for p := range c.Prods {
			go producer(p, true)
		}
		close(gate)
		if !await(waitCh(&prodWG)) {
			consWG.Add(-len(c.Cons))
			return stalled("producers alone")
		}
		// nothing has been consumed yet: the queue must hold accepted - evicted elements, within its bound
		for k := 1; k <= nq; k++ {
			acc, forces := 0, 0
			for _, rs := range puts {
				for _, r := range rs {
					if r.k == k {
						if r.force {
							forces++
							acc++
						} else if r.ret {
							acc++
						}
					}
				}
			}
			sz := a.sizeOf(k)
			if caps[k] > 0 && sz > caps[k] {
				preloadNote = fmt.Sprintf("queue %d holds %d elements after the producers finished, capacity is %d", k, sz, caps[k])
			}
			if !double {
				if want := acc - len(over); sz != want {
					preloadNote = fmt.Sprintf("before any consumer started: %d accepted, %d evicted, but Size()=%d", acc, len(over), sz)
				}
			} else if sz > acc || (forces == 0 && sz != acc) || (caps[k] <= 0 && sz != acc) {
				preloadNote = fmt.Sprintf("before any consumer started: queue %d accepted %d elements (%d forced puts) but holds %d", k, acc, forces, sz)
			}
		}
		for ci := range c.Cons {
			go consumer(ci, false)
		}
	default: // together
		for ci := range c.Cons {
			go consumer(ci, true)
		}
		for p := range c.Prods {
			go producer(p, true)
		}
		close(gate)
	}
	if c.Phase != "producers-first" {
		if !await(waitCh(&prodWG)) {
			return stalled("producers and consumers")
		}
	}
	// all producers are done: send one poison element per consumer
	poisonRefused := 0
	closerDone := make(chan struct{})
	go func() {
		defer close(closerDone)
		for k := range c.Cons {
			backoff := 10 * time.Microsecond
			for {
				if live.Load() == 0 || abort.Load() {
					return
				}
				if a.put(poisonQ, elem{-1, k}) {
					progress.Add(1)
					break
				}
				poisonRefused++
				time.Sleep(backoff)
				if backoff < time.Millisecond {
					backoff *= 2
				}
			}
		}
	}()
	if !await(waitCh(&consWG)) {
		r := stalled("after the last producer finished")
		<-closerDone
		return r
	}
	<-closerDone

	// ---- quiescent: everything has stopped, drain what is left ----
	sizeAtEnd := a.size()
	total := 0
	for _, rs := range puts {
		total += len(rs)
	}
	var left []elem
	leftPoison, drained := 0, 0
	for ; drained <= total+len(c.Cons)+1; drained++ {
		v := a.nowait()
		if v == nil {
			break
		}
		e, ok := v.(elem)
		if !ok {
			return pbt.Fail("final drain returned %v, which was never put", v)
		}
		if e.P < 0 {
			leftPoison++
		} else {
			left = append(left, e)
		}
	}
	if sizeAtEnd != drained {
		return pbt.Fail("after all goroutines stopped Size()=%d but %d elements could be drained", sizeAtEnd, drained)
	}
	for _, s := range consErr {
		if s != "" {
			return pbt.Fail("%s", s)
		}
	}
	if preloadNote != "" {
		return pbt.Fail("%s", preloadNote)
	}
	if len(overBad) > 0 {
		return pbt.Fail("Overflowed callback received %v, which was never put", overBad[0])
	}

	// ---- accounting ----
	type info struct {
		rec      *putRec
		accepted bool
		seen     string // where the element was sighted
		rm       *rmRec // its removal, if delivered or evicted
		left     bool
	}
	infos := map[elem]*info{}
	var order []elem
	refused := map[elem]int{}
	nRefused, nForces := 0, [3]int{}
	for p := range puts {
		for i := range puts[p] {
			r := &puts[p][i]
			in := &info{rec: r, accepted: r.force || r.ret}
			infos[r.e] = in
			order = append(order, r.e)
			if !in.accepted {
				refused[r.e] = 0
				nRefused++
			}
			if r.force {
				nForces[r.k]++
			}
		}
	}
	if !double {
		for _, v := range failed {
			e, ok := v.(elem)
			if !ok {
				return pbt.Fail("Failed callback received %v, which was never put", v)
			}
			n, isRefused := refused[e]
			if !isRefused {
				return pbt.Fail("Failed callback received %v although its Put returned true (or it was a forced put)", e)
			}
			if n > 0 {
				return pbt.Fail("Failed callback received %v twice", e)
			}
			refused[e] = n + 1
		}
		for _, e := range order {
			if n, isRefused := refused[e]; isRefused && n != 1 {
				return pbt.Fail("Put(%v) returned false but the Failed callback was not called for it", e)
			}
		}
		if failedPoison != poisonRefused {
			return pbt.Fail("%d plain puts of the stop element were refused but Failed was called %d times for it", poisonRefused, failedPoison)
		}
	}
	sight := func(e elem, where string) (*info, *pbt.Result) {
		in, ok := infos[e]
		if !ok {
			return nil, pbt.Fail("%s: element %v was never put", where, e)
		}
		if !in.accepted {
			return nil, pbt.Fail("%s: element %v, whose Put was refused (returned false)", where, e)
		}
		if in.seen != "" {
			return nil, pbt.Fail("element %v seen twice: %s and %s", e, in.seen, where)
		}
		in.seen = where
		return in, nil
	}
	var removals []*rmRec
	for ci := range recv {
		for i := range recv[ci] {
			r := &recv[ci][i]
			in, bad := sight(r.e, "delivered to "+r.by)
			if bad != nil {
				return bad
			}
			in.rm = r
			removals = append(removals, r)
		}
	}
	for i := range over {
		r := &over[i]
		in, bad := sight(r.e, "handed to Overflowed")
		if bad != nil {
			return bad
		}
		in.rm = r
		removals = append(removals, r)
	}
	for _, e := range left {
		in, bad := sight(e, "left in the queue")
		if bad != nil {
			return bad
		}
		in.left = true
	}
	missing := [3]int{}
	for _, e := range order {
		in := infos[e]
		if in.accepted && in.seen == "" {
			if !double {
				return pbt.Fail("element %v was accepted (Put returned true or forced put) but was neither delivered, nor handed to Overflowed, nor left in the queue: lost", e)
			}
			missing[in.rec.k]++ // the double queue cannot report evictions
		}
	}
	if double {
		for k := 1; k <= 2; k++ {
			if missing[k] > 0 && (caps[k] <= 0 || missing[k] > nForces[k]) {
				return pbt.Fail("queue %d (capacity %d): %d accepted elements were neither delivered nor left, but only %d forced puts could have evicted one element each: lost", k, caps[k], missing[k], nForces[k])
			}
		}
	} else if len(over) > 0 && (c.Cap <= 0 || len(over) > nForces[1]) {
		return pbt.Fail("capacity %d: %d elements were evicted by %d forced puts (a forced put into a queue that never exceeds its capacity makes room by evicting one element)", c.Cap, len(over), nForces[1])
	}
	for k := 1; k <= nq; k++ {
		n := 0
		for _, e := range left {
			if infos[e].rec.k == k {
				n++
			}
		}
		if k == poisonQ {
			n += leftPoison
		}
		if caps[k] > 0 && n > caps[k] {
			return pbt.Fail("queue %d holds %d elements at the end, capacity is %d", k, n, caps[k])
		}
	}

	// ---- order ----
	// per producer (and queue): index order inside every consumer's sequence, inside the eviction log, inside what is left
	perProducer := func(name string, es []elem) *pbt.Result {
		last := map[[2]int]int{}
		for _, e := range es {
			key := [2]int{e.P, infos[e].rec.k}
			if prev, ok := last[key]; ok && prev > e.I {
				return pbt.Fail("%s: element %v comes after %v of the same producer (put into the same queue in index order)", name, e, elem{e.P, prev})
			}
			last[key] = e.I
		}
		return nil
	}
	for ci := range recv {
		es := make([]elem, len(recv[ci]))
		for i, r := range recv[ci] {
			es[i] = r.e
		}
		if bad := perProducer(fmt.Sprintf("sequence received by consumer %d", ci), es); bad != nil {
			return bad
		}
		if double && c.Phase == "producers-first" {
			seen2 := false
			for _, e := range es {
				if infos[e].rec.k == 2 {
					seen2 = true
				} else if seen2 {
					return pbt.Fail("consumer %d (started after every producer had finished) received queue-1 element %v after a queue-2 element", ci, e)
				}
			}
		}
	}
	evs := make([]elem, len(over))
	for i, r := range over {
		evs[i] = r.e
	}
	if bad := perProducer("eviction order", evs); bad != nil {
		return bad
	}
	if bad := perProducer("elements left in the queue", left); bad != nil {
		return bad
	}
	if double {
		seen2 := false
		for _, e := range left {
			if infos[e].rec.k == 2 {
				seen2 = true
			} else if seen2 {
				return pbt.Fail("final drain returned queue-1 element %v after a queue-2 element", e)
			}
		}
	}
	// FIFO between goroutines: x removed definitely before y (or y never removed) although y was put definitely before x
	for _, x := range removals {
		xi := infos[x.e]
		for _, y := range removals {
			if x == y || x.up >= y.low {
				continue
			}
			yi := infos[y.e]
			if xi.rec.k == yi.rec.k && yi.rec.done < xi.rec.inv {
				return pbt.Fail("FIFO broken: %v (%s) left the queue before %v (%s), but the put of %v had returned before the put of %v began", x.e, x.by, y.e, y.by, y.e, x.e)
			}
		}
		for _, e := range left {
			yi := infos[e]
			if xi.rec.k == yi.rec.k && yi.rec.done < xi.rec.inv {
				return pbt.Fail("FIFO broken: %v (%s) left the queue while %v is still in it, but the put of %v had returned before the put of %v began", x.e, x.by, e, e, x.e)
			}
		}
	}
	// double queue priority between goroutines: a Get returned a queue-2 element although a queue-1
	// element had been accepted before that Get began and was still there after it returned
	if double {
		for _, y := range removals {
			if infos[y.e].rec.k != 2 {
				continue
			}
			for _, e := range order {
				xi := infos[e]
				if xi.rec.k != 1 || !xi.accepted || xi.rec.done >= y.low {
					continue
				}
				if xi.left || (xi.rm != nil && xi.rm.low > y.up) {
					return pbt.Fail("priority broken: %s received queue-2 element %v although queue-1 element %v had been accepted before that Get began and was removed only later", y.by, y.e, e)
				}
			}
		}
	}

	// ---- classes ----
	cl := map[string]bool{"phase=" + c.Phase: true}
	delivered := len(removals) - len(over)
	if nRefused > 0 {
		cl["refusal"] = true
	}
	if len(over) > 0 || missing[1]+missing[2] > 0 {
		cl["eviction"] = true
	}
	if len(left) > 0 {
		cl["left-in-queue"] = true
	}
	if blockedFirst > 0 {
		cl["consumer-blocked-before-first-put"] = true
	}
	if delivered > 0 {
		cl["delivered"] = true
	}
	multi := 0
	for ci := range recv {
		if len(recv[ci]) > 0 {
			multi++
		}
	}
	if multi >= 2 {
		cl["several-consumers-received"] = true
	}
	if c.Cap <= 0 {
		cl["unbounded"] = true
	}
	for ci := range nilTimed {
		if nilTimed[ci] > 0 {
			cl["timed-get-empty"] = true
		}
	}
	cl[fmt.Sprintf("P=%d", len(c.Prods))] = true
	cl[fmt.Sprintf("C=%d", len(c.Cons))] = true
	return &pbt.Result{NT: blockedFirst > 0 || nRefused > 0 || len(over) > 0 || missing[1]+missing[2] > 0, Classes: keys(cl)}
}

var concCaps = []int{-1, 0, 1, 1, 2, 3, 5, 8, 20, 1000}

func drawConc(double bool) func(t *rapid.T) ConcCase {
	return func(t *rapid.T) ConcCase {
		maxN := pbt.Pick(40, 120)
		c := ConcCase{
			Cap:   rapid.SampledFrom(concCaps).Draw(t, "cap"),
			Phase: rapid.SampledFrom([]string{"consumers-first", "consumers-first", "together", "producers-first"}).Draw(t, "phase"),
		}
		if double {
			c.Cap2 = rapid.SampledFrom(concCaps).Draw(t, "cap2")
			c.PoisonQ = rapid.IntRange(1, 2).Draw(t, "poisonq")
		}
		np := rapid.IntRange(1, 4).Draw(t, "producers")
		for p := 0; p < np; p++ {
			letters := rapid.SampledFrom([]string{"p", "f", "pf", "ppppf"}).Draw(t, "mix")
			if double {
				switch rapid.IntRange(0, 2).Draw(t, "target") {
				case 1:
					letters = strings.ToUpper(letters)
				case 2:
					letters += strings.ToUpper(letters)
				}
			}
			n := rapid.IntRange(1, maxN).Draw(t, "n")
			ops := rapid.SliceOfN(rapid.SampledFrom([]byte(letters)), n, n).Draw(t, "ops")
			c.Prods = append(c.Prods, Prod{Ops: string(ops), Pace: rapid.IntRange(0, 3).Draw(t, "pace")})
		}
		nc := rapid.IntRange(1, 4).Draw(t, "consumers")
		for i := 0; i < nc; i++ {
			cs := Cons{}
			if rapid.IntRange(0, 3).Draw(t, "timedmode") == 0 {
				cs.Timed = drawWaitingTimeout(t)
			}
			if rapid.IntRange(0, 3).Draw(t, "quotamode") == 0 {
				cs.Quota = rapid.IntRange(1, 20).Draw(t, "quota")
			}
			c.Cons = append(c.Cons, cs)
		}
		return c
	}
}

const concRule = "rapid-generated scenarios: 1-4 producers each putting its own numbered elements (plain/forced puts mixed per element, four pacing patterns), 1-4 consumers (blocking Get, or GetTimeout loops; some stop after a quota), capacity unbounded or 1..1000, started consumers-first (confirmed parked in the condition variable before the first put), together, or producers-first; consumers end at poison elements; oracle = accounting accepted = delivered + evicted + left without duplicates, Failed exactly once per refused put, per-producer order in every received sequence / eviction log / remainder, FIFO and bound consequences that hold under any schedule, no progress for 30 s = hang; non-trivial = a consumer was confirmed blocked before the first put, or a put was refused, or an element evicted; distinct by (capacity, phase, producer programs, consumers)"

var specConcSingle = pbt.Register(pbt.Spec[ConcCase]{
	Prop: "C11", Name: "conc-single", Rule: "RequestQueue, " + concRule,
	Quick: 3000, Thorough: 80000,
	Draw: drawConc(false),
	Run:  func(c ConcCase) *pbt.Result { return runConc(c, false) },
})

var specConcDouble = pbt.Register(pbt.Spec[ConcCase]{
	Prop: "C11", Name: "conc-double", Rule: "RequestDoubleQueue (each element goes to queue 1 or 2; evictions are not reported by this type, so an accepted element may be unaccounted only where a forced put into a full queue could have evicted it; additionally queue 1 before queue 2 wherever the schedule makes that observable), " + concRule,
	Quick: 2500, Thorough: 60000,
	Draw: drawConc(true),
	Run:  func(c ConcCase) *pbt.Result { return runConc(c, true) },
})

func skipIfSeqFailed(t *testing.T) {
	if seqFailed.Load() {
		t.Skip("a sequential sub-check of C11 already failed in this process; concurrent scenarios need a queue that works sequentially")
	}
}

func TestConcSingle(t *testing.T) {
	skipIfSeqFailed(t)
	defer flushTimed("conc-single")
	specConcSingle.Check(t)
}

func TestConcDouble(t *testing.T) {
	skipIfSeqFailed(t)
	defer flushTimed("conc-double")
	specConcDouble.Check(t)
}

// Hand-written scenarios: the lost-wake-up shape and the tightest bounds.
func TestConcBoundaries(t *testing.T) {
	skipIfSeqFailed(t)
	for _, c := range []ConcCase{
		{Cap: 1, Phase: "consumers-first", Prods: []Prod{{Ops: "p"}}, Cons: []Cons{{}}},
		{Cap: 1, Phase: "consumers-first", Prods: []Prod{{Ops: "pppppppppp"}, {Ops: "ffffffffff", Pace: 1}}, Cons: []Cons{{}, {}, {}}},
		{Cap: 0, Phase: "consumers-first", Prods: []Prod{{Ops: "pppppppppppppppppppp"}}, Cons: []Cons{{}, {}, {}, {}}},
		{Cap: 2, Phase: "producers-first", Prods: []Prod{{Ops: "pppp"}, {Ops: "ffff"}, {Ops: "pfpf"}}, Cons: []Cons{{Quota: 1}}},
		{Cap: 3, Phase: "together", Prods: []Prod{{Ops: "pfpfpfpfpfpf", Pace: 2}}, Cons: []Cons{{Timed: 2}, {Timed: 5, Quota: 3}}},
	} {
		specConcSingle.RunCase(t, c)
	}
	for _, c := range []ConcCase{
		{Cap: 1, Cap2: 1, Phase: "consumers-first", PoisonQ: 2, Prods: []Prod{{Ops: "P"}}, Cons: []Cons{{}}},
		{Cap: 4, Cap2: 4, Phase: "producers-first", PoisonQ: 2, Prods: []Prod{{Ops: "PPPP"}, {Ops: "pppp"}}, Cons: []Cons{{}, {}}},
		{Cap: 2, Cap2: 2, Phase: "together", PoisonQ: 1, Prods: []Prod{{Ops: "pPfFpPfF", Pace: 1}, {Ops: "FFFFffff"}}, Cons: []Cons{{}, {Timed: 3}}},
	} {
		specConcDouble.RunCase(t, c)
	}
}
