package c12

import (
	"fmt"
	"sync"
	"testing"

	"github.com/whatap/golib/util/hmap"
	"pgregory.net/rapid"
	"verif/pbt"
)

// ---- add-to-value results when several goroutines count on one map ---------------------------------
//
// The int-to-int map is the counter map of the agent (hits per key, added up from several goroutines); it carries its
// own lock. Every add-to-value is one operation of the sequence the map goes through: after G goroutines have each
// added 1 to a key N times the value is G*N, whatever the interleaving (seed C12-s20: add-if-exist under a shared
// read lock loses updates).

type SharedAddCase struct {
	Goroutines int     `json:"g"`
	N          int     `json:"n"`
	Keys       []int32 `json:"keys"`
	IfExist    bool    `json:"ifexist"` // AddIfExist (keys are put first) instead of Add
}

func runSharedAdd(c SharedAddCase) *pbt.Result {
	m := hmap.NewIntIntMapDefault()
	for _, k := range c.Keys {
		m.Put(k, 0)
	}
	var wg sync.WaitGroup
	start := make(chan struct{})
	for g := 0; g < c.Goroutines; g++ {
		wg.Add(1)
		go func() {
			defer wg.Done()
			<-start
			for i := 0; i < c.N; i++ {
				for _, k := range c.Keys {
					if c.IfExist {
						m.AddIfExist(k, 1)
					} else {
						m.Add(k, 1)
					}
				}
			}
		}()
	}
	close(start)
	wg.Wait()
	want := int32(c.Goroutines * c.N)
	for _, k := range c.Keys {
		if got := m.Get(k); got != want {
			op := "Add"
			if c.IfExist {
				op = "AddIfExist"
			}
			return pbt.Fail("%d goroutines each called %s(%d, 1) %d times: the value is %d, %d additions were made", c.Goroutines, op, k, c.N, got, want)
		}
	}
	if m.Size() != len(c.Keys) {
		return pbt.Fail("Size()=%d, %d keys were put", m.Size(), len(c.Keys))
	}
	return &pbt.Result{NT: true, Classes: []string{fmt.Sprintf("goroutines=%d", c.Goroutines), fmt.Sprintf("ifexist=%v", c.IfExist)}}
}

var specSharedAdd = pbt.Register(pbt.Spec[SharedAddCase]{
	Prop: "C12", Name: "intintmap-shared-counting",
	Rule:  "2-8 goroutines each add 1 to each of 1-3 keys of one IntIntMap 2000-20000 times (Add, or AddIfExist on keys put beforehand); afterwards every value must be goroutines x times and Size the number of keys; sound for any schedule; every case is non-trivial; distinct by case",
	Quick: 24, Thorough: 600,
	Draw: func(t *rapid.T) SharedAddCase {
		c := SharedAddCase{Goroutines: rapid.IntRange(2, 8).Draw(t, "g"), N: rapid.SampledFrom([]int{2000, 5000, 20000}).Draw(t, "n"), IfExist: rapid.Bool().Draw(t, "ifexist")}
		nk := rapid.IntRange(1, 3).Draw(t, "nkeys")
		for i := 0; i < nk; i++ {
			c.Keys = append(c.Keys, []int32{7, -7, 108, 209, 1 << 30, -1 << 31}[(i*2+rapid.IntRange(0, 1).Draw(t, "key"))%6])
		}
		return c
	},
	Run: runSharedAdd,
})

func TestIntIntMapSharedCounting(t *testing.T) { specSharedAdd.Check(t) }
