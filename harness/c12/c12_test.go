// C12 Plain hash maps and sets behave as mathematical maps and sets.
//
// Four model-based sub-checks (IntIntMap, IntKeyMap, IntSet, StringSet): rapid
// draws an operation history as data; Run executes it against golib and against
// a Go map model and compares every return value and Size() after every step,
// every enumeration as a sorted multiset, and (IntIntMap) the wire form against
// the reference decimal codec and by read-back.
package c12

import (
	"bytes"
	"fmt"
	"math"
	"path/filepath"
	"reflect"
	"regexp"
	"runtime"
	"sort"
	"strconv"
	"strings"
	"testing"
	"time"

	wio "github.com/whatap/golib/io"
	"github.com/whatap/golib/util/hmap"
	"pgregory.net/rapid"
	"verif/gen"
	"verif/pbt"
	"verif/ref"
)

func TestMain(m *testing.M) { pbt.Main(m, "C12") }

func TestReplay(t *testing.T) { pbt.Replay(t) }

// noPanic converts an unexpected panic inside Run into a violation whose message
// is the same on every run (panic value + first golib frame). pbt would do the
// conversion itself, but it appends a stack trace whose argument words differ
// between runs, and rapid does not shrink a failure it cannot reproduce verbatim.
func noPanic[C any](run func(C) *pbt.Result) func(C) *pbt.Result {
	return func(c C) (r *pbt.Result) {
		defer func() {
			if p := recover(); p != nil {
				site := "?"
				pcs := make([]uintptr, 32)
				frames := runtime.CallersFrames(pcs[:runtime.Callers(2, pcs)])
				for {
					f, more := frames.Next()
					if strings.Contains(f.Function, "whatap/golib") {
						site = fmt.Sprintf("%s (%s:%d)", f.Function, filepath.Base(f.File), f.Line)
						break
					}
					if !more {
						break
					}
				}
				r = pbt.Fail("unexpected panic: %v, raised in %s", p, site)
			}
		}()
		return run(c)
	}
}

// hangLimit bounds calls that are known to be able to self-deadlock (F22).
// It is a hang detector, not a performance bound: the guarded calls are
// microsecond-scale when they return at all.
const hangLimit = 20 * time.Second

// Pair is one key/value of a put-all argument.
type Pair struct {
	K int32 `json:"k"`
	V int32 `json:"v"`
}

// Op is one operation of a history (ops as data). Which fields are used depends on K.
type Op struct {
	K  string  `json:"k"`
	A  int32   `json:"a,omitempty"`  // key (first key of a range)
	V  int32   `json:"v,omitempty"`  // value (first value of a range)
	S  string  `json:"s,omitempty"`  // string key / prefix, hex
	N  int     `json:"n,omitempty"`  // count of a range / bulk op; SetMax argument
	St int32   `json:"st,omitempty"` // key step of a range
	B  bool    `json:"b,omitempty"`  // flag: string-typed value (IntKeyMap), ascending (Sort), nil argument (put-all)
	P  []Pair  `json:"p,omitempty"`  // put-all content
	C  int     `json:"c,omitempty"`  // capacity of the second map (put-all source / ToObject target)
	L  float32 `json:"l,omitempty"`  // load factor of the second map
}

// ---- structure inspection for the non-triviality rule (reflection, read-only) ---------

func tableOf(m interface{}) reflect.Value {
	return reflect.ValueOf(m).Elem().FieldByName("table")
}

// tableLen returns the current bucket count (0 if the layout is not as expected).
func tableLen(m interface{}) int {
	t := tableOf(m)
	if !t.IsValid() || t.Kind() != reflect.Slice {
		return 0
	}
	return t.Len()
}

func field(v reflect.Value, names ...string) reflect.Value {
	for _, n := range names {
		if f := v.FieldByName(n); f.IsValid() {
			return f
		}
	}
	return reflect.Value{}
}

// chainLenOf returns the length of the collision chain that currently holds the
// key (0 if not found / layout unexpected). Used only to classify cases.
func chainLenOf(m interface{}, ikey int64, skey string, isStr bool) (n int) {
	defer func() {
		if recover() != nil {
			n = 0
		}
	}()
	t := tableOf(m)
	if !t.IsValid() || t.Kind() != reflect.Slice {
		return 0
	}
	for i := 0; i < t.Len(); i++ {
		ln, found := 0, false
		for e := t.Index(i); !e.IsNil(); {
			s := e.Elem()
			k := field(s, "key", "Key")
			if isStr {
				if k.String() == skey {
					found = true
				}
			} else if k.Int() == ikey {
				found = true
			}
			ln++
			e = field(s, "next", "Next")
		}
		if found {
			return ln
		}
	}
	return 0
}

// tracker accumulates the facts of the non-triviality rule.
type tracker struct {
	lastLen      int
	grew         bool
	chainRemoval bool
	maxChain     int
	kinds        map[string]bool
}

func newTracker(m interface{}) *tracker {
	return &tracker{lastLen: tableLen(m), kinds: map[string]bool{}}
}

func (tr *tracker) afterOp(m interface{}, size int) {
	if l := tableLen(m); l != tr.lastLen {
		if l > tr.lastLen && size > 1 {
			tr.grew = true
		}
		tr.lastLen = l
	}
}

func (tr *tracker) beforeRemove(m interface{}, ikey int64, skey string, isStr bool) {
	c := chainLenOf(m, ikey, skey, isStr)
	if c >= 2 {
		tr.chainRemoval = true
	}
	if c > tr.maxChain {
		tr.maxChain = c
	}
}

func (tr *tracker) result(nops int) *pbt.Result {
	cl := []string{fmt.Sprintf("ops<=%d", opBucket(nops))}
	if tr.grew {
		cl = append(cl, "grew")
	}
	if tr.chainRemoval {
		cl = append(cl, "chain-removal")
	}
	for k := range tr.kinds {
		cl = append(cl, "op="+k)
	}
	sort.Strings(cl)
	return &pbt.Result{NT: tr.grew && tr.chainRemoval, Classes: cl}
}

func opBucket(n int) int {
	for _, b := range []int{5, 20, 60} {
		if n <= b {
			return b
		}
	}
	return 200
}

// ---- small helpers ------------------------------------------------------------------

func sortedI32(a []int32) []int32 {
	b := append([]int32(nil), a...)
	sort.Slice(b, func(i, j int) bool { return b[i] < b[j] })
	return b
}

func eqI32(a, b []int32) bool {
	if len(a) != len(b) {
		return false
	}
	for i := range a {
		if a[i] != b[i] {
			return false
		}
	}
	return true
}

func short32(a []int32) string {
	if len(a) > 24 {
		return fmt.Sprintf("%v… (%d elements)", a[:24], len(a))
	}
	return fmt.Sprint(a)
}

// sameMultiset compares got with want as multisets.
func sameMultiset(what string, got, want []int32) error {
	g, w := sortedI32(got), sortedI32(want)
	if !eqI32(g, w) {
		return fmt.Errorf("%s yields %s, the model holds %s (sorted)", what, short32(g), short32(w))
	}
	return nil
}

func sortedStr(a []string) []string {
	b := append([]string(nil), a...)
	sort.Strings(b)
	return b
}

func sameStrMultiset(what string, got, want []string) error {
	g, w := sortedStr(got), sortedStr(want)
	ok := len(g) == len(w)
	for i := 0; ok && i < len(g); i++ {
		ok = g[i] == w[i]
	}
	if !ok {
		return fmt.Errorf("%s yields %d elements %.200q, the model holds %d elements %.200q (sorted)", what, len(g), g, len(w), w)
	}
	return nil
}

var loadFactors = []float32{0.1, 0.25, 0.5, 0.75, 1, 1.5, 2, 3, 4}

func drawLF(t *rapid.T, label string) float32 {
	if rapid.IntRange(0, 3).Draw(t, label+"kind") == 0 {
		return float32(rapid.Float64Range(0.1, 4).Draw(t, label))
	}
	return rapid.SampledFrom(loadFactors).Draw(t, label)
}

// drawCap draws an initial capacity in [1,200], biased towards tiny tables (long chains, early growth).
func drawCap(t *rapid.T, label string) int {
	switch rapid.IntRange(0, 9).Draw(t, label+"kind") {
	case 0, 1, 2, 3:
		return rapid.IntRange(1, 5).Draw(t, label)
	case 4, 5, 6:
		return rapid.IntRange(6, 30).Draw(t, label)
	case 7:
		return rapid.SampledFrom([]int{101, 127, 128, 199, 200}).Draw(t, label)
	}
	return rapid.IntRange(1, 200).Draw(t, label)
}

var keyExtremes = []int32{0, 1, -1, 2, -2, math.MaxInt32, math.MinInt32, math.MaxInt32 - 1, math.MinInt32 + 1, 1 << 20, -(1 << 20), 1 << 12, 127, 128, -128, 4095, 4096}

// drawKeyPool builds a small key alphabet: boundary values, small values and
// arithmetic progressions whose step is a multiple of the bucket counts before
// and after growth (keys that share a bucket for the modulo-hashed tables).
func drawKeyPool(t *rapid.T, capacity int) []int32 {
	c := int32(capacity)
	steps := []int32{c, 2*c + 1, c * (2*c + 1), (2*c + 1) * (4*c + 3), 1, -c}
	nb := rapid.IntRange(1, 6).Draw(t, "nbase")
	var pool []int32
	for i := 0; i < nb; i++ {
		var k int32
		switch rapid.IntRange(0, 3).Draw(t, "basekind") {
		case 0:
			k = rapid.SampledFrom(keyExtremes).Draw(t, "base")
		case 1:
			k = gen.Int32().Draw(t, "base")
		default:
			k = rapid.Int32Range(-40, 40).Draw(t, "base")
		}
		pool = append(pool, k)
		if rapid.Bool().Draw(t, "prog") {
			st := rapid.SampledFrom(steps).Draw(t, "step")
			n := rapid.IntRange(1, 6).Draw(t, "proglen")
			for j := 1; j <= n; j++ {
				pool = append(pool, k+int32(j)*st) // wraps: any int32 is a legal key
			}
		}
	}
	return pool
}

func drawKey(t *rapid.T, pool []int32) int32 {
	if rapid.IntRange(0, 9).Draw(t, "fresh") == 0 {
		return gen.Int32().Draw(t, "key")
	}
	return rapid.SampledFrom(pool).Draw(t, "key")
}

// small value alphabet: frequent ContainsValue hits, sums that wrap.
func drawVal(t *rapid.T) int32 {
	switch rapid.IntRange(0, 5).Draw(t, "valkind") {
	case 0:
		return rapid.SampledFrom([]int32{0, 1, -1, math.MaxInt32, math.MinInt32, 1 << 30}).Draw(t, "val")
	case 1:
		return gen.Int32().Draw(t, "val")
	}
	return rapid.Int32Range(-3, 6).Draw(t, "val")
}

func drawRange(t *rapid.T, kind string, capacity int) Op {
	c := int32(capacity)
	return Op{K: kind,
		A:  rapid.SampledFrom([]int32{0, 1, -50, 1000, math.MaxInt32 - 40, math.MinInt32}).Draw(t, "rbase"),
		St: rapid.SampledFrom([]int32{1, -1, 7, c, 2*c + 1, c * (2*c + 1)}).Draw(t, "rstep"),
		N:  rapid.SampledFrom([]int{3, 10, 40, 80, 120, 160, 300}).Draw(t, "rn"),
		V:  rapid.Int32Range(-2, 2).Draw(t, "rv")}
}

// drawNOps draws the history length: mostly long enough for growth + chain removal, sometimes tiny.
func drawNOps(t *rapid.T, max int) int {
	if rapid.IntRange(0, 5).Draw(t, "short") == 0 {
		return rapid.IntRange(1, 8).Draw(t, "nops")
	}
	return rapid.IntRange(9, max).Draw(t, "nops")
}

// liveKey resolves a state-relative key argument: the (n mod size)-th live key in ascending order.
func liveKey(keys []int32, n int) (int32, bool) {
	if len(keys) == 0 {
		return 0, false
	}
	return keys[n%len(keys)], true
}

var pairRE = regexp.MustCompile(`(-?\d+)=(s?-?\d+|<nil>)`)
var intRE = regexp.MustCompile(`-?\d+`)

// =====================================================================================
// IntIntMap
// =====================================================================================

type IICase struct {
	Cap  int     `json:"cap"` // 0: NewIntIntMapDefault()
	LF   float32 `json:"lf"`
	None int32   `json:"none"` // value of the public NONE field (the "absent" result)
	Ops  []Op    `json:"ops"`
}

var iiKinds = []string{"put", "put", "put", "add", "add", "addifexist", "get", "get", "containskey", "containsvalue",
	"remove", "remove", "remove", "clear", "keyarray", "valuearray", "enum", "enumobj", "sort", "tostring", "wire",
	"isempty", "setmax", "putrange", "removerange", "removelive", "removelive", "addlive"}

func drawII(t *rapid.T) IICase {
	c := IICase{}
	if rapid.IntRange(0, 9).Draw(t, "default") == 0 {
		c.Cap, c.LF = 0, 0
	} else {
		c.Cap, c.LF = drawCap(t, "cap"), drawLF(t, "lf")
	}
	if rapid.IntRange(0, 5).Draw(t, "nonekind") == 0 {
		c.None = rapid.SampledFrom([]int32{-1, math.MinInt32, 7}).Draw(t, "none")
	}
	ec := c.Cap
	if ec == 0 {
		ec = 101
	}
	pool := drawKeyPool(t, ec)
	n := drawNOps(t, 60)
	for i := 0; i < n; i++ {
		k := rapid.SampledFrom(iiKinds).Draw(t, "kind")
		if k == "clear" && rapid.IntRange(0, 3).Draw(t, "keepclear") != 0 {
			k = "put" // keep clears rare: they reset the state the rule needs
		}
		op := Op{K: k}
		switch k {
		case "put", "add", "addifexist":
			op.A, op.V = drawKey(t, pool), drawVal(t)
		case "get", "containskey", "remove":
			op.A = drawKey(t, pool)
		case "containsvalue":
			op.V = drawVal(t)
		case "sort":
			op.B = rapid.Bool().Draw(t, "asc")
		case "wire":
			op.C, op.L = drawCap(t, "wcap"), drawLF(t, "wlf")
		case "setmax":
			op.N = rapid.IntRange(0, 12).Draw(t, "max")
		case "putrange", "removerange":
			op = drawRange(t, k, ec)
		case "removelive", "addlive":
			op.N, op.V = rapid.IntRange(0, 400).Draw(t, "live"), drawVal(t)
		}
		c.Ops = append(c.Ops, op)
	}
	return c
}

type iiModel struct {
	m    map[int32]int32
	none int32
	max  int
}

func (md *iiModel) keys() []int32 {
	out := make([]int32, 0, len(md.m))
	for k := range md.m {
		out = append(out, k)
	}
	return sortedI32(out)
}

func (md *iiModel) values() []int32 {
	out := make([]int32, 0, len(md.m))
	for _, v := range md.m {
		out = append(out, v)
	}
	return sortedI32(out)
}

// iiEnumerate checks the three enumerators (int and object flavour) against the model.
func iiEnumerate(m *hmap.IntIntMap, md *iiModel, object bool) error {
	limit := len(md.m) + 1
	var keys, vals []int32
	if !object {
		for en, i := m.Keys(), 0; en.HasMoreElements(); i++ {
			if i >= limit {
				return fmt.Errorf("Keys() yields more than Size()=%d elements", len(md.m))
			}
			keys = append(keys, en.NextInt())
			if i == 0 {
				// other enumerations and a rendering started meanwhile are not modifications
				if o := m.Values(); o.HasMoreElements() {
					o.NextInt()
				}
				if o := m.Keys(); o.HasMoreElements() {
					o.NextInt()
				}
				_ = m.ToString()
			}
		}
		for en, i := m.Values(), 0; en.HasMoreElements(); i++ {
			if i >= limit {
				return fmt.Errorf("Values() yields more than Size()=%d elements", len(md.m))
			}
			vals = append(vals, en.NextInt())
			if i == 0 {
				if o := m.Keys(); o.HasMoreElements() {
					o.NextInt()
				}
			}
		}
	} else {
		ek, ok := m.Keys().(hmap.Enumeration)
		ev, ok2 := m.Values().(hmap.Enumeration)
		if !ok || !ok2 {
			return nil
		}
		for i := 0; ek.HasMoreElements(); i++ {
			if i >= limit {
				return fmt.Errorf("Keys() yields more than Size()=%d elements", len(md.m))
			}
			k, ok := ek.NextElement().(int32)
			if !ok {
				return fmt.Errorf("Keys().NextElement() is not an int32")
			}
			keys = append(keys, k)
		}
		for i := 0; ev.HasMoreElements(); i++ {
			if i >= limit {
				return fmt.Errorf("Values() yields more than Size()=%d elements", len(md.m))
			}
			v, ok := ev.NextElement().(int32)
			if !ok {
				return fmt.Errorf("Values().NextElement() is not an int32")
			}
			vals = append(vals, v)
		}
	}
	if err := sameMultiset("Keys() enumeration", keys, md.keys()); err != nil {
		return err
	}
	if err := sameMultiset("Values() enumeration", vals, md.values()); err != nil {
		return err
	}
	seen := map[int32]bool{}
	en := m.Entries()
	for i := 0; en.HasMoreElements(); i++ {
		if i >= limit {
			return fmt.Errorf("Entries() yields more than Size()=%d elements", len(md.m))
		}
		e, ok := en.NextElement().(*hmap.IntIntEntry)
		if !ok || e == nil {
			return fmt.Errorf("Entries().NextElement() is not an *IntIntEntry")
		}
		if seen[e.GetKey()] {
			return fmt.Errorf("Entries() yields key %d twice", e.GetKey())
		}
		seen[e.GetKey()] = true
		if want, ok := md.m[e.GetKey()]; !ok || want != e.GetValue() {
			return fmt.Errorf("Entries() yields %d=%d, the model has (%d,present=%v)", e.GetKey(), e.GetValue(), want, ok)
		}
	}
	if len(seen) != len(md.m) {
		return fmt.Errorf("Entries() yields %d entries, the model holds %d", len(seen), len(md.m))
	}
	return nil
}

// iiSame checks that map m holds exactly the model's content (lookups + enumeration + size).
func iiSame(what string, m *hmap.IntIntMap, md *iiModel) error {
	if m.Size() != len(md.m) {
		return fmt.Errorf("%s: Size()=%d, the model holds %d", what, m.Size(), len(md.m))
	}
	for k, v := range md.m {
		if g := m.Get(k); g != v {
			return fmt.Errorf("%s: Get(%d)=%d, the model has %d", what, k, g, v)
		}
		if !m.ContainsKey(k) {
			return fmt.Errorf("%s: ContainsKey(%d)=false for a stored key", what, k)
		}
	}
	if err := iiEnumerate(m, md, false); err != nil {
		return fmt.Errorf("%s: %v", what, err)
	}
	return nil
}

func iiWire(m *hmap.IntIntMap, md *iiModel, op Op) error {
	o := wio.NewDataOutputX()
	m.ToBytes(o)
	b := append([]byte(nil), o.ToByteArray()...)
	// structure: canonical decimal count, then exactly count canonical decimal pairs, nothing else
	r := ref.NewR(b)
	cnt, canon := r.DecC()
	if r.Err != nil || !canon {
		return fmt.Errorf("ToBytes: count field is not a canonical decimal (err=%v) in %x", r.Err, b)
	}
	if int(cnt) != len(md.m) {
		return fmt.Errorf("ToBytes: count field says %d, the map holds %d", cnt, len(md.m))
	}
	w := ref.NewW()
	w.CountDec(len(md.m))
	seen := map[int32]bool{}
	for i := 0; i < int(cnt); i++ {
		k, c1 := r.DecC()
		v, c2 := r.DecC()
		if r.Err != nil || !c1 || !c2 {
			return fmt.Errorf("ToBytes: pair %d is not a pair of canonical decimals (err=%v)", i, r.Err)
		}
		if k != int64(int32(k)) || v != int64(int32(v)) {
			return fmt.Errorf("ToBytes: pair %d (%d,%d) is outside the int32 range", i, k, v)
		}
		if seen[int32(k)] {
			return fmt.Errorf("ToBytes: key %d is written twice", k)
		}
		seen[int32(k)] = true
		if want, ok := md.m[int32(k)]; !ok || want != int32(v) {
			return fmt.Errorf("ToBytes: writes %d=%d, the model has (%d,present=%v)", k, v, want, ok)
		}
		w.Dec(k)
		w.Dec(v)
	}
	if r.Left() != 0 {
		return fmt.Errorf("ToBytes: %d bytes follow the last pair", r.Left())
	}
	if !bytes.Equal(w.B, b) {
		return fmt.Errorf("ToBytes: bytes %x differ from the reference encoding %x of the same pairs in the same order", b, w.B)
	}
	// read back into a fresh map of another shape
	m2 := hmap.NewIntIntMap(op.C, op.L)
	m2.NONE = md.none
	if ret := m2.ToObject(wio.NewDataInputX(b)); ret != m2 {
		return fmt.Errorf("ToObject does not return its receiver")
	}
	if err := iiSame("ToObject(ToBytes(m))", m2, md); err != nil {
		return err
	}
	// read into a map that already holds entries (a counter map that accumulates what several agents report): the
	// entries read are put on top of what is there (seed C12-s23)
	m3 := hmap.NewIntIntMapDefault()
	if op.C%2 == 1 {
		m3 = hmap.NewIntIntMap(op.C, op.L)
	}
	m3.NONE = md.none
	md3 := &iiModel{m: map[int32]int32{}, none: md.none}
	for i := int32(0); i < 5; i++ {
		k := 7000000 + i*101
		m3.Put(k, i+1)
		md3.m[k] = i + 1
	}
	for k, v := range md.m { // one key of the serialized map is there already, with another value
		m3.Put(k, v^0x55)
		md3.m[k] = v ^ 0x55
		break
	}
	m3.ToObject(wio.NewDataInputX(b))
	for k, v := range md.m {
		md3.m[k] = v
	}
	return iiSame(fmt.Sprintf("ToObject(ToBytes(m)) into a map that held 5-6 entries (%d entries read)", len(md.m)), m3, md3)
}

func runII(c IICase) *pbt.Result {
	var m *hmap.IntIntMap
	if c.Cap == 0 {
		m = hmap.NewIntIntMapDefault()
	} else {
		m = hmap.NewIntIntMap(c.Cap, c.LF)
	}
	m.NONE = c.None
	md := &iiModel{m: map[int32]int32{}, none: c.None}
	tr := newTracker(m)
	for i, op := range c.Ops {
		tr.kinds[op.K] = true
		if op.K == "removelive" || op.K == "addlive" { // state-relative key: the (N mod size)-th live key
			k, ok := liveKey(md.keys(), op.N)
			if !ok {
				continue
			}
			if op.K == "removelive" {
				op = Op{K: "remove", A: k}
			} else {
				op = Op{K: "add", A: k, V: op.V}
			}
		}
		fail := func(format string, a ...interface{}) *pbt.Result {
			return pbt.Fail("op %d %s: %s", i, op.K, fmt.Sprintf(format, a...))
		}
		old, present := md.m[op.A]
		switch op.K {
		case "put":
			want := md.none
			if present {
				want = old
			}
			if g := m.Put(op.A, op.V); g != want {
				return fail("Put(%d,%d) returned %d, expected %d (present=%v)", op.A, op.V, g, want, present)
			}
			md.m[op.A] = op.V
		case "add":
			want := op.V
			if present {
				want = old
			}
			if g := m.Add(op.A, op.V); g != want {
				return fail("Add(%d,%d) returned %d, expected %d (previous value, or the added value for a new key; present=%v)", op.A, op.V, g, want, present)
			}
			md.m[op.A] = old + op.V // wraps like int32 arithmetic
		case "addifexist":
			want := int32(0)
			if present {
				want = old + op.V
				md.m[op.A] = want
			}
			if g := m.AddIfExist(op.A, op.V); g != want {
				return fail("AddIfExist(%d,%d) returned %d, expected %d (present=%v)", op.A, op.V, g, want, present)
			}
		case "get":
			want := md.none
			if present {
				want = old
			}
			if g := m.Get(op.A); g != want {
				return fail("Get(%d)=%d, expected %d (present=%v)", op.A, g, want, present)
			}
		case "containskey":
			if g := m.ContainsKey(op.A); g != present {
				return fail("ContainsKey(%d)=%v, expected %v", op.A, g, present)
			}
		case "containsvalue":
			if pbt.KnownOpen("F21") {
				pbt.CountExcluded("intintmap", 1)
				break
			}
			want := false
			for _, v := range md.m {
				if v == op.V {
					want = true
				}
			}
			if g := m.ContainsValue(op.V); g != want {
				return fail("ContainsValue(%d)=%v, expected %v", op.V, g, want)
			}
		case "remove":
			want := md.none
			if present {
				want = old
				tr.beforeRemove(m, int64(op.A), "", false)
			}
			if g := m.Remove(op.A); g != want {
				return fail("Remove(%d) returned %d, expected %d (present=%v)", op.A, g, want, present)
			}
			delete(md.m, op.A)
		case "putrange":
			for j := 0; j < op.N; j++ {
				k, v := op.A+int32(j)*op.St, op.V+int32(j)
				want := md.none
				if o, ok := md.m[k]; ok {
					want = o
				}
				if g := m.Put(k, v); g != want {
					return fail("Put(%d,%d) (element %d of the range) returned %d, expected %d", k, v, j, g, want)
				}
				md.m[k] = v
				if m.Size() != len(md.m) {
					return fail("Size()=%d after Put(%d,%d), the model holds %d", m.Size(), k, v, len(md.m))
				}
				tr.afterOp(m, len(md.m))
			}
		case "removerange":
			for j := 0; j < op.N; j++ {
				k := op.A + int32(j)*op.St
				want := md.none
				if o, ok := md.m[k]; ok {
					want = o
					tr.beforeRemove(m, int64(k), "", false)
				}
				if g := m.Remove(k); g != want {
					return fail("Remove(%d) (element %d of the range) returned %d, expected %d", k, j, g, want)
				}
				delete(md.m, k)
				if m.Size() != len(md.m) {
					return fail("Size()=%d after Remove(%d), the model holds %d", m.Size(), k, len(md.m))
				}
			}
		case "clear":
			m.Clear()
			md.m = map[int32]int32{}
		case "keyarray":
			if err := sameMultiset("KeyArray()", m.KeyArray(), md.keys()); err != nil {
				return fail("%v", err)
			}
		case "valuearray":
			if err := sameMultiset("ValueArray()", m.ValueArray(), md.values()); err != nil {
				return fail("%v", err)
			}
		case "enum", "enumobj":
			if err := iiEnumerate(m, md, op.K == "enumobj"); err != nil {
				return fail("%v", err)
			}
		case "sort":
			asc := op.B
			m.Sort(func(a, b int32) bool {
				if asc {
					return a < b
				}
				return a > b
			})
			if err := iiSame("after Sort", m, md); err != nil {
				return fail("%v", err)
			}
		case "tostring":
			s := m.ToString()
			if !strings.HasPrefix(s, "{") || !strings.HasSuffix(s, "}") {
				return fail("ToString()=%.80q is not brace-delimited", s)
			}
			ms := pairRE.FindAllStringSubmatch(s, -1)
			seen := map[int32]bool{}
			for _, p := range ms {
				k, _ := strconv.ParseInt(p[1], 10, 64)
				v, err := strconv.ParseInt(p[2], 10, 64)
				if want, ok := md.m[int32(k)]; err != nil || !ok || int64(want) != v || seen[int32(k)] || k != int64(int32(k)) {
					return fail("ToString() shows %s (repeated=%v), the model has (%d,present=%v)", p[0], seen[int32(k)], want, ok)
				}
				seen[int32(k)] = true
			}
			if len(seen) != len(md.m) {
				return fail("ToString() shows %d entries, the model holds %d: %.120q", len(seen), len(md.m), s)
			}
		case "wire":
			if err := iiWire(m, md, op); err != nil {
				return fail("%v", err)
			}
		case "isempty":
			if g := m.IsEmpty(); g != (len(md.m) == 0) {
				return fail("IsEmpty()=%v with %d elements in the model", g, len(md.m))
			}
			if g, want := m.IsFull(), md.max > 0 && len(md.m) >= md.max; g != want {
				return fail("IsFull()=%v with max=%d and %d elements", g, md.max, len(md.m))
			}
		case "setmax":
			if m.SetMax(op.N) != m {
				return fail("SetMax does not return its receiver")
			}
			md.max = op.N
		default:
			panic("unknown op kind " + op.K)
		}
		if m.Size() != len(md.m) {
			return fail("Size()=%d afterwards, the model holds %d", m.Size(), len(md.m))
		}
		tr.afterOp(m, len(md.m))
	}
	if err := iiSame("final state", m, md); err != nil {
		return &pbt.Result{Err: err}
	}
	// keys that were used but are absent now must read as absent
	for _, op := range c.Ops {
		if _, ok := md.m[op.A]; !ok {
			if g := m.Get(op.A); g != md.none || m.ContainsKey(op.A) {
				return pbt.Fail("final state: absent key %d reads Get=%d ContainsKey=%v", op.A, g, m.ContainsKey(op.A))
			}
		}
	}
	return tr.result(len(c.Ops))
}

const ntRule = "non-trivial = the bucket table grew while holding >= 2 elements AND a present key was removed from a collision chain of length >= 2 (both observed on the live structure by reflection); distinct by the whole history"

var specII = pbt.Register(pbt.Spec[IICase]{
	Prop: "C12", Name: "intintmap", Parallel: 8,
	Rule:  "IntIntMap: histories of 1-60 ops (put/add/add-if-exist/get/contains-key/contains-value/remove/clear/key+value arrays/three enumerators/sort/to-string/ToBytes+ToObject/IsEmpty/IsFull/SetMax, put and remove ranges) over a key alphabet of boundary values and same-bucket progressions, capacity 1..200 (biased small) x load factor 0.1..4 or the default constructor, NONE 0 or another sentinel, against a Go map; " + ntRule,
	Quick: 20000, Thorough: 1000000,
	Draw: drawII, Run: noPanic(runII),
})

func TestIntIntMap(t *testing.T) { specII.Check(t) }

// =====================================================================================
// IntKeyMap
// =====================================================================================

type IKCase struct {
	Cap int     `json:"cap"` // -1: NewIntKeyMapDefault(); 0 is legal (the constructor raises it to 1)
	LF  float32 `json:"lf"`
	Ops []Op    `json:"ops"`
}

var ikKinds = []string{"put", "put", "put", "put", "get", "get", "containskey", "containsvalue",
	"remove", "remove", "remove", "clear", "keyarray", "enum", "tostring", "toformatstring", "putall", "putall",
	"putrange", "removerange", "removelive", "removelive", "srcput", "srcremove", "putallself"}

func drawIK(t *rapid.T) IKCase {
	c := IKCase{}
	switch rapid.IntRange(0, 11).Draw(t, "ctor") {
	case 0:
		c.Cap = -1
	case 1:
		c.Cap, c.LF = 0, drawLF(t, "lf")
	default:
		c.Cap, c.LF = drawCap(t, "cap"), drawLF(t, "lf")
	}
	ec := c.Cap
	if ec < 1 {
		ec = 101
	}
	pool := drawKeyPool(t, ec)
	n := drawNOps(t, 60)
	for i := 0; i < n; i++ {
		k := rapid.SampledFrom(ikKinds).Draw(t, "kind")
		if k == "clear" && rapid.IntRange(0, 3).Draw(t, "keepclear") != 0 {
			k = "put" // keep clears rare: they reset the state the rule needs
		}
		op := Op{K: k}
		switch k {
		case "put":
			op.A, op.V, op.B = drawKey(t, pool), drawVal(t), rapid.Bool().Draw(t, "strval")
		case "get", "containskey", "remove", "srcremove":
			op.A = drawKey(t, pool)
			op.N = rapid.IntRange(0, 400).Draw(t, "live")
		case "srcput":
			op.A, op.V = drawKey(t, pool), drawVal(t)
		case "containsvalue":
			op.V, op.B = drawVal(t), rapid.Bool().Draw(t, "strval")
		case "putall":
			if rapid.IntRange(0, 7).Draw(t, "nilother") == 0 {
				op.B = true
				break
			}
			op.C, op.L = drawCap(t, "ocap"), drawLF(t, "olf")
			if rapid.IntRange(0, 2).Draw(t, "samegeometry") == 0 { // source built like the receiver
				op.C, op.L = c.Cap, c.LF
				if c.Cap < 0 {
					op.C, op.L = 101, 0.75
				}
			}
			np := rapid.IntRange(0, 12).Draw(t, "npairs")
			for j := 0; j < np; j++ {
				op.P = append(op.P, Pair{K: drawKey(t, pool), V: drawVal(t)})
			}
		case "putrange", "removerange":
			op = drawRange(t, k, ec)
		case "removelive":
			op.N = rapid.IntRange(0, 400).Draw(t, "live")
		}
		c.Ops = append(c.Ops, op)
	}
	return c
}

// ikVal maps the case's int32 value onto the stored interface{} (comparable; never nil: callers never store nil).
func ikVal(v int32, str bool) interface{} {
	if v%7 == 3 { // the nil object is a value like any other ("no object yet")
		return nil
	}
	if str {
		return "s" + strconv.Itoa(int(v))
	}
	return int(v)
}

func ikKeys(md map[int32]interface{}) []int32 {
	out := make([]int32, 0, len(md))
	for k := range md {
		out = append(out, k)
	}
	return sortedI32(out)
}

func ikEnumerate(m *hmap.IntKeyMap, md map[int32]interface{}) error {
	limit := len(md) + 1
	var keys []int32
	for en, i := m.Keys(), 0; en.HasMoreElements(); i++ {
		if i >= limit {
			return fmt.Errorf("Keys() yields more than Size()=%d elements", len(md))
		}
		keys = append(keys, en.NextInt())
		// lookups of other stored keys between two steps of the enumeration are not modifications either
		if all := ikKeys(md); len(all) > 0 {
			for j := 0; j < 3; j++ {
				k := all[(i*5+j*7+3)%len(all)]
				m.Get(k)
				m.ContainsKey(k)
			}
		}
		if i == 0 {
			// other enumerations and a rendering started meanwhile are not modifications
			if o := m.Values(); o.HasMoreElements() {
				o.NextElement()
			}
			if o := m.Entries(); o.HasMoreElements() {
				o.NextElement()
			}
			if o := m.Keys(); o.HasMoreElements() {
				o.NextInt()
			}
			_ = m.ToString()
		}
	}
	if err := sameMultiset("Keys() enumeration", keys, ikKeys(md)); err != nil {
		return err
	}
	var vals, wantVals []string
	for en, i := m.Values(), 0; en.HasMoreElements(); i++ {
		if i >= limit {
			return fmt.Errorf("Values() yields more than Size()=%d elements", len(md))
		}
		v := en.NextElement()
		vals = append(vals, fmt.Sprintf("%T:%v", v, v))
		if i == 0 {
			if o := m.Keys(); o.HasMoreElements() {
				o.NextInt()
			}
			if o := m.Entries(); o.HasMoreElements() {
				o.NextElement()
			}
		}
	}
	for _, v := range md {
		wantVals = append(wantVals, fmt.Sprintf("%T:%v", v, v))
	}
	if err := sameStrMultiset("Values() enumeration", vals, wantVals); err != nil {
		return err
	}
	seen := map[int32]bool{}
	en := m.Entries()
	for i := 0; en.HasMoreElements(); i++ {
		if i >= limit {
			return fmt.Errorf("Entries() yields more than Size()=%d elements", len(md))
		}
		e, ok := en.NextElement().(*hmap.IntKeyEntry)
		if !ok || e == nil {
			return fmt.Errorf("Entries().NextElement() is not an *IntKeyEntry")
		}
		if i == 0 {
			if o := m.Values(); o.HasMoreElements() {
				o.NextElement()
			}
			if o := m.Entries(); o.HasMoreElements() {
				o.NextElement()
			}
		}
		if seen[e.GetKey()] {
			return fmt.Errorf("Entries() yields key %d twice", e.GetKey())
		}
		seen[e.GetKey()] = true
		if want, ok := md[e.GetKey()]; !ok || want != e.GetValue() {
			return fmt.Errorf("Entries() yields %d=%v, the model has (%v,present=%v)", e.GetKey(), e.GetValue(), want, ok)
		}
	}
	if len(seen) != len(md) {
		return fmt.Errorf("Entries() yields %d entries, the model holds %d", len(seen), len(md))
	}
	return nil
}

func ikSame(what string, m *hmap.IntKeyMap, md map[int32]interface{}) error {
	if m.Size() != len(md) {
		return fmt.Errorf("%s: Size()=%d, the model holds %d", what, m.Size(), len(md))
	}
	for k, v := range md {
		if g := m.Get(k); g != v {
			return fmt.Errorf("%s: Get(%d)=%v, the model has %v", what, k, g, v)
		}
		if !m.ContainsKey(k) {
			return fmt.Errorf("%s: ContainsKey(%d)=false for a stored key", what, k)
		}
	}
	if err := ikEnumerate(m, md); err != nil {
		return fmt.Errorf("%s: %v", what, err)
	}
	return nil
}

func ikShown(s string, md map[int32]interface{}) error {
	ms := pairRE.FindAllStringSubmatch(s, -1)
	seen := map[int32]bool{}
	for _, p := range ms {
		k, _ := strconv.ParseInt(p[1], 10, 64)
		want, ok := md[int32(k)]
		if !ok || fmt.Sprint(want) != p[2] || seen[int32(k)] || k != int64(int32(k)) {
			return fmt.Errorf("shows %s (repeated=%v), the model has (%v,present=%v)", p[0], seen[int32(k)], want, ok)
		}
		seen[int32(k)] = true
	}
	if len(seen) != len(md) {
		return fmt.Errorf("shows %d entries, the model holds %d: %.120q", len(seen), len(md), s)
	}
	return nil
}

func runIK(c IKCase) *pbt.Result {
	var m *hmap.IntKeyMap
	if c.Cap < 0 {
		m = hmap.NewIntKeyMapDefault()
	} else {
		m = hmap.NewIntKeyMap(c.Cap, c.LF)
	}
	if m == nil {
		return pbt.Fail("constructor returned nil for capacity %d, load factor %v", c.Cap, c.LF)
	}
	md := map[int32]interface{}{}
	tr := newTracker(m)
	// the sources of earlier PutAll calls stay alive: receiver and source must be independent afterwards
	type source struct {
		m  *hmap.IntKeyMap
		md map[int32]interface{}
	}
	var sources []source
	for i, op := range c.Ops {
		tr.kinds[op.K] = true
		if op.K == "removelive" {
			k, ok := liveKey(ikKeys(md), op.N)
			if !ok {
				continue
			}
			op = Op{K: "remove", A: k}
		}
		fail := func(format string, a ...interface{}) *pbt.Result {
			return pbt.Fail("op %d %s: %s", i, op.K, fmt.Sprintf(format, a...))
		}
		old, present := md[op.A] // old is nil when absent: the documented "absent" result
		switch op.K {
		case "put":
			v := ikVal(op.V, op.B)
			if g := m.Put(op.A, v); g != old {
				return fail("Put(%d,%v) returned %v, expected %v (present=%v)", op.A, v, g, old, present)
			}
			md[op.A] = v
		case "get":
			if g := m.Get(op.A); g != old {
				return fail("Get(%d)=%v, expected %v (present=%v)", op.A, g, old, present)
			}
		case "containskey":
			if g := m.ContainsKey(op.A); g != present {
				return fail("ContainsKey(%d)=%v, expected %v", op.A, g, present)
			}
		case "containsvalue":
			if pbt.KnownOpen(fContainsValueStub) {
				pbt.CountExcluded("intkeymap", 1)
				break
			}
			v := ikVal(op.V, op.B)
			if v == nil {
				// ContainsValue(nil) answers false by an explicit rule of the code (the Java original rejects null
				// values); whether a stored nil "is contained" is not part of the map model - not asserted
				break
			}
			want := false
			for _, x := range md {
				if x == v {
					want = true
				}
			}
			if g := m.ContainsValue(v); g != want {
				return fail("ContainsValue(%v)=%v, expected %v", v, g, want)
			}
		case "remove":
			if present {
				tr.beforeRemove(m, int64(op.A), "", false)
			}
			if g := m.Remove(op.A); g != old {
				return fail("Remove(%d) returned %v, expected %v (present=%v)", op.A, g, old, present)
			}
			delete(md, op.A)
		case "putrange":
			for j := 0; j < op.N; j++ {
				k, v := op.A+int32(j)*op.St, ikVal(op.V+int32(j), false)
				if g := m.Put(k, v); g != md[k] {
					return fail("Put(%d,%v) (element %d of the range) returned %v, expected %v", k, v, j, g, md[k])
				}
				md[k] = v
				if m.Size() != len(md) {
					return fail("Size()=%d after Put(%d,%v), the model holds %d", m.Size(), k, v, len(md))
				}
				tr.afterOp(m, len(md))
			}
		case "removerange":
			for j := 0; j < op.N; j++ {
				k := op.A + int32(j)*op.St
				if _, ok := md[k]; ok {
					tr.beforeRemove(m, int64(k), "", false)
				}
				if g := m.Remove(k); g != md[k] {
					return fail("Remove(%d) (element %d of the range) returned %v, expected %v", k, j, g, md[k])
				}
				delete(md, k)
				if m.Size() != len(md) {
					return fail("Size()=%d after Remove(%d), the model holds %d", m.Size(), k, len(md))
				}
			}
		case "clear":
			m.Clear()
			md = map[int32]interface{}{}
		case "keyarray":
			if pbt.KnownOpen("F22") {
				pbt.CountExcluded("intkeymap", 1)
				break
			}
			var got []int32
			returned, p := pbt.WithTimeout(hangLimit, func() { got = m.KeyArray() })
			if !returned {
				return fail("KeyArray() did not return within %v (the receiver's lock is never released: the goroutine is stuck)", hangLimit)
			}
			if p != nil {
				return fail("KeyArray() panicked: %v", p)
			}
			if err := sameMultiset("KeyArray()", got, ikKeys(md)); err != nil {
				return fail("%v", err)
			}
		case "enum":
			if err := ikEnumerate(m, md); err != nil {
				return fail("%v", err)
			}
		case "tostring":
			s := m.ToString()
			if !strings.HasPrefix(s, "{") || !strings.HasSuffix(s, "}") {
				return fail("ToString()=%.80q is not brace-delimited", s)
			}
			if err := ikShown(s, md); err != nil {
				return fail("ToString() %v", err)
			}
		case "toformatstring":
			if err := ikShown(m.ToFormatString(), md); err != nil {
				return fail("ToFormatString() %v", err)
			}
		case "putall":
			if op.B {
				m.PutAll(nil)
				break
			}
			other := hmap.NewIntKeyMap(op.C, op.L)
			omd := map[int32]interface{}{}
			for _, p := range op.P {
				other.Put(p.K, ikVal(p.V, false))
				omd[p.K] = ikVal(p.V, false)
			}
			m.PutAll(other)
			for k, v := range omd {
				md[k] = v
			}
			if err := ikSame("source of PutAll afterwards", other, omd); err != nil {
				return fail("%v", err)
			}
			sources = append(sources, source{other, omd})
		case "putallself":
			// the map copied into itself: nothing changes, and the call returns
			returned, p := pbt.WithTimeout(hangLimit, func() { m.PutAll(m) })
			if !returned {
				return fail("m.PutAll(m) did not return within %v (the call waits for a lock it holds itself)", hangLimit)
			}
			if p != nil {
				return fail("m.PutAll(m) panicked: %v", p)
			}
		case "srcput", "srcremove":
			// change the source of the latest PutAll; the receiver must not notice
			if len(sources) == 0 {
				break
			}
			src := sources[len(sources)-1]
			if op.K == "srcput" {
				v := ikVal(op.V, false)
				if g := src.m.Put(op.A, v); g != src.md[op.A] {
					return fail("Put(%d,%v) on the source of an earlier PutAll returned %v, expected %v", op.A, v, g, src.md[op.A])
				}
				src.md[op.A] = v
			} else {
				k := op.A
				if lk, ok := liveKey(ikKeys(src.md), op.N); ok {
					k = lk
				}
				if g := src.m.Remove(k); g != src.md[k] {
					return fail("Remove(%d) on the source of an earlier PutAll returned %v, expected %v", k, g, src.md[k])
				}
				delete(src.md, k)
			}
			tr.kinds["source-changed-after-putall"] = true
		default:
			panic("unknown op kind " + op.K)
		}
		if m.Size() != len(md) {
			return fail("Size()=%d afterwards, the model holds %d", m.Size(), len(md))
		}
		tr.afterOp(m, len(md))
	}
	if err := ikSame("final state", m, md); err != nil {
		return &pbt.Result{Err: err}
	}
	for j, src := range sources {
		if err := ikSame(fmt.Sprintf("final state of the source of PutAll number %d (changed only through its own methods)", j), src.m, src.md); err != nil {
			return &pbt.Result{Err: err}
		}
	}
	for _, op := range c.Ops {
		if _, ok := md[op.A]; !ok {
			if g := m.Get(op.A); g != nil || m.ContainsKey(op.A) {
				return pbt.Fail("final state: absent key %d reads Get=%v ContainsKey=%v", op.A, g, m.ContainsKey(op.A))
			}
		}
	}
	return tr.result(len(c.Ops))
}

// provisional id of the finding "IntKeyMap.ContainsValue is a stub that always answers false".
const fContainsValueStub = "F121"

var specIK = pbt.Register(pbt.Spec[IKCase]{
	Prop: "C12", Name: "intkeymap", Parallel: 8,
	Rule:  "IntKeyMap: histories of 1-60 ops (put/get/contains-key/contains-value/remove/clear/KeyArray under a hang detector/three enumerators/to-string/to-format-string/put-all from a second map (one time in three built with the receiver's geometry) or nil, later puts/removes on that source map, the map put into itself, put and remove ranges; every source map stays alive and must equal its own model at the end), int and string values, same key alphabets, capacity 0..200 x load factor 0.1..4 or the default constructor, against a Go map; " + ntRule,
	Quick: 20000, Thorough: 1000000,
	Draw: drawIK, Run: noPanic(runIK),
})

func TestIntKeyMap(t *testing.T) { specIK.Check(t) }

// =====================================================================================
// IntSet
// =====================================================================================

type ISCase struct {
	Ctor string `json:"ctor"` // "new" or "array" (NewIntSetArray(nil))
	Ops  []Op   `json:"ops"`
}

var isKinds = []string{"put", "put", "put", "put", "contains", "contains", "remove", "remove", "remove", "clear",
	"enum", "tostring", "putall", "putalllist", "removerange", "removelive", "removelive"}

func drawIS(t *rapid.T) ISCase {
	c := ISCase{Ctor: rapid.SampledFrom([]string{"new", "new", "new", "array"}).Draw(t, "ctor")}
	pool := drawKeyPool(t, 101)
	if rapid.IntRange(0, 9).Draw(t, "prefill") < 6 { // most histories cross the growth threshold (75 elements)
		c.Ops = append(c.Ops, drawRange(t, "putall", 101))
	}
	n := drawNOps(t, 50)
	for i := 0; i < n; i++ {
		k := rapid.SampledFrom(isKinds).Draw(t, "kind")
		if k == "clear" && rapid.IntRange(0, 3).Draw(t, "keepclear") != 0 {
			k = "put" // keep clears rare: they reset the state the rule needs
		}
		op := Op{K: k}
		switch k {
		case "put", "contains", "remove":
			op.A = drawKey(t, pool)
		case "putall", "removerange":
			op = drawRange(t, k, 101)
		case "removelive":
			op.N = rapid.IntRange(0, 400).Draw(t, "live")
		case "putalllist":
			if rapid.IntRange(0, 7).Draw(t, "nillist") == 0 {
				op.B = true
				break
			}
			np := rapid.IntRange(0, 12).Draw(t, "nlist")
			for j := 0; j < np; j++ {
				op.P = append(op.P, Pair{K: drawKey(t, pool)})
			}
		}
		c.Ops = append(c.Ops, op)
	}
	return c
}

func isEnumerate(s *hmap.IntSet, md map[int32]bool) error {
	var got, want []int32
	en := s.Values()
	for i := 0; en.HasMoreElements(); i++ {
		if i > len(md) {
			return fmt.Errorf("Values() yields more than Size()=%d elements", len(md))
		}
		got = append(got, en.NextInt())
		if i == 0 {
			if o := s.Values(); o.HasMoreElements() {
				o.NextInt()
			}
		}
	}
	for k := range md {
		want = append(want, k)
	}
	return sameMultiset("Values() enumeration", got, want)
}

func runIS(c ISCase) *pbt.Result {
	var s *hmap.IntSet
	if c.Ctor == "array" {
		s = hmap.NewIntSetArray(nil)
	} else {
		s = hmap.NewIntSet()
	}
	md := map[int32]bool{}
	tr := newTracker(s)
	for i, op := range c.Ops {
		tr.kinds[op.K] = true
		if op.K == "removelive" {
			var keys []int32
			for k := range md {
				keys = append(keys, k)
			}
			k, ok := liveKey(sortedI32(keys), op.N)
			if !ok {
				continue
			}
			op = Op{K: "remove", A: k}
		}
		fail := func(format string, a ...interface{}) *pbt.Result {
			return pbt.Fail("op %d %s: %s", i, op.K, fmt.Sprintf(format, a...))
		}
		present := md[op.A]
		switch op.K {
		case "put":
			if g := s.Put(op.A); g != !present {
				return fail("Put(%d) returned %v, expected %v (present before=%v)", op.A, g, !present, present)
			}
			md[op.A] = true
		case "contains":
			if g := s.Contains(op.A); g != present {
				return fail("Contains(%d)=%v, expected %v", op.A, g, present)
			}
		case "remove":
			want := int32(0)
			if present {
				want = op.A
				tr.beforeRemove(s, int64(op.A), "", false)
			}
			if g := s.Remove(op.A); g != want {
				return fail("Remove(%d) returned %d, expected %d (present=%v)", op.A, g, want, present)
			}
			delete(md, op.A)
		case "removerange":
			for j := 0; j < op.N; j++ {
				k := op.A + int32(j)*op.St
				want := int32(0)
				if md[k] {
					want = k
					tr.beforeRemove(s, int64(k), "", false)
				}
				if g := s.Remove(k); g != want {
					return fail("Remove(%d) (element %d of the range) returned %d, expected %d", k, j, g, want)
				}
				delete(md, k)
				if s.Size() != len(md) {
					return fail("Size()=%d after Remove(%d), the model holds %d", s.Size(), k, len(md))
				}
			}
		case "putall":
			vals := make([]int32, op.N)
			for j := range vals {
				vals[j] = op.A + int32(j)*op.St
				md[vals[j]] = true
			}
			s.PutAll(vals)
		case "putalllist":
			if op.B {
				s.PutAll(nil)
				break
			}
			vals := []int32{}
			for _, p := range op.P {
				vals = append(vals, p.K)
				md[p.K] = true
			}
			s.PutAll(vals)
		case "clear":
			s.Clear()
			md = map[int32]bool{}
		case "enum":
			if err := isEnumerate(s, md); err != nil {
				return fail("%v", err)
			}
		case "tostring":
			str := s.ToString()
			if !strings.HasPrefix(str, "{") || !strings.HasSuffix(str, "}") {
				return fail("ToString()=%.80q is not brace-delimited", str)
			}
			var got, want []int32
			for _, x := range intRE.FindAllString(str, -1) {
				v, err := strconv.ParseInt(x, 10, 32)
				if err != nil {
					return fail("ToString() shows %q, not an int32", x)
				}
				got = append(got, int32(v))
			}
			for k := range md {
				want = append(want, k)
			}
			if err := sameMultiset("ToString()", got, want); err != nil {
				return fail("%v", err)
			}
		default:
			panic("unknown op kind " + op.K)
		}
		if s.Size() != len(md) {
			return fail("Size()=%d afterwards, the model holds %d", s.Size(), len(md))
		}
		tr.afterOp(s, len(md))
	}
	for k := range md {
		if !s.Contains(k) {
			return pbt.Fail("final state: Contains(%d)=false for a stored element", k)
		}
	}
	for _, op := range c.Ops {
		if !md[op.A] && s.Contains(op.A) {
			return pbt.Fail("final state: Contains(%d)=true for an absent element", op.A)
		}
	}
	if err := isEnumerate(s, md); err != nil {
		return pbt.Fail("final state: %v", err)
	}
	return tr.result(len(c.Ops))
}

var specIS = pbt.Register(pbt.Spec[ISCase]{
	Prop: "C12", Name: "intset", Parallel: 8,
	Rule:  "IntSet (fixed 101 buckets, load 0.75): histories of 1-51 ops (put/contains/remove/clear/put-all of progressions, lists and nil/enumerate/to-string/remove ranges); 60% start with a progression of up to 300 elements whose step is 1, 7 or a multiple of the bucket counts, so growth past 75 elements and long chains are frequent; against a Go set; " + ntRule,
	Quick: 20000, Thorough: 1000000,
	Draw: drawIS, Run: noPanic(runIS),
})

func TestIntSet(t *testing.T) { specIS.Check(t) }

// =====================================================================================
// StringSet
// =====================================================================================

type SSCase struct {
	Ctor string `json:"ctor"`
	Ops  []Op   `json:"ops"`
}

var ssKinds = []string{"put", "put", "put", "unipoint", "contains", "contains", "haskey", "remove", "remove", "remove",
	"clear", "enum", "putrange", "removerange", "removelive", "removelive"}

func drawStrRange(t *rapid.T, kind string) Op {
	return Op{K: kind,
		S: gen.Hex([]byte(rapid.SampledFrom([]string{"", "k", "key-", "가", "\xff\x00"}).Draw(t, "prefix"))),
		A: rapid.SampledFrom([]int32{0, 1, -5, 1000}).Draw(t, "sbase"),
		N: rapid.SampledFrom([]int{3, 10, 40, 80, 120, 160, 300}).Draw(t, "sn")}
}

func drawSS(t *rapid.T) SSCase {
	c := SSCase{Ctor: rapid.SampledFrom([]string{"new", "new", "new", "array"}).Draw(t, "ctor")}
	pool := []string{""}
	np := rapid.IntRange(1, 10).Draw(t, "npool")
	for i := 0; i < np; i++ {
		if rapid.Bool().Draw(t, "small") {
			pool = append(pool, gen.SmallString().Draw(t, "s"))
		} else {
			pool = append(pool, gen.String(false).Draw(t, "s"))
		}
	}
	if rapid.IntRange(0, 9).Draw(t, "prefill") < 6 {
		c.Ops = append(c.Ops, drawStrRange(t, "putrange"))
	}
	n := drawNOps(t, 50)
	for i := 0; i < n; i++ {
		k := rapid.SampledFrom(ssKinds).Draw(t, "kind")
		if k == "clear" && rapid.IntRange(0, 3).Draw(t, "keepclear") != 0 {
			k = "put" // keep clears rare: they reset the state the rule needs
		}
		op := Op{K: k}
		switch k {
		case "put", "unipoint", "contains", "haskey", "remove":
			op.S = gen.Hex([]byte(rapid.SampledFrom(pool).Draw(t, "key")))
		case "putrange", "removerange":
			op = drawStrRange(t, k)
		case "removelive":
			op.N = rapid.IntRange(0, 400).Draw(t, "live")
		}
		c.Ops = append(c.Ops, op)
	}
	return c
}

func ssEnumerate(s *hmap.StringSet, md map[string]bool) error {
	var got, want []string
	en := s.Keys()
	for i := 0; en.HasMoreElements(); i++ {
		if i > len(md) {
			return fmt.Errorf("Keys() yields more than Size()=%d elements", len(md))
		}
		got = append(got, en.NextString())
		if i == 0 {
			if o := s.Keys(); o.HasMoreElements() {
				o.NextString()
			}
		}
	}
	for k := range md {
		want = append(want, k)
	}
	return sameStrMultiset("Keys() enumeration", got, want)
}

func runSS(c SSCase) *pbt.Result {
	var s *hmap.StringSet
	if c.Ctor == "array" {
		s = hmap.NewStringSetArray(nil)
	} else {
		s = hmap.NewStringSet()
	}
	md := map[string]bool{} // never holds "": the empty string is documented (by every method) as not storable
	tr := newTracker(s)
	sawEmpty := false
	for i, op := range c.Ops {
		tr.kinds[op.K] = true
		if op.K == "removelive" {
			var keys []string
			for k := range md {
				keys = append(keys, k)
			}
			if len(keys) == 0 {
				continue
			}
			op = Op{K: "remove", S: gen.Hex([]byte(sortedStr(keys)[op.N%len(keys)]))}
		}
		fail := func(format string, a ...interface{}) *pbt.Result {
			return pbt.Fail("op %d %s: %s", i, op.K, fmt.Sprintf(format, a...))
		}
		key := string(gen.UnHex(op.S))
		if key == "" && op.K != "putrange" && op.K != "removerange" && op.K != "clear" && op.K != "enum" {
			sawEmpty = true
		}
		present := md[key]
		switch op.K {
		case "put", "unipoint":
			var g string
			if op.K == "put" {
				g = s.Put(key)
			} else {
				g = s.Unipoint(key)
			}
			if g != key {
				return fail("%s(%q) returned %q, expected the key itself", op.K, key, g)
			}
			if key != "" {
				md[key] = true
			}
		case "contains", "haskey":
			var g bool
			if op.K == "contains" {
				g = s.Contains(key)
			} else {
				g = s.HasKey(key)
			}
			if g != present {
				return fail("%s(%q)=%v, expected %v", op.K, key, g, present)
			}
		case "remove":
			if present {
				tr.beforeRemove(s, 0, key, true)
			}
			if g := s.Remove(key); g != present {
				return fail("Remove(%q) returned %v, expected %v", key, g, present)
			}
			delete(md, key)
		case "putrange":
			for j := 0; j < op.N; j++ {
				k := key + strconv.Itoa(int(op.A)+j)
				if g := s.Put(k); g != k {
					return fail("Put(%q) (element %d of the range) returned %q", k, j, g)
				}
				md[k] = true
				if s.Size() != len(md) {
					return fail("Size()=%d after Put(%q), the model holds %d", s.Size(), k, len(md))
				}
				tr.afterOp(s, len(md))
			}
		case "removerange":
			for j := 0; j < op.N; j++ {
				k := key + strconv.Itoa(int(op.A)+j)
				if md[k] {
					tr.beforeRemove(s, 0, k, true)
				}
				if g := s.Remove(k); g != md[k] {
					return fail("Remove(%q) (element %d of the range) returned %v, expected %v", k, j, g, md[k])
				}
				delete(md, k)
				if s.Size() != len(md) {
					return fail("Size()=%d after Remove(%q), the model holds %d", s.Size(), k, len(md))
				}
			}
		case "clear":
			s.Clear()
			md = map[string]bool{}
		case "enum":
			if err := ssEnumerate(s, md); err != nil {
				return fail("%v", err)
			}
		default:
			panic("unknown op kind " + op.K)
		}
		if s.Size() != len(md) {
			return fail("Size()=%d afterwards, the model holds %d", s.Size(), len(md))
		}
		tr.afterOp(s, len(md))
	}
	for k := range md {
		if !s.Contains(k) {
			return pbt.Fail("final state: Contains(%q)=false for a stored element", k)
		}
	}
	for _, op := range c.Ops {
		if k := string(gen.UnHex(op.S)); !md[k] && s.Contains(k) {
			return pbt.Fail("final state: Contains(%q)=true for an absent element", k)
		}
	}
	if err := ssEnumerate(s, md); err != nil {
		return pbt.Fail("final state: %v", err)
	}
	r := tr.result(len(c.Ops))
	if sawEmpty {
		r.Classes = append(r.Classes, "empty-string-key")
	}
	return r
}

var specSS = pbt.Register(pbt.Spec[SSCase]{
	Prop: "C12", Name: "stringset", Parallel: 8,
	Rule:  "StringSet (fixed 101 buckets, load 0.75, CRC-hashed): histories of 1-51 ops (put/unipoint/contains/has-key/remove/clear/enumerate, put and remove ranges prefix+number) over a pool of empty, ASCII, multi-byte and invalid-UTF-8 strings; the empty string is never stored (Put returns it, Contains/Remove answer false); 60% start with a range of up to 300 strings; against a Go set; " + ntRule,
	Quick: 20000, Thorough: 1000000,
	Draw: drawSS, Run: noPanic(runSS),
})

func TestStringSet(t *testing.T) { specSS.Check(t) }

// ---- hand-written boundary histories -------------------------------------------------------

func TestBoundaries(t *testing.T) {
	// growth + removal of the middle, head and tail of a three-element chain, all four structures
	specII.RunCase(t, IICase{Cap: 3, LF: 1, Ops: []Op{
		{K: "put", A: 1, V: 10}, {K: "put", A: 4, V: 40}, {K: "put", A: 7, V: 70}, {K: "put", A: 2, V: 20}, // 4th put grows 3 -> 7
		{K: "put", A: 8, V: 80}, {K: "put", A: 15, V: 150}, {K: "remove", A: 8}, {K: "remove", A: 1}, {K: "remove", A: 15},
		{K: "add", A: 4, V: math.MaxInt32}, {K: "add", A: 4, V: math.MaxInt32}, {K: "addifexist", A: 99, V: 1}, {K: "addifexist", A: 4, V: 2},
		{K: "put", A: math.MinInt32, V: -1}, {K: "put", A: -1, V: math.MinInt32}, {K: "enum"}, {K: "enumobj"}, {K: "keyarray"}, {K: "valuearray"},
		{K: "sort", B: true}, {K: "tostring"}, {K: "wire", C: 1, L: 0.1}, {K: "containsvalue", V: -1}, {K: "containsvalue", V: 12345}, {K: "clear"}, {K: "wire", C: 5, L: 4}}})
	// a serialized map with more entries than the receiver's growth threshold, read into a receiver that is not empty
	specII.RunCase(t, IICase{Ops: []Op{{K: "putrange", A: -50, St: 3, N: 120}, {K: "wire", C: 4, L: 0.75}, {K: "putrange", A: 1000, St: 1, N: 80}, {K: "wire", C: 3, L: 1}}})
	specIK.RunCase(t, IKCase{Cap: 2, LF: 2, Ops: []Op{
		{K: "putrange", A: 0, St: 5, N: 12}, {K: "put", A: -7, V: 1, B: true}, {K: "removerange", A: 0, St: 10, N: 6}, {K: "keyarray"}, {K: "enum"},
		{K: "containsvalue", V: 1, B: true}, {K: "containsvalue", V: 3}, {K: "containsvalue", V: 77},
		{K: "putall", C: 1, L: 0.1, P: []Pair{{5, 1}, {6, 2}, {5, 3}}}, {K: "putall", B: true}, {K: "tostring"}, {K: "toformatstring"}, {K: "clear"}, {K: "keyarray"}}})
	specIS.RunCase(t, ISCase{Ctor: "new", Ops: []Op{
		{K: "putall", A: 0, St: 101, N: 80}, {K: "remove", A: 101 * 40}, {K: "remove", A: 0}, {K: "remove", A: 101 * 79}, {K: "put", A: math.MinInt32}, {K: "put", A: -1},
		{K: "put", A: -1}, {K: "remove", A: 12345}, {K: "enum"}, {K: "tostring"}, {K: "removerange", A: 0, St: 101, N: 80}, {K: "clear"}, {K: "tostring"}}})
	specSS.RunCase(t, SSCase{Ctor: "new", Ops: []Op{
		{K: "put", S: ""}, {K: "contains", S: ""}, {K: "remove", S: ""}, {K: "putrange", S: gen.Hex([]byte("k")), N: 160}, {K: "removerange", S: gen.Hex([]byte("k")), A: 40, N: 80},
		{K: "unipoint", S: gen.Hex([]byte("\xff"))}, {K: "haskey", S: gen.Hex([]byte("\xff"))}, {K: "enum"}, {K: "clear"}, {K: "enum"}}})
}

// TestKnownFindings prints the KNOWN-FINDING line for each finding of this
// property that is listed as open (never fails; no-op for fixed/unlisted ones).
func TestKnownFindings(t *testing.T) {
	pbt.ProbeKnown("F21", func() (bool, string) {
		m := hmap.NewIntIntMapDefault()
		m.Put(1, 2)
		if p := func() (p interface{}) { defer func() { p = recover() }(); m.ContainsValue(2); return nil }(); p != nil {
			return true, fmt.Sprintf("IntIntMap.ContainsValue(2) after Put(1,2) panics: %v", p)
		}
		return !m.ContainsValue(2), "IntIntMap.ContainsValue(2) after Put(1,2)"
	})
	pbt.ProbeKnown("F22", func() (bool, string) {
		m := hmap.NewIntKeyMapDefault()
		m.Put(1, "x")
		returned, _ := pbt.WithTimeout(5*time.Second, func() { m.KeyArray() })
		return !returned, "IntKeyMap.KeyArray() on a one-element map does not return (5 s)"
	})
	pbt.ProbeKnown(fContainsValueStub, func() (bool, string) {
		m := hmap.NewIntKeyMapDefault()
		m.Put(1, "x")
		return !m.ContainsValue("x"), `IntKeyMap.ContainsValue("x") after Put(1,"x") answers false`
	})
}
