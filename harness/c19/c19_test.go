// C19 Calendar helpers agree with the standard calendar for 2000-2099.
//
// Oracle: the standard library (time.UnixMilli(t).UTC() and its Format / Weekday / Date).
//
// Time zone: the helpers of DateUtil.go are bound to the table getDateTimeHelper("") whose base
// instant is 2000-01-01T00:00:00 UTC, so they are UTC helpers whatever TZ says. DateFormat.Parse
// interprets the fields in time.Now().Location() (= time.Local). The property is stated for UTC:
// the driver exports TZ=UTC and TestMain additionally pins time.Local to UTC, so the check does
// not depend on the environment it is started from.
package c19

import (
	"encoding/binary"
	"fmt"
	"strings"
	"sync"
	"testing"
	"time"
	_ "time/tzdata" // the named zones of the round-trip cases do not depend on the host's zone files
	"unicode/utf8"

	"github.com/whatap/golib/util/dateutil"
	"pgregory.net/rapid"
	"verif/pbt"
)

func TestMain(m *testing.M) {
	time.Local = time.UTC
	pbt.Main(m, "C19")
}

func TestReplay(t *testing.T) { pbt.Replay(t) }

const (
	msSecond  = int64(1000)
	msMinute  = 60 * msSecond
	msFiveMin = 5 * msMinute
	msHour    = 60 * msMinute
	msDay     = 24 * msHour
	nDays     = 36525 // 2000-01-01 … 2099-12-31
)

var (
	baseMs = time.Date(2000, time.January, 1, 0, 0, 0, 0, time.UTC).UnixMilli()
	endMs  = time.Date(2100, time.January, 1, 0, 0, 0, 0, time.UTC).UnixMilli() // exclusive
)

// the library's weekday vocabulary, Monday first ("Thr" is its spelling of Thursday)
var weekdayNames = []string{"Mon", "Tue", "Wed", "Thr", "Fri", "Sat", "Sun"}

func floorDiv(a, b int64) int64 {
	q := a / b
	if a%b != 0 && (a < 0) != (b < 0) {
		q--
	}
	return q
}

// checkInstant compares every helper with the standard calendar at instant t (Unix milliseconds, within the century).
func checkInstant(t int64) error {
	if t < baseMs || t >= endMs {
		panic("instant outside 2000-01-01 … 2099-12-31")
	}
	u := time.UnixMilli(t).UTC()
	ymd := u.Format("20060102")
	for _, c := range []struct{ name, got, want string }{
		{"YYYYMMDD", dateutil.YYYYMMDD(t), ymd},
		{"DateTime", dateutil.DateTime(t), u.Format("20060102 15:04:05")},
		{"TimeStamp", dateutil.TimeStamp(t), u.Format("20060102 15:04:05.000")},
		{"Ymdhms", dateutil.Ymdhms(t), u.Format("20060102150405")},
		{"HHMMSS", dateutil.HHMMSS(t), u.Format("150405")},
		{"HHMM", dateutil.HHMM(t), u.Format("1504")},
	} {
		if c.got != c.want {
			return fmt.Errorf("%s(%d) = %q, the calendar says %q (instant %s)", c.name, t, c.got, c.want, u.Format(time.RFC3339Nano))
		}
	}
	wd := dateutil.WeekDay(t)
	idx := -1
	for i, n := range weekdayNames {
		if n == wd {
			idx = i
		}
	}
	if want := (int(u.Weekday()) + 6) % 7; idx != want {
		return fmt.Errorf("WeekDay(%d) = %q (index %d in Mon..Sun), the calendar says %s (index %d) for %s", t, wd, idx, u.Weekday(), want, ymd)
	}
	midnight := time.Date(u.Year(), u.Month(), u.Day(), 0, 0, 0, 0, time.UTC).UnixMilli()
	if got := dateutil.GetYmdTime(dateutil.YYYYMMDD(t)); got != midnight {
		return fmt.Errorf("GetYmdTime(YYYYMMDD(%d)) = %d, midnight of %s is %d", t, got, ymd, midnight)
	}
	if got := dateutil.GetYmdTime(ymd); got != midnight {
		return fmt.Errorf("GetYmdTime(%q) = %d, midnight is %d", ymd, got, midnight)
	}
	for _, f := range []struct {
		name string
		f    func(int64) int64
		step int64
	}{
		{"GetDateUnit", dateutil.GetDateUnit, msDay},
		{"GetFiveMinUnit", dateutil.GetFiveMinUnit, msFiveMin},
		{"GetMinUnit", dateutil.GetMinUnit, msMinute},
	} {
		k := floorDiv(t-baseMs, f.step)
		if got := f.f(t); got != k {
			return fmt.Errorf("%s(%d) = %d, floor((t - 2000-01-01T00:00Z) / %d ms) = %d", f.name, t, got, f.step, k)
		}
		// step function: constant on [lo, lo+step), one less just before, one more at lo+step
		lo := baseMs + k*f.step
		for _, p := range []struct {
			at   int64
			want int64
		}{{lo, k}, {lo - 1, k - 1}, {lo + f.step - 1, k}, {lo + f.step, k + 1}} {
			if p.at < baseMs || p.at >= endMs {
				continue
			}
			if got := f.f(p.at); got != p.want {
				return fmt.Errorf("%s is not a step function with step %d ms around %d: at %d it is %d, want %d", f.name, f.step, t, p.at, got, p.want)
			}
		}
	}
	return nil
}

var dayOffsets = []int64{0, 1, 999, 1000, 59999, 60000, 3599999, 3600000, 43200000, 86399999}

var sweepDays = pbt.RegisterSweep(pbt.Sweep{Prop: "C19", Name: "calendar-every-day",
	Rule: "every one of the 36525 days 2000-01-01 … 2099-12-31, each at the intra-day offsets {0, 1, 999, 1000, 59999, 60000, 3599999, 3600000, 43200000, 86399999} ms: YYYYMMDD, DateTime, TimeStamp, Ymdhms, HHMMSS, HHMM, WeekDay (as index), GetYmdTime, GetDateUnit/GetFiveMinUnit/GetMinUnit (value and step behaviour at the surrounding boundaries) against time.UnixMilli(t).UTC(); every day is a distinct case",
	N:    nDays,
	Run: func(i uint64) (bool, error) {
		for _, off := range dayOffsets {
			if err := checkInstant(baseMs + int64(i)*msDay + off); err != nil {
				return true, err
			}
		}
		return true, nil
	},
	Show: func(i uint64) interface{} {
		return time.UnixMilli(baseMs + int64(i)*msDay).UTC().Format("2006-01-02")
	}})

func TestEveryDay(t *testing.T) { sweepDays.Check(t, 4) }

type Instant struct {
	Day int   `json:"day"` // days since 2000-01-01
	Off int64 `json:"off"` // milliseconds within the day
}

// drawInstant draws the calendar fields one by one (rapid's integer generators favour small values, so
// a single draw over 36525 days or 86.4 million milliseconds would rarely leave January 2000 / the first
// seconds of a day; per-field draws reach every value of every field and still shrink towards 2000-01-01 00:00:00.000).
func drawInstant(t *rapid.T) Instant {
	y := rapid.IntRange(2000, 2099).Draw(t, "year")
	if rapid.IntRange(0, 7).Draw(t, "yearkind") == 0 {
		y = rapid.SampledFrom([]int{2000, 2001, 2004, 2038, 2096, 2099}).Draw(t, "yearedge")
	}
	mo := rapid.IntRange(1, 12).Draw(t, "month")
	last := time.Date(y, time.Month(mo)+1, 0, 0, 0, 0, 0, time.UTC).Day()
	var d int
	switch rapid.IntRange(0, 3).Draw(t, "daykind") {
	case 0:
		d = rapid.SampledFrom([]int{1, 2, 9, 10, last - 1, last}).Draw(t, "dayedge")
	default:
		d = rapid.IntRange(1, last).Draw(t, "day")
	}
	day := int((time.Date(y, time.Month(mo), d, 0, 0, 0, 0, time.UTC).UnixMilli() - baseMs) / msDay)
	field := func(label string, max int, edges []int) int64 {
		if rapid.IntRange(0, 2).Draw(t, label+"kind") == 0 {
			return int64(rapid.SampledFrom(edges).Draw(t, label+"edge"))
		}
		return int64(rapid.IntRange(0, max).Draw(t, label))
	}
	off := field("hour", 23, []int{0, 1, 9, 10, 11, 12, 13, 19, 20, 23})*msHour +
		field("minute", 59, []int{0, 1, 4, 5, 9, 10, 54, 55, 59})*msMinute +
		field("second", 59, []int{0, 1, 9, 10, 59})*msSecond +
		field("milli", 999, []int{0, 1, 5, 9, 10, 11, 50, 99, 100, 101, 500, 998, 999})
	return Instant{Day: day, Off: off}
}

var specInstants = pbt.Register(pbt.Spec[Instant]{
	Prop: "C19", Name: "calendar-random-instants", Parallel: 8,
	Rule:  "rapid-drawn instants of the century, drawn field by field (year, month, day, hour, minute, second, millisecond; each either over its whole range or from its edge values: first/last day of a month, 59 -> 00 roll-overs, five-minute borders, one-/two-/three-digit milliseconds); same comparison as the day sweep, which includes the unit functions one millisecond before and at the surrounding step borders; non-trivial = offset not in the fixed list of the sweep; distinct by instant",
	Quick: 1500000, Thorough: 7305000,
	Draw: drawInstant,
	Run: func(c Instant) *pbt.Result {
		t := baseMs + int64(c.Day)*msDay + c.Off
		if err := checkInstant(t); err != nil {
			return &pbt.Result{Err: err}
		}
		nt := true
		for _, o := range dayOffsets {
			if o == c.Off {
				nt = false
			}
		}
		u := time.UnixMilli(t).UTC()
		cls := []string{fmt.Sprintf("decade=%d", u.Year()/10*10)}
		if u.Month() == time.February && u.Day() == 29 {
			cls = append(cls, "feb-29")
		}
		if u.Day() == 1 || u.AddDate(0, 0, 1).Day() == 1 {
			cls = append(cls, "month-edge")
		}
		if c.Off%1000 < 100 {
			cls = append(cls, "millis<100")
		}
		return &pbt.Result{NT: nt, Classes: cls, Key: binary.BigEndian.AppendUint64(nil, uint64(t))}
	},
})

func TestRandomInstants(t *testing.T) { specInstants.Check(t) }

// ---- the helpers are UTC helpers whatever the host's zone is -------------------------------------------

type ZonedInstant struct {
	I        Instant `json:"i"`
	Zone     int     `json:"zone,omitempty"` // minutes east of UTC
	ZoneName string  `json:"zone_name,omitempty"`
	// Delta: the agent's server-time correction (dateutil.SetDelta, set on every handshake with a collector whose
	// clock differs) in force while the helpers are called; it corrects "now", never an instant the caller names
	Delta int64 `json:"delta,omitempty"`
}

var zoneNames = []string{"America/New_York", "Europe/Berlin", "Australia/Sydney", "America/Sao_Paulo", "Asia/Seoul", "Pacific/Kiritimati", "Pacific/Pago_Pago"}

var specZoned = pbt.Register(pbt.Spec[ZonedInstant]{
	Prop: "C19", Name: "helpers-ignore-host-zone",
	Rule:  "instants drawn as in calendar-random-instants, checked with the process's local zone (time.Local) set to a fixed offset (-12 h ... +14 h) or a named zone with daylight saving (embedded zone database): every helper (date strings, weekday, units, date-string-to-time, time stamps) must give the UTC answers of the standard library - the helpers are bound to a UTC table, an agent host's zone is not an input; in half of the cases a server-time correction (dateutil.SetDelta: 1 ms .. 30 days, either sign) is in force, which moves the library's notion of now and must not move an instant the caller names (seed C19-s22); non-trivial = every case with a zone other than UTC; distinct by (instant, zone, correction)",
	Quick: 60000, Thorough: 1500000,
	Draw: func(t *rapid.T) ZonedInstant {
		c := ZonedInstant{I: drawInstant(t)}
		if rapid.Bool().Draw(t, "named") {
			c.ZoneName = rapid.SampledFrom(zoneNames).Draw(t, "zonename")
		} else {
			c.Zone = rapid.SampledFrom([]int{540, -480, 330, 345, -210, 60, -60, 780, 840, -720, 1}).Draw(t, "zone")
		}
		if rapid.Bool().Draw(t, "skewed") {
			c.Delta = rapid.SampledFrom([]int64{90500, -90500, 1, -1, 999, -1000, 60000, 300000, 3600000, -3600000, 86400000, -86400000, 30 * 86400000}).Draw(t, "delta")
		}
		return c
	},
	Run: func(c ZonedInstant) *pbt.Result {
		old := time.Local
		defer func() { time.Local = old }()
		oldDelta := dateutil.GetDelta()
		dateutil.SetDelta(c.Delta)
		defer dateutil.SetDelta(oldDelta)
		name := c.ZoneName
		if c.ZoneName != "" {
			loc, err := time.LoadLocation(c.ZoneName)
			if err != nil {
				panic(err)
			}
			time.Local = loc
		} else {
			name = fmt.Sprintf("UTC%+dmin", c.Zone)
			time.Local = time.FixedZone(name, c.Zone*60)
		}
		t := baseMs + int64(c.I.Day)*msDay + c.I.Off
		if err := checkInstant(t); err != nil {
			return pbt.Fail("with the host zone %s and a server-time correction of %d ms: %v", name, c.Delta, err)
		}
		key := binary.BigEndian.AppendUint64(binary.BigEndian.AppendUint64([]byte(name), uint64(t)), uint64(c.Delta))
		cls := []string{"zone=" + name}
		if c.Delta != 0 {
			cls = append(cls, "server-time-correction-in-force")
		}
		return &pbt.Result{NT: true, Classes: cls, Key: key}
	},
})

func TestHelpersIgnoreHostZone(t *testing.T) { specZoned.Check(t) }

// ---- DateFormat: Parse is the inverse of Format ---------------------------------

type FmtCase struct {
	Pattern string `json:"pattern"`
	T       int64  `json:"t"` // Unix milliseconds, 2000-01-01 … 2099-12-31
	// Seq: further instants (cumulative millisecond steps from T, kept inside the century) formatted
	// one after the other by the SAME DateFormat object
	Seq []int64 `json:"seq,omitempty"`
	// Bad > 0: between its first and second Parse the re-used object is given a malformed text (the formatted text cut
	// after Bad/2 runes when Bad is even, with rune Bad/2 replaced by 'x' when odd)
	Bad int `json:"bad,omitempty"`
	// Zone: the process's local zone for this case, minutes east of UTC (Parse reads the fields in the local zone,
	// FormatTime is given the instant in that zone); 0 = UTC
	Zone int `json:"zone,omitempty"`
	// ZoneName: a named zone with daylight saving time instead of a fixed offset (from the embedded time zone database)
	ZoneName string `json:"zone_name,omitempty"`
}

const fieldLetters = "ymdHMSs"

var literals = []string{"-", "/", ":", ".", " ", "T", "Z", ",", "_", "[", "]", "(", ")", "+", "년", "월", "일", "時", "—", "é", "😀", "  ", "::"}

func drawPattern(t *rapid.T) string {
	// which fields: the date letters all or none; any subset of the time letters; at least one field
	var fields []rune
	if rapid.IntRange(0, 3).Draw(t, "withdate") != 0 {
		fields = append(fields, 'y', 'm', 'd')
	}
	for _, r := range "HMSs" {
		if rapid.IntRange(0, 2).Draw(t, "with"+string(r)) != 0 {
			fields = append(fields, r)
		}
	}
	if len(fields) == 0 {
		fields = []rune{rapid.SampledFrom([]rune("HMSs")).Draw(t, "only")}
	}
	switch rapid.IntRange(0, 5).Draw(t, "order") {
	case 0, 1, 2: // natural order
	default: // any order
		fields = rapid.Permutation(fields).Draw(t, "perm")
	}
	if rapid.IntRange(0, 9).Draw(t, "repeat") == 0 { // a field letter used twice
		fields = append(fields, fields[rapid.IntRange(0, len(fields)-1).Draw(t, "which")])
	}
	var sb strings.Builder
	lit := func(label string, pNone int) {
		if rapid.IntRange(0, 9).Draw(t, label) < pNone {
			return
		}
		sb.WriteString(rapid.SampledFrom(literals).Draw(t, label+"lit"))
	}
	lit("lead", 7)
	for i, f := range fields {
		if i > 0 {
			lit("sep", 3)
		}
		sb.WriteRune(f)
	}
	lit("trail", 7)
	return sb.String()
}

func runFmt(c FmtCase) *pbt.Result {
	if c.T < baseMs || c.T >= endMs {
		panic("instant outside the century")
	}
	present := map[rune]bool{}
	nfields := 0
	for _, r := range c.Pattern {
		if strings.ContainsRune(fieldLetters, r) {
			present[r] = true
			nfields++
		}
	}
	if nfields == 0 || (present['y'] != present['m'] || present['m'] != present['d']) {
		panic("pattern outside the precondition (date letters all or none, at least one field): " + c.Pattern)
	}
	if c.Zone != 0 || c.ZoneName != "" {
		// a day away from both ends of the century, so that the local date stays inside it
		if c.T < baseMs+msDay || c.T >= endMs-msDay {
			c.Zone, c.ZoneName = 0, ""
		} else {
			old := time.Local
			if c.ZoneName != "" {
				loc, err := time.LoadLocation(c.ZoneName)
				if err != nil {
					panic(err)
				}
				time.Local = loc
			} else {
				time.Local = time.FixedZone(fmt.Sprintf("UTC%+d", c.Zone), c.Zone*60)
			}
			defer func() { time.Local = old }()
		}
	}
	want := time.UnixMilli(c.T).In(time.Local) // the zone Parse interprets the fields in
	df := dateutil.NewDateFormat(c.Pattern)
	text := df.FormatTime(want)
	fresh := dateutil.NewDateFormat(c.Pattern)
	// a fresh object, the same object a second time (Parse keeps the parsed fields in the object), and the object that formatted
	for pi, parser := range []*dateutil.DateFormat{fresh, fresh, df} {
		if pi == 1 && c.Bad > 0 && len(text) > 0 {
			// before its second use the object is given a text it cannot accept (a corrupted or cut-off line): whatever it
			// answers, the next well-formed text parses as before
			rs := []rune(text)
			bad := ""
			if c.Bad%2 == 0 {
				bad = string(rs[:(c.Bad/2)%len(rs)])
			} else {
				rs[(c.Bad/2)%len(rs)] = 'x'
				bad = string(rs)
			}
			func() {
				defer func() { recover() }()
				parser.Parse(bad)
			}()
		}
		ms, err := parser.Parse(text)
		if err != nil {
			return pbt.Fail("pattern %q: Parse(Format(%s) = %q) failed: %v", c.Pattern, want.Format(time.RFC3339Nano), text, err)
		}
		got := time.UnixMilli(ms).In(time.Local)
		for _, f := range []struct {
			r         rune
			name      string
			got, want int
		}{
			{'y', "year", got.Year(), want.Year()},
			{'m', "month", int(got.Month()), int(want.Month())},
			{'d', "day", got.Day(), want.Day()},
			{'H', "hour", got.Hour(), want.Hour()},
			{'M', "minute", got.Minute(), want.Minute()},
			{'S', "second", got.Second(), want.Second()},
			{'s', "millisecond", got.Nanosecond() / 1e6, want.Nanosecond() / 1e6},
		} {
			if present[f.r] && f.got != f.want {
				return pbt.Fail("pattern %q: Format(%s) = %q, Parse gives %s: %s is %d, want %d", c.Pattern, want.Format(time.RFC3339Nano), text, got.Format(time.RFC3339Nano), f.name, f.got, f.want)
			}
		}
		if len(present) == 7 && ms != c.T {
			// the one legitimate exception: a local time that occurs twice (the hour repeated when daylight saving
			// time ends) names two instants; both render to the same text
			if again := dateutil.NewDateFormat(c.Pattern).FormatTime(got); c.ZoneName == "" || again != text {
				return pbt.Fail("pattern %q has every field: Parse(Format(t)) = %d, t = %d", c.Pattern, ms, c.T)
			}
		}
	}
	// the same object formats further instants: its output is a function of the pattern and the instant only
	cur := c.T
	for i, d := range c.Seq {
		cur += d
		if cur < baseMs || cur >= endMs {
			cur = c.T
		}
		w2 := time.UnixMilli(cur).In(time.Local)
		got2 := df.FormatTime(w2)
		fresh2 := dateutil.NewDateFormat(c.Pattern).FormatTime(w2)
		if got2 != fresh2 {
			return pbt.Fail("pattern %q: after formatting %d other instant(s), FormatTime(%s) = %q on the re-used object but %q on a fresh one", c.Pattern, i+1, w2.Format(time.RFC3339Nano), got2, fresh2)
		}
		ms2, err := dateutil.NewDateFormat(c.Pattern).Parse(got2)
		if err != nil {
			return pbt.Fail("pattern %q: Parse(%q) failed: %v", c.Pattern, got2, err)
		}
		g2 := time.UnixMilli(ms2).In(time.Local)
		if present['s'] && g2.Nanosecond()/1e6 != w2.Nanosecond()/1e6 || present['S'] && g2.Second() != w2.Second() || present['M'] && g2.Minute() != w2.Minute() ||
			present['H'] && g2.Hour() != w2.Hour() || present['d'] && (g2.Day() != w2.Day() || g2.Month() != w2.Month() || g2.Year() != w2.Year()) {
			return pbt.Fail("pattern %q (re-used object): Format(%s) = %q parses as %s", c.Pattern, w2.Format(time.RFC3339Nano), got2, g2.Format(time.RFC3339Nano))
		}
	}
	cls := []string{fmt.Sprintf("fields=%d", nfields)}
	if len(c.Seq) > 0 {
		cls = append(cls, "reused-formatter-sequence")
	}
	if present['y'] {
		cls = append(cls, "with-date")
	} else {
		cls = append(cls, "time-only")
	}
	if len(c.Pattern) != utf8.RuneCountInString(c.Pattern) {
		cls = append(cls, "multi-byte-literal")
	}
	if len(present) == 7 {
		cls = append(cls, "all-fields(exact instant)")
	}
	return &pbt.Result{NT: nfields >= 3, Classes: cls, Key: append(binary.BigEndian.AppendUint64(nil, uint64(c.T)), c.Pattern...)}
}

var specFmt = pbt.Register(pbt.Spec[FmtCase]{
	Prop: "C19", Name: "dateformat-roundtrip",
	Rule:  "patterns over the field letters y m d H M S s (date letters all present or all absent, any subset/order of the time letters, occasionally a repeated letter) with optional literal separators (ASCII punctuation, T, Z, multi-byte runes) and an instant of the century drawn field by field with edge values; Parse(Format(t)) must agree with t on every field present (and equal t when all seven are present), with a fresh and with a re-used DateFormat (which in a quarter of the cases is given a malformed text - cut off, or one rune replaced - in between), in a third of the cases with the process's local zone set to a fixed offset between -12 h and +13 h or to one of five named zones, four of them with daylight saving time (Parse reads the fields in the local zone); in a third of the cases the same object then formats 1-5 further instants (steps of 1 ms .. 1 day, also backwards): each text must equal what a fresh object produces and parse back to its instant; non-trivial = >= 3 fields; distinct by (pattern, instant)",
	Quick: 300000, Thorough: 1500000,
	Draw: func(t *rapid.T) FmtCase {
		c := FmtCase{Pattern: drawPattern(t)}
		in := drawInstant(t)
		c.T = baseMs + int64(in.Day)*msDay + in.Off
		if rapid.IntRange(0, 2).Draw(t, "zone?") == 0 {
			if rapid.Bool().Draw(t, "dstzone") {
				c.ZoneName = rapid.SampledFrom([]string{"America/New_York", "Europe/Berlin", "Australia/Sydney", "America/Sao_Paulo", "Asia/Seoul"}).Draw(t, "zonename")
			} else {
				c.Zone = rapid.SampledFrom([]int{540, -480, 330, 345, -210, 60, -60, 780, -720}).Draw(t, "zone")
			}
		}
		if rapid.IntRange(0, 3).Draw(t, "bad?") == 0 {
			c.Bad = rapid.IntRange(1, 60).Draw(t, "bad")
		}
		if rapid.IntRange(0, 2).Draw(t, "sequence") == 0 {
			c.Seq = rapid.SliceOfN(rapid.SampledFrom([]int64{1, 1, 2, 10, 500, 999, 1000, 1001, -1, -999, 59999, 60000, 3600000, 86400000, -86400000}), 1, 5).Draw(t, "seq")
		}
		return c
	},
	Run: runFmt,
})

func TestDateFormat(t *testing.T) {
	specFmt.Check(t)
	for _, p := range []string{"y-m-d", "ymdHMSs", "y-m-d H:M:S.s", "y/m/d", "H:M", "HMS", "s", "y년m월d일 H時M", "[y.m.d]T(H:M:S)Z", "d-m-y S:M:H s"} {
		for _, ts := range []int64{baseMs, endMs - 1, baseMs + 59*msDay + 5*msHour + 7*msMinute + 9*msSecond + 7, baseMs + 8765*msDay + 23*msHour + 59*msMinute + 59*msSecond + 999} {
			specFmt.RunCase(t, FmtCase{Pattern: p, T: ts})
		}
	}
}

// ---- one DateFormat shared by several goroutines for formatting ------------------------------------

// SharedFmtCase: formatting only reads the pattern, so a formatter kept in a package-level variable (a logger's time
// stamp format) is used from many goroutines at once; every text must be the text of its own instant (seed C19-s23).
type SharedFmtCase struct {
	Pattern string  `json:"pattern"`
	T       []int64 `json:"t"`  // first instant of every goroutine (Unix ms)
	N       int     `json:"n"`  // instants per goroutine
	Step    int64   `json:"st"` // ms between a goroutine's instants
}

var specSharedFmt = pbt.Register(pbt.Spec[SharedFmtCase]{
	Prop: "C19", Name: "dateformat-shared-formatter",
	Rule:  "one DateFormat object (pattern as in dateformat-roundtrip) formats instants of the century on 2-8 goroutines at once (FormatTime only - formatting reads the pattern and nothing else; Parse, which stores the parsed fields in the object, is not called concurrently), 200-2000 instants each; every text must equal the text a fresh object gives for the same instant, and the first and last text of every goroutine must parse back (fresh object) to its instant on every field present; every case is non-trivial; distinct by case",
	Quick: 40, Thorough: 600,
	Draw: func(t *rapid.T) SharedFmtCase {
		c := SharedFmtCase{Pattern: drawPattern(t)}
		g := rapid.IntRange(2, 8).Draw(t, "goroutines")
		for i := 0; i < g; i++ {
			in := drawInstant(t)
			c.T = append(c.T, baseMs+int64(in.Day)*msDay+in.Off)
		}
		c.N = rapid.SampledFrom([]int{200, 500, 2000}).Draw(t, "n")
		c.Step = rapid.SampledFrom([]int64{1, 7, 999, 1001, 61001, 3599999, 86400001}).Draw(t, "step")
		return c
	},
	Run: func(c SharedFmtCase) *pbt.Result {
		shared := dateutil.NewDateFormat(c.Pattern)
		texts := make([][]string, len(c.T))
		instant := func(g, k int) time.Time {
			ms := c.T[g] + int64(k)*c.Step
			if ms >= endMs {
				ms = baseMs + (ms-baseMs)%(endMs-baseMs)
			}
			return time.UnixMilli(ms).In(time.Local)
		}
		var wg sync.WaitGroup
		start := make(chan struct{})
		for g := range c.T {
			texts[g] = make([]string, c.N)
			wg.Add(1)
			go func(g int) {
				defer wg.Done()
				<-start
				for k := 0; k < c.N; k++ {
					texts[g][k] = shared.FormatTime(instant(g, k))
				}
			}(g)
		}
		close(start)
		wg.Wait()
		fresh := dateutil.NewDateFormat(c.Pattern)
		for g := range c.T {
			for k := 0; k < c.N; k++ {
				if want := fresh.FormatTime(instant(g, k)); texts[g][k] != want {
					return pbt.Fail("pattern %q shared by %d goroutines: FormatTime(%s) returned %q to goroutine %d (its call %d); the text of that instant is %q", c.Pattern, len(c.T), instant(g, k).Format(time.RFC3339Nano), texts[g][k], g, k, want)
				}
			}
		}
		return &pbt.Result{NT: true, Classes: []string{fmt.Sprintf("goroutines=%d", len(c.T))}}
	},
})

func TestDateFormatShared(t *testing.T) { specSharedFmt.Check(t) }
