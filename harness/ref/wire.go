// Package ref is an independent reference implementation of the WhaTap wire
// formats, written from the protocol layout. It imports nothing from golib.
package ref

import (
	"encoding/binary"
	"errors"
	"math"
)

// Field kinds recorded by the annotated encoder.
const (
	KLen   = "len"   // byte length of a following byte string
	KCount = "count" // number of following elements
	KTag   = "tag"   // type tag
)

// Mark is one length / count / type-tag field of an encoding.
type Mark struct {
	Off   int    // offset of the field's first byte
	Width int    // number of bytes of the field (for decimals: including the class byte)
	Kind  string // KLen, KCount, KTag
	Enc   string // "u8", "i16", "u16", "i24", "i32", "dec", "blob" (blob length prefix)
	Val   int64  // the honest value
}

// W is the reference output stream.
type W struct {
	B     []byte
	Marks []Mark
	// Override, when >=0, replaces the value of the Override-th mark by OverrideVal
	// (the elements that follow are written unchanged).
	Override    int
	OverrideVal int64
}

func NewW() *W { return &W{Override: -1} }

func (w *W) Len() int { return len(w.B) }

func (w *W) mark(kind, enc string, v int64, width int) int64 {
	idx := len(w.Marks)
	w.Marks = append(w.Marks, Mark{Off: len(w.B), Width: width, Kind: kind, Enc: enc, Val: v})
	if idx == w.Override {
		return w.OverrideVal
	}
	return v
}

func (w *W) Bool(b bool) {
	if b {
		w.B = append(w.B, 1)
	} else {
		w.B = append(w.B, 0)
	}
}
func (w *W) U8(v byte)    { w.B = append(w.B, v) }
func (w *W) I16(v int16)  { w.B = binary.BigEndian.AppendUint16(w.B, uint16(v)) }
func (w *W) U16(v uint16) { w.B = binary.BigEndian.AppendUint16(w.B, v) }
func (w *W) I24(v int32)  { w.B = append(w.B, byte(uint32(v)>>16), byte(uint32(v)>>8), byte(uint32(v))) }
func (w *W) I32(v int32)  { w.B = binary.BigEndian.AppendUint32(w.B, uint32(v)) }
func (w *W) I40(v int64) {
	w.B = append(w.B, byte(uint64(v)>>32), byte(uint64(v)>>24), byte(uint64(v)>>16), byte(uint64(v)>>8), byte(uint64(v)))
}
func (w *W) I64(v int64)   { w.B = binary.BigEndian.AppendUint64(w.B, uint64(v)) }
func (w *W) F32(v float32) { w.B = binary.BigEndian.AppendUint32(w.B, math.Float32bits(v)) }
func (w *W) F64(v float64) { w.B = binary.BigEndian.AppendUint64(w.B, math.Float64bits(v)) }
func (w *W) Raw(b []byte)  { w.B = append(w.B, b...) }

// Class limits of the variable-length decimal, as explicit constants.
const (
	d1Min = -128
	d1Max = 127
	d2Min = -32768
	d2Max = 32767
	d3Min = -8388608
	d3Max = 8388607
	d4Min = -2147483648
	d4Max = 2147483647
	d5Min = -549755813888
	d5Max = 549755813887
)

// DecClass returns the number of payload bytes of the shortest decimal form holding v.
func DecClass(v int64) int {
	switch {
	case v == 0:
		return 0
	case v >= d1Min && v <= d1Max:
		return 1
	case v >= d2Min && v <= d2Max:
		return 2
	case v >= d3Min && v <= d3Max:
		return 3
	case v >= d4Min && v <= d4Max:
		return 4
	case v >= d5Min && v <= d5Max:
		return 5
	}
	return 8
}

func (w *W) Dec(v int64) {
	c := DecClass(v)
	w.B = append(w.B, byte(c))
	for i := c - 1; i >= 0; i-- {
		w.B = append(w.B, byte(uint64(v)>>(8*uint(i))))
	}
}

// DecForced writes v in the given class (used to build non-canonical or hostile encodings).
func (w *W) DecForced(v int64, class int) {
	w.B = append(w.B, byte(class))
	n := class
	if n != 0 && n != 1 && n != 2 && n != 3 && n != 4 && n != 5 {
		n = 8
	}
	for i := n - 1; i >= 0; i-- {
		w.B = append(w.B, byte(uint64(v)>>(8*uint(i))))
	}
}

// CountDec writes a decimal count field (annotated).
func (w *W) CountDec(n int) {
	v := w.mark(KCount, "dec", int64(n), 1+DecClass(int64(n)))
	w.Dec(v)
}

// CountU8 writes a one-byte count field (annotated).
func (w *W) CountU8(n int) {
	v := w.mark(KCount, "u8", int64(n), 1)
	w.U8(byte(v))
}

// CountI16 writes a 16-bit count field (annotated).
func (w *W) CountI16(n int) {
	v := w.mark(KCount, "i16", int64(n), 2)
	w.I16(int16(v))
}

// CountI24 writes a 24-bit count field (annotated).
func (w *W) CountI24(n int) {
	v := w.mark(KCount, "i24", int64(n), 3)
	w.I24(int32(v))
}

// CountI32 writes a 32-bit count field (annotated).
func (w *W) CountI32(n int) {
	v := w.mark(KCount, "i32", int64(n), 4)
	w.I32(int32(v))
}

// Tag writes a one-byte type tag (annotated).
func (w *W) Tag(t byte) {
	v := w.mark(KTag, "u8", int64(t), 1)
	w.U8(byte(v))
}

// Tag16 writes a 16-bit type tag (annotated).
func (w *W) Tag16(t int16) {
	v := w.mark(KTag, "i16", int64(t), 2)
	w.I16(int16(v))
}

// Blob writes the blob form: <=253 one length byte; 255 + u16; 254 + i32.
func (w *W) Blob(b []byte) {
	n := len(b)
	switch {
	case n == 0:
		v := w.mark(KLen, "blob", 0, 1)
		w.blobLen(v, 0)
		return
	case n <= 253:
		v := w.mark(KLen, "blob", int64(n), 1)
		w.blobLen(v, n)
	case n <= 65535:
		v := w.mark(KLen, "blob", int64(n), 3)
		w.blobLen(v, n)
	default:
		v := w.mark(KLen, "blob", int64(n), 5)
		w.blobLen(v, n)
	}
	w.B = append(w.B, b...)
}

// blobLen writes a blob length prefix for the (possibly overridden) length v;
// honest is the honest length (decides nothing: the form follows v).
func (w *W) blobLen(v int64, honest int) {
	switch {
	case v >= 0 && v <= 253:
		w.B = append(w.B, byte(v))
	case v >= 0 && v <= 65535:
		w.B = append(w.B, 255)
		w.U16(uint16(v))
	default:
		w.B = append(w.B, 254)
		w.I32(int32(v))
	}
}

func (w *W) Text(s string) { w.Blob([]byte(s)) }

// ShortBytes writes a 16-bit length followed by the bytes.
func (w *W) ShortBytes(b []byte) {
	v := w.mark(KLen, "u16", int64(len(b)), 2)
	w.U16(uint16(v))
	w.B = append(w.B, b...)
}

// IntBytes writes a 32-bit length followed by the bytes.
func (w *W) IntBytes(b []byte) {
	v := w.mark(KLen, "i32", int64(len(b)), 4)
	w.I32(int32(v))
	w.B = append(w.B, b...)
}

func (w *W) I16Array(a []int16) {
	w.CountI16(len(a))
	for _, x := range a {
		w.I16(x)
	}
}
func (w *W) I32Array(a []int32) {
	w.CountI16(len(a))
	for _, x := range a {
		w.I32(x)
	}
}
func (w *W) I64Array(a []int64) {
	w.CountI16(len(a))
	for _, x := range a {
		w.I64(x)
	}
}
func (w *W) F32Array(a []float32) {
	w.CountI16(len(a))
	for _, x := range a {
		w.F32(x)
	}
}
func (w *W) F64Array(a []float64) {
	w.CountI16(len(a))
	for _, x := range a {
		w.F64(x)
	}
}
func (w *W) TextArray(a []string) {
	w.CountI16(len(a))
	for _, x := range a {
		w.Text(x)
	}
}

// ---- reader -------------------------------------------------------------------

var ErrShort = errors.New("ref: short input")
var ErrBad = errors.New("ref: malformed input")

// R is the reference input stream. Any read past the end sets Err and returns zero.
type R struct {
	B   []byte
	Pos int
	Err error
}

func NewR(b []byte) *R { return &R{B: b} }

func (r *R) Left() int { return len(r.B) - r.Pos }

func (r *R) take(n int) []byte {
	if r.Err != nil {
		return nil
	}
	if n < 0 || n > r.Left() {
		r.Err = ErrShort
		return nil
	}
	b := r.B[r.Pos : r.Pos+n]
	r.Pos += n
	return b
}

func (r *R) U8() byte {
	b := r.take(1)
	if b == nil {
		return 0
	}
	return b[0]
}
func (r *R) Bool() bool { return r.U8() == 1 }
func (r *R) I16() int16 {
	b := r.take(2)
	if b == nil {
		return 0
	}
	return int16(binary.BigEndian.Uint16(b))
}
func (r *R) U16() uint16 { return uint16(r.I16()) }
func (r *R) I24() int32 {
	b := r.take(3)
	if b == nil {
		return 0
	}
	u := uint32(b[0])<<16 | uint32(b[1])<<8 | uint32(b[2])
	if u&0x800000 != 0 {
		u |= 0xff000000
	}
	return int32(u)
}
func (r *R) I32() int32 {
	b := r.take(4)
	if b == nil {
		return 0
	}
	return int32(binary.BigEndian.Uint32(b))
}
func (r *R) I40() int64 {
	b := r.take(5)
	if b == nil {
		return 0
	}
	u := uint64(b[0])<<32 | uint64(b[1])<<24 | uint64(b[2])<<16 | uint64(b[3])<<8 | uint64(b[4])
	if u&0x8000000000 != 0 {
		u |= 0xffffff0000000000
	}
	return int64(u)
}
func (r *R) I64() int64 {
	b := r.take(8)
	if b == nil {
		return 0
	}
	return int64(binary.BigEndian.Uint64(b))
}
func (r *R) F32() float32 { return math.Float32frombits(uint32(r.I32())) }
func (r *R) F64() float64 { return math.Float64frombits(uint64(r.I64())) }

// Dec reads a decimal; NonCanon is set when the class used was not the minimal one.
func (r *R) Dec() int64 {
	v, _ := r.DecC()
	return v
}

// DecC reads a decimal and reports whether its class byte was the canonical one.
func (r *R) DecC() (int64, bool) {
	c := r.U8()
	var v int64
	switch c {
	case 0:
		v = 0
	case 1:
		v = int64(int8(r.U8()))
	case 2:
		v = int64(r.I16())
	case 3:
		v = int64(r.I24())
	case 4:
		v = int64(r.I32())
	case 5:
		v = r.I40()
	default:
		v = r.I64()
		if r.Err != nil {
			return 0, false
		}
		return v, c == 8 && DecClass(v) == 8
	}
	if r.Err != nil {
		return 0, false
	}
	return v, DecClass(v) == int(c)
}

// Blob reads the blob form. canon reports whether the shortest prefix form was used.
func (r *R) Blob() []byte {
	b, _ := r.BlobC()
	return b
}

func (r *R) BlobC() ([]byte, bool) {
	l := r.U8()
	switch l {
	case 255:
		n := int(r.U16())
		return r.take(n), n > 253
	case 254:
		n := int(r.I32())
		if n < 0 {
			if r.Err == nil {
				r.Err = ErrBad
			}
			return nil, false
		}
		return r.take(n), n > 65535
	case 0:
		return []byte{}, true
	}
	return r.take(int(l)), true
}

func (r *R) Text() string { return string(r.Blob()) }

func (r *R) ShortBytes() []byte { return r.take(int(r.U16())) }
func (r *R) IntBytes() []byte {
	n := r.I32()
	if n < 0 {
		if r.Err == nil {
			r.Err = ErrBad
		}
		return nil
	}
	return r.take(int(n))
}
