package ref

import (
	"hash/crc32"
)

// crcTable is generated from the reflected polynomial 0xEDB88320 (not copied from golib).
var crcTable = func() [256]uint32 {
	var t [256]uint32
	for i := 0; i < 256; i++ {
		c := uint32(i)
		for k := 0; k < 8; k++ {
			if c&1 == 1 {
				c = c>>1 ^ 0xEDB88320
			} else {
				c >>= 1
			}
		}
		t[i] = c
	}
	return t
}()

// Hash32 is CRC-32/IEEE.
func Hash32(b []byte) int32 { return int32(crc32.ChecksumIEEE(b)) }

// Hash64 is the 64-bit table-driven CRC variant used for license and tag hashes:
// a 64-bit register initialised to all ones, shifted right by 8 per byte and
// XORed with the sign-extended 32-bit table entry, inverted at the end.
func Hash64(b []byte) int64 {
	crc := ^uint64(0)
	for _, x := range b {
		crc = crc>>8 ^ uint64(int64(int32(crcTable[byte(crc)^x])))
	}
	return int64(^crc)
}

// Header is the common pack header.
type Header struct {
	Pcode int64
	Oid   int32
	Okind int32
	Onode int32
	Time  int64
}

// PutHeader writes the common header in its short or marker-9 form.
func (w *W) PutHeader(h Header) {
	if h.Okind|h.Onode == 0 {
		w.Dec(h.Pcode)
		w.I32(h.Oid)
		w.I64(h.Time)
		return
	}
	w.U8(9)
	w.Dec(h.Pcode)
	w.I32(h.Oid)
	w.I32(h.Okind)
	w.I32(h.Onode)
	w.I64(h.Time)
}

// Pack type codes covered by the reference body encoders.
const (
	PParam    = 0x0100
	PCounter1 = 0x0201
	PText     = 0x0700
	PEvent    = 0x1400
	PHitMap1  = 0x1501
	PTagCount = 0x1601
	PLogSink  = 0x170a
	PZip      = 0x170b
)

// Frame builds a one-way TCP message: source byte, version byte, project code,
// license hash, 4-byte length, then the payload (2-byte pack type + body).
func Frame(netSrc, netSrcVer byte, pcode, licenseHash int64, payload []byte) []byte {
	w := NewW()
	w.U8(netSrc)
	w.U8(netSrcVer)
	w.I64(pcode)
	w.I64(licenseHash)
	w.IntBytes(payload)
	return w.B
}

// tagHashAndMap writes the tag hash (computed from the encoded map when the
// stored hash is zero and the map is non-empty) followed by the tagged map.
func (w *W) tagHashAndMap(stored int64, tags *V) {
	enc := ValueBytes(tags)
	h := stored
	if stored == 0 && len(tags.K) > 0 {
		h = Hash64(enc)
	}
	w.Dec(h)
	w.Raw(enc)
}

// TagCountBody: header, version byte 0, category, tag hash, tag map, data map.
func TagCountBody(h Header, category string, storedTagHash int64, tags, data *V) []byte {
	w := NewW()
	w.PutHeader(h)
	w.U8(0)
	w.Text(category)
	w.tagHashAndMap(storedTagHash, tags)
	EncodeValue(w, data)
	return w.B
}

// LogSinkBody: header, version byte 0, category, tag hash, tag map, line, content, presence flag + fields map.
func LogSinkBody(h Header, category string, storedTagHash int64, tags *V, line int64, content string, fields *V) []byte {
	w := NewW()
	w.PutHeader(h)
	w.U8(0)
	w.Text(category)
	w.tagHashAndMap(storedTagHash, tags)
	w.Dec(line)
	w.Text(content)
	if fields != nil && len(fields.K) > 0 {
		w.Bool(true)
		EncodeValue(w, fields)
	} else {
		w.Bool(false)
	}
	return w.B
}

// TextRec is one record of a text pack.
type TextRec struct {
	Div  byte
	Hash int32
	Text string
}

// TextBody: header, decimal count, records (div byte, 4-byte hash, text).
func TextBody(h Header, recs []TextRec) []byte {
	w := NewW()
	w.PutHeader(h)
	w.CountDec(len(recs))
	for _, r := range recs {
		w.U8(r.Div)
		w.I32(r.Hash)
		w.Text(r.Text)
	}
	return w.B
}

// ParamBody: header, 4-byte id, decimal request, decimal response, decimal count, (text key, tagged value)*.
func ParamBody(h Header, id int32, request, response int64, table *V) []byte {
	w := NewW()
	w.PutHeader(h)
	w.I32(id)
	w.Dec(request)
	w.Dec(response)
	w.CountDec(len(table.K))
	for i, k := range table.K {
		w.Blob(unhex(k))
		EncodeValue(w, table.L[i])
	}
	return w.B
}

// KV is a text attribute.
type KV struct{ K, V string }

// EventBody: header, level byte, title, message, one-byte attribute count, (text key, text value)*.
// attrs is the complete attribute list in wire order (user attributes followed by the reserved ones).
func EventBody(h Header, level byte, title, message string, attrs []KV) []byte {
	w := NewW()
	w.PutHeader(h)
	w.U8(level)
	w.Text(title)
	w.Text(message)
	w.CountU8(len(attrs))
	for _, a := range attrs {
		w.Text(a.K)
		w.Text(a.V)
	}
	return w.B
}

// ZipBody: header, status byte, decimal record count, blob of records.
func ZipBody(h Header, status byte, recordCount int64, records []byte) []byte {
	w := NewW()
	w.PutHeader(h)
	w.U8(status)
	w.Dec(recordCount)
	w.Blob(records)
	return w.B
}

// HitMapBody: header, version byte 1, 120 x (hit u16, error u16).
func HitMapBody(h Header, hit, errs []int32) []byte {
	w := NewW()
	w.PutHeader(h)
	w.U8(1)
	for i := 0; i < 120; i++ {
		w.U16(uint16(hit[i]))
		w.U16(uint16(errs[i]))
	}
	return w.B
}

// Meter is one entry of the per-key meter maps of the counter pack.
type Meter struct {
	Key        int32 // int-keyed maps
	Pcode      int64 // group / project-object maps
	Sub        int32 // okind or oid
	Time       int64
	Count      int32
	Error      int32
	Actx       int32
	FetchCount int64
	FetchTime  int64
}

// Counter is the reference view of the counter pack body.
type Counter struct {
	H                                                          Header
	Duration                                                   int32
	Cputime, HeapTot, HeapUse, HeapPerm                        int64
	HeapPendingFinalization, GcCount                           int32
	GcTime                                                     int64
	ServiceCount, ServiceError                                 int32
	ServiceTime                                                int64
	SqlCount, SqlError                                         int32
	SqlTime, SqlFetchCount, SqlFetchTime                       int64
	HttpcCount, HttpcError                                     int32
	HttpcTime                                                  int64
	ActSvcCount                                                int32
	ActSvcSlice                                                []int16 // nil: count byte 0
	Cpu, CpuSys, CpuUsr, CpuWait, CpuSteal, CpuIrq, CpuProc    uint32  // float bit patterns
	CpuCores                                                   int32
	Mem, Swap, Disk                                            uint32
	ThreadTotalStarted                                         int64
	ThreadCount, ThreadDaemon, ThreadPeakCount                 int32
	HasDbNum                                                   bool
	DbNumActive, DbNumIdle                                     [][2]int32 // in the map's enumeration order
	Netstat                                                    *[4]int32  // est, fin_w, clo_w, tim_w
	ProcFd                                                     int32
	Tps                                                        uint32
	RespTime                                                   int32
	ApType                                                     int16
	Websocket                                                  *[3]int64 // count, in, out
	Starttime, PackDropped                                     int64
	HostIp, MacHash                                            int32
	Extra                                                      *V
	Pid                                                        int32
	ActiveStat                                                 []int16
	ThreadPoolActiveCount, ThreadPoolQueueSize                 int32
	TxcallerOidMeter, SqlMeter, HttpcMeter, TxcallerGroupMeter *[]Meter // nil: absent
	TxcallerUnknown                                            *Meter
	ContainerKey                                               int32
	TxDbcTime, TxSqlTime, TxHttpcTime                          uint32
	ApdexSatisfied, ApdexTolerated                             int32
	ArrivalRate                                                uint32
	GcOldgenCount                                              int32
	Version                                                    byte
	HeapMax                                                    int64
	ProcFdMax                                                  int32
	Metering                                                   uint32
	ApdexTotal                                                 int32
	TxcallerPOidMeter                                          *[]Meter
	Resp90, Resp95                                             int32
	TimeSqrSum                                                 int64
}

func (w *W) f32bits(u uint32) { w.I32(int32(u)) }

// CounterBody: header followed by ONE blob holding all fields in fixed order with presence bytes.
func CounterBody(c *Counter) []byte {
	w := NewW()
	d := func(x int32) int64 { return int64(x) }
	w.Dec(d(c.Duration))
	w.Dec(c.Cputime)
	w.Dec(c.HeapTot)
	w.Dec(c.HeapUse)
	w.Dec(c.HeapPerm)
	w.Dec(d(c.HeapPendingFinalization))
	w.Dec(d(c.GcCount))
	w.Dec(c.GcTime)
	w.Dec(d(c.ServiceCount))
	w.Dec(d(c.ServiceError))
	w.Dec(c.ServiceTime)
	w.Dec(d(c.SqlCount))
	w.Dec(d(c.SqlError))
	w.Dec(c.SqlTime)
	w.Dec(c.SqlFetchCount)
	w.Dec(c.SqlFetchTime)
	w.Dec(d(c.HttpcCount))
	w.Dec(d(c.HttpcError))
	w.Dec(c.HttpcTime)
	w.Dec(d(c.ActSvcCount))
	w.CountU8(len(c.ActSvcSlice))
	for _, x := range c.ActSvcSlice {
		w.I16(x)
	}
	for _, f := range []uint32{c.Cpu, c.CpuSys, c.CpuUsr, c.CpuWait, c.CpuSteal, c.CpuIrq, c.CpuProc} {
		w.f32bits(f)
	}
	w.Dec(d(c.CpuCores))
	w.f32bits(c.Mem)
	w.f32bits(c.Swap)
	w.f32bits(c.Disk)
	w.Dec(c.ThreadTotalStarted)
	w.Dec(d(c.ThreadCount))
	w.Dec(d(c.ThreadDaemon))
	w.Dec(d(c.ThreadPeakCount))
	if !c.HasDbNum {
		w.U8(0)
	} else {
		w.U8(1)
		for _, m := range [][][2]int32{c.DbNumActive, c.DbNumIdle} {
			w.CountDec(len(m))
			for _, kv := range m {
				w.Dec(d(kv[0]))
				w.Dec(d(kv[1]))
			}
		}
	}
	if c.Netstat == nil {
		w.U8(0)
	} else {
		w.U8(1)
		for _, x := range c.Netstat {
			w.Dec(d(x))
		}
	}
	w.Dec(d(c.ProcFd))
	w.f32bits(c.Tps)
	w.Dec(d(c.RespTime))
	w.I16(c.ApType)
	if c.Websocket == nil {
		w.U8(0)
	} else {
		w.U8(1)
		for _, x := range c.Websocket {
			w.Dec(x)
		}
	}
	w.Dec(c.Starttime)
	w.Dec(c.PackDropped)
	w.Dec(d(c.HostIp))
	w.Dec(d(c.MacHash))
	if c.Extra == nil {
		w.U8(0)
	} else {
		w.U8(1)
		EncodeValue(w, c.Extra)
	}
	w.I32(c.Pid)
	w.CountU8(len(c.ActiveStat))
	for _, x := range c.ActiveStat {
		w.I16(x)
	}
	w.Dec(d(c.ThreadPoolActiveCount))
	w.Dec(d(c.ThreadPoolQueueSize))
	meters := func(m *[]Meter, kind int) {
		if m == nil {
			w.Dec(0)
			return
		}
		w.U8(9)
		w.CountDec(len(*m))
		for _, e := range *m {
			if kind == 3 {
				w.Dec(e.Pcode)
				w.Dec(d(e.Sub))
			} else {
				w.I32(e.Key)
			}
			w.Dec(e.Time)
			w.Dec(d(e.Count))
			w.Dec(d(e.Error))
			w.Dec(d(e.Actx))
			if kind == 1 {
				w.Dec(e.FetchCount)
				w.Dec(e.FetchTime)
			}
		}
	}
	meters(c.TxcallerOidMeter, 0)
	meters(c.SqlMeter, 1)
	meters(c.HttpcMeter, 2)
	meters(c.TxcallerGroupMeter, 3)
	w.Dec(0) // deprecated kind meter: always empty
	if c.TxcallerUnknown != nil {
		w.U8(2)
		w.Dec(c.TxcallerUnknown.Time)
		w.Dec(d(c.TxcallerUnknown.Count))
		w.Dec(d(c.TxcallerUnknown.Error))
		w.Dec(d(c.TxcallerUnknown.Actx))
	} else {
		w.U8(0)
	}
	w.Dec(d(c.ContainerKey))
	w.f32bits(c.TxDbcTime)
	w.f32bits(c.TxSqlTime)
	w.f32bits(c.TxHttpcTime)
	w.Dec(d(c.ApdexSatisfied))
	w.Dec(d(c.ApdexTolerated))
	w.f32bits(c.ArrivalRate)
	w.Dec(d(c.GcOldgenCount))
	w.U8(c.Version)
	w.Dec(c.HeapMax)
	w.Dec(d(c.ProcFdMax))
	w.f32bits(c.Metering)
	w.Dec(d(c.ApdexTotal))
	if c.TxcallerPOidMeter == nil {
		w.Dec(0)
	} else {
		w.CountDec(len(*c.TxcallerPOidMeter))
		for _, e := range *c.TxcallerPOidMeter {
			w.Dec(e.Pcode)
			w.Dec(d(e.Sub))
			w.Dec(e.Time)
			w.Dec(d(e.Count))
			w.Dec(d(e.Error))
			w.Dec(d(e.Actx))
		}
	}
	w.Dec(d(c.Resp90))
	w.Dec(d(c.Resp95))
	w.Dec(c.TimeSqrSum)
	out := NewW()
	out.PutHeader(c.H)
	out.Blob(w.B)
	return out.B
}
