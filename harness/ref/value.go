package ref

import (
	"bytes"
	"encoding/hex"
	"fmt"
	"math"
)

// Type codes of the tagged value model (from the protocol layout).
const (
	TNull     = 0
	TBool     = 10
	TDecimal  = 20
	TInt      = 21
	TLong     = 22
	TFloat    = 30
	TDouble   = 40
	TDSum     = 45
	TLSum     = 46
	TText     = 50
	TTextHash = 51
	TBlob     = 60
	TIP4      = 61
	TList     = 70
	TIntArr   = 71
	TFloatArr = 72
	TTextArr  = 73
	TLongArr  = 74
	TMap      = 80
	TIntMap   = 81
)

// AllTypes lists the 20 registered type codes.
var AllTypes = []byte{TNull, TBool, TDecimal, TInt, TLong, TFloat, TDouble, TDSum, TLSum, TText, TTextHash, TBlob, TIP4, TList, TIntArr, TFloatArr, TTextArr, TLongArr, TMap, TIntMap}

// V is a value of the tagged value model in a JSON-friendly form.
//
//	T            type code
//	I            bool (0/1), decimal, int, long, text-hash, float bits (32) or double bits (64)
//	S            hex of the payload for text, blob and IPv4 (4 bytes)
//	N            summaries: [sum, count, min, max] (double summary: IEEE bit patterns for sum/min/max);
//	             int/long/float arrays: elements (floats as 32-bit patterns)
//	TA           text array elements (hex each)
//	L            list items; map values (parallel to K / KI)
//	K            string-map keys (hex each), in insertion order
//	KI           int-map keys, in insertion order
type V struct {
	T  byte     `json:"t"`
	I  int64    `json:"i,omitempty"`
	S  string   `json:"s,omitempty"`
	N  []int64  `json:"n,omitempty"`
	TA []string `json:"ta,omitempty"`
	L  []*V     `json:"l,omitempty"`
	K  []string `json:"k,omitempty"`
	KI []int32  `json:"ki,omitempty"`
}

func unhex(s string) []byte {
	b, err := hex.DecodeString(s)
	if err != nil {
		panic("ref: bad hex in value: " + err.Error())
	}
	return b
}

// EncodeValue writes the type tag and the payload.
func EncodeValue(w *W, v *V) {
	w.Tag(v.T)
	EncodeValueBody(w, v)
}

// EncodeValueBody writes the payload without the tag.
func EncodeValueBody(w *W, v *V) {
	switch v.T {
	case TNull:
	case TBool:
		w.Bool(v.I != 0)
	case TDecimal:
		w.Dec(v.I)
	case TInt, TTextHash:
		w.I32(int32(v.I))
	case TLong:
		w.I64(v.I)
	case TFloat:
		w.I32(int32(uint32(v.I)))
	case TDouble:
		w.I64(v.I)
	case TDSum, TLSum:
		n := v.N
		if len(n) != 4 {
			n = []int64{0, 0, 0, 0}
		}
		w.I64(n[0])
		w.I32(int32(n[1]))
		w.I64(n[2])
		w.I64(n[3])
	case TText, TBlob:
		w.Blob(unhex(v.S))
	case TIP4:
		b := unhex(v.S)
		if len(b) != 4 {
			b = []byte{0, 0, 0, 0}
		}
		w.Raw(b)
	case TList:
		w.CountDec(len(v.L))
		for _, e := range v.L {
			EncodeValue(w, e)
		}
	case TIntArr:
		w.CountI16(len(v.N))
		for _, x := range v.N {
			w.I32(int32(x))
		}
	case TFloatArr:
		w.CountI16(len(v.N))
		for _, x := range v.N {
			w.I32(int32(uint32(x)))
		}
	case TLongArr:
		w.CountI16(len(v.N))
		for _, x := range v.N {
			w.I64(x)
		}
	case TTextArr:
		w.CountI16(len(v.TA))
		for _, x := range v.TA {
			w.Blob(unhex(x))
		}
	case TMap:
		w.CountDec(len(v.K))
		for i, k := range v.K {
			w.Blob(unhex(k))
			EncodeValue(w, v.L[i])
		}
	case TIntMap:
		w.CountDec(len(v.KI))
		for i, k := range v.KI {
			w.I32(k)
			EncodeValue(w, v.L[i])
		}
	default:
		panic(fmt.Sprintf("ref: unknown value type %d", v.T))
	}
}

// ValueBytes returns the tagged encoding of v.
func ValueBytes(v *V) []byte {
	w := NewW()
	EncodeValue(w, v)
	return w.B
}

// DecodeInfo collects facts about a decoded encoding that make re-encoding differ legitimately.
type DecodeInfo struct {
	NonCanonical bool // a decimal or blob prefix was not in its shortest form
	DupKeys      bool // a map repeated a key (the later entry replaces the earlier one)
	MaxDepth     int
}

const maxDecodeDepth = 100000 // far above the deepest generated value (20000); only bounds hostile input

// DecodeValue reads one tagged value. r.Err is set on short or malformed input.
func DecodeValue(r *R, info *DecodeInfo) *V {
	return decodeValue(r, info, 1)
}

func decodeValue(r *R, info *DecodeInfo, depth int) *V {
	if depth > info.MaxDepth {
		info.MaxDepth = depth
	}
	if depth > maxDecodeDepth {
		r.Err = ErrBad
		return nil
	}
	t := r.U8()
	if r.Err != nil {
		return nil
	}
	v := &V{T: t}
	dec := func() int64 {
		x, c := r.DecC()
		if !c {
			info.NonCanonical = true
		}
		return x
	}
	blob := func() []byte {
		b, c := r.BlobC()
		if !c {
			info.NonCanonical = true
		}
		return b
	}
	count16 := func() int {
		n := int(r.I16())
		if n < 0 {
			if r.Err == nil {
				r.Err = ErrBad
			}
			return 0
		}
		return n
	}
	switch t {
	case TNull:
	case TBool:
		b := r.U8()
		if b == 1 {
			v.I = 1
		} else if b != 0 {
			info.NonCanonical = true
		}
	case TDecimal:
		v.I = dec()
	case TInt, TTextHash:
		v.I = int64(r.I32())
	case TLong:
		v.I = r.I64()
	case TFloat:
		v.I = int64(uint32(r.I32()))
	case TDouble:
		v.I = r.I64()
	case TDSum, TLSum:
		v.N = []int64{r.I64(), int64(r.I32()), r.I64(), r.I64()}
	case TText, TBlob:
		v.S = hex.EncodeToString(blob())
	case TIP4:
		v.S = hex.EncodeToString(r.take(4))
	case TList:
		n := dec()
		if n < 0 || n > int64(r.Left()) {
			if r.Err == nil {
				r.Err = ErrShort
			}
			return nil
		}
		for i := int64(0); i < n && r.Err == nil; i++ {
			v.L = append(v.L, decodeValue(r, info, depth+1))
		}
	case TIntArr:
		n := count16()
		if n*4 > r.Left() {
			r.Err = ErrShort
			return nil
		}
		v.N = make([]int64, 0, n)
		for i := 0; i < n; i++ {
			v.N = append(v.N, int64(r.I32()))
		}
	case TFloatArr:
		n := count16()
		if n*4 > r.Left() {
			r.Err = ErrShort
			return nil
		}
		v.N = make([]int64, 0, n)
		for i := 0; i < n; i++ {
			v.N = append(v.N, int64(uint32(r.I32())))
		}
	case TLongArr:
		n := count16()
		if n*8 > r.Left() {
			r.Err = ErrShort
			return nil
		}
		v.N = make([]int64, 0, n)
		for i := 0; i < n; i++ {
			v.N = append(v.N, r.I64())
		}
	case TTextArr:
		n := count16()
		if n > r.Left() {
			r.Err = ErrShort
			return nil
		}
		v.TA = make([]string, 0, n)
		for i := 0; i < n && r.Err == nil; i++ {
			v.TA = append(v.TA, hex.EncodeToString(blob()))
		}
	case TMap:
		n := dec()
		if n < 0 || n > int64(r.Left()) {
			if r.Err == nil {
				r.Err = ErrShort
			}
			return nil
		}
		idx := map[string]int{}
		for i := int64(0); i < n && r.Err == nil; i++ {
			k := hex.EncodeToString(blob())
			e := decodeValue(r, info, depth+1)
			if j, dup := idx[k]; dup {
				info.DupKeys = true
				v.L[j] = e
			} else {
				idx[k] = len(v.K)
				v.K = append(v.K, k)
				v.L = append(v.L, e)
			}
		}
	case TIntMap:
		n := dec()
		if n < 0 || n > int64(r.Left()) {
			if r.Err == nil {
				r.Err = ErrShort
			}
			return nil
		}
		idx := map[int32]int{}
		for i := int64(0); i < n && r.Err == nil; i++ {
			k := r.I32()
			e := decodeValue(r, info, depth+1)
			if j, dup := idx[k]; dup {
				info.DupKeys = true
				v.L[j] = e
			} else {
				idx[k] = len(v.KI)
				v.KI = append(v.KI, k)
				v.L = append(v.L, e)
			}
		}
	default:
		r.Err = ErrBad
		return nil
	}
	if r.Err != nil {
		return nil
	}
	return v
}

// EqualValue is structural equality: bitwise on floats, order-sensitive on containers.
func EqualValue(a, b *V) bool { return DiffValue(a, b, "") == "" }

// DiffValue returns "" when equal, otherwise a path to the first difference.
func DiffValue(a, b *V, path string) string {
	if a == nil || b == nil {
		if a == b {
			return ""
		}
		return path + ": one side is missing"
	}
	if a.T != b.T {
		return fmt.Sprintf("%s: type %d vs %d", path, a.T, b.T)
	}
	switch a.T {
	case TNull:
	case TBool, TDecimal, TInt, TLong, TFloat, TDouble, TTextHash:
		if a.I != b.I {
			return fmt.Sprintf("%s: %d vs %d", path, a.I, b.I)
		}
	case TIP4:
		// an address that is not 4 bytes long is 0.0.0.0 (what the constructor makes of it, see Encode)
		ip := func(s string) []byte {
			if b := unhex(s); len(b) == 4 {
				return b
			}
			return []byte{0, 0, 0, 0}
		}
		if !bytes.Equal(ip(a.S), ip(b.S)) {
			return fmt.Sprintf("%s: address %.40s vs %.40s", path, a.S, b.S)
		}
	case TText, TBlob:
		if !bytes.Equal(unhex(a.S), unhex(b.S)) {
			return fmt.Sprintf("%s: payload %.40s vs %.40s", path, a.S, b.S)
		}
	case TDSum, TLSum, TIntArr, TFloatArr, TLongArr:
		if len(a.N) != len(b.N) {
			return fmt.Sprintf("%s: %d vs %d elements", path, len(a.N), len(b.N))
		}
		for i := range a.N {
			if a.N[i] != b.N[i] {
				return fmt.Sprintf("%s[%d]: %d vs %d", path, i, a.N[i], b.N[i])
			}
		}
	case TTextArr:
		if len(a.TA) != len(b.TA) {
			return fmt.Sprintf("%s: %d vs %d elements", path, len(a.TA), len(b.TA))
		}
		for i := range a.TA {
			if a.TA[i] != b.TA[i] {
				return fmt.Sprintf("%s[%d]: %.40s vs %.40s", path, i, a.TA[i], b.TA[i])
			}
		}
	case TList:
		if len(a.L) != len(b.L) {
			return fmt.Sprintf("%s: %d vs %d items", path, len(a.L), len(b.L))
		}
		for i := range a.L {
			if d := DiffValue(a.L[i], b.L[i], fmt.Sprintf("%s[%d]", path, i)); d != "" {
				return d
			}
		}
	case TMap:
		if len(a.K) != len(b.K) {
			return fmt.Sprintf("%s: %d vs %d entries", path, len(a.K), len(b.K))
		}
		for i := range a.K {
			if a.K[i] != b.K[i] {
				return fmt.Sprintf("%s: entry %d has key %.40s vs %.40s (order or key differs)", path, i, a.K[i], b.K[i])
			}
			if d := DiffValue(a.L[i], b.L[i], fmt.Sprintf("%s{%.20s}", path, a.K[i])); d != "" {
				return d
			}
		}
	case TIntMap:
		if len(a.KI) != len(b.KI) {
			return fmt.Sprintf("%s: %d vs %d entries", path, len(a.KI), len(b.KI))
		}
		for i := range a.KI {
			if a.KI[i] != b.KI[i] {
				return fmt.Sprintf("%s: entry %d has key %d vs %d (order or key differs)", path, i, a.KI[i], b.KI[i])
			}
			if d := DiffValue(a.L[i], b.L[i], fmt.Sprintf("%s{%d}", path, a.KI[i])); d != "" {
				return d
			}
		}
	}
	return ""
}

// Depth returns the nesting depth of v (scalars: 1).
func Depth(v *V) int {
	d := 0
	for _, e := range v.L {
		if x := Depth(e); x > d {
			d = x
		}
	}
	return d + 1
}

// Width returns the largest container size inside v.
func Width(v *V) int {
	w := len(v.L)
	for _, n := range []int{len(v.N), len(v.TA)} {
		if v.T != TDSum && v.T != TLSum && n > w {
			w = n
		}
	}
	for _, e := range v.L {
		if x := Width(e); x > w {
			w = x
		}
	}
	return w
}

// Types adds every type code occurring in v to set.
func Types(v *V, set map[byte]bool) {
	set[v.T] = true
	for _, e := range v.L {
		Types(e, set)
	}
}

// Clone deep-copies v.
func Clone(v *V) *V {
	if v == nil {
		return nil
	}
	c := &V{T: v.T, I: v.I, S: v.S}
	c.N = append([]int64(nil), v.N...)
	c.TA = append([]string(nil), v.TA...)
	c.K = append([]string(nil), v.K...)
	c.KI = append([]int32(nil), v.KI...)
	for _, e := range v.L {
		c.L = append(c.L, Clone(e))
	}
	return c
}

// F32 / F64 helpers for building values.
func FloatV(f float32) *V  { return &V{T: TFloat, I: int64(math.Float32bits(f))} }
func DoubleV(f float64) *V { return &V{T: TDouble, I: int64(math.Float64bits(f))} }
func TextV(s string) *V    { return &V{T: TText, S: hex.EncodeToString([]byte(s))} }
func DecV(i int64) *V      { return &V{T: TDecimal, I: i} }
