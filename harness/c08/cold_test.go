package c08

// concurrent-first-decodes: a receiver that gets its first profiles from several agents at once decodes them on several
// goroutines, and these are the first decodes of the process. The test binary re-executes itself; each fresh process
// reads a step stream (one step of every registered type, built and encoded by the parent) from a file and releases
// max(4, GOMAXPROCS) goroutines from a spin barrier into their first ReadStep calls. Every goroutine must decode every
// step and re-encode the stream byte for byte (seed C08-s24: type registry built lazily on first use, unsynchronised).

import (
	"bytes"
	"fmt"
	"os"
	"os/exec"
	"path/filepath"
	"runtime"
	"strings"
	"sync"
	"sync/atomic"
	"testing"

	wio "github.com/whatap/golib/io"
	"github.com/whatap/golib/lang/step"
	"verif/gstep"
	"verif/pbt"
	"verif/rfl"
)

const coldHelperEnv = "VERIF_C08_COLD_HELPER" // value: path of the step stream

func coldHelperMain(path string) {
	blob, err := os.ReadFile(path)
	if err != nil {
		fmt.Println("helper: cannot read the stream:", err)
		os.Exit(4)
	}
	g := runtime.GOMAXPROCS(0)
	if g < 4 {
		g = 4
	}
	res := make([]string, g)
	var ready, gate atomic.Int32
	var wg sync.WaitGroup
	for i := 0; i < g; i++ {
		wg.Add(1)
		go func(i int) {
			defer wg.Done()
			defer func() {
				if r := recover(); r != nil {
					res[i] = fmt.Sprint("decoding panicked: ", r)
				}
			}()
			in := wio.NewDataInputX(append([]byte(nil), blob...))
			ready.Add(1)
			for gate.Load() == 0 {
			}
			var steps []step.Step
			for in.Available() > 0 {
				st := step.ReadStep(in)
				if st == nil {
					res[i] = fmt.Sprintf("ReadStep returned nil with %d bytes left", in.Available())
					return
				}
				steps = append(steps, st)
			}
			if again := step.ToBytesStep(steps); !bytes.Equal(again, blob) {
				res[i] = fmt.Sprintf("the %d decoded steps re-encode to %d bytes that differ from the %d bytes received", len(steps), len(again), len(blob))
			}
		}(i)
	}
	for int(ready.Load()) < g {
		runtime.Gosched()
	}
	gate.Store(1)
	wg.Wait()
	for i, r := range res {
		if r != "" {
			fmt.Printf("COLD-MISMATCH goroutine %d of %d, first decode of the process: %s\n", i, g, r)
			os.Exit(3)
		}
	}
	os.Exit(0)
}

var coldStreamPath string

func coldStream() (string, error) {
	if coldStreamPath != "" {
		return coldStreamPath, nil
	}
	s := rfl.NewStream(nil, 20240229, 60)
	var steps []step.Step
	for _, sp := range gstep.Specs {
		if sp.Registered {
			steps = append(steps, sp.Build(s).(step.Step))
		}
	}
	dir, err := os.MkdirTemp("", "verif-c08-cold-")
	if err != nil {
		return "", err
	}
	p := filepath.Join(dir, "stream.bin")
	if err := os.WriteFile(p, step.ToBytesStep(steps), 0o644); err != nil {
		return "", err
	}
	coldStreamPath = p
	return p, nil
}

func oneFreshProcess() (string, error) {
	exe, err := os.Executable()
	if err != nil {
		return "", err
	}
	p, err := coldStream()
	if err != nil {
		return "", err
	}
	cmd := exec.Command(exe, "-test.run=^$")
	cmd.Env = append(os.Environ(), coldHelperEnv+"="+p)
	var out bytes.Buffer
	cmd.Stdout, cmd.Stderr = &out, &out
	err = cmd.Run()
	if ee, ok := err.(*exec.ExitError); ok {
		first := out.String()
		if k := strings.IndexByte(first, '\n'); k > 0 {
			first = first[:k]
		}
		switch {
		case ee.ExitCode() == 3:
			return first, nil
		case strings.Contains(out.String(), "fatal error:") && strings.Contains(out.String(), "whatap/golib/"):
			return "the process died: " + first, nil
		}
		return "", fmt.Errorf("helper exit %d: %.200s", ee.ExitCode(), out.String())
	}
	return "", err
}

var sweepColdConc = pbt.RegisterSweep(pbt.Sweep{Prop: "C08", Name: "concurrent-first-decodes",
	Rule: "the test binary re-executes itself 24 (quick) / 240 (thorough) times per shard; each fresh process reads a stream with one step of every registered type (built by the parent) and releases max(4, GOMAXPROCS) goroutines from a spin barrier into their first ReadStep calls; every goroutine must decode every step and re-encode the stream byte for byte, and the process must not die with a runtime fatal error inside golib; every fresh process is a distinct non-trivial case",
	N:    uint64(pbt.Pick(24, 240)),
	Run: func(i uint64) (bool, error) {
		line, err := oneFreshProcess()
		if err != nil {
			return false, nil
		}
		if line != "" {
			return true, fmt.Errorf("fresh process %d: %s", i, line)
		}
		return true, nil
	},
	Show: func(i uint64) interface{} { return fmt.Sprintf("fresh process %d with concurrent first decodes", i) }})

func TestConcurrentFirstDecodes(t *testing.T) {
	sweepColdConc.Check(t, 2)
	if coldStreamPath != "" {
		os.RemoveAll(filepath.Dir(coldStreamPath))
	}
}
