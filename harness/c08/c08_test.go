// C08 Profile steps and transaction records round-trip as self-delimiting streams.
package c08

import (
	"bytes"
	"fmt"
	"net"
	"os"
	"reflect"
	"testing"

	wio "github.com/whatap/golib/io"
	"github.com/whatap/golib/lang/pack"
	"github.com/whatap/golib/lang/service"
	"github.com/whatap/golib/lang/step"
	"pgregory.net/rapid"
	"verif/gpack"
	"verif/gstep"
	"verif/pbt"
	"verif/ref"
	"verif/rfl"
)

func TestMain(m *testing.M) {
	if p := os.Getenv(coldHelperEnv); p != "" {
		coldHelperMain(p) // re-executed by concurrent-first-decodes: never returns
	}
	pbt.Main(m, "C08")
}
func TestReplay(t *testing.T) { pbt.Replay(t) }

type StreamCase struct {
	Types  []string `json:"types"`
	Seed   uint64   `json:"seed"`
	Len    int      `json:"len"`
	Prefix []uint64 `json:"prefix,omitempty"`
	Via    string   `json:"via,omitempty"` // "", "ProfilePack", "ProfileStepSplitPack", "ErrorSnapPack1"
}

func encodeStep(st step.Step) []byte {
	o := wio.NewDataOutputX()
	step.WriteStep(o, st)
	return append([]byte(nil), o.ToByteArray()...)
}

func stepDiff(sp *gstep.Spec, orig, got interface{}) string {
	return rfl.Diff(rfl.Canon(orig, gpack.Hook), rfl.Canon(got, gpack.Hook), rfl.IgnorePrefixes(sp.Ignore...))
}

// copyExported overwrites every exported, settable field of *dst with the one of *src (same type); unexported
// fields of dst - whatever the type may remember about earlier calls - stay as they are.
func copyExported(dst, src interface{}, skip map[string]bool) int {
	d, sv := reflect.ValueOf(dst).Elem(), reflect.ValueOf(src).Elem()
	n := 0
	for i := 0; i < d.NumField(); i++ {
		f := d.Type().Field(i)
		if f.PkgPath != "" || skip[f.Name] || !d.Field(i).CanSet() {
			continue
		}
		if f.Anonymous && f.Type.Kind() == reflect.Struct {
			n += copyExported(d.Field(i).Addr().Interface(), sv.Field(i).Addr().Interface(), skip)
			continue
		}
		d.Field(i).Set(sv.Field(i))
		n++
	}
	return n
}

// refStepPrefix: tag byte followed by the three decimals of the common step prefix.
func refStepPrefix(st step.Step) []byte {
	w := ref.NewW()
	w.U8(st.GetStepType())
	w.Dec(int64(st.GetParent()))
	w.Dec(int64(st.GetIndex()))
	w.Dec(int64(st.GetStartTime()))
	return w.B
}

func runStream(c StreamCase) *pbt.Result {
	s := rfl.NewStream(c.Prefix, c.Seed, c.Len)
	var steps []step.Step
	var specs []*gstep.Spec
	var each [][]byte
	var concat []byte
	for _, name := range c.Types {
		sp := gstep.ByName[name]
		if sp == nil || !sp.Registered {
			return pbt.Fail("case names step type %q which ReadStep cannot decode", name)
		}
		st := sp.Build(s).(step.Step)
		b := encodeStep(st)
		if !bytes.HasPrefix(b, refStepPrefix(st)) {
			return pbt.Fail("%s: encoding %x does not start with tag + common prefix %x", name, b[:min(len(b), 16)], refStepPrefix(st))
		}
		steps = append(steps, st)
		specs = append(specs, sp)
		each = append(each, b)
		concat = append(concat, b...)
	}
	blob := step.ToBytesStep(steps)
	if !bytes.Equal(blob, concat) {
		return pbt.Fail("ToBytesStep of %d steps (%d bytes) is not the concatenation of the individually encoded steps (%d bytes)", len(steps), len(blob), len(concat))
	}
	// the bytes handed out stay what they are while other profiles are encoded (a caller keeps them until they are sent)
	if len(steps) > 0 {
		rev := make([]step.Step, 0, len(steps))
		for i := len(steps) - 1; i >= 0; i-- {
			rev = append(rev, steps[i])
		}
		o1 := step.ToBytesStep(rev)
		o2 := step.ToBytesStep(steps[:len(steps)/2])
		if !bytes.Equal(blob, concat) {
			return pbt.Fail("the %d bytes returned by ToBytesStep changed after two other profiles (%d and %d bytes) were encoded", len(blob), len(o1), len(o2))
		}
	}
	// optionally carry the blob through one of the packs that embed step blobs
	switch c.Via {
	case "ProfilePack":
		p := pack.NewProfilePack()
		p.Transaction = gpack.TxRecord(s)
		p.SetProfile(steps)
		blob = pack.ToPack(pack.ToBytesPack(p)).(*pack.ProfilePack).Steps
	case "ProfileStepSplitPack":
		p := pack.NewProfileStepSplitPack().SetProfile(steps)
		o := wio.NewDataOutputX()
		p.Write(o)
		q := pack.NewProfileStepSplitPack()
		q.Read(wio.NewDataInputX(o.ToByteArray()))
		blob = q.Steps
	case "ErrorSnapPack1":
		p := pack.NewErrorSnapPack1()
		p.SetProfile(steps)
		blob = pack.ToPack(pack.ToBytesPack(p)).(*pack.ErrorSnapPack1).Profile
	}
	if !bytes.Equal(blob, concat) {
		return pbt.Fail("step blob carried through %s differs from the encoded profile (%d vs %d bytes)", c.Via, len(blob), len(concat))
	}
	for _, extra := range [][]byte{nil, {0xEE}} { // a foreign trailing byte must stay unread by the last step
		buf := append(append([]byte(nil), blob...), extra...)
		in := wio.NewDataInputX(buf)
		var decoded []step.Step
		for i := range steps {
			before := int(in.Available())
			st := step.ReadStep(in)
			used := before - int(in.Available())
			if st == nil {
				return pbt.Fail("ReadStep %d returned nil", i)
			}
			if used != len(each[i]) {
				return pbt.Fail("step %d (%s) consumed %d bytes, its own encoding has %d", i, c.Types[i], used, len(each[i]))
			}
			if reflect.TypeOf(st) != reflect.TypeOf(steps[i]) {
				return pbt.Fail("step %d decoded as %T, wrote %T", i, st, steps[i])
			}
			decoded = append(decoded, st)
		}
		if int(in.Available()) != len(extra) {
			return pbt.Fail("after %d steps %d bytes remain, expected %d", len(steps), in.Available(), len(extra))
		}
		for i := range steps {
			if specs[i].Normalize != nil {
				specs[i].Normalize(steps[i])
			}
			if d := stepDiff(specs[i], steps[i], decoded[i]); d != "" {
				return pbt.Fail("step %d (%s) differs after decoding: %s", i, c.Types[i], d)
			}
		}
		if re := step.ToBytesStep(decoded); !bytes.Equal(re, blob) && len(steps) > 0 {
			return pbt.Fail("re-encoding the decoded steps gives %d bytes, the profile had %d", len(re), len(blob))
		}
	}
	kinds := map[string]bool{}
	for _, n := range c.Types {
		kinds[n] = true
	}
	classes := []string{fmt.Sprintf("steps=%s", sizeBucket(len(c.Types))), "via=" + c.Via}
	for k := range kinds {
		classes = append(classes, "type="+k)
	}
	return &pbt.Result{NT: len(kinds) >= 3, Classes: classes, Key: concat}
}

func min(a, b int) int {
	if a < b {
		return a
	}
	return b
}

func sizeBucket(n int) string {
	switch {
	case n == 0:
		return "0"
	case n == 1:
		return "1"
	case n <= 5:
		return "2-5"
	case n <= 20:
		return "6-20"
	}
	return "21-60"
}

var specStream = pbt.Register(pbt.Spec[StreamCase]{
	Prop: "C08", Name: "step-stream", Parallel: 8,
	Rule:  "lists of 0-60 steps over the 9 registered step types (HttpcStepX in versions 0,1,2,3) with every field filled from a rapid-drawn choice stream, encoded with ToBytesStep, optionally carried through ProfilePack / ProfileStepSplitPack / ErrorSnapPack1, decoded step by step; oracle = blob is the concatenation of the individual encodings and stays so while two other profiles are encoded, each ReadStep consumes exactly its own bytes and returns an equal step of the same type, nothing but a foreign trailing byte is left, re-encoding is identical; non-trivial = stream with >= 3 different step types; distinct by bytes",
	Quick: 1800, Thorough: 120000,
	Draw: func(t *rapid.T) StreamCase {
		reg := gstep.Registered()
		return StreamCase{
			Types:  rapid.SliceOfN(rapid.SampledFrom(reg), 0, 60).Draw(t, "types"),
			Seed:   rapid.Uint64().Draw(t, "seed"),
			Len:    rapid.SampledFrom([]int{0, 10, 200, 4000, 4000}).Draw(t, "len"),
			Prefix: rapid.SliceOfN(rapid.Uint64(), 0, 8).Draw(t, "prefix"),
			Via:    rapid.SampledFrom([]string{"", "", "ProfilePack", "ProfileStepSplitPack", "ErrorSnapPack1"}).Draw(t, "via"),
		}
	},
	Run: runStream,
})

func TestStepStream(t *testing.T) { specStream.Check(t) }

// Every step type through its own Write/Read pair (incl. the two types ReadStep does not register).
type OneCase struct {
	Type   string   `json:"type"`
	Seed   uint64   `json:"seed"`
	Len    int      `json:"len"`
	Prefix []uint64 `json:"prefix,omitempty"`
}

func runOne(c OneCase) *pbt.Result {
	sp := gstep.ByName[c.Type]
	st := sp.Build(rfl.NewStream(c.Prefix, c.Seed, c.Len))
	o := wio.NewDataOutputX()
	st.Write(o)
	b := append([]byte(nil), o.ToByteArray()...)
	if sp.Normalize != nil {
		sp.Normalize(st)
	}
	for _, extra := range [][]byte{nil, {1, 2, 3}} {
		in := wio.NewDataInputX(append(append([]byte(nil), b...), extra...))
		q := sp.New()
		q.Read(in)
		if int(in.Available()) != len(extra) {
			return pbt.Fail("%s: Read consumed %d of %d bytes (%d foreign bytes follow)", c.Type, len(b)+len(extra)-int(in.Available()), len(b), len(extra))
		}
		if d := stepDiff(sp, st, q); d != "" {
			return pbt.Fail("%s differs after Write/Read: %s", c.Type, d)
		}
		o2 := wio.NewDataOutputX()
		q.Write(o2)
		if !bytes.Equal(o2.ToByteArray(), b) {
			return pbt.Fail("%s: re-encoding the decoded step differs (%d vs %d bytes)", c.Type, len(o2.ToByteArray()), len(b))
		}
	}
	// the same object, written before, takes other content through its exported fields and is written again:
	// the bytes must be those of the content it has now
	st2 := sp.Build(rfl.NewStream(nil, c.Seed^0x9e3779b97f4a7c15, c.Len))
	st.Write(wio.NewDataOutputX()) // written immediately before the change: nothing else is written in between
	copyExported(st, st2, nil)
	oa, ob := wio.NewDataOutputX(), wio.NewDataOutputX()
	st.Write(oa)
	st2.Write(ob)
	if !bytes.Equal(oa.ToByteArray(), ob.ToByteArray()) {
		return pbt.Fail("%s: a step that had been written was given other field values and written again: its bytes differ from those of a fresh step with the same field values (%d vs %d bytes)", c.Type, len(oa.ToByteArray()), len(ob.ToByteArray()))
	}
	nd, tot := rfl.NonDefault(rfl.Canon(st, gpack.Hook))
	return &pbt.Result{NT: nd*2 >= tot, Classes: []string{"type=" + c.Type}, Key: append([]byte(c.Type), b...)}
}

var specOne = pbt.Register(pbt.Spec[OneCase]{
	Prop: "C08", Name: "step-write-read", Parallel: 8,
	Rule:  "one step of any of the 11 step types (incl. MessageStepX with Attr nil/empty/filled and SqlStep_3 with every combination of its three section flags) through its own Write/Read: equal fields, exact consumption with foreign trailing bytes, identical re-encoding, absent optional sections left at zero; the written object then takes the field values of another generated step and must write the bytes a fresh step with those values writes; non-trivial = at least half of the fields non-default; distinct by type+bytes",
	Quick: 3000, Thorough: 150000,
	Draw: func(t *rapid.T) OneCase {
		var names []string
		for _, sp := range gstep.Specs {
			names = append(names, sp.Name)
		}
		return OneCase{Type: rapid.SampledFrom(names).Draw(t, "type"), Seed: rapid.Uint64().Draw(t, "seed"),
			Len: rapid.SampledFrom([]int{0, 4, 60, 60, 60}).Draw(t, "len"), Prefix: rapid.SliceOfN(rapid.Uint64(), 0, 8).Draw(t, "prefix")}
	},
	Run: runOne,
})

func TestStepWriteRead(t *testing.T) { specOne.Check(t) }

func TestEveryStepType(t *testing.T) {
	for _, sp := range gstep.Specs {
		for seed := uint64(1); seed <= uint64(pbt.Pick(20, 400)); seed++ {
			for _, n := range []int{0, 100} {
				specOne.RunCase(t, OneCase{Type: sp.Name, Seed: seed*31337 + uint64(pbt.Seed()), Len: n})
			}
		}
	}
}

// ---- transaction records ---------------------------------------------------------------

type RecCase struct {
	Seed   uint64   `json:"seed"`
	Len    int      `json:"len"`
	Prefix []uint64 `json:"prefix,omitempty"`
}

func runTx(c RecCase) *pbt.Result {
	r := gpack.TxRecord(rfl.NewStream(c.Prefix, c.Seed, c.Len))
	b := append([]byte(nil), r.ToBytes()...)
	if len(b) == 0 || b[0] != 10 {
		return pbt.Fail("transaction record does not start with version byte 10: %x", b[:min(len(b), 4)])
	}
	groups := 0
	if r.Mtid != 0 {
		groups++
	}
	if r.McallerPcode != 0 {
		groups++
	}
	if r.Fields != nil && r.Fields.Size() > 0 {
		groups++
	}
	gpack.NormalizeTxRecord(r)
	bN := append([]byte(nil), r.ToBytes()...)
	want := rfl.Canon(r, gpack.Hook)
	q := service.NewTxRecord().ToObject(append([]byte(nil), b...))
	if d := rfl.Diff(want, rfl.Canon(q, gpack.Hook), nil); d != "" {
		return pbt.Fail("ToObject(ToBytes(x)) differs from x: %s", d)
	}
	if !bytes.Equal(q.ToBytes(), bN) {
		return pbt.Fail("re-encoding the decoded record differs from the encoding of the (normalised) original")
	}
	in := wio.NewDataInputX(append(append([]byte(nil), b...), 9, 9))
	q2 := service.NewTxRecord().Read(in)
	if in.Available() != 2 {
		return pbt.Fail("Read consumed %d of %d bytes (2 foreign bytes follow)", len(b)+2-int(in.Available()), len(b))
	}
	if d := rfl.Diff(want, rfl.Canon(q2, gpack.Hook), nil); d != "" {
		return pbt.Fail("Read differs from the original: %s", d)
	}
	cls := []string{fmt.Sprintf("optional-groups=%d", groups)}
	// a receiver reads records off a connection, one after the other (seed C08-s23): two copies of the record and two
	// foreign bytes arrive in segments; each Read takes exactly one record
	if c.Seed%4 == 0 {
		server, client := net.Pipe()
		stream := append(append(append([]byte(nil), b...), b...), 0x5a, 0xa5)
		seg := 1 + int(c.Seed/4%97)
		go func() {
			defer server.Close()
			for off := 0; off < len(stream); off += seg {
				if _, err := server.Write(stream[off:min(off+seg, len(stream))]); err != nil {
					return
				}
			}
		}()
		nin := wio.NewDataInputNet(client)
		var rerr interface{}
		var tail [2]byte
		func() {
			defer func() { rerr = recover() }()
			for k := 0; k < 2; k++ {
				qn := service.NewTxRecord().Read(nin)
				if d := rfl.Diff(want, rfl.Canon(qn, gpack.Hook), nil); d != "" {
					panic(fmt.Sprintf("record %d of 2 read from a connection differs from the original: %s", k+1, d))
				}
			}
			tail[0], tail[1] = nin.ReadByte(), nin.ReadByte()
		}()
		client.Close()
		if rerr != nil {
			return pbt.Fail("two copies of the record (%d bytes each) and two foreign bytes read from a connection in segments of %d bytes: %v", len(b), seg, rerr)
		}
		if tail != [2]byte{0x5a, 0xa5} {
			return pbt.Fail("after two records read from a connection the next two bytes are %x, sent 5aa5: the reads did not take exactly the records' bytes", tail)
		}
		cls = append(cls, "also-read-from-a-connection")
	}
	// the same record object, encoded before, is changed in place and encoded again
	s2 := rfl.NewStream(nil, c.Seed^0x9e3779b97f4a7c15, c.Len)
	r2 := gpack.TxRecord(s2)
	r.ToBytes() // encoded immediately before the change: nothing else is encoded in between
	copyExported(r, r2, map[string]bool{"Fields": true})
	if r.Fields != nil && r.Fields.Size() > 0 {
		// values replaced under the existing keys (the number of entries stays), sometimes one more key
		var keys []string
		for en := r.Fields.Keys(); en.HasMoreElements(); {
			keys = append(keys, en.NextString())
		}
		for i, k := range keys {
			if i%2 == 0 || s2.Intn(2) == 0 {
				r.Fields.PutString(k, fmt.Sprintf("changed-%d-%d", i, c.Seed%1000))
			}
		}
		if s2.Intn(3) == 0 && r.Fields.Size() < 255 { // the count travels in one byte
			r.Fields.PutLong("added-later", int64(c.Seed%100000))
		}
		cls = append(cls, "fields-changed-in-place")
	} else if r2.Fields != nil {
		r.Fields = r2.Fields
	}
	b2 := append([]byte(nil), r.ToBytes()...)
	gpack.NormalizeTxRecord(r)
	q3 := service.NewTxRecord().ToObject(append([]byte(nil), b2...))
	if d := rfl.Diff(rfl.Canon(r, gpack.Hook), rfl.Canon(q3, gpack.Hook), nil); d != "" {
		return pbt.Fail("a record that had been encoded was changed in place and encoded again; ToObject of the second encoding differs from the record: %s", d)
	}
	return &pbt.Result{NT: groups >= 1, Classes: cls, Key: b}
}

var specTx = pbt.Register(pbt.Spec[RecCase]{
	Prop: "C08", Name: "tx-record", Parallel: 8,
	Rule:  "transaction records with every combination of the optional groups (multi-trace ids present iff Mtid != 0, caller identity iff McallerPcode != 0, custom fields nil/empty/filled) through ToBytes/ToObject and Write/Read with trailing bytes; optional groups restored exactly when present, absent ones zero, ErrorLevel defaulting as documented; then the same object takes other field values (custom-field values replaced under their keys) and is encoded and decoded again; non-trivial = at least one optional group present; distinct by bytes",
	Quick: 2500, Thorough: 120000,
	Draw: func(t *rapid.T) RecCase {
		return RecCase{Seed: rapid.Uint64().Draw(t, "seed"), Len: rapid.SampledFrom([]int{0, 10, 90, 300, 300}).Draw(t, "len"), Prefix: rapid.SliceOfN(rapid.Uint64(), 0, 8).Draw(t, "prefix")}
	},
	Run: runTx,
})

func TestTxRecord(t *testing.T) { specTx.Check(t) }

// ---- service records ---------------------------------------------------------------------

type SvcCase struct {
	Type   int      `json:"type"` // index into gstep.Services
	Seed   uint64   `json:"seed"`
	Len    int      `json:"len"`
	Prefix []uint64 `json:"prefix,omitempty"`
}

func runSvc(c SvcCase) *pbt.Result {
	sp := gstep.Services[c.Type%len(gstep.Services)]
	sv := sp.Build(rfl.NewStream(c.Prefix, c.Seed, c.Len))
	o := wio.NewDataOutputX()
	service.ToBytes(sv, o)
	b := append([]byte(nil), o.ToByteArray()...)
	if b[0] != sp.Code {
		return pbt.Fail("%s: type byte %d, expected %d", sp.Name, b[0], sp.Code)
	}
	in := wio.NewDataInputX(append(append([]byte(nil), b...), 7))
	q := service.ToObject(in)
	if in.Available() != 1 {
		return pbt.Fail("%s: ToObject consumed %d of %d bytes", sp.Name, len(b)+1-int(in.Available()), len(b))
	}
	if reflect.TypeOf(q) != reflect.TypeOf(sv) {
		return pbt.Fail("decoded %T, wrote %T", q, sv)
	}
	if d := rfl.Diff(rfl.Canon(sv, nil), rfl.Canon(q, nil), rfl.IgnorePrefixes(sp.Ignore...)); d != "" {
		return pbt.Fail("%s differs after ToBytes/ToObject: %s", sp.Name, d)
	}
	o2 := wio.NewDataOutputX()
	service.ToBytes(q, o2)
	if !bytes.Equal(o2.ToByteArray(), b) {
		return pbt.Fail("%s: re-encoding differs", sp.Name)
	}
	// the same record object, written before, takes the field values of another record and is written again
	sv2 := sp.Build(rfl.NewStream(nil, c.Seed^0x9e3779b97f4a7c15, c.Len))
	service.ToBytes(sv, wio.NewDataOutputX()) // written immediately before the change
	copyExported(sv, sv2, nil)
	oa, ob := wio.NewDataOutputX(), wio.NewDataOutputX()
	service.ToBytes(sv, oa)
	service.ToBytes(sv2, ob)
	if !bytes.Equal(oa.ToByteArray(), ob.ToByteArray()) {
		return pbt.Fail("%s: a record that had been written was given other field values and written again: its bytes differ from those of a fresh record with the same field values (%d vs %d bytes)", sp.Name, len(oa.ToByteArray()), len(ob.ToByteArray()))
	}
	nd, tot := rfl.NonDefault(rfl.Canon(sv, nil))
	return &pbt.Result{NT: nd*2 >= tot, Classes: []string{"type=" + sp.Name}, Key: b}
}

var specSvc = pbt.Register(pbt.Spec[SvcCase]{
	Prop: "C08", Name: "service-record", Parallel: 8,
	Rule:  "Was / App / Was2 service records with every field filled, written with their type tag (service.ToBytes) and read back (service.ToObject): same type, equal carried fields, exact consumption, identical re-encoding; the written object then takes another record's field values and must write that record's bytes; non-trivial = at least half of the fields non-default; distinct by bytes",
	Quick: 1500, Thorough: 60000,
	Draw: func(t *rapid.T) SvcCase {
		return SvcCase{Type: rapid.IntRange(0, 2).Draw(t, "type"), Seed: rapid.Uint64().Draw(t, "seed"), Len: rapid.SampledFrom([]int{0, 8, 80, 80}).Draw(t, "len"), Prefix: rapid.SliceOfN(rapid.Uint64(), 0, 6).Draw(t, "prefix")}
	},
	Run: runSvc,
})

func TestServiceRecord(t *testing.T) { specSvc.Check(t) }

// ---- a profile pack object that receives a second profile ------------------------------------------------

type RereadCase struct {
	SeedA uint64 `json:"seed_a"`
	SeedB uint64 `json:"seed_b"`
	Len   int    `json:"len"`
}

func runReread(c RereadCase) *pbt.Result {
	mk := func(seed uint64) (*pack.ProfilePack, []byte) {
		p := pack.NewProfilePack()
		p.Transaction = gpack.TxRecord(rfl.NewStream(nil, seed, c.Len))
		p.Steps = []byte{}
		p.Pcode, p.Oid, p.Time = int64(seed%1000)+1, int32(seed%77), int64(seed%100000)
		return p, append([]byte(nil), pack.ToBytesPack(p)...)
	}
	pa, ba := mk(c.SeedA)
	pb, bb := mk(c.SeedB)
	gpack.NormalizeTxRecord(pa.Transaction)
	gpack.NormalizeTxRecord(pb.Transaction)
	wantA, wantB := rfl.Canon(pa.Transaction, gpack.Hook), rfl.Canon(pb.Transaction, gpack.Hook)
	// one pack object, as a receiver that keeps its pack object would use it: first profile A, then profile B
	q := pack.NewProfilePack()
	q.Read(wio.NewDataInputX(ba[2:]))
	first := q.Transaction
	if d := rfl.Diff(wantA, rfl.Canon(first, gpack.Hook), nil); d != "" {
		return pbt.Fail("first profile read into a fresh pack object differs from what was written: %s", d)
	}
	q.Read(wio.NewDataInputX(bb[2:]))
	if d := rfl.Diff(wantB, rfl.Canon(q.Transaction, gpack.Hook), nil); d != "" {
		return pbt.Fail("a pack object that had received one profile was used to read a second one: the second transaction record differs from what was written (optional sections that are absent must be absent): %s", d)
	}
	if d := rfl.Diff(wantA, rfl.Canon(first, gpack.Hook), nil); d != "" {
		return pbt.Fail("the transaction record handed out by the first Read changed when the pack object read a second profile: %s", d)
	}
	groups := func(r *service.TxRecord) int {
		n := 0
		if r.Mtid != 0 {
			n++
		}
		if r.McallerPcode != 0 {
			n++
		}
		if r.Fields != nil && r.Fields.Size() > 0 {
			n++
		}
		return n
	}
	ga, gb := groups(pa.Transaction), groups(pb.Transaction)
	return &pbt.Result{NT: ga > gb, Classes: []string{fmt.Sprintf("optional-groups=%d-then-%d", ga, gb)}}
}

var specReread = pbt.Register(pbt.Spec[RereadCase]{
	Prop: "C08", Name: "profile-pack-read-twice",
	Rule:  "two generated transaction records A and B (every combination of the optional groups) travel in two profile packs; ONE profile pack object reads A and then B: the record it holds after the second read must be B exactly (groups absent in B are absent), and the record object handed out by the first read must still be A; non-trivial = A has more optional groups than B; distinct by case",
	Quick: 2000, Thorough: 100000,
	Draw: func(t *rapid.T) RereadCase {
		return RereadCase{SeedA: rapid.Uint64().Draw(t, "a"), SeedB: rapid.Uint64().Draw(t, "b"), Len: rapid.SampledFrom([]int{10, 90, 300}).Draw(t, "len")}
	},
	Run: runReread,
})

func TestProfilePackReadTwice(t *testing.T) { specReread.Check(t) }
