// C07 sub-check 1: writer-derived carriage.
//
// For pack type T at version v every fillable field gets a generated value and
// the pack is encoded. Which fields version v carries is learnt from the writer
// alone: field F is carried iff changing F changes the bytes. The reader is then
// judged against that: carried fields must come back exactly (up to the
// documented writer caps), fields that are not carried must come back as a
// default, all bytes must be consumed, and re-encoding the decoded pack must give
// the same bytes. No copy of the version-gate table exists in this file.
package c07

import (
	"fmt"
	"math"
	"reflect"
	"sort"
	"strings"
	"sync"
	"testing"
	"unicode"
	"unicode/utf8"

	wio "github.com/whatap/golib/io"
	"github.com/whatap/golib/lang/pack/udp"
	"pgregory.net/rapid"
	"verif/gen"
	"verif/pbt"
)

// Field is the generated value of one field.
type Field struct {
	F string  `json:"f"`
	I *int64  `json:"i,omitempty"` // numeric fields; bool as 0/1
	S *Str    `json:"s,omitempty"` // string and []byte fields
	A []int16 `json:"a,omitempty"` // []int16 fields
}

type CarriageCase struct {
	Type   string  `json:"type"`
	Ver    int32   `json:"ver"`
	Fields []Field `json:"fields"`
}

func i64(v int64) *int64 { return &v }

// ---- generator --------------------------------------------------------------

// decimalLandmarks: numbers whose decimal text sits at a boundary (digit count changes, round numbers). Most numeric
// fields of the tracer packs travel as decimal text, so these are to them what the powers of two are to binary fields.
var decimalLandmarks = func() []int64 {
	out := []int64{0, 7, 64, 100, 128, 255, 256, 512, 999, 1000, 1001, 1023, 1024, 4095, 4096, 9999, 10000, 10001, 32767, 32768, 65535, 65536, 99999, 100000, 1000000}
	p := int64(10)
	for k := 1; k <= 18; k++ {
		out = append(out, p-1, p, p+1, -(p - 1), -p, -(p + 1))
		p *= 10
	}
	return out
}()

// textNumber: the boundary-biased 64-bit generator mixed with decimal landmarks and small counts.
func textNumber() *rapid.Generator[int64] {
	return rapid.OneOf(gen.Int64(), gen.Int64(), rapid.SampledFrom(decimalLandmarks), rapid.Int64Range(0, 1200))
}

func drawField(t *rapid.T, d *desc, f fld) Field {
	out := Field{F: f.name}
	switch f.typ.Kind() {
	case reflect.Int64:
		out.I = i64(textNumber().Draw(t, f.name))
	case reflect.Int32:
		out.I = i64(int64(int32(textNumber().Draw(t, f.name))))
	case reflect.Int16:
		out.I = i64(int64(int16(textNumber().Draw(t, f.name))))
	case reflect.Bool:
		out.I = i64(int64(rapid.IntRange(0, 1).Draw(t, f.name)))
	case reflect.String:
		s := drawStr(t, f.name, d.caps[f.name])
		out.S = &s
	default:
		if f.typ == tBytes {
			s := drawStr(t, f.name, 0)
			out.S = &s
		} else if f.typ == tInt16s {
			// documented shape of the active-stats payload: five counters (or nothing)
			if rapid.IntRange(0, 9).Draw(t, f.name+".empty") > 0 {
				out.A = rapid.SliceOfN(gen.Int16(), 5, 5).Draw(t, f.name)
			}
		}
	}
	return out
}

// shapePayload puts the payload of the packs whose Process() indexes into the
// split payload into the documented comma-separated shape.
func shapePayload(t *rapid.T, d *desc, fields []Field) {
	if d.name != "ActiveStack" {
		return
	}
	for i := range fields {
		if fields[i].F != "Data" {
			continue
		}
		// "<type>, <txid>, <stack>[, <more>]"; the parts themselves hold no comma
		n := rapid.IntRange(3, 5).Draw(t, "parts")
		parts := make([]string, n)
		for j := range parts {
			p := drawStr(t, fmt.Sprintf("part%d", j), 0).String()
			if len(p) > 12000 {
				p = p[:12000]
			}
			parts[j] = strings.ReplaceAll(p, ",", ".")
		}
		if rapid.Bool().Draw(t, "numeric-txid") {
			parts[1] = fmt.Sprint(gen.Int64().Draw(t, "txid"))
		}
		joined := []byte(strings.Join(parts, ", "))
		s := mkStr(joined, len(joined))
		fields[i].S = &s
	}
}

func drawCarriage(t *rapid.T) CarriageCase {
	name := rapid.SampledFrom(typeNames(false)).Draw(t, "type")
	d := descByName[name]
	c := CarriageCase{Type: name, Ver: drawVersion(t)}
	for _, f := range fieldsOf(d.mk(c.Ver)) {
		if f.name == "Ver" || !fillable(f) || d.readerParam[f.name] {
			continue
		}
		c.Fields = append(c.Fields, drawField(t, d, f))
	}
	shapePayload(t, d, c.Fields)
	return c
}

// ---- applying a case to a pack ------------------------------------------------

func setField(p udp.UdpPack, f fld, v Field) {
	rv := fieldVal(p, f)
	switch f.typ.Kind() {
	case reflect.Int16, reflect.Int32, reflect.Int64:
		if v.I != nil {
			rv.SetInt(*v.I)
		}
	case reflect.Bool:
		if v.I != nil {
			rv.SetBool(*v.I != 0)
		}
	case reflect.String:
		if v.S != nil {
			rv.SetString(v.S.String())
		}
	default:
		if f.typ == tBytes && v.S != nil {
			rv.SetBytes(v.S.Bytes())
		} else if f.typ == tInt16s {
			rv.Set(reflect.ValueOf(append([]int16(nil), v.A...)))
		}
	}
}

// getField returns a comparable rendering of the field: int64, bool, string
// ([]byte as string; nil and empty are the same value) or the printed []int16.
func getField(p udp.UdpPack, f fld) interface{} {
	rv := fieldVal(p, f)
	switch f.typ.Kind() {
	case reflect.Int16, reflect.Int32, reflect.Int64:
		return rv.Int()
	case reflect.Bool:
		return rv.Bool()
	case reflect.String:
		return rv.String()
	}
	if f.typ == tBytes {
		return string(rv.Bytes())
	}
	if f.typ == tInt16s {
		a := rv.Interface().([]int16)
		if len(a) == 0 {
			return "[]"
		}
		return fmt.Sprint(a)
	}
	return nil
}

// alternatives returns values of the field that differ from v: in the first
// byte / by one, by emptiness / in sign, and in length. The writer carries the
// field iff at least one of them changes the bytes (the first one is enough for
// nearly every carried field; the others matter when a writer maps several
// values to the same text).
func alternatives(f fld, v Field) []Field {
	mk := func(x int64) Field { return Field{F: v.F, I: &x} }
	switch f.typ.Kind() {
	case reflect.Int16, reflect.Int32, reflect.Int64:
		var max int64 = math.MaxInt64
		if f.typ.Kind() == reflect.Int32 {
			max = math.MaxInt32
		} else if f.typ.Kind() == reflect.Int16 {
			max = math.MaxInt16
		}
		x := int64(0)
		if v.I != nil {
			x = *v.I
		}
		first := x + 1
		if x == max {
			first = x - 1
		}
		out := []Field{mk(first)}
		for _, c := range []int64{12345, -12345, 0, 7, -7} {
			if c != x && c != first {
				out = append(out, mk(c))
			}
		}
		return out
	case reflect.Bool:
		if v.I != nil && *v.I != 0 {
			return []Field{mk(0)}
		}
		return []Field{mk(1)}
	}
	if f.typ == tInt16s {
		a := append([]int16(nil), v.A...)
		if len(a) == 0 {
			return []Field{{F: v.F, A: []int16{7}}, {F: v.F, A: []int16{-7, 1, 2, 3, 4}}}
		}
		if a[0] == math.MaxInt16 {
			a[0]--
		} else {
			a[0]++
		}
		b := append([]int16(nil), v.A...)
		b[len(b)-1] = ^b[len(b)-1]
		return []Field{{F: v.F, A: a}, {F: v.F, A: b}, {F: v.F}}
	}
	var b []byte
	if v.S != nil {
		b = append([]byte(nil), v.S.Bytes()...)
	}
	str := func(x []byte) Field { return Field{F: v.F, S: &Str{X: gen.Hex(x)}} }
	if len(b) == 0 {
		return []Field{str([]byte("x")), str([]byte("-1")), str([]byte("12345"))}
	}
	c := append([]byte(nil), b...)
	c[0] ^= 0x01
	return []Field{str(c), str(nil), str(b[:len(b)/2]), str([]byte("12345"))}
}

func catch(f func()) (p interface{}) {
	defer func() { p = recover() }()
	f()
	return nil
}

func build(d *desc, ver int32, flds []fld, vals map[string]Field) udp.UdpPack {
	p := d.mk(ver)
	for _, f := range flds {
		if v, ok := vals[f.name]; ok {
			setField(p, f, v)
		}
	}
	return p
}

// caseStable: lower-casing keeps every byte offset. ParamKV (the masking code
// Process() of the Go/PHP families runs on Dbc) indexes the original string with
// offsets found in the lower-cased copy and panics otherwise; robustness against
// such strings is not part of C07, so Process() is not run on them.
func caseStable(s string) bool {
	if !utf8.ValidString(s) {
		return false
	}
	for _, r := range s {
		if utf8.RuneLen(unicode.ToLower(r)) != utf8.RuneLen(r) {
			return false
		}
	}
	return true
}

// masksDbc: Process() of this pack at this version rewrites Dbc / Sql (Go and PHP
// send raw connection strings; see the Process bodies of the three packs).
func masksDbc(d *desc, ver int32) bool {
	return len(d.rewritten) > 0 && (ver > 50000 || ver <= 20000)
}

// ---- the check ----------------------------------------------------------------

// learnCarried asks the writer which fields version c.Ver carries: a field is
// carried iff replacing its value (all other fields unchanged) changes the bytes.
func learnCarried(d *desc, c CarriageCase, flds []fld, vals map[string]Field, wire []byte) map[string]bool {
	byName := map[string]fld{}
	for _, f := range flds {
		byName[f.name] = f
	}
	carried := map[string]bool{}
	for _, v := range c.Fields {
		if d.writerDerived[v.F] {
			continue
		}
		alt := map[string]Field{}
		for k, x := range vals {
			alt[k] = x
		}
		for _, a := range alternatives(byName[v.F], v) {
			alt[v.F] = a
			if !bytesEq(encode(build(d, c.Ver, flds, alt)), wire) {
				carried[v.F] = true
				break
			}
		}
	}
	return carried
}

// gatedFields: per type, the fields whose carriage changes somewhere along the
// grid of versions (learnt from the writer once; used only for the
// non-triviality rule and the evidence).
var (
	gatedOnce sync.Once
	gatedSet  map[string]map[string]bool
	gatedLog  []string
)

func gatedFields() map[string]map[string]bool {
	gatedOnce.Do(func() {
		gatedSet = map[string]map[string]bool{}
		for ti, d := range descs {
			gatedSet[d.name] = map[string]bool{}
			var prev map[string]bool
			for vi, ver := range gateVersions {
				c := gridCase(uint64(vi*len(descs) + ti))
				flds := fieldsOf(d.mk(ver))
				vals := map[string]Field{}
				for _, v := range c.Fields {
					vals[v.F] = v
				}
				cur := learnCarried(d, c, flds, vals, encode(build(d, ver, flds, vals)))
				if prev != nil {
					var diff []string
					for _, v := range c.Fields {
						if cur[v.F] != prev[v.F] {
							gatedSet[d.name][v.F] = true
							sign := "+"
							if prev[v.F] {
								sign = "-"
							}
							diff = append(diff, sign+v.F)
						}
					}
					if len(diff) > 0 {
						gatedLog = append(gatedLog, fmt.Sprintf("%s %d->%d: %s", d.name, gateVersions[vi-1], ver, strings.Join(diff, " ")))
					}
				}
				prev = cur
			}
		}
	})
	return gatedSet
}

// trailingExempt: pack types whose format has no end of its own (the rest of the datagram is their payload).
var trailingExempt = map[string]bool{}

func runCarriage(c CarriageCase) *pbt.Result {
	d := descByName[c.Type]
	if d == nil {
		return pbt.Fail("unknown pack type %q in case", c.Type)
	}
	blank := d.mk(c.Ver)
	if blank == nil {
		return pbt.Fail("CreatePack(%s, %d) returned nil", c.Type, c.Ver)
	}
	if blank.GetPackType() != d.code {
		return pbt.Fail("%s: CreatePack(%d) returned a pack of type %d", c.Type, d.code, blank.GetPackType())
	}
	flds := fieldsOf(blank)
	byName := map[string]fld{}
	for _, f := range flds {
		byName[f.name] = f
	}
	vals := map[string]Field{}
	for _, v := range c.Fields {
		if _, ok := byName[v.F]; !ok {
			return pbt.Fail("%s has no field %q (stale case)", c.Type, v.F)
		}
		vals[v.F] = v
	}

	// 1. encode the filled pack
	src := build(d, c.Ver, flds, vals)
	wire := encode(src)
	// the package's own serialiser: the bytes it hands out are the caller's (a sender keeps them until the datagram
	// is out) - they must still be this pack's encoding after other packs were serialised
	if d.registered {
		var held, other []byte
		if catch(func() { held = udp.ToBytesPack(src) }) == nil {
			if !bytesEq(held, wire) {
				return pbt.Fail("%s v%d: ToBytesPack gives %d bytes, Write into an encoder of its own %d bytes", c.Type, c.Ver, len(held), len(wire))
			}
			blank2 := d.mk(udp.UDP_PACK_VERSION)
			catch(func() { other = udp.ToBytesPack(blank2) })
			catch(func() { other = udp.ToBytesPack(build(d, c.Ver, flds, map[string]Field{})) })
			if !bytesEq(held, wire) {
				return pbt.Fail("%s v%d: the %d bytes ToBytesPack returned changed after two other packs (%d bytes) were serialised", c.Type, c.Ver, len(held), len(other))
			}
		}
	}
	orig := map[string]interface{}{} // values as given to the writer
	ref := build(d, c.Ver, flds, vals)
	for _, f := range flds {
		orig[f.name] = getField(ref, f)
	}

	// 2. learn from the writer which fields this version carries
	carried := learnCarried(d, c, flds, vals, wire)
	nCarried, nGatedNonDefault := len(carried), 0
	for name := range gatedFields()[d.name] {
		if o, ok := orig[name]; ok && o != reflect.Zero(reflect.TypeOf(o)).Interface() && o != "[]" {
			nGatedNonDefault++
		}
	}

	// 3. read what was written into an empty pack of the same version
	dst := d.mk(c.Ver)
	before := map[string]interface{}{}
	for _, f := range flds {
		before[f.name] = getField(dst, f)
	}
	for name := range d.readerParam { // UdpRelayPack.Len: the payload length comes from the frame header
		fieldVal(dst, byName[name]).SetInt(int64(len(wire)))
	}
	in := wio.NewDataInputX(wire)
	if p := catch(func() { dst.Read(in) }); p != nil {
		return pbt.Fail("%s v%d: Read panics on the %d bytes the writer produced at the same version: %v (bytes %s)", c.Type, c.Ver, len(wire), p, hexShort(wire))
	}
	if a := in.Available(); a != 0 {
		return pbt.Fail("%s v%d: Read left Available()=%d after reading the %d bytes the writer produced (bytes %s)",
			c.Type, c.Ver, a, len(wire), hexShort(wire))
	}
	// the same bytes followed by the beginning of another pack (a relay forwards several packs in one buffer): the reader
	// stops where the writer stopped
	if !trailingExempt[d.name] {
		dst2 := d.mk(c.Ver)
		for name := range d.readerParam {
			fieldVal(dst2, byName[name]).SetInt(int64(len(wire)))
		}
		in2 := wio.NewDataInputX(append(append([]byte(nil), wire...), 0x01, 0x02, 0x03, 0x04, 0x05, 0x06, 0x07))
		if p := catch(func() { dst2.Read(in2) }); p != nil {
			return pbt.Fail("%s v%d: Read panics when 7 foreign bytes follow the %d bytes the writer produced: %v", c.Type, c.Ver, len(wire), p)
		}
		if a := in2.Available(); a != 7 {
			return pbt.Fail("%s v%d: the writer produced %d bytes; with 7 foreign bytes after them Read consumed %d bytes (bytes %s)", c.Type, c.Ver, len(wire), len(wire)+7-int(a), hexShort(wire))
		}
	}

	// Read+Process on a second pack (ToPack for the registered types)
	var processed udp.UdpPack
	runProcess := !d.noToPack
	if masksDbc(d, c.Ver) {
		if s, ok := orig["Dbc"].(string); ok && !caseStable(s) {
			runProcess = false
		}
	}
	if runProcess {
		if p := catch(func() {
			if d.registered {
				processed = udp.ToPack(d.code, c.Ver, wire)
			} else {
				processed = d.mk(c.Ver)
				processed.Read(wio.NewDataInputX(wire))
				processed.Process()
			}
		}); p != nil {
			return pbt.Fail("%s v%d: ToPack (Read + Process) panics on the %d bytes the writer produced at the same version: %v (bytes %s)", c.Type, c.Ver, len(wire), p, hexShort(wire))
		}
	}

	// 4. every field: carried -> restored, not carried -> default
	for _, v := range c.Fields {
		f := byName[v.F]
		if d.writerDerived[v.F] {
			continue
		}
		got := getField(dst, f)
		if d.viaProcess[v.F] {
			if processed == nil {
				continue
			}
			got = getField(processed, f)
		}
		if carried[v.F] {
			want := orig[v.F]
			if cp, ok := d.caps[v.F]; ok {
				if s := want.(string); len(s) > cp {
					want = s[:cp]
				}
			}
			if got != want {
				return pbt.Fail("%s v%d: the writer carries %s (changing it changes the bytes) but reading restores %s instead of %s",
					c.Type, c.Ver, v.F, showVal(got), showVal(want))
			}
			continue
		}
		if d.viaProcess[v.F] {
			continue
		}
		zero := reflect.Zero(reflect.TypeOf(got)).Interface()
		ok := got == before[v.F] || got == zero || got == "[]"
		if (v.F == "Index" || v.F == "Parent") && got == int64(-1) {
			ok = true // documented "unset" value of the two step-index fields
		}
		if !ok {
			return pbt.Fail("%s v%d: the writer does not carry %s (changing it leaves the bytes unchanged) but reading yields %s (empty pack had %s)",
				c.Type, c.Ver, v.F, showVal(got), showVal(before[v.F]))
		}
	}
	// the writer-computed payload of the active-stats pack: "a,b,c,d,e"
	if d.name == "ActiveStats" {
		var parts []string
		for _, x := range vals["ActiveStats"].A {
			parts = append(parts, fmt.Sprint(int(x)))
		}
		want := strings.Join(parts, ",")
		if got := getField(dst, byName["Data"]); got != want {
			return pbt.Fail("ActiveStats v%d: payload read back is %s, the five counters written were %q", c.Ver, showVal(got), want)
		}
	}

	// 5. re-encoding the decoded pack gives the same bytes
	re := dst
	if len(d.viaProcess) > 0 {
		re = processed
	}
	if re != nil {
		if again := encode(re); !bytesEq(again, wire) {
			return pbt.Fail("%s v%d: re-encoding the decoded pack differs: %s vs written %s", c.Type, c.Ver, hexShort(again), hexShort(wire))
		}
	}

	// 6. ToPack (= Read + Process) agrees with Read on the wire fields it does not rewrite
	if processed != nil {
		if processed.GetVersion() != c.Ver || processed.GetPackType() != d.code {
			return pbt.Fail("%s v%d: ToPack returned type %d version %d", c.Type, c.Ver, processed.GetPackType(), processed.GetVersion())
		}
		for _, v := range c.Fields {
			if d.derived[v.F] || d.viaProcess[v.F] {
				continue
			}
			if d.rewritten[v.F] && masksDbc(d, c.Ver) {
				// Dbc: masked/normalised (sub-check "masking"). Sql: prefixed when it is too long.
				if v.F == "Sql" {
					s := getField(dst, byName[v.F]).(string)
					g := getField(processed, byName[v.F]).(string)
					if len(s) < 32768 && g != s {
						return pbt.Fail("%s v%d: Process changed a %d-byte Sql: %s", c.Type, c.Ver, len(s), showVal(g))
					}
				}
				continue
			}
			f := byName[v.F]
			if a, b := getField(processed, f), getField(dst, f); a != b {
				return pbt.Fail("%s v%d: ToPack yields %s=%s but Read alone yields %s", c.Type, c.Ver, v.F, showVal(a), showVal(b))
			}
		}
	}

	adj := gateAdjacent[c.Ver]
	classes := []string{"type:" + c.Type, "family:" + family(c.Ver), fmt.Sprintf("carried:%02d", nCarried)}
	if adj {
		classes = append(classes, "gate-adjacent")
	} else {
		classes = append(classes, "random-in-family")
	}
	if processed == nil {
		classes = append(classes, "process-not-run")
	}
	if len(wire) > 60000 {
		classes = append(classes, "wire>60000")
	}
	key := append([]byte(fmt.Sprintf("%s/%d/", c.Type, c.Ver)), wire...)
	return &pbt.Result{NT: adj && nGatedNonDefault > 0, Classes: classes, Key: key}
}

var carriageSpec = pbt.Register(pbt.Spec[CarriageCase]{
	Prop: "C07", Name: "carriage",
	Rule:  "pack type x version (70% a version-gate constant of the code or its neighbour, else random in one of the five families) x generated values for every scalar field (numeric from the boundary catalogue, strings 0..65535 bytes around the caps); the set of carried fields is learnt from the writer by perturbing one field at a time; non-trivial = version adjacent to a gate and >= 1 gated field (a field whose carriage changes somewhere along the version grid) non-default; distinct by (type, version, bytes)",
	Quick: 6000, Thorough: 200000,
	Draw: drawCarriage, Run: runCarriage,
})

func TestCarriage(t *testing.T) {
	pbt.Extra("carriage", "gate_constants", gateConstants)
	pbt.Extra("carriage", "gate_constants_found_by_source_scan", gateScan())
	carriageSpec.Check(t)
}

// ---- exhaustive grid: every type at every gate constant and neighbour ----------

// gridCase fills every field with a fixed non-default value that depends only on
// the position of the field, so each (type, version) pair of the grid is covered
// in every run regardless of the random sample.
func gridCase(i uint64) CarriageCase {
	d := descs[int(i)%len(descs)]
	ver := gateVersions[int(i)/len(descs)]
	c := CarriageCase{Type: d.name, Ver: ver}
	for k, f := range fieldsOf(d.mk(ver)) {
		if f.name == "Ver" || !fillable(f) || d.readerParam[f.name] {
			continue
		}
		v := Field{F: f.name}
		switch f.typ.Kind() {
		case reflect.Int64:
			v.I = i64(-(int64(k) + 3) * 1000003)
		case reflect.Int32:
			v.I = i64(int64(k)*1009 + 65)
		case reflect.Int16:
			v.I = i64(int64(k) + 300)
		case reflect.Bool:
			v.I = i64(1)
		default:
			if f.typ == tInt16s {
				v.A = []int16{1, -2, 300, 0, 32767}
			} else {
				s := Str{S: fmt.Sprintf("%s#%d", f.name, k)}
				v.S = &s
			}
		}
		c.Fields = append(c.Fields, v)
	}
	if d.name == "ActiveStack" {
		for j := range c.Fields {
			if c.Fields[j].F == "Data" {
				c.Fields[j].S = &Str{S: "1, 4611686018427387904, at main.f(file.go:1)"}
			}
		}
	}
	return c
}

var gridSweep = pbt.RegisterSweep(pbt.Sweep{
	Prop: "C07", Name: "carriage-grid",
	Rule: "exhaustive: all 19 pack types x every version-gate constant of the code and its two neighbours, one fixed all-fields-non-default fill each; non-trivial = >= 1 carried field",
	N:    uint64(len(descs) * len(gateVersions)),
	Run: func(i uint64) (bool, error) {
		r := pbt.SafeRun(func() *pbt.Result { return runCarriage(gridCase(i)) })
		return r.NT, r.Err
	},
	Show: func(i uint64) interface{} {
		c := gridCase(i)
		return map[string]interface{}{"type": c.Type, "ver": c.Ver}
	},
})

// ---- every small number in every numeric field ---------------------------------------------------------------
// Counts, status codes, depths, fetch sizes are small numbers; the writers render them through helper tables and
// special cases (zero as empty text). Every value of a contiguous range is put into every numeric field at once.

var smallTypes = func() []*desc {
	// the pack types with the most numeric fields (all of them in the thorough tier)
	type cnt struct {
		d *desc
		n int
	}
	var cs []cnt
	for _, d := range descs {
		n := 0
		for _, f := range fieldsOf(d.mk(50100)) {
			switch f.typ.Kind() {
			case reflect.Int16, reflect.Int32, reflect.Int64:
				if f.name != "Ver" && !d.readerParam[f.name] {
					n++
				}
			}
		}
		if n > 0 {
			cs = append(cs, cnt{d, n})
		}
	}
	sort.SliceStable(cs, func(i, j int) bool { return cs[i].n > cs[j].n })
	if !pbt.Thorough() && len(cs) > 6 {
		cs = cs[:6]
	}
	var out []*desc
	for _, c := range cs {
		out = append(out, c.d)
	}
	return out
}()

var smallVersions = []int32{10111, 20105, 30104, 40002, 50102}

var smallLo, smallHi = pbt.Pick(-100, -1100), pbt.Pick(1100, 4200)

func smallCase(i uint64) CarriageCase {
	per := uint64(smallHi - smallLo + 1)
	v := int64(i%per) + int64(smallLo)
	i /= per
	ver := smallVersions[int(i)%len(smallVersions)]
	d := smallTypes[int(i)/len(smallVersions)]
	c := CarriageCase{Type: d.name, Ver: ver}
	for k, f := range fieldsOf(d.mk(ver)) {
		if f.name == "Ver" || !fillable(f) || d.readerParam[f.name] {
			continue
		}
		fv := Field{F: f.name}
		switch f.typ.Kind() {
		case reflect.Int64, reflect.Int32, reflect.Int16:
			fv.I = i64(v)
		case reflect.Bool:
			fv.I = i64(int64(k & 1))
		default:
			if f.typ == tInt16s {
				fv.A = []int16{int16(v), 0, 1, -1, 5}
			} else {
				fv.S = &Str{S: fmt.Sprintf("%s=%d", f.name, v)}
			}
		}
		c.Fields = append(c.Fields, fv)
	}
	if d.name == "ActiveStack" {
		for j := range c.Fields {
			if c.Fields[j].F == "Data" {
				c.Fields[j].S = &Str{S: fmt.Sprintf("1, %d, at main.f(file.go:1)", v)}
			}
		}
	}
	return c
}

var smallSweep = pbt.RegisterSweep(pbt.Sweep{
	Prop: "C07", Name: "small-numbers",
	Rule: fmt.Sprintf("exhaustive: every integer %d..%d put into all numeric fields at once, for the pack types with the most numeric fields (6 in the quick tier, all in the thorough tier) x one version of each of the five families; judged by the carriage oracle (what the writer carries comes back); non-trivial = a carried numeric field", smallLo, smallHi),
	N:    uint64(len(smallTypes) * len(smallVersions) * (smallHi - smallLo + 1)),
	Run: func(i uint64) (bool, error) {
		r := pbt.SafeRun(func() *pbt.Result { return runCarriage(smallCase(i)) })
		return r.NT, r.Err
	},
	Show: func(i uint64) interface{} { return smallCase(i) },
})

func TestSmallNumbers(t *testing.T) { smallSweep.Check(t, 4) }

func TestCarriageGrid(t *testing.T) {
	gridSweep.Check(t, 1)
	// evidence: the layout changes the writer exhibits along the grid of versions
	// (what the perturbation oracle learnt; nothing is asserted here)
	gatedFields()
	pbt.Extra("carriage-grid", "layout_changes_learnt_from_the_writer", gatedLog)
}

// Boundary cases written by hand: maximal text length, caps +-1, zero as empty text.
func TestCarriageBoundaries(t *testing.T) {
	long := func(n int) *Str { return &Str{S: "k=v;", N: n} }
	cases := []CarriageCase{
		{Type: "TxStart", Ver: 50100, Fields: []Field{{F: "Host", S: long(2049)}, {F: "Uri", S: long(2048)}, {F: "Ipaddr", S: long(257)},
			{F: "UAgent", S: long(65535)}, {F: "Ref", S: long(2047)}, {F: "WClientId", S: long(4000)}, {F: "HttpMethod", S: long(256)}}},
		{Type: "TxStart", Ver: 10103, Fields: []Field{{F: "HttpMethod", S: long(300)}, {F: "ThreadId", I: i64(math.MinInt64)}}},
		{Type: "TxStartEnd", Ver: 10110, Fields: []Field{{F: "Host", S: long(65535)}, {F: "PeakMem", I: i64(math.MinInt64)}, {F: "Mdepth", I: i64(math.MinInt32)},
			{F: "Status", I: i64(0)}, {F: "ProfIFuncCount", I: i64(math.MaxInt32)}}},
		{Type: "TxEnd", Ver: 30103, Fields: []Field{{F: "Status", I: i64(-1)}, {F: "McallerStepId", I: i64(math.MaxInt64)}, {F: "XTraceId", S: long(65535)}}},
		{Type: "TxSql", Ver: 20102, Fields: []Field{{F: "Fetch", I: i64(65)}, {F: "Sql", S: long(32768)}}},
		{Type: "TxSql", Ver: 50100, Fields: []Field{{F: "Dbc", S: &Str{S: "user=u password=p"}}, {F: "Sql", S: long(32768)}}},
		{Type: "TxMessage", Ver: 50100, Fields: []Field{{F: "Hash", S: long(2049)}, {F: "Value", S: long(65535)}, {F: "Desc", S: long(32769)}}},
		{Type: "TxResultSet", Ver: 20104, Fields: []Field{{F: "Fetch", I: i64(math.MinInt32)}}},
		{Type: "Relay", Ver: 50100, Fields: []Field{{F: "Data", S: long(70000)}, {F: "RelayType", I: i64(5)}}},
		{Type: "ActiveStats", Ver: 50100, Fields: []Field{{F: "ActiveStats", A: []int16{-32768, 32767, 0, 1, -1}}, {F: "Data", S: &Str{S: "ignored"}}}},
	}
	for _, c := range cases {
		carriageSpec.RunCase(t, c)
	}
}
