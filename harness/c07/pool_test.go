// C07 sub-check 2: a pack obtained from the pool after being released carries no
// field value from its previous use.
//
// Histories of acquire / fill / release are run against CreatePack / ClosePack.
// fill stores recognisable poison in EVERY exported field (strings, numbers,
// byte and element slices, maps, pointers). Whatever CreatePack returns must not
// contain poison anywhere — judged by looking for the poison, never by comparing
// with what Clear() would produce. Bool fields cannot hold a recognisable value;
// for them the check is non-interference: the value seen after re-acquisition
// must not follow the value stored before the release.
package c07

import (
	"fmt"
	"reflect"
	"runtime"
	"strings"
	"sync"
	"sync/atomic"
	"testing"

	"github.com/whatap/golib/lang/pack"
	"github.com/whatap/golib/lang/pack/udp"
	"github.com/whatap/golib/util/urlutil"
	"pgregory.net/rapid"
	"verif/pbt"
)

type PoolOp struct {
	Op   string `json:"op"`             // acq | fill | rel | clear (the holder calls Clear itself) | fault | relnew (release of a self-made pack of an unpooled type)
	Type string `json:"type,omitempty"` // acq: pack type
	Ver  int32  `json:"ver,omitempty"`  // acq: requested version
	Slot int    `json:"slot,omitempty"` // fill, rel: index into the packs currently held (modulo their number)
	Seed int    `json:"seed,omitempty"` // fill: poison id
	B    bool   `json:"b,omitempty"`    // fill: value stored in the bool fields
	Cut  int    `json:"cut,omitempty"`  // fault: the poisoned datagram is cut to Cut%(len-1)+1 bytes before it is decoded
}

type PoolCase struct {
	Ops []PoolOp `json:"ops"`
}

func drawPool(t *rapid.T) PoolCase {
	// few types per history so that the same pool is hit again and again
	all := typeNames(true)
	nTypes := rapid.IntRange(1, 3).Draw(t, "ntypes")
	types := make([]string, nTypes)
	for i := range types {
		types[i] = rapid.SampledFrom(all).Draw(t, "type")
	}
	n := rapid.IntRange(3, 40).Draw(t, "nops")
	var c PoolCase
	var held []string          // types of the packs held, in slot order
	pooled := map[string]int{} // how many packs of a type were released and not (by LIFO accounting) handed out again
	for i := 0; i < n; i++ {
		k := rapid.IntRange(0, 99).Draw(t, "opkind")
		switch {
		case len(held) == 0 || k < 34:
			// prefer a type whose pool holds a released pack: that acquire is a reuse
			ty := rapid.SampledFrom(types).Draw(t, "t")
			if pooled[ty] == 0 && rapid.IntRange(0, 2).Draw(t, "prefer-pooled") > 0 {
				for _, cand := range types {
					if pooled[cand] > 0 {
						ty = cand
						break
					}
				}
			}
			c.Ops = append(c.Ops, PoolOp{Op: "acq", Type: ty, Ver: drawVersion(t)})
			held = append(held, ty)
			if pooled[ty] > 0 {
				pooled[ty]--
			}
		case k >= 90:
			// a truncated datagram arrives: ToPack acquires a pack, reads part of it and fails
			c.Ops = append(c.Ops, PoolOp{Op: "fault", Type: rapid.SampledFrom(types).Draw(t, "t"), Ver: drawVersion(t),
				Seed: rapid.IntRange(1, 255).Draw(t, "seed"), B: rapid.Bool().Draw(t, "b"), Cut: rapid.IntRange(0, 5000).Draw(t, "cut")})
		case k >= 84:
			// the holder re-uses its pack for a second message: it clears the pack itself (and will usually fill it again)
			c.Ops = append(c.Ops, PoolOp{Op: "clear", Slot: rapid.IntRange(0, len(held)-1).Draw(t, "slot")})
		case k >= 81 && k < 84:
			// the holder releases a pack of a type the pool does not manage, which it constructed itself (seed C07-s23),
			// and then takes two pooled packs at once
			c.Ops = append(c.Ops, PoolOp{Op: "relnew", Type: rapid.SampledFrom(unpooledNames()).Draw(t, "foreign"),
				Seed: rapid.IntRange(1, 255).Draw(t, "seed"), B: rapid.Bool().Draw(t, "b")})
			for j := 0; j < 2; j++ {
				ty := rapid.SampledFrom(all).Draw(t, "t-after-foreign")
				c.Ops = append(c.Ops, PoolOp{Op: "acq", Type: ty, Ver: drawVersion(t)})
				held = append(held, ty)
				if pooled[ty] > 0 {
					pooled[ty]--
				}
			}
		case k < 67:
			c.Ops = append(c.Ops, PoolOp{Op: "fill", Slot: rapid.IntRange(0, len(held)-1).Draw(t, "slot"),
				Seed: rapid.IntRange(1, 255).Draw(t, "seed"), B: rapid.Bool().Draw(t, "b")})
		default:
			slot := rapid.IntRange(0, len(held)-1).Draw(t, "slot")
			c.Ops = append(c.Ops, PoolOp{Op: "rel", Slot: slot})
			pooled[held[slot]]++
			held = append(held[:slot], held[slot+1:]...)
		}
	}
	return c
}

func unpooledNames() []string {
	var out []string
	for _, d := range descs {
		if !d.registered {
			out = append(out, d.name)
		}
	}
	return out
}

// ---- poison -------------------------------------------------------------------

const poisonTag = "PZN"

func poisonStr(seed int, field string) string {
	return fmt.Sprintf("%s%03d<%s>", poisonTag, seed, field)
}

// numeric poison: a reserved bit pattern in the top half of the value; no
// default (0, -1, the default version 50100, any requested version) matches it.
func poisonInt(kind reflect.Kind, seed int) int64 {
	switch kind {
	case reflect.Int64:
		return 0x5A5A5A5A00000000 + int64(seed)
	case reflect.Int32:
		return 0x5A5A0000 + int64(seed)
	}
	return 0x5A00 + int64(seed&0xff)
}

func isPoisonInt(kind reflect.Kind, v int64) bool {
	switch kind {
	case reflect.Int64:
		return v>>32 == 0x5A5A5A5A
	case reflect.Int32:
		return v>>16 == 0x5A5A
	}
	return v>>8 == 0x5A
}

// poisonPtrs remembers every object a fill stored behind a pointer field.
type poisonPtrs map[uintptr]bool

func fillPoison(p udp.UdpPack, seed int, b bool, ptrs poisonPtrs) {
	for _, f := range fieldsOf(p) {
		rv := fieldVal(p, f)
		switch f.typ.Kind() {
		case reflect.Int16, reflect.Int32, reflect.Int64:
			rv.SetInt(poisonInt(f.typ.Kind(), seed))
		case reflect.Bool:
			rv.SetBool(b)
		case reflect.String:
			rv.SetString(poisonStr(seed, f.name))
		case reflect.Slice:
			switch f.typ.Elem().Kind() {
			case reflect.Uint8:
				rv.SetBytes([]byte(poisonStr(seed, f.name)))
			case reflect.Int16:
				rv.Set(reflect.ValueOf([]int16{int16(poisonInt(reflect.Int16, seed)), int16(poisonInt(reflect.Int16, seed+1))}))
			case reflect.String:
				rv.Set(reflect.ValueOf([]string{poisonStr(seed, f.name), poisonStr(seed, f.name+"[1]")}))
			default:
				panic("pool check: unhandled slice field " + f.name + " " + f.typ.String())
			}
		case reflect.Map:
			if f.typ.Key().Kind() != reflect.String || f.typ.Elem().Kind() != reflect.String {
				panic("pool check: unhandled map field " + f.name + " " + f.typ.String())
			}
			if rv.IsNil() {
				rv.Set(reflect.MakeMap(f.typ))
			}
			rv.SetMapIndex(reflect.ValueOf(poisonStr(seed, f.name+".key")), reflect.ValueOf(poisonStr(seed, f.name+".value")))
		case reflect.Ptr:
			var obj interface{}
			switch f.typ {
			case reflect.TypeOf((*urlutil.URL)(nil)):
				obj = urlutil.NewURL("http://" + poisonStr(seed, f.name) + "/x")
			case reflect.TypeOf((*pack.ParamPack)(nil)):
				pp := pack.NewParamPack()
				pp.Id = int32(poisonInt(reflect.Int32, seed))
				obj = pp
			default:
				panic("pool check: unhandled pointer field " + f.name + " " + f.typ.String())
			}
			ptrs[reflect.ValueOf(obj).Pointer()] = true
			rv.Set(reflect.ValueOf(obj))
		default:
			panic("pool check: unhandled field " + f.name + " " + f.typ.String())
		}
	}
}

// findPoison looks for poison in every non-bool field; "" when the pack is clean.
func findPoison(p udp.UdpPack, ptrs poisonPtrs) string {
	for _, f := range fieldsOf(p) {
		rv := fieldVal(p, f)
		switch f.typ.Kind() {
		case reflect.Int16, reflect.Int32, reflect.Int64:
			if isPoisonInt(f.typ.Kind(), rv.Int()) {
				return fmt.Sprintf("%s = %#x", f.name, rv.Int())
			}
		case reflect.String:
			if strings.Contains(rv.String(), poisonTag) {
				return fmt.Sprintf("%s = %q", f.name, rv.String())
			}
		case reflect.Slice:
			for i := 0; i < rv.Len(); i++ {
				e := rv.Index(i)
				switch e.Kind() {
				case reflect.Int16:
					if isPoisonInt(reflect.Int16, e.Int()) {
						return fmt.Sprintf("%s[%d] = %#x", f.name, i, e.Int())
					}
				case reflect.String:
					if strings.Contains(e.String(), poisonTag) {
						return fmt.Sprintf("%s[%d] = %q", f.name, i, e.String())
					}
				}
			}
			if f.typ.Elem().Kind() == reflect.Uint8 && strings.Contains(string(rv.Bytes()), poisonTag) {
				return fmt.Sprintf("%s = %q", f.name, string(rv.Bytes()))
			}
		case reflect.Map:
			it := rv.MapRange()
			for it.Next() {
				if strings.Contains(it.Key().String(), poisonTag) || strings.Contains(it.Value().String(), poisonTag) {
					return fmt.Sprintf("%s[%q] = %q", f.name, it.Key().String(), it.Value().String())
				}
			}
		case reflect.Ptr:
			if !rv.IsNil() && ptrs[rv.Pointer()] {
				return fmt.Sprintf("%s still points to the object stored by the previous user", f.name)
			}
		}
	}
	return ""
}

// ---- the check ----------------------------------------------------------------

// single P: sync.Pool keeps released objects per P; with one P a released pack
// is what the next Get of that pool returns (unless a GC cycle drops it). Reuse is
// only the non-triviality rule, never required.
func singleP() func() {
	old := runtime.GOMAXPROCS(0)
	if old == 1 {
		return func() {}
	}
	runtime.GOMAXPROCS(1)
	return func() { runtime.GOMAXPROCS(old) }
}

type heldPack struct {
	p      udp.UdpPack
	d      *desc
	filled bool
	b      bool // bool value stored by the last fill of this tenure
}

var poolReuses, poolAcquires int64

func runPool(c PoolCase) *pbt.Result {
	defer singleP()()
	ptrs := poisonPtrs{}
	keep := []udp.UdpPack{}       // every object seen: keeps addresses unique for the whole case
	inPool := map[uintptr]*desc{} // released by this case and not handed out again
	lastB := map[uintptr]*bool{}  // bool value the object was released with (nil: not filled in that tenure)
	// bool non-interference, per type and field: [stored][observed]
	follow := map[string]*[2][2]int{}
	var held []*heldPack
	reuses, acquires, refilledReuses, faults, acqAfterFault := 0, 0, 0, 0, 0
	unknown := map[uintptr]bool{}
	classes := map[string]bool{}

	// leave the pools as they were found: take back everything this case released
	defer func() {
		byType := map[*desc]int{}
		for _, d := range inPool {
			byType[d]++
		}
		for d, n := range byType {
			for i := 0; i < n+1; i++ {
				q := d.mk(udp.UDP_PACK_VERSION)
				if _, ours := inPool[ptrOf(q)]; !ours {
					break
				}
				delete(inPool, ptrOf(q))
			}
		}
	}()

	for i, op := range c.Ops {
		switch op.Op {
		case "acq":
			d := descByName[op.Type]
			if d == nil || !d.registered {
				return pbt.Fail("op %d: unknown or unpooled type %q", i, op.Type)
			}
			p := d.mk(op.Ver)
			if p == nil {
				return pbt.Fail("op %d: CreatePack(%s, %d) returned nil", i, op.Type, op.Ver)
			}
			acquires++
			if faults > 0 {
				acqAfterFault++
			}
			keep = append(keep, p)
			id := ptrOf(p)
			_, reused := inPool[id]
			if reused {
				reuses++
				delete(inPool, id)
				classes["reuse:"+d.name] = true
			}
			if where := findPoison(p, ptrs); where != "" {
				return pbt.Fail("op %d: CreatePack(%s, %d) returned a pack (same object as released earlier: %v) that still holds a value of its previous use: %s",
					i, op.Type, op.Ver, reused, where)
			}
			if reused && lastB[id] != nil {
				refilledReuses++
				stored := *lastB[id]
				for _, f := range fieldsOf(p) {
					if f.typ.Kind() != reflect.Bool {
						continue
					}
					k := d.name + "." + f.name
					if follow[k] == nil {
						follow[k] = &[2][2]int{}
					}
					obs := fieldVal(p, f).Bool()
					follow[k][b2i(stored)][b2i(obs)]++
					if m := follow[k]; m[0][0] > 0 && m[1][1] > 0 {
						return pbt.Fail("op %d: bool field %s of a re-acquired pack follows the value stored before release (false->false %d times, true->true %d times): it is not reset",
							i, k, m[0][0], m[1][1])
					}
				}
			}
			held = append(held, &heldPack{p: p, d: d})
		case "fill":
			if len(held) == 0 {
				continue
			}
			h := held[op.Slot%len(held)]
			fillPoison(h.p, op.Seed, op.B, ptrs)
			h.filled, h.b = true, op.B
		case "clear":
			if len(held) == 0 {
				continue
			}
			h := held[op.Slot%len(held)]
			h.p.Clear()
			h.filled = false
			classes["cleared-by-holder"] = true
		case "rel":
			if len(held) == 0 {
				continue
			}
			k := op.Slot % len(held)
			h := held[k]
			held = append(held[:k], held[k+1:]...)
			id := ptrOf(h.p)
			if h.filled {
				b := h.b
				lastB[id] = &b
			} else {
				lastB[id] = nil
			}
			udp.ClosePack(h.p)
			inPool[id] = h.d
		case "relnew":
			d := descByName[op.Type]
			if d == nil || d.registered {
				return pbt.Fail("op %d: %q is not a type outside the pool", i, op.Type)
			}
			q := d.mk(udp.UDP_PACK_VERSION)
			keep = append(keep, q)
			fillPoison(q, op.Seed, op.B, ptrs)
			udp.ClosePack(q)
			classes["released-a-pack-the-pool-does-not-manage:"+d.name] = true
		case "fault":
			d := descByName[op.Type]
			if d == nil || !d.registered {
				return pbt.Fail("op %d: unknown or unpooled type %q", i, op.Type)
			}
			if d.noToPack {
				continue
			}
			// a poisoned datagram of this type, produced through an ordinary acquire / fill / release
			src := d.mk(op.Ver)
			keep = append(keep, src)
			delete(inPool, ptrOf(src))
			fillPoison(src, op.Seed, op.B, ptrs)
			var dgram []byte
			func() {
				defer func() { recover() }() // poison that the writer cannot encode: no datagram, no fault
				dgram = append([]byte(nil), udp.ToBytesPack(src)...)
			}()
			udp.ClosePack(src)
			inPool[ptrOf(src)] = d
			lastB[ptrOf(src)] = nil
			if len(dgram) < 2 {
				continue
			}
			cut := op.Cut%(len(dgram)-1) + 1
			var got udp.UdpPack
			var perr interface{}
			func() {
				defer func() { perr = recover() }()
				got = udp.ToPack(d.code, op.Ver, dgram[:cut])
			}()
			if perr == nil && got != nil {
				// decoded after all (the cut fell behind the last field this version reads): an ordinary tenure
				keep = append(keep, got)
				delete(inPool, ptrOf(got))
				udp.ClosePack(got)
				inPool[ptrOf(got)] = d
				lastB[ptrOf(got)] = nil
				classes["fault:decoded-anyway"] = true
			} else {
				// whatever the library did with the half-read pack, nobody may get its content
				faults++
				classes["fault:decode-failed:"+d.name] = true
				// the pack ToPack acquired may or may not be back in the pool; forget what we knew about that pool's top
				for id, dd := range inPool {
					if dd == d {
						unknown[id] = true
					}
				}
			}
		default:
			return pbt.Fail("op %d: unknown op %q", i, op.Op)
		}
	}
	_ = keep
	poolReuses += int64(reuses)
	poolAcquires += int64(acquires)
	var cl []string
	for k := range classes {
		cl = append(cl, k)
	}
	if refilledReuses > 0 {
		cl = append(cl, "reuse-after-poison")
	}
	if acqAfterFault > 0 {
		cl = append(cl, "acquire-after-failed-decode")
	}
	if reuses == 0 {
		cl = append(cl, "no-reuse")
	}
	return &pbt.Result{NT: refilledReuses > 0 || acqAfterFault > 0, Classes: cl}
}

func b2i(b bool) int {
	if b {
		return 1
	}
	return 0
}

var poolSpec = pbt.Register(pbt.Spec[PoolCase]{
	Prop: "C07", Name: "pool",
	Rule:  "histories of 3..40 acquire(type, version) / fill(poison in every exported field incl. maps, slices, pointers) / release / clear by the holder itself (the pack is re-used for a second message, usually filled again) / failed decode (ToPack of a poisoned datagram cut at a generated offset, panic recovered) / release of a self-constructed, poisoned pack of a type the pool does not manage followed by two acquisitions of any pooled type, over 1..3 of the 18 pooled types, run on a single P; after every acquire no field may contain poison (bool fields: value after re-acquisition must not follow the value stored before release); non-trivial = sync.Pool really handed back an object that had been poisoned and released earlier in the same history, or an acquire followed a failed decode; distinct by history",
	Quick: 3000, Thorough: 20000,
	Draw: drawPool, Run: runPool,
})

func TestPool(t *testing.T) {
	defer singleP()()
	poolSpec.Check(t)
	pbt.Extra("pool", "acquires", poolAcquires)
	pbt.Extra("pool", "acquires_that_returned_a_previously_released_object", poolReuses)
}

// One fixed history per pooled type: acquire, poison, release, acquire again — twice,
// with both bool polarities — so that every type is covered in every run.
func TestPoolEveryType(t *testing.T) {
	defer singleP()()
	for _, name := range typeNames(true) {
		c := PoolCase{Ops: []PoolOp{
			{Op: "acq", Type: name, Ver: 50100},
			{Op: "fill", Slot: 0, Seed: 7, B: true},
			{Op: "rel", Slot: 0},
			{Op: "acq", Type: name, Ver: 10110},
			{Op: "fill", Slot: 0, Seed: 9, B: false},
			{Op: "rel", Slot: 0},
			{Op: "acq", Type: name, Ver: 20104},
			{Op: "acq", Type: name, Ver: 30103},
		}}
		poolSpec.RunCase(t, c)
		// failed decodes at several cut points, each followed by acquires
		for _, ver := range []int32{50100, 10110, 30103} {
			var ops []PoolOp
			for _, cut := range []int{0, 3, 9, 17, 40, 90, 200, 1000} {
				ops = append(ops, PoolOp{Op: "fault", Type: name, Ver: ver, Seed: 11, B: true, Cut: cut}, PoolOp{Op: "acq", Type: name, Ver: ver}, PoolOp{Op: "acq", Type: name, Ver: ver})
			}
			poolSpec.RunCase(t, PoolCase{Ops: ops})
		}
	}
}

// ---- the pool under concurrent tenants ---------------------------------------------------------------

type PoolConcCase struct {
	Types  []string `json:"types"`
	G      int      `json:"g"`
	Rounds int      `json:"rounds"`
}

// myPoisonIntact reports the first string field that no longer holds the poison this tenant stored.
func myPoisonIntact(p udp.UdpPack, seed int) string {
	for _, f := range fieldsOf(p) {
		if f.typ.Kind() != reflect.String {
			continue
		}
		if got, want := fieldVal(p, f).String(), poisonStr(seed, f.name); got != want {
			return fmt.Sprintf("%s = %q, this tenant stored %q", f.name, got, want)
		}
	}
	return ""
}

func runPoolConc(c PoolConcCase) *pbt.Result {
	var wg sync.WaitGroup
	var failed atomic.Bool
	var mu sync.Mutex
	msg := ""
	fail := func(format string, a ...interface{}) {
		mu.Lock()
		if msg == "" {
			msg = fmt.Sprintf(format, a...)
		}
		mu.Unlock()
		failed.Store(true)
	}
	var tenures atomic.Int64
	for g := 0; g < c.G; g++ {
		wg.Add(1)
		go func(g int) {
			defer wg.Done()
			defer func() {
				if r := recover(); r != nil {
					fail("goroutine %d: panic while using a pooled pack: %v", g, r)
				}
			}()
			ptrs := poisonPtrs{}
			seed := 1 + g%250
			for r := 0; r < c.Rounds && !failed.Load(); r++ {
				d := descByName[c.Types[(g+r)%len(c.Types)]]
				p := d.mk(udp.UDP_PACK_VERSION)
				if where := findPoison(p, poisonPtrs{}); where != "" {
					fail("goroutine %d round %d: CreatePack(%s) returned a pack that holds a value of another tenant: %s", g, r, d.name, where)
					return
				}
				fillPoison(p, seed, r%2 == 0, ptrs)
				runtime.Gosched()
				if where := myPoisonIntact(p, seed); where != "" {
					fail("goroutine %d round %d: a field of the %s pack this goroutine holds was changed by somebody else: %s", g, r, d.name, where)
					return
				}
				udp.ClosePack(p)
				tenures.Add(1)
			}
		}(g)
	}
	wg.Wait()
	if msg != "" {
		return pbt.Fail("%s", msg)
	}
	return &pbt.Result{NT: c.G >= 2, Classes: []string{fmt.Sprintf("goroutines=%d", c.G)}}
}

var poolConcSpec = pbt.Register(pbt.Spec[PoolConcCase]{
	Prop: "C07", Name: "pool-concurrent",
	Rule:  "4-32 goroutines run 200-2000 tenures each over 1-2 of the pooled types: acquire (no field may hold any tenant's poison), store this tenant's poison in every field, yield, verify that every string field still holds this tenant's poison (nobody else clears or fills a pack that is held), release; sound for any schedule; non-trivial = every case; distinct by case",
	Quick: 40, Thorough: 1500,
	Draw: func(t *rapid.T) PoolConcCase {
		all := typeNames(true)
		c := PoolConcCase{G: rapid.IntRange(4, 32).Draw(t, "g"), Rounds: rapid.IntRange(200, 2000).Draw(t, "rounds")}
		for i := rapid.IntRange(1, 2).Draw(t, "ntypes"); i > 0; i-- {
			c.Types = append(c.Types, rapid.SampledFrom(all).Draw(t, "type"))
		}
		return c
	},
	Run: runPoolConc,
})

func TestPoolConcurrent(t *testing.T) { poolConcSpec.Check(t) }
