// C07 UDP tracer packs: writer and reader agree for every type and protocol
// version; pooled packs carry no residue; connection-string passwords are masked.
//
// This file: the table of pack types (the only per-type knowledge of the
// check), reflection helpers, the compact string representation used in cases
// and the version domain.
package c07

import (
	"bytes"
	"fmt"
	"os"
	"path/filepath"
	"reflect"
	"regexp"
	"runtime"
	"sort"
	"strconv"
	"testing"
	"unicode/utf8"

	wio "github.com/whatap/golib/io"
	"github.com/whatap/golib/lang/pack/udp"
	"pgregory.net/rapid"
	"verif/gen"
	"verif/pbt"
)

func TestMain(m *testing.M) { pbt.Main(m, "C07") }

func TestReplay(t *testing.T) { pbt.Replay(t) }

// ---- pack type table --------------------------------------------------------

// desc is what the check knows about one pack type. Nothing in it describes
// which version carries which field: that is derived from the writer at run time.
type desc struct {
	name       string
	code       uint8
	registered bool                        // CreatePack / ClosePack / ToPack know the type
	mk         func(ver int32) udp.UdpPack // how a reader obtains an empty pack of this type
	// fields that Process() computes (taken from the Process bodies); they are
	// not wire fields: ToPack and Read-only results are not compared on them
	derived map[string]bool
	// writer-side length caps (stringutil.Truncate(field, CONST) in Write):
	// restored value == first cap bytes of the original
	caps map[string]int
	// wire fields that Process() of the Go/PHP families is documented to rewrite
	rewritten map[string]bool
	// fields the writer computes itself at Write time (UdpActiveStatsPack.Data)
	writerDerived map[string]bool
	// fields that parameterise Read and are not on the wire (UdpRelayPack.Len)
	readerParam map[string]bool
	// carried fields that only Read+Process restores (UdpActiveStatsPack.ActiveStats)
	viaProcess map[string]bool
	// ToPack cannot be used (UdpRelayPack: Read needs Len, which ToPack cannot pass)
	noToPack bool
}

func set(names ...string) map[string]bool {
	m := map[string]bool{}
	for _, n := range names {
		m[n] = true
	}
	return m
}

func viaCreate(code uint8) func(int32) udp.UdpPack {
	return func(ver int32) udp.UdpPack { return udp.CreatePack(code, ver) }
}

// Caps written as literal numbers (documented limits: HTTP_HOST/URI/UA/REF_MAX_SIZE
// 2 KiB, HTTP_IP/METHOD_MAX_SIZE 256, PACKET_MESSAGE_MAX_SIZE 32 KiB), not taken
// from the constants of the code under test.
var descs = []*desc{
	{name: "TxStart", code: udp.TX_START, registered: true, mk: viaCreate(udp.TX_START),
		derived: set("ServiceURL", "RefererURL", "IsStatic"),
		caps:    map[string]int{"Host": 2048, "Uri": 2048, "Ipaddr": 256, "UAgent": 2048, "Ref": 2048, "WClientId": 2048, "HttpMethod": 256}},
	{name: "TxStartEnd", code: udp.TX_START_END, registered: true, mk: viaCreate(udp.TX_START_END),
		derived: set("ServiceURL", "RefererURL", "IsStatic", "McallerUrlHash")},
	{name: "TxEnd", code: udp.TX_END, registered: true, mk: viaCreate(udp.TX_END),
		derived: set("ServiceURL", "McallerUrlHash")},
	{name: "TxSql", code: udp.TX_SQL, registered: true, mk: viaCreate(udp.TX_SQL), rewritten: set("Dbc", "Sql")},
	{name: "TxSqlParam", code: udp.TX_SQL_PARAM, registered: true, mk: viaCreate(udp.TX_SQL_PARAM), rewritten: set("Dbc", "Sql")},
	{name: "TxHttpc", code: udp.TX_HTTPC, registered: true, mk: viaCreate(udp.TX_HTTPC), derived: set("HttpcURL")},
	{name: "TxError", code: udp.TX_ERROR, registered: true, mk: viaCreate(udp.TX_ERROR)},
	{name: "TxMessage", code: udp.TX_MSG, registered: true, mk: viaCreate(udp.TX_MSG),
		caps: map[string]int{"Hash": 2048, "Desc": 32768}},
	{name: "TxSecureMessage", code: udp.TX_SECURE_MSG, registered: true, mk: viaCreate(udp.TX_SECURE_MSG)},
	{name: "TxMethod", code: udp.TX_METHOD, registered: true, mk: viaCreate(udp.TX_METHOD)},
	{name: "TxDbc", code: udp.TX_DB_CONN, registered: true, mk: viaCreate(udp.TX_DB_CONN), rewritten: set("Dbc")},
	{name: "Relay", code: udp.RELAY_PACK, registered: true, mk: viaCreate(udp.RELAY_PACK),
		readerParam: set("Len"), noToPack: true},
	{name: "ActiveStack1", code: udp.ACTIVE_STACK_1, registered: true, mk: viaCreate(udp.ACTIVE_STACK_1)},
	{name: "ActiveStack", code: udp.ACTIVE_STACK, registered: true, mk: viaCreate(udp.ACTIVE_STACK),
		derived: set("TxId", "Stack")},
	{name: "TxParam", code: udp.TX_PARAM, registered: true, mk: viaCreate(udp.TX_PARAM),
		derived: set("StrDatas", "ParamPack")},
	{name: "ActiveStats", code: udp.ACTIVE_STATS, registered: true, mk: viaCreate(udp.ACTIVE_STATS),
		writerDerived: set("Data"), viaProcess: set("ActiveStats")},
	{name: "DBConPool", code: udp.DBCONN_POOL, registered: true, mk: viaCreate(udp.DBCONN_POOL),
		derived: set("Pid", "Url", "ActCnt", "InactCnt")},
	{name: "Config", code: udp.CONFIG_INFO, registered: true, mk: viaCreate(udp.CONFIG_INFO),
		derived: set("MapData")},
	{name: "TxResultSet", code: udp.TX_RESULT_SET, registered: false,
		mk: func(ver int32) udp.UdpPack { return udp.NewUdpTxResultSetPackVer(ver) }},
}

var descByName = func() map[string]*desc {
	m := map[string]*desc{}
	for _, d := range descs {
		m[d.name] = d
	}
	return m
}()

func typeNames(registeredOnly bool) []string {
	var out []string
	for _, d := range descs {
		if d.registered || !registeredOnly {
			out = append(out, d.name)
		}
	}
	return out
}

// ---- reflection over the exported fields ------------------------------------

type fld struct {
	name string
	path []int
	typ  reflect.Type
}

var (
	tInt16s = reflect.TypeOf([]int16(nil))
	tBytes  = reflect.TypeOf([]byte(nil))
)

// fieldsOf lists the exported fields of the pack (the embedded AbstractPack
// flattened; a name shadowed by the outer struct gets the prefix "AbstractPack.").
func fieldsOf(p udp.UdpPack) []fld {
	t := reflect.TypeOf(p).Elem()
	outer := map[string]bool{}
	for i := 0; i < t.NumField(); i++ {
		if !t.Field(i).Anonymous {
			outer[t.Field(i).Name] = true
		}
	}
	var out []fld
	for i := 0; i < t.NumField(); i++ {
		f := t.Field(i)
		if f.Anonymous && f.Type.Kind() == reflect.Struct {
			for j := 0; j < f.Type.NumField(); j++ {
				g := f.Type.Field(j)
				if g.PkgPath != "" {
					continue
				}
				n := g.Name
				if outer[n] {
					n = f.Name + "." + n
				}
				out = append(out, fld{n, []int{i, j}, g.Type})
			}
			continue
		}
		if f.PkgPath != "" {
			continue
		}
		out = append(out, fld{f.Name, []int{i}, f.Type})
	}
	return out
}

func fieldVal(p udp.UdpPack, f fld) reflect.Value {
	return reflect.ValueOf(p).Elem().FieldByIndex(f.path)
}

// scalarKind: fields the carriage check fills and compares.
func fillable(f fld) bool {
	switch f.typ.Kind() {
	case reflect.Int16, reflect.Int32, reflect.Int64, reflect.Bool, reflect.String:
		return true
	}
	return f.typ == tInt16s || f.typ == tBytes
}

// ---- compact strings for JSON cases -----------------------------------------

// Str is a byte string: the base (S when it is valid UTF-8, otherwise X as hex)
// cycled / cut to N bytes (N == 0: the base itself).
type Str struct {
	S string `json:"s,omitempty"`
	X string `json:"x,omitempty"`
	N int    `json:"n,omitempty"`
}

func mkStr(base []byte, n int) Str {
	var s Str
	if utf8.Valid(base) {
		s.S = string(base)
	} else {
		s.X = gen.Hex(base)
	}
	if n != len(base) {
		s.N = n
		if n == 0 { // explicit empty result of a non-empty base: drop the base
			s = Str{}
		}
	}
	return s
}

func (s Str) Bytes() []byte {
	base := []byte(s.S)
	if s.X != "" {
		base = gen.UnHex(s.X)
	}
	if s.N == 0 || len(base) == 0 {
		return base
	}
	out := make([]byte, s.N)
	for i := range out {
		out[i] = base[i%len(base)]
	}
	return out
}

func (s Str) String() string { return string(s.Bytes()) }

var alphabets = []string{
	"abcXYZ019 _-=;:/.,|?&#%",
	"가나다한글テスト日本語",
	"\x00\x01\x7f\x80\xff\xfe\xc0\xaf\n\r\t",
	"é€😀ßİȺ",
	"0123456789-",
}

// lengths around every threshold a short-length text can meet: the 16-bit
// length limit, the documented caps (256, 2048, 32768) and the blob thresholds.
var lenCatalogue = []int{1, 2, 253, 254, 255, 256, 257, 2047, 2048, 2049, 32767, 32768, 32769, 65534, 65535}

// drawStr draws a byte string of at most 65 535 bytes (the range of a
// short-length text). capHint > 0 makes lengths around that cap more likely.
func drawStr(t *rapid.T, label string, capHint int) Str {
	k := rapid.IntRange(0, 99).Draw(t, label+".lenkind")
	var n int
	switch {
	case k < 8:
		n = 0
	case k < 60:
		n = rapid.IntRange(1, 24).Draw(t, label+".len")
	case k < 72 && capHint > 0:
		n = capHint + rapid.IntRange(-1, 2).Draw(t, label+".capdelta")
	case k < 90:
		n = rapid.SampledFrom(lenCatalogue[:10]).Draw(t, label+".len")
	case k < 96:
		n = rapid.IntRange(0, 3000).Draw(t, label+".len")
	default:
		n = rapid.SampledFrom(lenCatalogue).Draw(t, label+".len")
	}
	if n == 0 {
		return Str{}
	}
	alpha := []byte(rapid.SampledFrom(alphabets).Draw(t, label+".alpha"))
	bn := n
	if bn > 12 {
		bn = 12
	}
	idx := rapid.SliceOfN(rapid.IntRange(0, len(alpha)-1), bn, bn).Draw(t, label+".chars")
	base := make([]byte, bn)
	for i, j := range idx {
		base[i] = alpha[j]
	}
	return mkStr(base, n)
}

// ---- encoding helpers -------------------------------------------------------

func encode(p udp.UdpPack) []byte {
	out := wio.NewDataOutputX()
	p.Write(out)
	return out.ToByteArray()
}

func ptrOf(p udp.UdpPack) uintptr { return reflect.ValueOf(p).Pointer() }

func hexShort(b []byte) string {
	if len(b) > 80 {
		return fmt.Sprintf("%s…(%d bytes)", gen.Hex(b[:80]), len(b))
	}
	return gen.Hex(b)
}

func showVal(v interface{}) string {
	switch x := v.(type) {
	case string:
		if len(x) > 60 {
			return fmt.Sprintf("%q…(%d bytes)", x[:60], len(x))
		}
		return strconv.Quote(x)
	case []byte:
		return "hex:" + hexShort(x)
	}
	return fmt.Sprint(v)
}

// ---- version domain ---------------------------------------------------------

// Version gates read off the code by hand (comparison constants on Ver in
// lang/pack/udp/*.go), including the family boundaries. The source files are
// scanned as well (gateScan) so that a gate added later joins the domain by
// itself; the list below is the floor.
var handGates = []int32{
	10101, 10102, 10103, 10104, 10105, 10107, 10108, 10109, 10110,
	20000, 20102, 20104,
	30000, 30102, 30103,
	40000,
	50000, 50100, 50101,
}

var gateRe = regexp.MustCompile(`\bVer\s*(?:>=|<=|==|!=|>|<)\s*([0-9]{4,6})\b`)

// gateScan finds comparison constants on Ver in the source files of the udp
// package actually compiled into this binary (empty when sources are not there).
func gateScan() []int32 {
	f := runtime.FuncForPC(reflect.ValueOf(udp.CreatePack).Pointer())
	if f == nil {
		return nil
	}
	file, _ := f.FileLine(f.Entry())
	files, _ := filepath.Glob(filepath.Join(filepath.Dir(file), "*.go"))
	seen := map[int32]bool{}
	for _, fn := range files {
		b, err := os.ReadFile(fn)
		if err != nil {
			continue
		}
		for _, m := range gateRe.FindAllSubmatch(b, -1) {
			if n, err := strconv.Atoi(string(m[1])); err == nil {
				seen[int32(n)] = true
			}
		}
	}
	var out []int32
	for g := range seen {
		out = append(out, g)
	}
	sort.Slice(out, func(i, j int) bool { return out[i] < out[j] })
	return out
}

// gateConstants: union of handGates and gateScan, sorted; gateVersions: every gate
// constant and its two neighbours, sorted; gateAdjacent: the same as a set.
var gateConstants, gateVersions, gateAdjacent = computeGates()

func computeGates() (consts, versions []int32, adjacent map[int32]bool) {
	adjacent = map[int32]bool{}
	seen := map[int32]bool{}
	for _, g := range append(append([]int32{}, handGates...), gateScan()...) {
		if g > 1 && !seen[g] {
			seen[g] = true
			consts = append(consts, g)
		}
	}
	sort.Slice(consts, func(i, j int) bool { return consts[i] < consts[j] })
	for _, g := range consts {
		for d := int32(-1); d <= 1; d++ {
			if !adjacent[g+d] {
				adjacent[g+d] = true
				versions = append(versions, g+d)
			}
		}
	}
	sort.Slice(versions, func(i, j int) bool { return versions[i] < versions[j] })
	return
}

// family labels a version for the class histogram (labels only; no oracle uses it
// except the masking check, which is about the families by definition).
func family(v int32) string {
	switch {
	case v > 50000:
		return "go"
	case v > 40000:
		return "batch"
	case v > 30000:
		return "dotnet"
	case v > 20000:
		return "python"
	}
	return "php"
}

// drawVersion: mostly a gate constant or a neighbour, otherwise a random
// version inside one of the five families of the statement.
func drawVersion(t *rapid.T) int32 {
	if rapid.IntRange(0, 99).Draw(t, "verkind") < 70 {
		return rapid.SampledFrom(gateVersions).Draw(t, "gatever")
	}
	switch rapid.IntRange(0, 4).Draw(t, "fam") {
	case 0:
		return int32(rapid.IntRange(10100, 10199).Draw(t, "ver"))
	case 1:
		return int32(rapid.IntRange(20101, 20199).Draw(t, "ver"))
	case 2:
		return int32(rapid.IntRange(30101, 30199).Draw(t, "ver"))
	case 3:
		return int32(rapid.IntRange(40001, 49999).Draw(t, "ver"))
	}
	return int32(rapid.IntRange(50100, 50199).Draw(t, "ver"))
}

func bytesEq(a, b []byte) bool { return bytes.Equal(a, b) }
