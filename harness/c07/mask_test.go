// C07 sub-check 3: post-processing an SQL / SQL-with-parameters / DB-connection
// pack of the families that send raw connection strings (Go 5xxxx, PHP 1xxxx)
// never leaves the value of a `password` key of the connection string in the pack.
//
// Connection strings are built from key=value tokens separated by spaces or
// semicolons; at least one token has the key `password` and a unique marker as
// (part of) its value. Oracle: after Process() the marker occurs in no string
// field of the pack. For the other families Process() leaves Dbc alone.
package c07

import (
	"fmt"
	"reflect"
	"strings"
	"testing"

	"github.com/whatap/golib/lang/pack/udp"
	"pgregory.net/rapid"
	"verif/pbt"
)

// Tok is one token of the connection string followed by its separator.
type Tok struct {
	K   string `json:"k,omitempty"`   // key ("" with V == "": empty token; "" with V != "": bare word V)
	V   string `json:"v,omitempty"`   // value
	Sep string `json:"sep,omitempty"` // separator written after the token: runs of ' ' and/or ';' ("" only after the last token)
}

// paramKVFinding is the id under which the lead files the ParamKV.ToPair offset
// defect (proposed_fixes/Fxx-c07-candidate-paramkv-topair-offset.*): Process()
// panics — and so leaves the password in the pack — when a token holds a letter
// whose lower-case form has a different byte length. While that finding is listed
// as open the generator keeps such letters out of the connection strings.
const paramKVFinding = "F40" // fixed in /repo; the exclusion is active only while F40 is listed open

// letters whose lower-case form is longer (U+0130, U+023A) or shorter (U+212A Kelvin sign)
const unstableChars = "İȺ\u212a"

type MaskCase struct {
	Pack    string   `json:"pack"`              // TxSql | TxSqlParam | TxDbc
	Ver     int32    `json:"ver"`               // protocol version
	Via     string   `json:"via"`               // "process": Process() on a filled pack; "topack": encode, then ToPack (Read + Process)
	Style   string   `json:"style"`             // space | semi | mixed (which separators occur; informational)
	Tokens  []Tok    `json:"tokens"`            // the connection string
	Markers []string `json:"markers"`           // the secret values that must disappear
	Pad     int      `json:"pad,omitempty"`     // bytes of filler in one extra "options=xxxx" token (long connection strings)
	PadAt   int      `json:"pad_at,omitempty"`  // token index before which the filler token is inserted
	SqlLen  int      `json:"sql_len,omitempty"` // length of the SQL text carried next to the connection string (0: a short statement)
	Many    int      `json:"many,omitempty"`    // that many short extra tokens "o<j>=<j>" (connection strings with many options)
	ManyAt  int      `json:"many_at,omitempty"` // token index before which they are inserted
}

func (c MaskCase) dbc() string {
	var sb strings.Builder
	sep := " "
	if c.Style == "semi" {
		sep = ";"
	}
	for i, t := range c.Tokens {
		if c.Pad > 0 && i == c.PadAt%len(c.Tokens) {
			sb.WriteString("options=")
			sb.WriteString(strings.Repeat("x", c.Pad))
			sb.WriteString(sep)
		}
		if c.Many > 0 && i == c.ManyAt%len(c.Tokens) {
			for j := 0; j < c.Many; j++ {
				fmt.Fprintf(&sb, "o%d=%d%s", j, j, sep)
			}
		}
		if t.K != "" {
			sb.WriteString(t.K)
			sb.WriteString("=")
		}
		sb.WriteString(t.V)
		sb.WriteString(t.Sep)
	}
	return sb.String()
}

var maskPacks = []string{"TxSql", "TxSqlParam", "TxDbc"}

// keys that are not the key `password` (near misses included: outside the statement, present as noise)
var otherKeys = []string{"user", "host", "port", "dbname", "sslmode", "server", "uid", "database", "charset", "timeout",
	"Password", "PASSWORD", "pwd", "passwd", "password2", "xpassword", "pass word", "a", "b", "한글", "é",
	// ADO / ODBC style keys made of two words
	"user id", "data source", "initial catalog", "integrated security", "connect timeout", "x id"}

// value characters: lower case, digits and punctuation incl. '=' and '#'; never an
// upper-case letter, so the marker ("MK" + digits) cannot occur by accident.
const valueChars = "abcxyz0189=#@:/._-,?&%+~'\"()[]{}|\\*$!가é€"

func drawValue(t *rapid.T, label string, extra string) string {
	alpha := []rune(valueChars + extra)
	n := rapid.IntRange(0, 10).Draw(t, label+".n")
	idx := rapid.SliceOfN(rapid.IntRange(0, len(alpha)-1), n, n).Draw(t, label)
	out := make([]rune, n)
	for i, j := range idx {
		out[i] = alpha[j]
	}
	return string(out)
}

func drawSep(t *rapid.T, style string) string {
	var pool []string
	switch style {
	case "space":
		pool = []string{" ", " ", " ", "  ", "   "}
	case "semi":
		pool = []string{";", ";", ";", ";;", ";;;"}
	default:
		pool = []string{" ", ";", " ", ";", "; ", " ;", " ; ", ";;", "  ", "; ;"}
	}
	return rapid.SampledFrom(pool).Draw(t, "sep")
}

func maskVersion(t *rapid.T) int32 {
	k := rapid.IntRange(0, 99).Draw(t, "verkind")
	switch {
	case k < 30: // Go
		return rapid.SampledFrom([]int32{50001, 50099, 50100, 50101, 50102, 50150, 50199}).Draw(t, "gover")
	case k < 40:
		return int32(rapid.IntRange(50001, 50199).Draw(t, "gover"))
	case k < 65: // PHP
		return int32(rapid.IntRange(10100, 10111).Draw(t, "phpver"))
	case k < 75:
		return int32(rapid.IntRange(10100, 10199).Draw(t, "phpver"))
	case k < 83:
		return int32(rapid.IntRange(20101, 20110).Draw(t, "pyver"))
	case k < 91:
		return int32(rapid.IntRange(30101, 30110).Draw(t, "netver"))
	}
	return int32(rapid.IntRange(40001, 49999).Draw(t, "batchver"))
}

func drawMask(t *rapid.T) MaskCase {
	c := MaskCase{
		Pack:  rapid.SampledFrom(maskPacks).Draw(t, "pack"),
		Ver:   maskVersion(t),
		Via:   rapid.SampledFrom([]string{"process", "topack"}).Draw(t, "via"),
		Style: rapid.SampledFrom([]string{"space", "semi", "mixed"}).Draw(t, "style"),
	}
	// a tenth of the strings also use letters whose lower-casing changes the byte length
	unstable := rapid.IntRange(0, 9).Draw(t, "unstable") == 0
	if unstable && pbt.KnownOpen(paramKVFinding) {
		unstable = false
		pbt.CountExcluded("masking", 1)
	}
	// the keys of one connection string come from a small pool, so keys repeat
	all := otherKeys
	if unstable {
		all = append(append([]string{}, otherKeys...), "İ", "Ⱥ", "\u212a", "İd", "uȺ", "İSTANBUL")
	}
	keys := rapid.SliceOfN(rapid.SampledFrom(all), 1, 4).Draw(t, "keypool")
	// inside a value the *other* separator may occur in the pure styles
	extra := ""
	switch c.Style {
	case "space":
		extra = ";;"
	case "semi":
		extra = "  "
	}
	if unstable {
		extra += unstableChars + unstableChars
	}
	n := rapid.IntRange(1, 9).Draw(t, "ntokens")
	nPw := rapid.IntRange(1, 2).Draw(t, "npasswords")
	if nPw > n {
		nPw = n
	}
	pwAt := map[int]bool{}
	for len(pwAt) < nPw {
		pwAt[rapid.IntRange(0, n-1).Draw(t, "pwpos")] = true
	}
	for i := 0; i < n; i++ {
		var tok Tok
		switch {
		case pwAt[i]:
			num := rapid.IntRange(100000, 999999).Draw(t, "marker")
			marker := fmt.Sprintf("MK%dZ", num)
			for contains(c.Markers, marker) { // fixed width: no marker is part of another
				num = 100000 + (num-99999)%900000
				marker = fmt.Sprintf("MK%dZ", num)
			}
			c.Markers = append(c.Markers, marker)
			tok.K = "password"
			pre, post := "", ""
			if rapid.IntRange(0, 3).Draw(t, "pre") == 0 {
				pre = drawValue(t, "pwpre", extra)
			}
			if rapid.IntRange(0, 3).Draw(t, "post") == 0 {
				post = drawValue(t, "pwpost", extra)
			}
			if c.Style == "semi" && rapid.IntRange(0, 2).Draw(t, "words") == 0 {
				// a pass phrase: the secret is one of several words
				pre += rapid.SampledFrom([]string{" ", "my ", "a b ", "  "}).Draw(t, "prewords")
				post = rapid.SampledFrom([]string{"", " x", " ", " tail"}).Draw(t, "postwords") + post
			}
			if c.Style == "space" && rapid.IntRange(0, 4).Draw(t, "semis") == 0 {
				pre += rapid.SampledFrom([]string{";", "a;", ";;"}).Draw(t, "presemi")
				post = rapid.SampledFrom([]string{"", ";x", ";"}).Draw(t, "postsemi") + post
			}
			tok.V = pre + marker + post
		default:
			switch k := rapid.IntRange(0, 9).Draw(t, "tokkind"); {
			case k == 0: // empty token
			case k == 1: // bare word
				tok.V = strings.ReplaceAll(drawValue(t, "word", ""), "=", "")
			default:
				tok.K = rapid.SampledFrom(keys).Draw(t, "key")
				tok.V = drawValue(t, "val", extra)
			}
		}
		if i < n-1 || rapid.IntRange(0, 4).Draw(t, "trailing") == 0 {
			tok.Sep = drawSep(t, c.Style)
		}
		c.Tokens = append(c.Tokens, tok)
	}
	// one case in six is a long connection string (lengths around 4096, 32768 and close to the 16-bit limit)
	if rapid.IntRange(0, 5).Draw(t, "long") == 0 {
		c.Pad = rapid.SampledFrom([]int{3900, 4000, 4050, 4090, 4096, 4200, 8192, 32700, 32768, 60000}).Draw(t, "pad")
		c.PadAt = rapid.IntRange(0, 8).Draw(t, "padat")
	}
	// one case in seven has many options (token counts around 16, 32, 64, 128, 256 and beyond)
	if rapid.IntRange(0, 6).Draw(t, "many") == 0 {
		c.Many = rapid.SampledFrom([]int{10, 15, 16, 24, 30, 31, 32, 33, 40, 63, 64, 65, 100, 127, 128, 129, 255, 256, 300, 1000}).Draw(t, "nmany")
		c.ManyAt = rapid.IntRange(0, 8).Draw(t, "manyat")
	}
	// the pack carries the string behind a 16-bit length: a long filler together with many options is
	// cut down (by construction, not by rejection) until the whole string fits
	for c.Pad > 0 && len(c.dbc()) > 65535 {
		c.Pad /= 2
	}
	if rapid.IntRange(0, 3).Draw(t, "longsql") == 0 {
		c.SqlLen = rapid.SampledFrom([]int{100, 4096, 32767, 32768, 40000, 65535}).Draw(t, "sqllen")
	}
	return c
}

func contains(l []string, s string) bool {
	for _, x := range l {
		if x == s {
			return true
		}
	}
	return false
}

func runMask(c MaskCase) *pbt.Result {
	d := descByName[c.Pack]
	if d == nil || len(d.rewritten) == 0 {
		return pbt.Fail("pack %q has no connection string", c.Pack)
	}
	dbc := c.dbc()
	if len(dbc) > 65535 {
		return pbt.Fail("case outside the domain: connection string of %d bytes", len(dbc))
	}
	for _, m := range c.Markers {
		if strings.Count(dbc, m) < 1 {
			return pbt.Fail("malformed case: marker %s not in the connection string", m)
		}
	}
	p := d.mk(c.Ver)
	flds := fieldsOf(p)
	var fDbc fld
	for _, f := range flds {
		if f.name == "Dbc" {
			fDbc = f
		}
	}
	fieldVal(p, fDbc).SetString(dbc)
	for _, f := range flds { // some ordinary content around it
		if f.name == "Sql" {
			sql := "select 1 from dual where a=?"
			if c.SqlLen > len(sql) {
				sql += " /* " + strings.Repeat("x", c.SqlLen-len(sql)-7) + " */"
			}
			fieldVal(p, f).SetString(sql)
		}
	}
	fam := family(c.Ver)
	masking := fam == "go" || fam == "php"
	panicNote := ""
	switch c.Via {
	case "process":
		if pn := catch(func() { p.Process() }); pn != nil {
			// the pack is judged as Process() left it
			panicNote = fmt.Sprintf(" [Process() panicked: %v]", pn)
		}
	case "topack":
		wire := encode(p)
		if pn := catch(func() { p = udp.ToPack(d.code, c.Ver, wire) }); pn != nil {
			return pbt.Fail("%s v%d (%s, via topack): ToPack panics in post-processing (%v), the connection string %q is never masked", c.Pack, c.Ver, fam, pn, dbc)
		}
	default:
		return pbt.Fail("unknown via %q", c.Via)
	}
	got := fieldVal(p, fDbc).String()
	if masking {
		for _, f := range flds {
			if f.typ.Kind() != reflect.String {
				continue
			}
			s := fieldVal(p, f).String()
			for _, m := range c.Markers {
				if strings.Contains(s, m) {
					return pbt.Fail("%s v%d (%s, via %s): the value %s of a password key is still in %s after Process(): %q (connection string was %q)%s",
						c.Pack, c.Ver, fam, c.Via, m, f.name, s, dbc, panicNote)
				}
			}
		}
	} else if got != dbc {
		return pbt.Fail("%s v%d (%s, via %s): Process() changed Dbc of a family that does not send raw connection strings: %q -> %q",
			c.Pack, c.Ver, fam, c.Via, dbc, got)
	}
	if panicNote != "" && !masking {
		return pbt.Fail("%s v%d (%s): unexpected%s", c.Pack, c.Ver, fam, panicNote)
	}
	// which separator precedes / follows the password tokens (class histogram)
	classes := []string{"pack:" + c.Pack, "family:" + fam, "style:" + c.Style, "via:" + c.Via}
	if !caseStable(dbc) {
		classes = append(classes, "case-unstable-letters")
	}
	for i, t := range c.Tokens {
		if t.K != "password" {
			continue
		}
		prev := "start"
		if i > 0 {
			prev = sepClass(c.Tokens[i-1].Sep)
		}
		next := "end"
		if t.Sep != "" {
			next = sepClass(t.Sep)
		}
		classes = append(classes, "password-after:"+prev, "password-before:"+next)
	}
	return &pbt.Result{NT: masking, Classes: classes, Key: []byte(fmt.Sprintf("%s/%d/%s/%s", c.Pack, c.Ver, c.Via, dbc))}
}

func sepClass(s string) string {
	sp, se := strings.Contains(s, " "), strings.Contains(s, ";")
	switch {
	case sp && se:
		return "both"
	case sp:
		return "space"
	case se:
		return "semicolon"
	}
	return "none"
}

var maskSpec = pbt.Register(pbt.Spec[MaskCase]{
	Prop: "C07", Name: "masking",
	Rule:  "connection strings of 1..8 tokens (key=value, bare words, empty tokens, repeated keys, near-miss keys) separated by runs of spaces and/or semicolons, values containing '=', '#' and (in the pure styles) the other separator, 1..2 tokens with key `password` whose value contains a unique marker; one string in six carries a filler token of 3900..60000 bytes, one in seven 10..1000 further short options (token counts around 16, 32, 64, 128, 256); pack Sql/SqlParam/Dbc (SQL text short, or in one case of four 100 .. 65535 bytes) x version of every family x Process() directly or through ToPack; Go/PHP: no string field contains a marker afterwards, other families: Dbc unchanged; non-trivial = Go or PHP version; distinct by (pack, version, path, connection string)",
	Quick: 8000, Thorough: 100000,
	Draw: drawMask, Run: runMask,
})

func TestMasking(t *testing.T) { maskSpec.Check(t) }

func TestMaskingBoundaries(t *testing.T) {
	pw := func(v, sep string) Tok { return Tok{K: "password", V: v, Sep: sep} }
	kv := func(k, v, sep string) Tok { return Tok{K: k, V: v, Sep: sep} }
	strs := [][]Tok{
		{pw("MK1", "")},
		{kv("user", "u", " "), pw("MK1", " "), kv("host", "h", "")},
		{kv("user", "u", ";"), pw("MK1", ";"), kv("host", "h", "")},
		{kv("user", "u", ";"), pw("MK1", "")},
		{kv("a", "1", " "), kv("b", "2", ";"), pw("MK1", " "), kv("c", "3", "")},
		{kv("a", "1", ";"), kv("b", "2", " "), pw("MK1", ";"), kv("c", "3", "")},
		{pw("MK1", " "), pw("MK2", ";"), pw("MK3", "")},
		{kv("a", "x", ";"), pw("x MK1 y", ";"), kv("a", "z", "")},
		{kv("a", "x", " "), pw("x;MK1;y", " "), kv("a", "z", "")},
		{kv("k", "v=w", ";"), {Sep: ";"}, {V: "word", Sep: "; "}, pw("MK1=#", " ; "), {Sep: ""}},
	}
	for _, toks := range strs {
		var markers []string
		for _, t := range toks {
			if t.K == "password" {
				for _, m := range []string{"MK1", "MK2", "MK3"} {
					if strings.Contains(t.V, m) {
						markers = append(markers, m)
					}
				}
			}
		}
		for _, pk := range maskPacks {
			for _, ver := range []int32{50100, 50101, 10100, 10110, 20104, 30103, 40001} {
				for _, via := range []string{"process", "topack"} {
					maskSpec.RunCase(t, MaskCase{Pack: pk, Ver: ver, Via: via, Style: "fixed", Tokens: toks, Markers: markers})
				}
			}
		}
	}
}
