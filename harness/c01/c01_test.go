// C01 Primitive stream codec is lossless, canonical and big-endian.
package c01

import (
	"bytes"
	"encoding/binary"
	"fmt"
	"math"
	"net"
	"testing"

	wio "github.com/whatap/golib/io"
	"pgregory.net/rapid"
	"verif/gen"
	"verif/pbt"
	"verif/ref"
)

func TestMain(m *testing.M) { pbt.Main(m, "C01") }

func TestReplay(t *testing.T) { pbt.Replay(t) }

// Op is one typed write (and its matching read).
type Op struct {
	K   string   `json:"k"`
	I   int64    `json:"i,omitempty"`   // integer argument / float bits / bool as 0,1
	S   string   `json:"s,omitempty"`   // hex of bytes / text
	Nil bool     `json:"nil,omitempty"` // pass a nil slice instead of an empty one
	A   []int64  `json:"a,omitempty"`   // array elements (integers or float bit patterns)
	T   []string `json:"t,omitempty"`   // text array (hex each)
	Off int      `json:"off,omitempty"` // Write(b, off, sz)
	Sz  int      `json:"sz,omitempty"`
}

type Program struct {
	Ops []Op `json:"ops"`
	// Seg > 0: the produced stream is additionally read from a connection that delivers it in segments of Seg bytes
	Seg int `json:"seg,omitempty"`
	// Snap > 0: ToByteArray() is also called after every Snap-th operation (a caller peeking at what it has so far): each
	// time it must be exactly the bytes produced so far, and what it returned must still read the same at the end
	Snap int `json:"snap,omitempty"`
}

var kinds = []string{"bool", "byte", "short", "ushort", "int3", "int", "long5", "long", "float", "double",
	"decimal", "blob", "text", "bytes", "write", "shortbytes", "intbytes", "textshort",
	"shortarr", "intarr", "longarr", "floatarr", "doublearr", "textarr",
	"shortlittle", "ushortlittle", "intlittle", "uintlittle", "uint", "unsignedshort", "decimallen"}

func drawArr(t *rapid.T, max int, elem *rapid.Generator[int64]) ([]int64, bool) {
	k := rapid.IntRange(0, 19).Draw(t, "arrkind")
	switch {
	case k == 0:
		return nil, true
	case k == 1:
		return []int64{}, false
	case k == 2 && max >= 300:
		sizes := []int{255, 256, 257, 300, max} // around 256 elements (2 KiB of doubles) and the tier's maximum
		if max >= 1000 {
			sizes = append(sizes, 1000, 4097)
		}
		n := rapid.SampledFrom(sizes).Draw(t, "bign")
		first := elem.Draw(t, "first")
		a := make([]int64, n)
		for i := range a {
			a[i] = first + int64(i)
		}
		return a, false
	}
	return rapid.SliceOfN(elem, 1, 12).Draw(t, "arr"), false
}

func drawOp(t *rapid.T) Op {
	k := rapid.SampledFrom(kinds).Draw(t, "kind")
	op := Op{K: k}
	maxArr := pbt.Pick(300, 32767)
	switch k {
	case "bool":
		op.I = int64(rapid.IntRange(0, 1).Draw(t, "b"))
	case "byte":
		op.I = int64(rapid.Byte().Draw(t, "b"))
	case "short":
		op.I = int64(gen.Int16().Draw(t, "v"))
	case "ushort", "unsignedshort", "ushortlittle":
		op.I = int64(uint16(gen.Int16().Draw(t, "v")))
	case "shortlittle":
		op.I = int64(gen.Int16().Draw(t, "v"))
	case "int3":
		op.I = int64(int32(uint32(gen.Int64().Draw(t, "v"))<<8) >> 8) // any 24-bit two's-complement value
	case "int", "intlittle":
		op.I = int64(gen.Int32().Draw(t, "v"))
	case "uint", "uintlittle":
		op.I = int64(uint32(gen.Int32().Draw(t, "v")))
	case "long5":
		op.I = int64(uint64(gen.Int64().Draw(t, "v"))<<24) >> 24 // any 40-bit two's-complement value
	case "long", "decimal":
		op.I = gen.Int64().Draw(t, "v")
	case "decimallen":
		op.I = gen.Int64().Draw(t, "v")
	case "float":
		op.I = int64(math.Float32bits(gen.Float32().Draw(t, "v")))
	case "double":
		op.I = int64(math.Float64bits(gen.Float64().Draw(t, "v")))
	case "blob", "intbytes":
		b := gen.Bytes(true).Draw(t, "b")
		op.S = gen.Hex(b)
		op.Nil = len(b) == 0 && rapid.Bool().Draw(t, "nil")
	case "shortbytes":
		b := gen.Bytes(true).Draw(t, "b")
		if len(b) > 65535 {
			b = b[:65535]
		}
		op.S = gen.Hex(b)
		op.Nil = len(b) == 0 && rapid.Bool().Draw(t, "nil")
	case "bytes":
		op.S = gen.Hex(gen.Bytes(false).Draw(t, "b"))
	case "write":
		b := gen.Bytes(false).Draw(t, "b")
		op.S = gen.Hex(b)
		op.Off = rapid.IntRange(0, len(b)).Draw(t, "off")
		op.Sz = rapid.IntRange(0, len(b)-op.Off).Draw(t, "sz")
	case "text":
		op.S = gen.Hex([]byte(gen.String(true).Draw(t, "s")))
	case "textshort":
		s := gen.String(true).Draw(t, "s")
		if len(s) > 65535 {
			s = s[:65535]
		}
		op.S = gen.Hex([]byte(s))
	case "shortarr":
		op.A, op.Nil = drawArr(t, maxArr, rapid.Custom(func(t *rapid.T) int64 { return int64(gen.Int16().Draw(t, "e")) }))
		for i := range op.A {
			op.A[i] = int64(int16(op.A[i]))
		}
	case "intarr":
		op.A, op.Nil = drawArr(t, maxArr, rapid.Custom(func(t *rapid.T) int64 { return int64(gen.Int32().Draw(t, "e")) }))
		for i := range op.A {
			op.A[i] = int64(int32(op.A[i]))
		}
	case "longarr":
		op.A, op.Nil = drawArr(t, maxArr, gen.Int64())
	case "floatarr":
		op.A, op.Nil = drawArr(t, maxArr, rapid.Custom(func(t *rapid.T) int64 { return int64(math.Float32bits(gen.Float32().Draw(t, "e"))) }))
		for i := range op.A {
			op.A[i] = int64(uint32(op.A[i]))
		}
	case "doublearr":
		op.A, op.Nil = drawArr(t, maxArr, rapid.Custom(func(t *rapid.T) int64 { return int64(math.Float64bits(gen.Float64().Draw(t, "e"))) }))
	case "textarr":
		k := rapid.IntRange(0, 9).Draw(t, "tk")
		switch k {
		case 0:
			op.Nil = true
		case 1:
			op.T = []string{}
		default:
			for _, s := range rapid.SliceOfN(gen.String(false), 1, 8).Draw(t, "ta") {
				op.T = append(op.T, gen.Hex([]byte(s)))
			}
		}
	}
	return op
}

// refWrite appends op's reference encoding.
func refWrite(w *ref.W, op Op) {
	b := gen.UnHex(op.S)
	switch op.K {
	case "bool":
		w.Bool(op.I != 0)
	case "byte":
		w.U8(byte(op.I))
	case "short":
		w.I16(int16(op.I))
	case "ushort", "unsignedshort":
		w.U16(uint16(op.I))
	case "shortlittle", "ushortlittle":
		w.B = binary.LittleEndian.AppendUint16(w.B, uint16(op.I))
	case "int3":
		w.I24(int32(op.I))
	case "int", "uint":
		w.I32(int32(op.I))
	case "intlittle", "uintlittle":
		w.B = binary.LittleEndian.AppendUint32(w.B, uint32(op.I))
	case "long5":
		w.I40(op.I)
	case "long":
		w.I64(op.I)
	case "float":
		w.F32(math.Float32frombits(uint32(op.I)))
	case "double":
		w.F64(math.Float64frombits(uint64(op.I)))
	case "decimal":
		w.Dec(op.I)
	case "decimallen":
		w.Dec(op.I)
	case "blob", "text":
		w.Blob(b)
	case "bytes":
		w.Raw(b)
	case "write":
		w.Raw(b[op.Off : op.Off+op.Sz])
	case "shortbytes", "textshort":
		w.ShortBytes(b)
	case "intbytes":
		w.IntBytes(b)
	case "shortarr":
		w.CountI16(len(op.A))
		for _, x := range op.A {
			w.I16(int16(x))
		}
	case "intarr":
		w.CountI16(len(op.A))
		for _, x := range op.A {
			w.I32(int32(x))
		}
	case "longarr":
		w.CountI16(len(op.A))
		for _, x := range op.A {
			w.I64(x)
		}
	case "floatarr":
		w.CountI16(len(op.A))
		for _, x := range op.A {
			w.B = binary.BigEndian.AppendUint32(w.B, uint32(x))
		}
	case "doublearr":
		w.CountI16(len(op.A))
		for _, x := range op.A {
			w.B = binary.BigEndian.AppendUint64(w.B, uint64(x))
		}
	case "textarr":
		w.CountI16(len(op.T))
		for _, x := range op.T {
			w.Blob(gen.UnHex(x))
		}
	default:
		panic("unknown op kind " + op.K)
	}
}

func sliceOrNil(b []byte, isNil bool) []byte {
	if isNil {
		return nil
	}
	if b == nil {
		return []byte{}
	}
	return b
}

// golibWrite performs op on the stream under test.
func golibWrite(o *wio.DataOutputX, op Op) {
	b := gen.UnHex(op.S)
	switch op.K {
	case "bool":
		o.WriteBool(op.I != 0)
	case "byte":
		o.WriteByte(byte(op.I))
	case "short":
		o.WriteShort(int16(op.I))
	case "ushort", "unsignedshort":
		o.WriteUShort(uint16(op.I))
	case "shortlittle", "ushortlittle":
		o.WriteBytes(binary.LittleEndian.AppendUint16(nil, uint16(op.I)))
	case "int3":
		o.WriteInt3(int32(op.I))
	case "int", "uint":
		o.WriteInt(int32(op.I))
	case "intlittle", "uintlittle":
		o.WriteBytes(binary.LittleEndian.AppendUint32(nil, uint32(op.I)))
	case "long5":
		o.WriteLong5(op.I)
	case "long":
		o.WriteLong(op.I)
	case "float":
		o.WriteFloat(math.Float32frombits(uint32(op.I)))
	case "double":
		o.WriteDouble(math.Float64frombits(uint64(op.I)))
	case "decimal", "decimallen":
		o.WriteDecimal(op.I)
	case "blob":
		o.WriteBlob(sliceOrNil(b, op.Nil))
	case "text":
		o.WriteText(string(b))
	case "bytes":
		o.WriteBytes(b)
	case "write":
		o.Write(b, op.Off, op.Sz)
	case "shortbytes":
		o.WriteShortBytes(sliceOrNil(b, op.Nil))
	case "intbytes":
		o.WriteIntBytes(sliceOrNil(b, op.Nil))
	case "textshort":
		o.WriteTextShortLength(string(b))
	case "shortarr":
		var a []int16
		if !op.Nil {
			a = make([]int16, len(op.A))
			for i, x := range op.A {
				a[i] = int16(x)
			}
		}
		o.WriteShortArray(a)
	case "intarr":
		var a []int32
		if !op.Nil {
			a = make([]int32, len(op.A))
			for i, x := range op.A {
				a[i] = int32(x)
			}
		}
		o.WriteIntArray(a)
	case "longarr":
		var a []int64
		if !op.Nil {
			a = make([]int64, len(op.A))
			copy(a, op.A)
		}
		o.WriteLongArray(a)
	case "floatarr":
		var a []float32
		if !op.Nil {
			a = make([]float32, len(op.A))
			for i, x := range op.A {
				a[i] = math.Float32frombits(uint32(x))
			}
		}
		o.WriteFloatArray(a)
	case "doublearr":
		var a []float64
		if !op.Nil {
			a = make([]float64, len(op.A))
			for i, x := range op.A {
				a[i] = math.Float64frombits(uint64(x))
			}
		}
		o.WriteDoubleArray(a)
	case "textarr":
		var a []string
		if !op.Nil {
			a = make([]string, len(op.T))
			for i, x := range op.T {
				a[i] = string(gen.UnHex(x))
			}
		}
		o.WriteTextArray(a)
	default:
		panic("unknown op kind " + op.K)
	}
}

// golibRead performs the matching read and compares with what was written.
// heldBytes: byte strings a reader returned, to be compared only after all later reads have been made.
type heldBytes struct {
	i         int
	kind      string
	got, want []byte
}

func golibRead(in *wio.DataInputX, op Op) error { return golibReadHold(in, op, nil, 0) }

func golibReadHold(in *wio.DataInputX, op Op, hold *[]heldBytes, opIndex int) error {
	b := gen.UnHex(op.S)
	eqI := func(got int64) error {
		if got != op.I {
			return fmt.Errorf("%s: wrote %d, read back %d", op.K, op.I, got)
		}
		return nil
	}
	eqB := func(got []byte, want []byte) error {
		if got == nil {
			return fmt.Errorf("%s: read returned nil", op.K)
		}
		if hold != nil {
			*hold = append(*hold, heldBytes{opIndex, op.K, got, want})
		}
		if !bytes.Equal(got, want) {
			return fmt.Errorf("%s: wrote %d bytes %.40x…, read back %d bytes %.40x…", op.K, len(want), want, len(got), got)
		}
		return nil
	}
	switch op.K {
	case "bool":
		v := in.ReadBool()
		if v != (op.I != 0) {
			return fmt.Errorf("bool: wrote %v read %v", op.I != 0, v)
		}
	case "byte":
		return eqI(int64(in.ReadByte()))
	case "short":
		return eqI(int64(in.ReadShort()))
	case "ushort":
		return eqI(int64(in.ReadUShort()))
	case "unsignedshort":
		return eqI(int64(in.ReadUnsignedShort()))
	case "shortlittle":
		return eqI(int64(in.ReadShortLittle()))
	case "ushortlittle":
		return eqI(int64(in.ReadUnsignedShortLittle()))
	case "int3":
		return eqI(int64(in.ReadInt3()))
	case "int":
		return eqI(int64(in.ReadInt()))
	case "uint":
		return eqI(int64(in.ReadUnsignedInt()))
	case "intlittle":
		return eqI(int64(in.ReadIntLittle()))
	case "uintlittle":
		return eqI(int64(in.ReadUintLittle()))
	case "long5":
		return eqI(in.ReadLong5())
	case "long":
		return eqI(in.ReadLong())
	case "float":
		return eqI(int64(math.Float32bits(in.ReadFloat())))
	case "double":
		return eqI(int64(math.Float64bits(in.ReadDouble())))
	case "decimal":
		return eqI(in.ReadDecimal())
	case "decimallen":
		n := int(in.ReadByte())
		return eqI(in.ReadDecimalLen(n))
	case "blob":
		return eqB(in.ReadBlob(), b)
	case "text":
		got := in.ReadText()
		if got != string(b) {
			return fmt.Errorf("text: wrote %q read %q", trunc(string(b)), trunc(got))
		}
	case "bytes":
		return eqB(in.ReadBytes(int32(len(b))), b)
	case "write":
		return eqB(in.ReadBytes(int32(op.Sz)), b[op.Off:op.Off+op.Sz])
	case "shortbytes":
		return eqB(in.ReadShortBytes(), b)
	case "intbytes":
		return eqB(in.ReadIntBytes(), b)
	case "textshort":
		got := in.ReadTextShortLength()
		if got != string(b) {
			return fmt.Errorf("textshort: wrote %q read %q", trunc(string(b)), trunc(got))
		}
	case "shortarr":
		got := in.ReadShortArray()
		if got == nil || len(got) != len(op.A) {
			return fmt.Errorf("shortarr: wrote %d elements, read %d (nil=%v)", len(op.A), len(got), got == nil)
		}
		for i, x := range op.A {
			if int64(got[i]) != x {
				return fmt.Errorf("shortarr[%d]: wrote %d read %d", i, x, got[i])
			}
		}
	case "intarr":
		got := in.ReadIntArray()
		if got == nil || len(got) != len(op.A) {
			return fmt.Errorf("intarr: wrote %d elements, read %d (nil=%v)", len(op.A), len(got), got == nil)
		}
		for i, x := range op.A {
			if int64(got[i]) != x {
				return fmt.Errorf("intarr[%d]: wrote %d read %d", i, x, got[i])
			}
		}
	case "longarr":
		got := in.ReadLongArray()
		if got == nil || len(got) != len(op.A) {
			return fmt.Errorf("longarr: wrote %d elements, read %d (nil=%v)", len(op.A), len(got), got == nil)
		}
		for i, x := range op.A {
			if got[i] != x {
				return fmt.Errorf("longarr[%d]: wrote %d read %d", i, x, got[i])
			}
		}
	case "floatarr":
		got := in.ReadFloatArray()
		if got == nil || len(got) != len(op.A) {
			return fmt.Errorf("floatarr: wrote %d elements, read %d (nil=%v)", len(op.A), len(got), got == nil)
		}
		for i, x := range op.A {
			if int64(math.Float32bits(got[i])) != x {
				return fmt.Errorf("floatarr[%d]: wrote bits %#x read %#x", i, x, math.Float32bits(got[i]))
			}
		}
	case "doublearr":
		got := in.ReadDoubleArray()
		if got == nil || len(got) != len(op.A) {
			return fmt.Errorf("doublearr: wrote %d elements, read %d (nil=%v)", len(op.A), len(got), got == nil)
		}
		for i, x := range op.A {
			if int64(math.Float64bits(got[i])) != x {
				return fmt.Errorf("doublearr[%d]: wrote bits %#x read %#x", i, x, math.Float64bits(got[i]))
			}
		}
	case "textarr":
		got := in.ReadTextArray()
		if got == nil || len(got) != len(op.T) {
			return fmt.Errorf("textarr: wrote %d elements, read %d (nil=%v)", len(op.T), len(got), got == nil)
		}
		for i, x := range op.T {
			if got[i] != string(gen.UnHex(x)) {
				return fmt.Errorf("textarr[%d]: wrote %q read %q", i, trunc(string(gen.UnHex(x))), trunc(got[i]))
			}
		}
	default:
		panic("unknown op kind " + op.K)
	}
	return nil
}

func trunc(s string) string {
	if len(s) > 60 {
		return s[:60] + "…"
	}
	return s
}

func runProgram(p Program) *pbt.Result {
	o := wio.NewDataOutputX()
	w := ref.NewW()
	ends := make([]int, len(p.Ops))
	kindSet := map[string]bool{}
	var snaps [][]byte
	var snapEnds []int
	for i, op := range p.Ops {
		golibWrite(o, op)
		refWrite(w, op)
		ends[i] = w.Len()
		kindSet[op.K] = true
		if o.Size() != w.Len() {
			return pbt.Fail("after op %d (%s): Size()=%d but %d bytes were produced by the reference", i, op.K, o.Size(), w.Len())
		}
		if p.Snap > 0 && i%p.Snap == 0 {
			snap := o.ToByteArray()
			if !bytes.Equal(snap, w.B[:w.Len()]) {
				return pbt.Fail("ToByteArray() called after op %d (%s) returns %d bytes; %d bytes have been written so far (Size()=%d), the reference has %x…", i, op.K, len(snap), w.Len(), o.Size(), w.B[:min(w.Len(), 24)])
			}
			snaps = append(snaps, snap)
			snapEnds = append(snapEnds, w.Len())
		}
	}
	for k, snap := range snaps {
		if !bytes.Equal(snap, w.B[:snapEnds[k]]) {
			return pbt.Fail("the bytes ToByteArray() returned after %d bytes had been written changed when more was written", snapEnds[k])
		}
	}
	got := o.ToByteArray()
	if !bytes.Equal(got, w.B) {
		k := 0
		for k < len(got) && k < len(w.B) && got[k] == w.B[k] {
			k++
		}
		opi := 0
		for opi < len(ends) && ends[opi] <= k {
			opi++
		}
		kind := "?"
		if opi < len(p.Ops) {
			kind = p.Ops[opi].K
		}
		return pbt.Fail("bytes differ from the reference encoder at offset %d (op %d, %s): golib %d bytes, reference %d bytes", k, opi, kind, len(got), len(w.B))
	}
	if o.Size() != len(got) {
		return pbt.Fail("Size()=%d but ToByteArray() has %d bytes", o.Size(), len(got))
	}
	in := wio.NewDataInputX(append([]byte(nil), got...))
	// byte strings read from the in-memory stream are kept as well and looked at again after the last read (seed C01-s24)
	var heldMem []heldBytes
	for i, op := range p.Ops {
		if err := golibReadHold(in, op, &heldMem, i); err != nil {
			return &pbt.Result{Err: fmt.Errorf("op %d: %v", i, err)}
		}
		if want := int32(len(got) - ends[i]); in.Available() != want {
			return pbt.Fail("after reading op %d (%s): Available()=%d, expected %d (the field occupies bytes [%d,%d))", i, op.K, in.Available(), want, ends[i]-(ends[i]-prevEnd(ends, i)), ends[i])
		}
	}
	if in.Available() != 0 {
		return pbt.Fail("Available()=%d after the last read", in.Available())
	}
	for _, h := range heldMem {
		if !bytes.Equal(h.got, h.want) {
			return pbt.Fail("the %d bytes returned for op %d (%s) no longer equal what was written once the rest of the stream had been read (%.24x… vs %.24x…)", len(h.want), h.i, h.kind, h.got, h.want)
		}
	}
	// the same stream received from a connection, in segments; byte strings are kept until everything has been read
	// (a receiver decodes a whole message before it looks at the parts)
	if p.Seg > 0 && len(got) > 0 {
		server, client := net.Pipe()
		stream := append([]byte(nil), got...)
		go func() {
			defer server.Close()
			for off := 0; off < len(stream); {
				n := p.Seg
				if off+n > len(stream) {
					n = len(stream) - off
				}
				if _, err := server.Write(stream[off : off+n]); err != nil {
					return
				}
				off += n
			}
		}()
		nin := wio.NewDataInputNet(client)
		var held []heldBytes
		var rerr error
		for i, op := range p.Ops {
			if rerr = golibReadHold(nin, op, &held, i); rerr != nil {
				rerr = fmt.Errorf("reading from a connection (segments of %d bytes), op %d: %v", p.Seg, i, rerr)
				break
			}
		}
		client.Close()
		if rerr != nil {
			return &pbt.Result{Err: rerr}
		}
		for _, h := range held {
			if !bytes.Equal(h.got, h.want) {
				return pbt.Fail("reading from a connection (segments of %d bytes): the %d bytes returned for op %d (%s) no longer equal what was written once the rest of the stream had been read (%.24x… vs %.24x…)", p.Seg, len(h.want), h.i, h.kind, h.got, h.want)
			}
		}
	}
	classes := []string{fmt.Sprintf("ops=%d", bucket(len(p.Ops)))}
	if p.Seg > 0 {
		classes = append(classes, "also-read-from-a-connection")
	}
	for k := range kindSet {
		classes = append(classes, "kind="+k)
	}
	return &pbt.Result{NT: len(kindSet) >= 2, Classes: classes, Key: got}
}

func prevEnd(ends []int, i int) int {
	if i == 0 {
		return 0
	}
	return ends[i-1]
}

func bucket(n int) int {
	switch {
	case n <= 1:
		return n
	case n <= 5:
		return 5
	case n <= 20:
		return 20
	}
	return 40
}

var specPrograms = pbt.Register(pbt.Spec[Program]{
	Prop: "C01", Name: "programs", Parallel: 8,
	Rule:  "rapid-generated lists of 1-40 typed write operations over all Write* methods (boundary-biased arguments, nil/empty slices, threshold lengths); one program in three is also read back from a connection (net.Pipe) delivering the stream in segments of 1 .. 65536 bytes, with the byte strings compared only after the whole stream has been read; in one program in four ToByteArray() is also called after every 1st-3rd operation and must return exactly what has been written so far (and keep reading the same); non-trivial = program with >= 2 different operation kinds; distinct by produced bytes",
	Quick: 3000, Thorough: 200000,
	Draw: func(t *rapid.T) Program {
		p := Program{Ops: rapid.SliceOfN(rapid.Custom(drawOp), 1, 40).Draw(t, "ops")}
		if rapid.IntRange(0, 2).Draw(t, "overconn") == 0 {
			p.Seg = rapid.SampledFrom([]int{1, 7, 512, 1460, 4096, 8192, 65536}).Draw(t, "seg")
		}
		if rapid.IntRange(0, 3).Draw(t, "snap?") == 0 {
			p.Snap = rapid.IntRange(1, 3).Draw(t, "snap")
		}
		return p
	},
	Run: runProgram,
})

func TestPrograms(t *testing.T) { specPrograms.Check(t) }

// Boundary catalogue: one op per case at every interesting limit.
func TestBoundaries(t *testing.T) {
	mk := func(n int) string {
		b := make([]byte, n)
		for i := range b {
			b[i] = byte(i*31 + 7)
		}
		return gen.Hex(b)
	}
	for _, v := range gen.Int64Boundaries {
		specPrograms.RunCase(t, Program{Ops: []Op{{K: "decimal", I: v}, {K: "byte", I: 0x5a}}})
		specPrograms.RunCase(t, Program{Ops: []Op{{K: "decimallen", I: v}, {K: "long", I: v}}})
	}
	for _, n := range []int{0, 1, 252, 253, 254, 255, 256, 257, 32767, 32768, 65534, 65535, 65536, 65537, 70000} {
		for _, k := range []string{"blob", "text", "intbytes"} {
			specPrograms.RunCase(t, Program{Ops: []Op{{K: k, S: mk(n)}, {K: "short", I: -2}}})
		}
		if n <= 65535 {
			for _, k := range []string{"shortbytes", "textshort"} {
				specPrograms.RunCase(t, Program{Ops: []Op{{K: k, S: mk(n)}, {K: "short", I: -2}}})
			}
		}
	}
	for _, n := range []int{0, 1, 255, 256, 32767} {
		a := make([]int64, n)
		for i := range a {
			a[i] = int64(int16(i*257 - 5))
		}
		specPrograms.RunCase(t, Program{Ops: []Op{{K: "shortarr", A: a}, {K: "longarr", A: a}, {K: "byte", I: 1}}})
	}
}

// ---- exhaustive sweeps over the fixed-width helpers ------------------------------

func check16(i uint64) (bool, error) {
	u := uint16(i)
	s := int16(u)
	be := []byte{byte(u >> 8), byte(u)}
	if b := wio.ToBytesShort(s); !bytes.Equal(b, be) {
		return true, fmt.Errorf("ToBytesShort(%d) = %x, want %x", s, b, be)
	}
	if b := wio.ToBytesUShort(u); !bytes.Equal(b, be) {
		return true, fmt.Errorf("ToBytesUShort(%d) = %x, want %x", u, b, be)
	}
	if b := wio.SetBytesShort([]byte{9, 0, 0, 9}, 1, s); !bytes.Equal(b, []byte{9, be[0], be[1], 9}) {
		return true, fmt.Errorf("SetBytesShort(%d) = %x", s, b)
	}
	if v := wio.ToShort(be, 0); v != s {
		return true, fmt.Errorf("ToShort(%x) = %d, want %d", be, v, s)
	}
	if v := wio.ToUShort(be, 0); v != u {
		return true, fmt.Errorf("ToUShort(%x) = %d, want %d", be, v, u)
	}
	if v := wio.ToUshort(be, 0); v != u {
		return true, fmt.Errorf("ToUshort(%x) = %d, want %d", be, v, u)
	}
	if v := wio.ToShortLittle(be, 0); v != int16(binary.LittleEndian.Uint16(be)) {
		return true, fmt.Errorf("ToShortLittle(%x) = %d, want %d", be, v, int16(binary.LittleEndian.Uint16(be)))
	}
	if v := wio.ToUshortLittle(be, 0); v != binary.LittleEndian.Uint16(be) {
		return true, fmt.Errorf("ToUshortLittle(%x) = %#x, want little-endian %#x", be, v, binary.LittleEndian.Uint16(be))
	}
	in := wio.NewDataInputX([]byte{be[0], be[1], be[0], be[1], be[0], be[1], be[0], be[1], be[0], be[1]})
	if v := in.ReadShort(); v != s {
		return true, fmt.Errorf("ReadShort %x = %d", be, v)
	}
	if v := in.ReadUShort(); v != u {
		return true, fmt.Errorf("ReadUShort %x = %d", be, v)
	}
	if v := in.ReadUnsignedShort(); v != u {
		return true, fmt.Errorf("ReadUnsignedShort %x = %d", be, v)
	}
	if v := in.ReadShortLittle(); v != int16(binary.LittleEndian.Uint16(be)) {
		return true, fmt.Errorf("ReadShortLittle %x = %d", be, v)
	}
	if v := in.ReadUnsignedShortLittle(); v != binary.LittleEndian.Uint16(be) {
		return true, fmt.Errorf("ReadUnsignedShortLittle %x = %#x, want little-endian %#x", be, v, binary.LittleEndian.Uint16(be))
	}
	return true, nil
}

var sweep16 = pbt.RegisterSweep(pbt.Sweep{Prop: "C01", Name: "sweep16",
	Rule: "every 16-bit pattern through ToBytesShort/UShort, SetBytesShort, ToShort/ToUShort/ToUshort, the little-endian helpers and the five 16-bit stream reads; every pattern is a distinct non-trivial case",
	N:    1 << 16, Run: check16, Show: func(i uint64) interface{} { return fmt.Sprintf("pattern %#04x", i) }})

func TestSweep16(t *testing.T) { sweep16.Check(t, 1) }

// minimalDecimal checks, without the reference, that enc is the shortest class for v.
func minimalDecimal(v int64, enc []byte) error {
	c := int(enc[0])
	widths := []int{0, 1, 2, 3, 4, 5, 8}
	okc := false
	for _, w := range widths {
		if w == c {
			okc = true
		}
	}
	if !okc {
		return fmt.Errorf("decimal %d: class byte %d is not one of 0/1/2/3/4/5/8", v, c)
	}
	if len(enc) != 1+c {
		return fmt.Errorf("decimal %d: class %d but %d payload bytes", v, c, len(enc)-1)
	}
	for _, w := range widths {
		if w >= c {
			break
		}
		// would the shorter form hold v? (sign-extended truncation equals v)
		var tv int64
		if w > 0 {
			sh := uint(64 - 8*w)
			tv = (v << sh) >> sh
		}
		if tv == v {
			return fmt.Errorf("decimal %d encoded in %d bytes although the %d-byte form holds it", v, c, w)
		}
	}
	return nil
}

func check24(i uint64) (bool, error) {
	u := uint32(i)
	v := int32(u<<8) >> 8 // sign-extend 24 bits
	be := []byte{byte(u >> 16), byte(u >> 8), byte(u)}
	if b := wio.ToBytesInt3(v); !bytes.Equal(b, be) {
		return true, fmt.Errorf("ToBytesInt3(%d) = %x, want %x", v, b, be)
	}
	if b := wio.SetBytesInt3([]byte{7, 0, 0, 0}, 1, v); !bytes.Equal(b[1:], be) || b[0] != 7 {
		return true, fmt.Errorf("SetBytesInt3(%d) = %x", v, b)
	}
	if g := wio.ToInt3(be, 0); g != v {
		return true, fmt.Errorf("ToInt3(%x) = %d, want %d", be, g, v)
	}
	o := wio.NewDataOutputX()
	o.WriteDecimal(int64(v))
	enc := o.ToByteArray()
	if err := minimalDecimal(int64(v), enc); err != nil {
		return true, err
	}
	w := ref.NewW()
	w.Dec(int64(v))
	if !bytes.Equal(enc, w.B) {
		return true, fmt.Errorf("WriteDecimal(%d) = %x, reference %x", v, enc, w.B)
	}
	if g := wio.NewDataInputX(enc).ReadDecimal(); g != int64(v) {
		return true, fmt.Errorf("ReadDecimal(%x) = %d, want %d", enc, g, v)
	}
	return true, nil
}

var sweep24 = pbt.RegisterSweep(pbt.Sweep{Prop: "C01", Name: "sweep24",
	Rule: "every 24-bit pattern: Int3 packing and sign extension, and the decimal encoding of the value (minimal class checked without the reference, bytes against the reference, read-back)",
	N:    1 << 24, Run: check24, Show: func(i uint64) interface{} { return fmt.Sprintf("pattern %#06x", i) }})

func TestSweep24(t *testing.T) { sweep24.Check(t, 8) }

func check32(i uint64) (bool, error) {
	u := uint32(i)
	v := int32(u)
	be := [4]byte{byte(u >> 24), byte(u >> 16), byte(u >> 8), byte(u)}
	b := wio.ToBytesInt(v)
	if [4]byte(b) != be {
		return true, fmt.Errorf("ToBytesInt(%d) = %x, want %x", v, b, be)
	}
	if g := wio.ToInt(be[:], 0); g != v {
		return true, fmt.Errorf("ToInt(%x) = %d", be, g)
	}
	if g := wio.ToUint(be[:], 0); g != u {
		return true, fmt.Errorf("ToUint(%x) = %d", be, g)
	}
	le := binary.LittleEndian.Uint32(be[:])
	if g := wio.ToIntLittle(be[:], 0); g != int32(le) {
		return true, fmt.Errorf("ToIntLittle(%x) = %d, want %d", be, g, int32(le))
	}
	if g := wio.ToUintLittle(be[:], 0); g != le {
		return true, fmt.Errorf("ToUintLittle(%x) = %d, want %d", be, g, le)
	}
	f := math.Float32frombits(u)
	fb := wio.ToBytesFloat(f)
	if [4]byte(fb) != be {
		return true, fmt.Errorf("ToBytesFloat(bits %#x) = %x", u, fb)
	}
	if g := math.Float32bits(wio.ToFloat(be[:], 0)); g != u {
		return true, fmt.Errorf("ToFloat(%x) has bits %#x", be, g)
	}
	return true, nil
}

var sweep32 = pbt.RegisterSweep(pbt.Sweep{Prop: "C01", Name: "sweep32",
	Rule: "every 32-bit pattern through ToBytesInt/ToInt/ToUint/ToIntLittle/ToUintLittle/ToBytesFloat/ToFloat (thorough tier: all 2^32; quick tier: the 2^22 patterns with a stride that hits every byte value in every position)",
	N:    1 << 32, Run: check32, Show: func(i uint64) interface{} { return fmt.Sprintf("pattern %#08x", i) }})

// quick-tier stand-in: 2^22 patterns spread over the space by an odd multiplier.
var sweep32q = pbt.RegisterSweep(pbt.Sweep{Prop: "C01", Name: "sweep32-strided",
	Rule: "2^22 32-bit patterns i*0x9E3779B1 mod 2^32 (odd multiplier: a bijection, so all are distinct) through the same seven helpers",
	N:    1 << 22, Run: func(i uint64) (bool, error) { return check32(uint64(uint32(i) * 0x9E3779B1)) },
	Show: func(i uint64) interface{} { return fmt.Sprintf("pattern %#08x", uint32(i)*0x9E3779B1) }})

func TestSweep32(t *testing.T) {
	if pbt.Thorough() {
		sweep32.Check(t, 2)
	} else {
		sweep32q.Check(t, 4)
	}
}

// Long5 / Long / Double: all 2^16 combinations of top and bottom byte, middle bytes from a mixing function.
func check40(i uint64) (bool, error) {
	top, bot := byte(i>>8), byte(i)
	mid := uint32((i * 0x9E3779B97F4A7C15) >> 40)
	u := uint64(top)<<32 | uint64(mid&0xffffff)<<8 | uint64(bot)
	v := int64(u<<24) >> 24
	be := []byte{byte(u >> 32), byte(u >> 24), byte(u >> 16), byte(u >> 8), byte(u)}
	if b := wio.ToBytesLong5(v); !bytes.Equal(b, be) {
		return true, fmt.Errorf("ToBytesLong5(%d) = %x, want %x", v, b, be)
	}
	if b := wio.SetBytesLong5(make([]byte, 6), 1, v); !bytes.Equal(b[1:], be) {
		return true, fmt.Errorf("SetBytesLong5(%d) = %x", v, b)
	}
	if g := wio.ToLong5(be, 0); g != v {
		return true, fmt.Errorf("ToLong5(%x) = %d, want %d (sign extension)", be, g, v)
	}
	// 64-bit: same top/bottom bytes
	u64 := uint64(top)<<56 | (i*0xD6E8FEB86659FD93)&0x00ffffffffffff00 | uint64(bot)
	be8 := binary.BigEndian.AppendUint64(nil, u64)
	if b := wio.ToBytesLong(int64(u64)); !bytes.Equal(b, be8) {
		return true, fmt.Errorf("ToBytesLong(%d) = %x", int64(u64), b)
	}
	if g := wio.ToLong(be8, 0); g != int64(u64) {
		return true, fmt.Errorf("ToLong(%x) = %d", be8, g)
	}
	if g := wio.ToLongLittle(be8, 0); g != int64(binary.LittleEndian.Uint64(be8)) {
		return true, fmt.Errorf("ToLongLittle(%x) = %d", be8, g)
	}
	if g := wio.ToUlongLittle(be8, 0); g != binary.LittleEndian.Uint64(be8) {
		return true, fmt.Errorf("ToUlongLittle(%x) = %d", be8, g)
	}
	if b := wio.ToBytesDouble(math.Float64frombits(u64)); !bytes.Equal(b, be8) {
		return true, fmt.Errorf("ToBytesDouble(bits %#x) = %x", u64, b)
	}
	if g := math.Float64bits(wio.ToDouble(be8, 0)); g != u64 {
		return true, fmt.Errorf("ToDouble(%x) has bits %#x", be8, g)
	}
	// decimal of both
	for _, dv := range []int64{v, int64(u64)} {
		o := wio.NewDataOutputX()
		o.WriteDecimal(dv)
		enc := o.ToByteArray()
		if err := minimalDecimal(dv, enc); err != nil {
			return true, err
		}
		if g := wio.NewDataInputX(enc).ReadDecimal(); g != dv {
			return true, fmt.Errorf("ReadDecimal(%x) = %d, want %d", enc, g, dv)
		}
	}
	return true, nil
}

var sweep40 = pbt.RegisterSweep(pbt.Sweep{Prop: "C01", Name: "sweep40-64",
	Rule: "all 2^16 combinations of most- and least-significant byte (middle bytes mixed) for the 40-bit and 64-bit integer, double and decimal helpers, incl. little-endian 64-bit helpers",
	N:    1 << 16, Run: check40, Show: func(i uint64) interface{} { return fmt.Sprintf("top=%#02x bottom=%#02x", byte(i>>8), byte(i)) }})

func TestSweep40(t *testing.T) { sweep40.Check(t, 1) }

// ---- results of the byte helpers are the caller's own ------------------------------------------------

type HeldCase struct {
	A int64 `json:"a"`
	B int64 `json:"b"`
}

// heldHelpers: every package-level helper that returns a freshly encoded byte slice.
var heldHelpers = map[string]func(v int64) []byte{
	"ToBytesShort":  func(v int64) []byte { return wio.ToBytesShort(int16(v)) },
	"ToBytesUShort": func(v int64) []byte { return wio.ToBytesUShort(uint16(v)) },
	"ToBytesInt3":   func(v int64) []byte { return wio.ToBytesInt3(int32(v)) },
	"ToBytesInt":    func(v int64) []byte { return wio.ToBytesInt(int32(v)) },
	"ToBytesLong5":  func(v int64) []byte { return wio.ToBytesLong5(v) },
	"ToBytesLong":   func(v int64) []byte { return wio.ToBytesLong(v) },
	"ToBytesFloat":  func(v int64) []byte { return wio.ToBytesFloat(math.Float32frombits(uint32(v))) },
	"ToBytesDouble": func(v int64) []byte { return wio.ToBytesDouble(math.Float64frombits(uint64(v))) },
}

var specHeld = pbt.Register(pbt.Spec[HeldCase]{
	Prop: "C01", Name: "helper-results-are-independent", Parallel: 8,
	Rule:  "for each of the 8 helpers that return an encoded byte slice: the result for a is kept, the helper is called for b, the kept result is unchanged; overwriting the second result does not change the first; the stream an encoder wrote keeps its bytes while another encoder writes; non-trivial = a != b; distinct by (a, b)",
	Quick: 4000, Thorough: 400000,
	Draw: func(t *rapid.T) HeldCase {
		return HeldCase{A: gen.Int64().Draw(t, "a"), B: gen.Int64().Draw(t, "b")}
	},
	Run: func(c HeldCase) *pbt.Result {
		for name, f := range heldHelpers {
			r1 := f(c.A)
			keep := append([]byte(nil), r1...)
			r2 := f(c.B)
			if !bytes.Equal(r1, keep) {
				return pbt.Fail("%s(%d) returned %x; after %s(%d) was called the same slice holds %x", name, c.A, keep, name, c.B, r1)
			}
			for i := range r2 {
				r2[i] ^= 0xff
			}
			if !bytes.Equal(r1, keep) {
				return pbt.Fail("%s: writing into the result for %d changed the result for %d (the two calls returned the same memory)", name, c.B, c.A)
			}
		}
		// two encoders alive together
		o1, o2 := wio.NewDataOutputX(), wio.NewDataOutputX()
		o1.WriteLong(c.A)
		o1.WriteDecimal(c.A)
		first := append([]byte(nil), o1.ToByteArray()...)
		held := o1.ToByteArray()
		o2.WriteLong(c.B)
		o2.WriteDecimal(c.B)
		o2.WriteText("another encoder at work")
		if !bytes.Equal(held, first) || !bytes.Equal(o1.ToByteArray(), first) {
			return pbt.Fail("the bytes of an encoder that wrote %d changed while another encoder wrote %d", c.A, c.B)
		}
		return &pbt.Result{NT: c.A != c.B, Key: []byte(fmt.Sprintf("%d/%d", c.A, c.B))}
	},
})

func TestHelperResultsIndependent(t *testing.T) { specHeld.Check(t) }
