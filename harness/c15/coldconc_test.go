package c15

// concurrent-cold-start: the hash and identifier helpers are pure functions for every caller, also when the first
// calls of a process come from several goroutines at once (an agent starts its collectors together). The test binary
// re-executes itself; each fresh process releases GOMAXPROCS goroutines from a spin barrier into their first calls and
// compares every result with the value the same call gives later in the same process.

import (
	"bytes"
	"fmt"
	"os"
	"os/exec"
	"runtime"
	"sync"
	"sync/atomic"
	"testing"

	"github.com/whatap/golib/util/hash"
	"github.com/whatap/golib/util/hexa32"
	"github.com/whatap/golib/util/hll"
	"github.com/whatap/golib/util/iputil"
	"verif/pbt"
)

const coldHelperEnv = "VERIF_C15_COLD_HELPER"

// coldCalls: every call returns a printable result; inputs exercise all table indices / digit positions.
var coldInputs = func() [][]byte {
	all := make([]byte, 256)
	for i := range all {
		all[i] = byte(255 - i)
	}
	return [][]byte{all, {0xff, 0xfe, 0xfd, 0xfc, 0xfb, 0xfa, 0xf9, 0xf8, 0xf7}, []byte("hello world"), {0x80, 0x81, 0xc0, 0xe0, 0xf0}}
}()

var coldCalls = []func() string{
	func() string { return fmt.Sprint(hash.Hash64(coldInputs[0]), hash.Hash64(coldInputs[1]), hash.Hash64(coldInputs[2])) },
	func() string { return fmt.Sprint(hash.Hash64Str(string(coldInputs[0])), hash.Hash64Str("hello world")) },
	func() string { return fmt.Sprint(hash.Hash(coldInputs[0]), hash.Hash(coldInputs[1]), hash.HashStr("hello world")) },
	func() string { return fmt.Sprint(hash.Hash64V2(coldInputs[0]), hash.Hash64V2(coldInputs[3]), hash.Hash64StrV2("hello world")) },
	func() string { return fmt.Sprint(hash.GetLongHash(string(coldInputs[1])), hash.HashAddr(coldInputs[0][:16])) },
	func() string {
		return fmt.Sprint(hll.MurmurHash(0xfffffff0), hll.MurmurHashLong(0xfedcba9876543210), hll.MurmurHashByte(coldInputs[0]), hll.MurmurHashLongByte(coldInputs[0], 256))
	},
	func() string {
		return fmt.Sprint(hexa32.ToString32(-1), hexa32.ToString32(1<<60+12345), hexa32.ToLong32(hexa32.ToString32(-9223372036854775808)), hexa32.ToLong32("xvvvvvvvvvvvv"))
	},
	func() string {
		return fmt.Sprint(iputil.ToStringInt(-256), iputil.ToStringFrInt(0x7f000001), iputil.ToString([]byte{255, 255, 255, 255}), iputil.ToBytes("10.20.30.40"), iputil.ToInt([]byte{1, 2, 3, 4}))
	},
}

// coldHelperMain runs in the re-executed process, instead of the tests. Exit 0: all first-call results equal the later
// ones; exit 3 with a COLD-MISMATCH line otherwise.
func coldHelperMain() {
	g := runtime.GOMAXPROCS(0)
	if g < 4 {
		g = 4
	}
	first := make([][]string, g)
	var ready, gate atomic.Int32
	var wg sync.WaitGroup
	for i := 0; i < g; i++ {
		wg.Add(1)
		go func(i int) {
			defer wg.Done()
			out := make([]string, len(coldCalls))
			ready.Add(1)
			for gate.Load() == 0 {
			}
			// every goroutine starts with another call, so that each function's first call has company
			for k := range coldCalls {
				j := (k + i) % len(coldCalls)
				func() {
					defer func() {
						if r := recover(); r != nil {
							out[j] = fmt.Sprint("panic: ", r)
						}
					}()
					out[j] = coldCalls[j]()
				}()
			}
			first[i] = out
		}(i)
	}
	for int(ready.Load()) < g {
		runtime.Gosched()
	}
	gate.Store(1)
	wg.Wait()
	for j, f := range coldCalls {
		later := f()
		for i := range first {
			if first[i][j] != later {
				fmt.Printf("COLD-MISMATCH call group %d: goroutine %d of %d got %s on its first call, the same call later in the process gives %s\n", j, i, g, first[i][j], later)
				os.Exit(3)
			}
		}
	}
	os.Exit(0)
}

// oneFreshProcess runs the helper once; it returns the mismatch line, if any.
func oneFreshProcess() (string, error) {
	exe, err := os.Executable()
	if err != nil {
		return "", err
	}
	cmd := exec.Command(exe, "-test.run=^$")
	cmd.Env = append(os.Environ(), coldHelperEnv+"=1")
	var out bytes.Buffer
	cmd.Stdout, cmd.Stderr = &out, &out
	err = cmd.Run()
	if ee, ok := err.(*exec.ExitError); ok && ee.ExitCode() == 3 {
		line := out.String()
		if k := bytes.IndexByte(out.Bytes(), '\n'); k > 0 {
			line = line[:k]
		}
		return line, nil
	}
	return "", nil
}

var sweepColdConc = pbt.RegisterSweep(pbt.Sweep{Prop: "C15", Name: "concurrent-cold-start",
	Rule: "the test binary re-executes itself 12 (quick) / 120 (thorough) times per shard; each fresh process releases max(4, GOMAXPROCS) goroutines from a spin barrier into their first calls of 8 groups of hash / murmur / base-32 / IP helpers (inputs covering all 256 table indices), each goroutine starting with another group; every result must equal what the same call returns later in that process (a pure function has one value per input, for every caller and from the first call on); every fresh process is a distinct non-trivial case",
	N:    uint64(pbt.Pick(12, 120)),
	Run: func(i uint64) (bool, error) {
		line, err := oneFreshProcess()
		if err != nil {
			return false, nil
		}
		if line != "" {
			return true, fmt.Errorf("fresh process %d: %s", i, line)
		}
		return true, nil
	},
	Show: func(i uint64) interface{} { return fmt.Sprintf("fresh process %d with concurrent first calls", i) }})

func TestConcurrentColdStart(t *testing.T) { sweepColdConc.Check(t, 2) }
