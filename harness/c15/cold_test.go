package c15

// cold-start: pure functions give the right answer on their FIRST call in a process, whatever that call is.
// The probes run in TestMain, before any other test has touched the packages, with the largest / last values of each
// domain first (a memo or lazily built table that confuses "nothing cached yet" with a real key shows there).

import (
	"fmt"
	"math"
	"testing"

	"github.com/whatap/golib/util/hash"
	"github.com/whatap/golib/util/hexa32"
	"github.com/whatap/golib/util/iputil"
	"verif/pbt"
)

type coldProbe struct {
	name string
	run  func() error
}

var coldProbes = []coldProbe{
	{"iputil.ToString(255.255.255.255)", func() error {
		if got := iputil.ToString([]byte{255, 255, 255, 255}); got != "255.255.255.255" {
			return fmt.Errorf("first call in the process: ToString(255.255.255.255) = %q", got)
		}
		return nil
	}},
	{"iputil.ToStringInt(-256)", func() error {
		if got := iputil.ToStringInt(-256); got != "255.255.255.0" {
			return fmt.Errorf("ToStringInt(-256) = %q, want 255.255.255.0", got)
		}
		return nil
	}},
	{"iputil.ToStringFrInt(-1)", func() error {
		if got := iputil.ToStringFrInt(-1); got != "255.255.255.255" {
			return fmt.Errorf("ToStringFrInt(-1) = %q", got)
		}
		return nil
	}},
	{"iputil.ToString(0.0.0.0) after the broadcast block", func() error {
		if got := iputil.ToString([]byte{0, 0, 0, 0}); got != "0.0.0.0" {
			return fmt.Errorf("ToString(0.0.0.0) = %q", got)
		}
		return nil
	}},
	{"iputil.ToBytes(255.255.255.255)", func() error {
		if got := iputil.ToBytes("255.255.255.255"); len(got) != 4 || got[0] != 255 || got[1] != 255 || got[2] != 255 || got[3] != 255 {
			return fmt.Errorf("ToBytes(\"255.255.255.255\") = %v", got)
		}
		return nil
	}},
	{"hexa32 of the extremes", func() error {
		for _, v := range []int64{math.MinInt64, math.MaxInt64, -1, 0} {
			if back := hexa32.ToLong32(hexa32.ToString32(v)); back != v {
				return fmt.Errorf("first calls in the process: ToLong32(ToString32(%d)) = %d", v, back)
			}
		}
		return nil
	}},
	{"hash of 0xff.. and of the empty input", func() error {
		if h := hash.Hash([]byte{0xff, 0xff, 0xff, 0xff}); uint32(h) != 0xffffffff {
			return fmt.Errorf("first call in the process: Hash(ff ff ff ff) = %#x, CRC-32 is 0xffffffff", uint32(h))
		}
		if h := hash.HashStr(""); h != 0 {
			return fmt.Errorf("HashStr(\"\") = %d, CRC-32 of nothing is 0", h)
		}
		return nil
	}},
}

var coldResults []error

// runColdProbes is called from TestMain before anything else.
func runColdProbes() {
	for _, p := range coldProbes {
		var err error
		func() {
			defer func() {
				if r := recover(); r != nil {
					err = fmt.Errorf("%s panicked: %v", p.name, r)
				}
			}()
			err = p.run()
		}()
		coldResults = append(coldResults, err)
	}
}

var sweepCold = pbt.RegisterSweep(pbt.Sweep{Prop: "C15", Name: "cold-start",
	Rule: "the first calls of the IP, base-32 and hash helpers in a freshly started process, made in TestMain before any other test, with the last / largest values of each domain first (255.255.255.255, -256, MinInt64, ff ff ff ff, the empty input): results against literal expectations; every probe is a distinct non-trivial case",
	N:    uint64(len(coldProbes)),
	Run:  func(i uint64) (bool, error) { return true, coldResults[i] },
	Show: func(i uint64) interface{} { return coldProbes[i].name }})

func TestColdStart(t *testing.T) { sweepCold.Check(t, 1) }
