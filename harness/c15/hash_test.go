// C15 Hashes and identifier encodings are the stated pure functions and bijections.
//
// This file: CRC-32 based hashes (util/hash) and the murmur hashes (util/hll/MurmurHash.go)
// against references written here from the algorithms' definitions:
//   - Hash        == hash/crc32 ChecksumIEEE (standard library);
//   - Hash64      == a 64-bit register shifted right by one byte per input byte and xor-ed with the
//     *sign-extended* entry of the ordinary 32-bit CRC table (reflected polynomial
//     0xEDB88320, table generated here bit by bit) selected by (low byte ^ input);
//     initial value and final xor all-ones. HashUtil.go's table is the 32-bit CRC-32 table
//     stored as int64; Hash64 truncates the entry to int32 and sign-extends it. It is not one
//     of the catalogued CRC-64s;
//   - Hash64v2/V2 == the 64-bit register is first shifted right by one byte (so the high half feeds
//     the low half), then each 32-bit half is xor-ed with the table entry selected by
//     (its own low byte after the shift ^ input); written here as two 32-bit lanes;
//   - murmur      == MurmurHash2 in the layout of stream-lib's MurmurHash.java (32-bit: 4-byte little
//     endian blocks, tail folded as data[len-3]<<16, data[len-2]<<8, data[len-1];
//     hashLong: the two 32-bit halves of a long as two blocks, seed 0, no length;
//     64-bit: MurmurHash64A), bytes taken as unsigned.
package c15

import (
	"os"
	"bytes"
	"encoding/binary"
	"fmt"
	"hash/crc32"
	"runtime/debug"
	"testing"

	"github.com/whatap/golib/util/hash"
	"github.com/whatap/golib/util/hll"
	"pgregory.net/rapid"
	"verif/gen"
	"verif/pbt"
)

func TestMain(m *testing.M) {
	// the 2^32 address sweep allocates a few short strings per address on a tiny live heap; a larger GC
	// target only reduces the number of collections (harness-side setting, no effect on what is checked)
	if os.Getenv(coldHelperEnv) != "" {
		coldHelperMain() // re-executed by concurrent-cold-start: never returns
	}
	runColdProbes() // before any other use of the packages in this process
	debug.SetGCPercent(2000)
	pbt.Main(m, "C15")
}

func TestReplay(t *testing.T) { pbt.Replay(t) }

// ---- references -------------------------------------------------------------

// crcTab[i] = CRC-32 (reflected, polynomial 0xEDB88320) remainder of the single byte i, computed bit by bit.
var crcTab = func() (t [256]uint32) {
	for i := range t {
		c := uint32(i)
		for k := 0; k < 8; k++ {
			if c&1 != 0 {
				c = c>>1 ^ 0xEDB88320
			} else {
				c >>= 1
			}
		}
		t[i] = c
	}
	return
}()

func refHash64(b []byte) int64 {
	lo, hi := uint32(0xffffffff), uint32(0xffffffff)
	for _, x := range b {
		e := crcTab[byte(lo)^x]
		ext := uint32(0)
		if e&0x80000000 != 0 {
			ext = 0xffffffff // sign extension of the 32-bit entry
		}
		lo, hi = (lo>>8|hi<<24)^e, hi>>8^ext
	}
	return int64(^(uint64(hi)<<32 | uint64(lo)))
}

func refHash64v2(b []byte) int64 {
	if len(b) == 0 {
		return 0
	}
	lo, hi := uint32(0xffffffff), uint32(0xffffffff)
	for _, x := range b {
		lo, hi = lo>>8|hi<<24, hi>>8
		lo ^= crcTab[byte(lo)^x]
		hi ^= crcTab[byte(hi)^x]
	}
	return int64(^(uint64(hi)<<32 | uint64(lo)))
}

func refMurmur32(data []byte, seed uint32) uint32 {
	const m = 0x5bd1e995
	n := len(data)
	h := seed ^ uint32(n)
	i := 0
	for ; n-i >= 4; i += 4 {
		k := binary.LittleEndian.Uint32(data[i:])
		k *= m
		k ^= k >> 24
		k *= m
		h *= m
		h ^= k
	}
	switch n - i { // stream-lib layout: the last byte of the input is the low byte of the tail word
	case 3:
		h ^= uint32(data[n-3])<<16 | uint32(data[n-2])<<8 | uint32(data[n-1])
		h *= m
	case 2:
		h ^= uint32(data[n-2])<<8 | uint32(data[n-1])
		h *= m
	case 1:
		h ^= uint32(data[n-1])
		h *= m
	}
	h ^= h >> 13
	h *= m
	h ^= h >> 15
	return h
}

// refMurmurLong: stream-lib hashLong(long) in Java's int arithmetic.
func refMurmurLong(data uint64) uint32 {
	m := int32(0x5bd1e995)
	d := int64(data)
	h := int32(0)
	k := int32(d) * m
	k ^= int32(uint32(k) >> 24)
	h ^= k * m
	k = int32(d>>32) * m
	k ^= int32(uint32(k) >> 24)
	h *= m
	h ^= k * m
	h ^= int32(uint32(h) >> 13)
	h *= m
	h ^= int32(uint32(h) >> 15)
	return uint32(h)
}

func refMurmur64A(data []byte, seed uint32) uint64 {
	const m = 0xc6a4a7935bd1e995
	n := len(data)
	h := uint64(seed) ^ uint64(n)*m
	i := 0
	for ; n-i >= 8; i += 8 {
		k := binary.LittleEndian.Uint64(data[i:])
		k *= m
		k ^= k >> 47
		k *= m
		h ^= k
		h *= m
	}
	if rem := n - i; rem > 0 {
		var t uint64
		for j := rem - 1; j >= 0; j-- {
			t = t<<8 | uint64(data[i+j])
		}
		h ^= t
		h *= m
	}
	h ^= h >> 47
	h *= m
	h ^= h >> 47
	return h
}

const murmurDefaultSeed = 0xe17a1465 // seed of MurmurHashByte / MurmurHashLongByte (stream-lib's hash64 default)

// ---- one byte string through every hash -------------------------------------

func checkBytes(b []byte, isNil bool, seed uint32, prefix int) error {
	in := b
	if isNil {
		in = nil
	}
	keep := append([]byte(nil), b...)
	s := string(b)

	if got, want := hash.Hash(in), int32(crc32.ChecksumIEEE(b)); got != want {
		return fmt.Errorf("Hash(%s) = %d, CRC-32/IEEE = %d", show(b), got, want)
	}
	if got, want := hash.HashStr(s), int32(crc32.ChecksumIEEE(b)); got != want {
		return fmt.Errorf("HashStr(%s) = %d, Hash of its bytes = %d", show(b), got, want)
	}
	w64 := refHash64(b)
	if got := hash.Hash64(in); got != w64 {
		return fmt.Errorf("Hash64(%s) = %d, reference %d", show(b), got, w64)
	}
	if got := hash.Hash64Str(s); got != w64 {
		return fmt.Errorf("Hash64Str(%s) = %d, Hash64 of its bytes %d", show(b), got, w64)
	}
	wv2 := refHash64v2(b)
	a, c := hash.Hash64v2(in), hash.Hash64V2(in)
	if a != c {
		return fmt.Errorf("Hash64v2(%s) = %d but Hash64V2 = %d", show(b), a, c)
	}
	if a != wv2 {
		return fmt.Errorf("Hash64v2(%s) = %d, reference %d", show(b), a, wv2)
	}
	if got := hash.GetLongHash(s); got != wv2 {
		return fmt.Errorf("GetLongHash(%s) = %d, Hash64v2 of its bytes %d", show(b), got, wv2)
	}
	if got := hash.Hash64StrV2(s); got != wv2 {
		return fmt.Errorf("Hash64StrV2(%s) = %d, Hash64V2 of its bytes %d", show(b), got, wv2)
	}
	// murmur
	if got, want := hll.MurmurHashByte(in), refMurmur32(b, murmurDefaultSeed); got != want {
		return fmt.Errorf("MurmurHashByte(%s) = %#x, MurmurHash2 (seed %#x) = %#x", show(b), got, uint32(murmurDefaultSeed), want)
	}
	if got, want := hll.MurmurHashByteSeed(in, seed), refMurmur32(b, seed); got != want {
		return fmt.Errorf("MurmurHashByteSeed(%s, %#x) = %#x, MurmurHash2 = %#x", show(b), seed, got, want)
	}
	if got, want := hll.MurmurHashLongByte(in, int32(len(b))), refMurmur64A(b, murmurDefaultSeed); got != want {
		return fmt.Errorf("MurmurHashLongByte(%s, %d) = %#x, MurmurHash64A = %#x", show(b), len(b), got, want)
	}
	if prefix >= 0 && prefix <= len(b) {
		if got, want := hll.MurmurHashLongByte(in, int32(prefix)), refMurmur64A(b[:prefix], murmurDefaultSeed); got != want {
			return fmt.Errorf("MurmurHashLongByte(%s, %d) = %#x, MurmurHash64A of the first %d bytes = %#x", show(b), prefix, got, prefix, want)
		}
	}
	// pure: the argument is not modified and a second evaluation gives the same values
	if !bytes.Equal(b, keep) {
		return fmt.Errorf("a hash function modified its argument: %s -> %s", show(keep), show(b))
	}
	if hash.Hash(in) != int32(crc32.ChecksumIEEE(b)) || hash.Hash64(in) != w64 || hash.Hash64v2(in) != wv2 || hash.Hash64V2(in) != wv2 ||
		hll.MurmurHashByte(in) != refMurmur32(b, murmurDefaultSeed) || hll.MurmurHashLongByte(in, int32(len(b))) != refMurmur64A(b, murmurDefaultSeed) {
		return fmt.Errorf("second evaluation of a hash of %s differs from the first", show(b))
	}
	// the caller re-uses its buffer: the same slice, overwritten in place, is hashed again (a scratch buffer filled with
	// the next name); the value is that of the new content, also for an equal string and an equal fresh slice (seed C15-s22)
	if !isNil && len(b) > 0 {
		pos := len(b) / 2
		b[pos] ^= 0x5a
		defer func() { b[pos] ^= 0x5a }()
		nc, n64, nv2 := int32(crc32.ChecksumIEEE(b)), refHash64(b), refHash64v2(b)
		if got := hash.Hash(b); got != nc {
			return fmt.Errorf("Hash of a buffer that was hashed before and then overwritten in place (%s -> %s) = %d, CRC-32/IEEE of its content = %d", show(keep), show(b), got, nc)
		}
		if got := hash.Hash64(b); got != n64 {
			return fmt.Errorf("Hash64 of a buffer overwritten in place (%s -> %s) = %d, reference %d", show(keep), show(b), got, n64)
		}
		if a, c := hash.Hash64v2(b), hash.Hash64V2(b); a != nv2 || c != nv2 {
			return fmt.Errorf("Hash64v2/Hash64V2 of a buffer overwritten in place (%s -> %s) = %d/%d, reference %d", show(keep), show(b), a, c, nv2)
		}
		if got, want := hll.MurmurHashByte(b), refMurmur32(b, murmurDefaultSeed); got != want {
			return fmt.Errorf("MurmurHashByte of a buffer overwritten in place (%s -> %s) = %#x, reference %#x", show(keep), show(b), got, want)
		}
		if got, want := hll.MurmurHashLongByte(b, int32(len(b))), refMurmur64A(b, murmurDefaultSeed); got != want {
			return fmt.Errorf("MurmurHashLongByte of a buffer overwritten in place (%s -> %s) = %#x, reference %#x", show(keep), show(b), got, want)
		}
		ns := string(b)
		if got := hash.HashStr(ns); got != nc {
			return fmt.Errorf("HashStr(%s) = %d after a buffer with that content was hashed, CRC-32/IEEE = %d", show(b), got, nc)
		}
		if got := hash.Hash(append([]byte(nil), b...)); got != nc {
			return fmt.Errorf("Hash(%s) of a fresh slice = %d after a re-used buffer with that content was hashed, CRC-32/IEEE = %d", show(b), got, nc)
		}
		if hash.Hash64Str(ns) != n64 || hash.GetLongHash(ns) != nv2 || hash.Hash64StrV2(ns) != nv2 {
			return fmt.Errorf("a 64-bit string-form hash of %s differs from the byte form after a re-used buffer with that content was hashed", show(b))
		}
	}
	return nil
}

func show(b []byte) string {
	if len(b) > 24 {
		return fmt.Sprintf("%d bytes %x…", len(b), b[:24])
	}
	return fmt.Sprintf("%d bytes %x", len(b), b)
}

// ---- exhaustive: every byte string of length 0, 1, 2 --------------------------

func shortString(i uint64) []byte {
	switch {
	case i == 0:
		return []byte{}
	case i <= 256:
		return []byte{byte(i - 1)}
	}
	j := i - 257
	return []byte{byte(j >> 8), byte(j)}
}

var sweepShort = pbt.RegisterSweep(pbt.Sweep{Prop: "C15", Name: "hash-all-strings-len-0-1-2",
	Rule: "every byte string of length 0, 1 and 2 (1 + 256 + 65536 = 65793) through Hash/HashStr (vs hash/crc32), Hash64/Hash64Str, Hash64v2 == Hash64V2 (+ string forms) and the three byte-string murmur hashes, each against the reference; every string is a distinct case",
	N:    1 + 256 + 65536,
	Run: func(i uint64) (bool, error) {
		b := shortString(i)
		return true, checkBytes(b, false, uint32(i*2654435761), len(b)/2)
	},
	Show: func(i uint64) interface{} { return fmt.Sprintf("bytes %x", shortString(i)) }})

func TestHashShortStrings(t *testing.T) { sweepShort.Check(t, 2) }

// ---- random byte strings up to 4 KiB -----------------------------------------

type BytesCase struct {
	Hex    string `json:"hex,omitempty"`  // the input when short
	N      int    `json:"n,omitempty"`    // otherwise: N bytes from the splitmix64 stream seeded with Fill
	Fill   uint64 `json:"fill,omitempty"` //
	Nil    bool   `json:"nil,omitempty"`  // pass nil instead of an empty slice
	Seed   uint32 `json:"seed"`           // seed for MurmurHashByteSeed
	Prefix int    `json:"prefix"`         // length argument < len for MurmurHashLongByte
}

func (c BytesCase) bytes() []byte {
	if c.N == 0 {
		return gen.UnHex(c.Hex)
	}
	b := make([]byte, c.N)
	st := c.Fill
	for i := 0; i < c.N; i += 8 {
		st += 0x9e3779b97f4a7c15
		z := st
		z = (z ^ (z >> 30)) * 0xbf58476d1ce4e5b9
		z = (z ^ (z >> 27)) * 0x94d049bb133111eb
		z ^= z >> 31
		for j := 0; j < 8 && i+j < c.N; j++ {
			b[i+j] = byte(z >> (8 * uint(j)))
		}
	}
	return b
}

var specBytes = pbt.Register(pbt.Spec[BytesCase]{
	Prop: "C15", Name: "hash-random-strings", Parallel: 8,
	Rule:  "byte strings of length 0..4096 (short random ones, all lengths 0..40 so that every block/tail combination of the 4- and 8-byte murmur loops occurs, lengths around 255/256/4096, bytes >= 0x80 frequent; nil and empty) through every hash of util/hash and the byte-string murmur hashes with a random seed / prefix length, each against the reference; non-trivial = length >= 3; distinct by input bytes, seed, prefix",
	Quick: 300000, Thorough: 1000000,
	Draw: func(t *rapid.T) BytesCase {
		c := BytesCase{Seed: rapid.Uint32().Draw(t, "seed")}
		switch rapid.IntRange(0, 9).Draw(t, "kind") {
		case 0, 1, 2, 3:
			n := rapid.IntRange(0, 40).Draw(t, "len")
			c.Hex = gen.Hex(rapid.SliceOfN(rapid.Byte(), n, n).Draw(t, "bytes"))
		case 4: // only high bytes / only 0x00 / only 0xff
			n := rapid.IntRange(1, 24).Draw(t, "len")
			v := rapid.SampledFrom([]byte{0x00, 0x80, 0xff, 0x7f}).Draw(t, "v")
			c.Hex = gen.Hex(bytes.Repeat([]byte{v}, n))
		case 5:
			c.Hex = gen.Hex([]byte(gen.String(false).Draw(t, "text")))
			if len(c.Hex) > 128 {
				c.Hex = c.Hex[:128]
			}
		case 6:
			c.N = rapid.SampledFrom([]int{63, 64, 65, 255, 256, 257, 1023, 1024, 4095, 4096}).Draw(t, "n")
			c.Fill = rapid.Uint64().Draw(t, "fill")
		default:
			c.N = rapid.IntRange(41, 4096).Draw(t, "n")
			c.Fill = rapid.Uint64().Draw(t, "fill")
		}
		ln := c.N
		if ln == 0 {
			ln = len(c.Hex) / 2
			c.Nil = ln == 0 && rapid.Bool().Draw(t, "nil")
		}
		c.Prefix = rapid.IntRange(0, ln).Draw(t, "prefix")
		return c
	},
	Run: func(c BytesCase) *pbt.Result {
		b := c.bytes()
		if err := checkBytes(b, c.Nil, c.Seed, c.Prefix); err != nil {
			return &pbt.Result{Err: err}
		}
		key := binary.BigEndian.AppendUint32(append([]byte(nil), b...), c.Seed)
		key = binary.BigEndian.AppendUint32(key, uint32(c.Prefix))
		return &pbt.Result{NT: len(b) >= 3, Classes: []string{lenClass(len(b)), fmt.Sprintf("len%%8=%d", len(b)%8)}, Key: key}
	},
})

func lenClass(n int) string {
	switch {
	case n == 0:
		return "len=0"
	case n < 3:
		return "len<3"
	case n <= 40:
		return "len<=40"
	case n <= 256:
		return "len<=256"
	}
	return "len<=4096"
}

func TestHashRandomStrings(t *testing.T) {
	specBytes.Check(t)
	// nil and empty
	specBytes.RunCase(t, BytesCase{Nil: true})
	specBytes.RunCase(t, BytesCase{})
}

// ---- integer murmur hashes ------------------------------------------------------

func checkMurmurInt(v uint64) error {
	if got, want := hll.MurmurHashLong(v), refMurmurLong(v); got != want {
		return fmt.Errorf("MurmurHashLong(%#x) = %#x, reference hashLong = %#x", v, got, want)
	}
	// the 8 bytes of the value, low half first, hashed as two 4-byte blocks without length/seed: cross-check
	// of the reference itself against the byte-string form is not possible (hashLong omits the length), so
	// only the 32-bit entry point is related to the long one: an unsigned 32-bit item is the long with a zero upper half.
	u := uint32(v)
	if got, want := hll.MurmurHash(u), refMurmurLong(uint64(u)); got != want {
		return fmt.Errorf("MurmurHash(%#x) = %#x, reference hashLong of the zero-extended value = %#x", u, got, want)
	}
	return nil
}

type IntCase struct {
	V uint64 `json:"v"`
}

var specMurmurInt = pbt.Register(pbt.Spec[IntCase]{
	Prop: "C15", Name: "murmur-integers", Parallel: 8,
	Rule:  "64-bit integers (uniform, boundary catalogue, single bits, upper-half-only) through MurmurHashLong and their low 32 bits through MurmurHash, against hashLong written in Java int arithmetic; non-trivial = value >= 2^8; distinct by value",
	Quick: 300000, Thorough: 2000000,
	Draw: func(t *rapid.T) IntCase {
		switch rapid.IntRange(0, 3).Draw(t, "kind") {
		case 0:
			return IntCase{uint64(gen.Int64().Draw(t, "v"))}
		case 1:
			return IntCase{uint64(1) << uint(rapid.IntRange(0, 63).Draw(t, "bit"))}
		case 2:
			return IntCase{uint64(rapid.Uint32().Draw(t, "hi")) << 32}
		}
		return IntCase{rapid.Uint64().Draw(t, "v")}
	},
	Run: func(c IntCase) *pbt.Result {
		if err := checkMurmurInt(c.V); err != nil {
			return &pbt.Result{Err: err}
		}
		cl := "both-halves"
		if c.V>>32 == 0 {
			cl = "upper-half-zero"
		}
		return &pbt.Result{NT: c.V >= 256, Classes: []string{cl}, Key: binary.BigEndian.AppendUint64(nil, c.V)}
	},
})

func TestMurmurIntegers(t *testing.T) { specMurmurInt.Check(t) }

var sweepMurmur32 = pbt.RegisterSweep(pbt.Sweep{Prop: "C15", Name: "murmur-all-uint32",
	Rule: "MurmurHash(o) for every 32-bit item o (thorough tier; all 2^32), and MurmurHashLong of o<<32|^o",
	N:    1 << 32,
	Run:  func(i uint64) (bool, error) { return true, checkMurmurInt(i<<32 | uint64(^uint32(i))) },
	Show: func(i uint64) interface{} { return fmt.Sprintf("item %#x", uint32(^uint32(i))) }})

var sweepMurmur32q = pbt.RegisterSweep(pbt.Sweep{Prop: "C15", Name: "murmur-uint32-strided",
	Rule: "quick-tier stand-in: the 2^22 items i*0x9E3779B1 mod 2^32 (odd multiplier, all distinct)",
	N:    1 << 22,
	Run: func(i uint64) (bool, error) {
		u := uint32(i) * 0x9E3779B1
		return true, checkMurmurInt(uint64(u)<<32 | uint64(^u))
	},
	Show: func(i uint64) interface{} { return fmt.Sprintf("item %#x", ^(uint32(i) * 0x9E3779B1)) }})

func TestMurmurSweep(t *testing.T) {
	if pbt.Thorough() {
		sweepMurmur32.Check(t, sweepWorkers())
	} else {
		sweepMurmur32q.Check(t, 4)
	}
}
