// C15, "values never change": frozen vectors.
//
// /verif/golden/hash_vectors.json holds, for a fixed list of inputs, the value of every hash as
// recorded once from the pinned tree. The check compares today's values with the recorded ones; the
// file is only rewritten by `VERIF_REGEN_GOLDEN=1 go test -run TestRegenGolden ./c15/`, which refuses to
// write values that disagree with the references of hash_test.go.
package c15

import (
	"encoding/json"
	"fmt"
	"os"
	"testing"

	"github.com/whatap/golib/util/hash"
	"github.com/whatap/golib/util/hll"
	"verif/gen"
	"verif/pbt"
)

const goldenPath = "/verif/golden/hash_vectors.json"

type goldenBytes struct {
	In           string `json:"in_hex"`
	Text         string `json:"in_text,omitempty"` // informative only
	Hash         int32  `json:"Hash"`
	Hash64       int64  `json:"Hash64"`
	Hash64v2     int64  `json:"Hash64v2"`
	Hash64V2     int64  `json:"Hash64V2"`
	Murmur32     uint32 `json:"MurmurHashByte"`
	Murmur32Seed uint32 `json:"MurmurHashByteSeed_0x9747b28c"`
	Murmur64     uint64 `json:"MurmurHashLongByte"`
}

type goldenInt struct {
	In         uint64 `json:"in"`
	MurmurLong uint32 `json:"MurmurHashLong"`
	MurmurInt  uint32 `json:"MurmurHash_of_low_32_bits"`
}

type goldenFile struct {
	Comment string        `json:"comment"`
	Bytes   []goldenBytes `json:"bytes"`
	Ints    []goldenInt   `json:"ints"`
}

const goldenSeed = 0x9747b28c

func goldenInputs() (bs [][]byte, texts []string, ints []uint64) {
	add := func(b []byte, text string) { bs = append(bs, b); texts = append(texts, text) }
	for _, s := range []string{"", "a", "ab", "abc", "abcd", "abcde", "abcdefg", "abcdefgh", "abcdefghi", "hello world", "message digest",
		"The quick brown fox jumps over the lazy dog", "/index.html", "SELECT * FROM dual WHERE id = ?", "java.lang.NullPointerException",
		"whatap", "가나다라마바사", "日本語テキスト", "é€😀ß", "127.0.0.1", "0", "-1", " ", "\t\r\n"} {
		add([]byte(s), s)
	}
	add([]byte{0x00}, "")
	add([]byte{0x7f}, "")
	add([]byte{0x80}, "")
	add([]byte{0xff}, "")
	add([]byte{0x00, 0x00}, "")
	add([]byte{0xff, 0xff, 0xff}, "")
	add([]byte{0x80, 0x81, 0x82}, "")
	add([]byte{0x01, 0x80, 0xfe, 0x7f, 0x90, 0xa0, 0xb0}, "")
	add([]byte{0xff, 0xfe, 0xfd, 0xfc, 0xfb, 0xfa, 0xf9, 0xf8, 0xf7, 0xf6, 0xf5, 0xf4, 0xf3, 0xf2, 0xf1}, "")
	for _, n := range []int{1, 2, 3, 4, 5, 6, 7, 8, 9, 15, 16, 17, 31, 32, 33, 63, 64, 65, 127, 128, 255, 256, 257, 1000, 4096} {
		b := make([]byte, n)
		for i := range b {
			b[i] = byte(i*31 + 7 + n)
		}
		add(b, "")
	}
	ints = []uint64{0, 1, 2, 3, 7, 10, 255, 256, 65535, 65536, 1<<31 - 1, 1 << 31, 1<<32 - 1, 1 << 32, 1<<32 + 1, 1<<63 - 1, 1 << 63, ^uint64(0),
		0xdeadbeef, 0xcafebabe, 0xdeadbeefcafebabe, 0x0123456789abcdef, 0xfedcba9876543210, 1234567890, 1234567890123456789, 300001, 7700000}
	return
}

func computeGolden() goldenFile {
	bs, texts, ints := goldenInputs()
	g := goldenFile{Comment: "C15 frozen hash vectors: values of util/hash and util/hll murmur functions recorded once from the pinned tree of whatap/golib (and cross-checked against the references in harness/c15/hash_test.go when recorded). These values are persisted as identifiers by the collector and must never change. Regenerate only with VERIF_REGEN_GOLDEN=1 go test -run TestRegenGolden ./c15/."}
	for i, b := range bs {
		g.Bytes = append(g.Bytes, goldenBytes{In: gen.Hex(b), Text: texts[i],
			Hash: hash.Hash(b), Hash64: hash.Hash64(b), Hash64v2: hash.Hash64v2(b), Hash64V2: hash.Hash64V2(b),
			Murmur32: hll.MurmurHashByte(b), Murmur32Seed: hll.MurmurHashByteSeed(b, goldenSeed), Murmur64: hll.MurmurHashLongByte(b, int32(len(b)))})
	}
	for _, v := range ints {
		g.Ints = append(g.Ints, goldenInt{In: v, MurmurLong: hll.MurmurHashLong(v), MurmurInt: hll.MurmurHash(uint32(v))})
	}
	return g
}

func TestRegenGolden(t *testing.T) {
	if os.Getenv("VERIF_REGEN_GOLDEN") != "1" {
		t.Skip("VERIF_REGEN_GOLDEN != 1")
	}
	g := computeGolden()
	for _, e := range g.Bytes {
		if err := checkBytes(gen.UnHex(e.In), false, goldenSeed, -1); err != nil {
			t.Fatalf("refusing to freeze a value that disagrees with the reference: %v", err)
		}
	}
	for _, e := range g.Ints {
		if err := checkMurmurInt(e.In); err != nil {
			t.Fatalf("refusing to freeze a value that disagrees with the reference: %v", err)
		}
	}
	out, err := json.MarshalIndent(g, "", " ")
	if err != nil {
		t.Fatal(err)
	}
	if err := os.MkdirAll("/verif/golden", 0o755); err != nil {
		t.Fatal(err)
	}
	if err := os.WriteFile(goldenPath, append(out, '\n'), 0o644); err != nil {
		t.Fatal(err)
	}
	fmt.Printf("wrote %s: %d byte-string vectors, %d integer vectors\n", goldenPath, len(g.Bytes), len(g.Ints))
}

var frozen, frozenErr = func() (g goldenFile, err error) {
	b, err := os.ReadFile(goldenPath)
	if err != nil {
		return g, err
	}
	err = json.Unmarshal(b, &g)
	return
}()

func checkFrozen(i uint64) (bool, error) {
	if i < uint64(len(frozen.Bytes)) {
		e := frozen.Bytes[i]
		b := gen.UnHex(e.In)
		now := goldenBytes{In: e.In, Text: e.Text, Hash: hash.Hash(b), Hash64: hash.Hash64(b), Hash64v2: hash.Hash64v2(b), Hash64V2: hash.Hash64V2(b),
			Murmur32: hll.MurmurHashByte(b), Murmur32Seed: hll.MurmurHashByteSeed(b, goldenSeed), Murmur64: hll.MurmurHashLongByte(b, int32(len(b)))}
		if now != e {
			return true, fmt.Errorf("hash values of input %s changed: recorded %+v, now %+v", show(b), e, now)
		}
		if s := string(b); hash.HashStr(s) != e.Hash || hash.Hash64Str(s) != e.Hash64 || hash.GetLongHash(s) != e.Hash64v2 || hash.Hash64StrV2(s) != e.Hash64V2 {
			return true, fmt.Errorf("string-form hash values of input %s differ from the recorded byte-form values %+v", show(b), e)
		}
		return true, nil
	}
	e := frozen.Ints[i-uint64(len(frozen.Bytes))]
	now := goldenInt{In: e.In, MurmurLong: hll.MurmurHashLong(e.In), MurmurInt: hll.MurmurHash(uint32(e.In))}
	if now != e {
		return true, fmt.Errorf("murmur values of integer %#x changed: recorded %+v, now %+v", e.In, e, now)
	}
	return true, nil
}

var sweepFrozen = pbt.RegisterSweep(pbt.Sweep{Prop: "C15", Name: "hash-frozen-vectors",
	Rule: "every vector of /verif/golden/hash_vectors.json (fixed inputs; values recorded once from the pinned tree): today's Hash, Hash64, Hash64v2, Hash64V2, MurmurHashByte, MurmurHashByteSeed, MurmurHashLongByte, MurmurHashLong, MurmurHash and the string forms equal the recorded values",
	N:    uint64(len(frozen.Bytes) + len(frozen.Ints)), Run: checkFrozen,
	Show: func(i uint64) interface{} {
		if i < uint64(len(frozen.Bytes)) {
			return frozen.Bytes[i]
		}
		return frozen.Ints[i-uint64(len(frozen.Bytes))]
	}})

func TestFrozenVectors(t *testing.T) {
	if os.Getenv("VERIF_REGEN_GOLDEN") == "1" {
		t.Skip("regenerating")
	}
	if frozenErr != nil {
		t.Fatalf("cannot load the frozen vectors: %v", frozenErr)
	}
	if len(frozen.Bytes) < 50 || len(frozen.Ints) < 20 {
		t.Fatalf("frozen vector file is implausibly small: %d + %d vectors", len(frozen.Bytes), len(frozen.Ints))
	}
	// the file must still be about the inputs this harness fixes (guards against a silently edited file)
	bs, _, ints := goldenInputs()
	if len(bs) != len(frozen.Bytes) || len(ints) != len(frozen.Ints) {
		t.Fatalf("frozen vector file has %d + %d vectors, the fixed input list has %d + %d", len(frozen.Bytes), len(frozen.Ints), len(bs), len(ints))
	}
	for i, b := range bs {
		if frozen.Bytes[i].In != gen.Hex(b) {
			t.Fatalf("frozen vector %d is about input %s, the fixed input list says %x", i, frozen.Bytes[i].In, b)
		}
	}
	for i, v := range ints {
		if frozen.Ints[i].In != v {
			t.Fatalf("frozen integer vector %d is about %#x, the fixed input list says %#x", i, frozen.Ints[i].In, v)
		}
	}
	sweepFrozen.Check(t, 1)
}
