// C15, identifier encodings: hexa32 text form, bit compose/split helpers, IPv4 conversions.
package c15

import (
	"bytes"
	"encoding/binary"
	"fmt"
	"math"
	"net"
	"regexp"
	"runtime"
	"strconv"
	"strings"
	"testing"

	"github.com/whatap/golib/util/bitutil"
	"github.com/whatap/golib/util/hexa32"
	"github.com/whatap/golib/util/iputil"
	"pgregory.net/rapid"
	"verif/gen"
	"verif/pbt"
)

// ---- hexa32 ---------------------------------------------------------------------

var hexaForm = regexp.MustCompile(`^[0-9]$|^[xz][0-9a-v]+$`)

// refHexa32 is the documented form: 0..9 as the decimal digit; larger numbers as 'x' + base-32
// digits (0-9a-v) of the number; negative numbers as 'z' + base-32 digits of the magnitude.
func refHexa32(n int64) string {
	switch {
	case n >= 0 && n < 10:
		return strconv.FormatInt(n, 10)
	case n >= 10:
		return "x" + strconv.FormatUint(uint64(n), 32)
	}
	return "z" + strconv.FormatUint(uint64(-(n+1))+1, 32) // magnitude without overflow at MinInt64
}

func checkHexa(n int64) error {
	s := hexa32.ToString32(n)
	if !hexaForm.MatchString(s) {
		return fmt.Errorf("ToString32(%d) = %q is not of the form digit | x<base32> | z<base32>", n, s)
	}
	if want := refHexa32(n); s != want {
		return fmt.Errorf("ToString32(%d) = %q, want %q", n, s, want)
	}
	if back := hexa32.ToLong32(s); back != n {
		return fmt.Errorf("ToLong32(ToString32(%d)) = ToLong32(%q) = %d", n, s, back)
	}
	return nil
}

// index space of the sweep: 13 powers x 2 signs x 4001 offsets, then 2001 values at each extreme
const hexaSpan = 4001
const hexaPowers = 13 * 2 * hexaSpan

func hexaValue(i uint64) int64 {
	if i < hexaPowers {
		k := i / (2 * hexaSpan)
		neg := (i/hexaSpan)%2 == 1
		off := int64(i%hexaSpan) - 2000
		p := int64(1) << (5 * uint(k)) // 32^k, k <= 12: 2^60
		if neg {
			p = -p
		}
		return p + off
	}
	j := i - hexaPowers
	if j <= 2000 {
		return math.MinInt64 + int64(j)
	}
	return math.MaxInt64 - int64(j-2001)
}

var sweepHexa = pbt.RegisterSweep(pbt.Sweep{Prop: "C15", Name: "hexa32-near-powers-and-extremes",
	Rule: "every n within +-2000 of +-32^k, k = 0..12, and the 2001 numbers at each end of the int64 range: ToString32(n) has the documented form, equals the reference text, and ToLong32 returns n",
	N:    hexaPowers + 2*2001,
	Run:  func(i uint64) (bool, error) { return true, checkHexa(hexaValue(i)) },
	Show: func(i uint64) interface{} { return fmt.Sprintf("n=%d", hexaValue(i)) }})

func TestHexa32Sweep(t *testing.T) { sweepHexa.Check(t, 2) }

type HexaCase struct {
	N int64  `json:"n"`
	S string `json:"s,omitempty"` // canonical text (inverse direction)
}

var specHexa = pbt.Register(pbt.Spec[HexaCase]{
	Prop: "C15", Name: "hexa32-random", Parallel: 8,
	Rule:  "random 64-bit integers (uniform bits, every magnitude class, boundary catalogue): same three checks as the sweep; non-trivial = |n| >= 32; distinct by n",
	Quick: 300000, Thorough: 2000000,
	Draw: func(t *rapid.T) HexaCase { return HexaCase{N: gen.Int64().Draw(t, "n")} },
	Run: func(c HexaCase) *pbt.Result {
		if err := checkHexa(c.N); err != nil {
			return &pbt.Result{Err: err}
		}
		cl := "positive"
		if c.N < 0 {
			cl = "negative"
		}
		return &pbt.Result{NT: c.N >= 32 || c.N <= -32, Classes: []string{cl, fmt.Sprintf("digits=%d", len(hexa32.ToString32(c.N))-1)},
			Key: binary.BigEndian.AppendUint64(nil, uint64(c.N))}
	},
})

func TestHexa32Random(t *testing.T) { specHexa.Check(t) }

const b32digits = "0123456789abcdefghijklmnopqrstuv"

var specHexaInv = pbt.Register(pbt.Spec[HexaCase]{
	Prop: "C15", Name: "hexa32-canonical-strings", Parallel: 8,
	Rule:  "canonical texts built digit by digit (a decimal digit; or x/z + 1..13 base-32 digits without leading zero, value within int64, x-form >= 10; or z8000000000000): ToLong32(s) equals the value computed with strconv.ParseUint(base 32) and ToString32 of it returns s; non-trivial = >= 2 digits; distinct by text",
	Quick: 300000, Thorough: 1000000,
	Draw: func(t *rapid.T) HexaCase {
		switch rapid.IntRange(0, 9).Draw(t, "kind") {
		case 0:
			return HexaCase{S: string(b32digits[rapid.IntRange(0, 9).Draw(t, "d")])}
		case 1:
			return HexaCase{S: rapid.SampledFrom([]string{"z8000000000000", "z7vvvvvvvvvvvv", "x7vvvvvvvvvvvv", "xa", "z1", "xv", "x10", "z10", "x7vvvvvvvvvvvu", "z7vvvvvvvvvvvu", "x4000000000000", "z4000000000000"}).Draw(t, "edge")}
		}
		n := rapid.IntRange(1, 13).Draw(t, "ndigits")
		d := make([]byte, n)
		for i := range d {
			lo, hi := 0, 31
			if i == 0 {
				lo = 1
				if n == 13 {
					hi = 7
				}
			}
			if rapid.IntRange(0, 3).Draw(t, "extreme") == 0 {
				d[i] = b32digits[rapid.SampledFrom([]int{lo, hi}).Draw(t, "dx")]
			} else {
				d[i] = b32digits[rapid.IntRange(lo, hi).Draw(t, "d")]
			}
		}
		pre := rapid.SampledFrom([]string{"x", "z"}).Draw(t, "prefix")
		if pre == "x" && n == 1 && strings.IndexByte(b32digits, d[0]) < 10 {
			d[0] = 'a' // 0..9 have the plain digit form
		}
		return HexaCase{S: pre + string(d)}
	},
	Run: func(c HexaCase) *pbt.Result {
		var want int64
		if len(c.S) == 1 {
			want = int64(c.S[0] - '0')
		} else {
			mag, err := strconv.ParseUint(c.S[1:], 32, 64)
			if err != nil || mag > 1<<63 || (mag == 1<<63 && c.S[0] != 'z') {
				panic("harness: generated text is not canonical: " + c.S)
			}
			if c.S[0] == 'z' {
				want = int64(-mag) // two's complement: correct for 2^63 as well
			} else {
				want = int64(mag)
			}
		}
		if got := hexa32.ToLong32(c.S); got != want {
			return pbt.Fail("ToLong32(%q) = %d, want %d", c.S, got, want)
		}
		if back := hexa32.ToString32(want); back != c.S {
			return pbt.Fail("ToString32(ToLong32(%q)) = ToString32(%d) = %q", c.S, want, back)
		}
		return &pbt.Result{NT: len(c.S) >= 3, Classes: []string{c.S[:1] + "-form", fmt.Sprintf("digits=%d", len(c.S)-1)}, Key: []byte(c.S)}
	},
})

func TestHexa32Canonical(t *testing.T) { specHexaInv.Check(t) }

// ---- bitutil --------------------------------------------------------------------

func check16(i uint64) (bool, error) {
	h, w := byte(i>>8), byte(i)
	k := int16(uint16(i))
	if got := bitutil.Composite16(h, w); got != k {
		return true, fmt.Errorf("Composite16(%#x, %#x) = %#x, want %#x", h, w, uint16(got), uint16(k))
	}
	if gh, gl := bitutil.GetHigh16(k), bitutil.GetLow16(k); gh != h || gl != w {
		return true, fmt.Errorf("GetHigh16/GetLow16(%#x) = %#x, %#x, want %#x, %#x", uint16(k), gh, gl, h, w)
	}
	if got := bitutil.Composite16(bitutil.GetHigh16(k), bitutil.GetLow16(k)); got != k {
		return true, fmt.Errorf("Composite16(GetHigh16(k), GetLow16(k)) = %#x for k = %#x", uint16(got), uint16(k))
	}
	return true, nil
}

func check32(i uint64) (bool, error) {
	h, w := int16(uint16(i>>16)), int16(uint16(i))
	k := int32(uint32(i))
	if got := bitutil.Composite32(h, w); got != k {
		return true, fmt.Errorf("Composite32(%d, %d) = %#x, want %#x", h, w, uint32(got), uint32(k))
	}
	if gh, gl := bitutil.GetHigh32(k), bitutil.GetLow32(k); gh != h || gl != w {
		return true, fmt.Errorf("GetHigh32/GetLow32(%#x) = %d, %d, want %d, %d", uint32(k), gh, gl, h, w)
	}
	return true, nil
}

var sweepBits16 = pbt.RegisterSweep(pbt.Sweep{Prop: "C15", Name: "bitutil-16-all",
	Rule: "all 2^16 (high byte, low byte) pairs: Composite16 == high<<8|low, GetHigh16/GetLow16 return the halves, recomposition is the identity",
	N:    1 << 16, Run: check16, Show: func(i uint64) interface{} { return fmt.Sprintf("high=%#x low=%#x", byte(i>>8), byte(i)) }})

var sweepBits32 = pbt.RegisterSweep(pbt.Sweep{Prop: "C15", Name: "bitutil-32-all",
	Rule: "all 2^32 (high int16, low int16) pairs (thorough tier): Composite32 == high<<16|low&0xffff, GetHigh32/GetLow32 return the halves",
	N:    1 << 32, Run: check32, Show: func(i uint64) interface{} { return fmt.Sprintf("high=%d low=%d", int16(i>>16), int16(i)) }})

var sweepBits32q = pbt.RegisterSweep(pbt.Sweep{Prop: "C15", Name: "bitutil-32-strided",
	Rule: "quick-tier stand-in: the 2^22 pairs from the 32-bit patterns i*0x9E3779B1 mod 2^32",
	N:    1 << 22, Run: func(i uint64) (bool, error) { return check32(uint64(uint32(i) * 0x9E3779B1)) },
	Show: func(i uint64) interface{} { return fmt.Sprintf("pattern %#x", uint32(i)*0x9E3779B1) }})

func TestBitutilSweeps(t *testing.T) {
	sweepBits16.Check(t, 1)
	if pbt.Thorough() {
		sweepBits32.Check(t, sweepWorkers())
	} else {
		sweepBits32q.Check(t, 4)
	}
}

type Bits64Case struct {
	H   int32 `json:"h"`
	W   int32 `json:"w"`
	Src int64 `json:"src"`
}

var specBits64 = pbt.Register(pbt.Spec[Bits64Case]{
	Prop: "C15", Name: "bitutil-64-random", Parallel: 8,
	Rule:  "random and boundary (high int32, low int32, src int64) triples: Composite64 == high<<32|uint32(low), GetHigh64/GetLow64 return the halves, SetHigh64/SetLow64 replace exactly one half, recomposition of src is the identity; non-trivial = both halves non-zero; distinct by the triple",
	Quick: 300000, Thorough: 2000000,
	Draw: func(t *rapid.T) Bits64Case {
		return Bits64Case{H: gen.Int32().Draw(t, "h"), W: gen.Int32().Draw(t, "w"), Src: gen.Int64().Draw(t, "src")}
	},
	Run: func(c Bits64Case) *pbt.Result {
		want := int64(uint64(uint32(c.H))<<32 | uint64(uint32(c.W)))
		k := bitutil.Composite64(c.H, c.W)
		if k != want {
			return pbt.Fail("Composite64(%d, %d) = %#x, want %#x", c.H, c.W, uint64(k), uint64(want))
		}
		if gh, gl := bitutil.GetHigh64(k), bitutil.GetLow64(k); gh != c.H || gl != c.W {
			return pbt.Fail("GetHigh64/GetLow64(%#x) = %d, %d, want %d, %d", uint64(k), gh, gl, c.H, c.W)
		}
		sh, sl := int32(uint64(c.Src)>>32), int32(uint64(c.Src))
		if gh, gl := bitutil.GetHigh64(c.Src), bitutil.GetLow64(c.Src); gh != sh || gl != sl {
			return pbt.Fail("GetHigh64/GetLow64(%#x) = %#x, %#x", uint64(c.Src), uint32(gh), uint32(gl))
		}
		if got := bitutil.Composite64(bitutil.GetHigh64(c.Src), bitutil.GetLow64(c.Src)); got != c.Src {
			return pbt.Fail("Composite64(GetHigh64(s), GetLow64(s)) = %#x for s = %#x", uint64(got), uint64(c.Src))
		}
		if got, w := bitutil.SetHigh64(c.Src, c.H), int64(uint64(uint32(c.H))<<32|uint64(uint32(sl))); got != w {
			return pbt.Fail("SetHigh64(%#x, %d) = %#x, want %#x", uint64(c.Src), c.H, uint64(got), uint64(w))
		}
		if got, w := bitutil.SetLow64(c.Src, c.W), int64(uint64(uint32(sh))<<32|uint64(uint32(c.W))); got != w {
			return pbt.Fail("SetLow64(%#x, %d) = %#x, want %#x", uint64(c.Src), c.W, uint64(got), uint64(w))
		}
		var cls []string
		if c.W < 0 {
			cls = append(cls, "low-negative")
		}
		if c.H < 0 {
			cls = append(cls, "high-negative")
		}
		key := binary.BigEndian.AppendUint64(binary.BigEndian.AppendUint64(nil, uint64(want)), uint64(c.Src))
		return &pbt.Result{NT: c.H != 0 && c.W != 0, Classes: cls, Key: key}
	},
})

func TestBitutil64(t *testing.T) { specBits64.Check(t) }

// ---- iputil -----------------------------------------------------------------------

func checkIP(i uint64) (bool, error) {
	u := uint32(i)
	v := int32(u)
	want := []byte{byte(u >> 24), byte(u >> 16), byte(u >> 8), byte(u)}
	b := iputil.ToBytesFrInt(v)
	if len(b) != 4 || b[0] != want[0] || b[1] != want[1] || b[2] != want[2] || b[3] != want[3] {
		return true, fmt.Errorf("ToBytesFrInt(%#x) = %v, want %v", u, b, want)
	}
	if got := iputil.ToInt(want); got != v {
		return true, fmt.Errorf("ToInt(%v) = %#x, want %#x", want, uint32(got), u)
	}
	text := net.IP(want).String()
	if got := iputil.ToStringInt(v); got != text {
		return true, fmt.Errorf("ToStringInt(%#x) = %q, net.IP gives %q", u, got, text)
	}
	if u&0xff == u>>24 { // the two aliases of ToStringInt: on the 2^24 addresses a.b.c.a (cost of the 2^32 sweep)
		if got := iputil.ToStringFrInt(v); got != text {
			return true, fmt.Errorf("ToStringFrInt(%#x) = %q, net.IP gives %q", u, got, text)
		}
		if got := iputil.ToString(want); got != text {
			return true, fmt.Errorf("ToString(%v) = %q, net.IP gives %q", want, got, text)
		}
	}
	back := iputil.ToBytes(text)
	if len(back) != 4 || back[0] != want[0] || back[1] != want[1] || back[2] != want[2] || back[3] != want[3] {
		return true, fmt.Errorf("ToBytes(ToString(%v)) = ToBytes(%q) = %v", want, text, back)
	}
	return true, nil
}

var sweepIP = pbt.RegisterSweep(pbt.Sweep{Prop: "C15", Name: "iputil-all-addresses",
	Rule: "all 2^32 IPv4 addresses (thorough tier): ToBytesFrInt big-endian, ToInt inverse, ToStringInt == net.IP.String(), ToBytes(that text) == b; the aliases ToStringFrInt(i) and ToString(bytes) on the 2^24 addresses a.b.c.a",
	N:    1 << 32, Run: checkIP, Show: func(i uint64) interface{} { return net.IP(binary.BigEndian.AppendUint32(nil, uint32(i))).String() }})

// quick tier: 2^20 addresses spread by an odd multiplier, then every a.b.0.0 and a.b.255.255
func ipQuick(i uint64) uint64 {
	switch {
	case i < 1<<20:
		return uint64(uint32(i) * 0x9E3779B1)
	case i < 1<<20+1<<16:
		return (i - 1<<20) << 16
	}
	return (i-1<<20-1<<16)<<16 | 0xffff
}

var sweepIPq = pbt.RegisterSweep(pbt.Sweep{Prop: "C15", Name: "iputil-sampled-addresses",
	Rule: "quick-tier stand-in: 2^20 addresses i*0x9E3779B1 mod 2^32 plus every a.b.0.0 and a.b.255.255 (2 x 65536 edges); same checks",
	N:    1<<20 + 2<<16, Run: func(i uint64) (bool, error) { return checkIP(ipQuick(i)) },
	Show: func(i uint64) interface{} {
		return net.IP(binary.BigEndian.AppendUint32(nil, uint32(ipQuick(i)))).String()
	}})

// sweepWorkers: goroutines per shard process so that shards x workers is about the number of CPUs.
func sweepWorkers() int {
	_, n := pbt.Shard()
	w := runtime.NumCPU() / n
	if w < 1 {
		w = 1
	}
	return w
}

func TestIPUtil(t *testing.T) {
	if pbt.Thorough() {
		sweepIP.Check(t, sweepWorkers())
	} else {
		sweepIPq.Check(t, 4)
	}
}

// ---- iputil: what a call returns belongs to the caller -------------------------------------------------
// The conversions are pure functions: the same argument gives the same result whatever earlier callers did with the
// slices they were handed (a caller may keep, overwrite or append to its result: packs store these slices as they are).

type IPOwnCase struct {
	Calls []string `json:"calls"` // texts passed to ToBytes ("#<n>" = ToBytesFrInt(n)), in order; every result is scribbled over after it was judged
}

var ipTexts = []string{"", "0.0.0.0", "0.0.0.1", "255.255.255.255", "127.0.0.1", "10.20.30.40", "1.2.3", "1.2.3.4.5", "a.b.c.d", "x", " ", "::1", "1..2.3", "256.1.1.1", "-1.0.0.0", "#0", "#1", "#-1", "#2130706433"}

var specIPOwn = pbt.Register(pbt.Spec[IPOwnCase]{
	Prop: "C15", Name: "iputil-results-belong-to-caller",
	Rule:  "2-12 calls of ToBytes (dotted quads incl. 0.0.0.0, empty and malformed texts) and ToBytesFrInt in generated order with repeats; every returned slice is overwritten by the caller after it was judged; oracle = a dotted quad gives its four bytes (net.ParseIP), and every argument gives, on every later call, exactly what it gave on its first call in a fresh state (pure function); non-trivial = some argument occurs twice; distinct by call sequence",
	Quick: 3000, Thorough: 100000,
	Draw: func(t *rapid.T) IPOwnCase {
		return IPOwnCase{Calls: rapid.SliceOfN(rapid.OneOf(rapid.SampledFrom(ipTexts), rapid.SampledFrom(ipTexts), rapid.Custom(func(t *rapid.T) string {
			return net.IP(binary.BigEndian.AppendUint32(nil, rapid.Uint32().Draw(t, "ip"))).String()
		})), 2, 12).Draw(t, "calls")}
	},
	Run: func(c IPOwnCase) *pbt.Result {
		first := map[string][]byte{}
		repeat := false
		for i, a := range c.Calls {
			var got []byte
			if strings.HasPrefix(a, "#") {
				n, _ := strconv.ParseInt(a[1:], 10, 64)
				got = iputil.ToBytesFrInt(int32(n))
				want := binary.BigEndian.AppendUint32(nil, uint32(int32(n)))
				if !bytes.Equal(got, want) {
					return pbt.Fail("call %d: ToBytesFrInt(%d) = %v, want %v (earlier results of this history were overwritten by their callers)", i, n, got, want)
				}
			} else {
				got = iputil.ToBytes(a)
				if ip := net.ParseIP(a); ip != nil && ip.To4() != nil && strings.Count(a, ".") == 3 && !strings.Contains(a, ":") {
					if !bytes.Equal(got, []byte(ip.To4())) {
						return pbt.Fail("call %d: ToBytes(%q) = %v, want %v (earlier results of this history were overwritten by their callers)", i, a, got, []byte(ip.To4()))
					}
				}
			}
			if f, seen := first[a]; seen {
				repeat = true
				if !bytes.Equal(f, got) || (f == nil) != (got == nil) {
					return pbt.Fail("call %d: the argument %q gave %v on its first call and gives %v now; in between the callers overwrote the slices they had been handed", i, a, f, got)
				}
			} else if got == nil {
				first[a] = nil
			} else {
				first[a] = append([]byte{}, got...)
			}
			for k := range got {
				got[k] = 0xA5
			}
			if cap(got) > len(got) {
				_ = append(got, 0x5A, 0x5A, 0x5A, 0x5A)
			}
		}
		return &pbt.Result{NT: repeat}
	},
})

func TestIPResultsBelongToCaller(t *testing.T) { specIPOwn.Check(t) }
