// Package gpack builds golib packs of every type from a choice stream
// (constructor + reflective fill + per-type fix-ups that encode the
// documented preconditions only) and provides the canonical form used to
// compare a pack with its decoded copy.
package gpack

import (
	"container/list"
	"fmt"
	"math"
	"reflect"
	"sort"
	"strconv"
	"strings"
	"sync"

	"github.com/whatap/golib/lang"
	"github.com/whatap/golib/lang/pack"
	"github.com/whatap/golib/lang/service"
	"github.com/whatap/golib/lang/value"
	"github.com/whatap/golib/util/hmap"
	wlist "github.com/whatap/golib/util/list"
	"verif/gen"
	"verif/gval"
	"verif/pbt"
	"verif/ref"
	"verif/rfl"
)

// Case is the JSON-serialisable description of one generated pack.
type Case struct {
	Type   string   `json:"type"`
	Seed   uint64   `json:"seed"`
	Len    int      `json:"len"`
	Prefix []uint64 `json:"prefix,omitempty"`
}

func (c Case) Stream() *rfl.Stream { return rfl.NewStream(c.Prefix, c.Seed, c.Len) }

// Spec describes one pack type.
type Spec struct {
	Name       string
	Code       int16
	Registered bool                                     // CreatePack(Code) yields this type (decodable through ToPack)
	New        func() pack.Pack                         // fresh instance for decoding unregistered types
	Build      func(s *rfl.Stream, depth int) pack.Pack // generated instance
	Ignore     []string                                 // canonical paths the wire format does not carry
	Normalize  func(p pack.Pack)                        // documented decode-side normalisation applied to the original before comparing
	NoHeader   bool                                     // the type does not write the common header
}

var skipTypes = map[reflect.Type]bool{
	reflect.TypeOf((*value.MapValue)(nil)):          true,
	reflect.TypeOf((*value.IntMapValue)(nil)):       true,
	reflect.TypeOf((*hmap.IntIntMap)(nil)):          true,
	reflect.TypeOf((*hmap.IntKeyMap)(nil)):          true,
	reflect.TypeOf((*hmap.IntIntLinkedMap)(nil)):    true,
	reflect.TypeOf((*hmap.IntKeyLinkedMap)(nil)):    true,
	reflect.TypeOf((*hmap.LinkedMap)(nil)):          true,
	reflect.TypeOf((*hmap.StringIntLinkedMap)(nil)): true,
	reflect.TypeOf((*hmap.StringKeyLinkedMap)(nil)): true,
	reflect.TypeOf((*service.TxRecord)(nil)):        true,
}

func opts(skipFields ...string) *rfl.Opts {
	o := &rfl.Opts{Unexported: true, MaxSlice: 4, SkipTypes: skipTypes, SkipFields: map[string]bool{}, Int3Fields: map[string]bool{"ServerInfoPack.Version": true}}
	for _, f := range skipFields {
		o.SkipFields[f] = true
	}
	return o
}

// header fills the common header: both forms (kind|node zero / non-zero), pcode in every decimal class.
func header(p pack.Pack, s *rfl.Stream) {
	p.SetPCODE(s.Int64())
	p.SetOID(int32(s.Int64()))
	p.SetTime(s.Int64())
	switch s.Intn(3) {
	case 0:
		p.SetOKIND(0)
		p.SetONODE(0)
	case 1:
		p.SetOKIND(int32(s.Int64()))
		p.SetONODE(int32(s.Int64()))
	default:
		if s.Bool() {
			p.SetOKIND(int32(s.Int64()))
			p.SetONODE(0)
		} else {
			p.SetOKIND(0)
			p.SetONODE(int32(s.Int64()))
		}
	}
}

// ---- small value generators from the stream -------------------------------------

var keyAlphabet = []string{"a", "b", "name", "", "k1", "가", "oid", "x=y", "key with space", "\xff\x00"}

func sKey(s *rfl.Stream, i int) string {
	k := keyAlphabet[s.Intn(len(keyAlphabet))]
	if s.Intn(3) == 0 {
		k = fmt.Sprintf("%s%d", k, i)
	}
	return k
}

// SValue draws a small tagged value.
func SValue(s *rfl.Stream, depth int) *ref.V {
	types := ref.AllTypes
	if depth <= 0 {
		types = []byte{ref.TNull, ref.TBool, ref.TDecimal, ref.TInt, ref.TLong, ref.TFloat, ref.TDouble, ref.TText, ref.TTextHash, ref.TBlob, ref.TIP4, ref.TDSum, ref.TLSum}
	}
	t := types[s.Intn(len(types))]
	if s.Exhausted() {
		t = ref.TNull
	}
	v := &ref.V{T: t}
	switch t {
	case ref.TBool:
		v.I = int64(s.Intn(2))
	case ref.TDecimal, ref.TLong:
		v.I = s.Int64()
	case ref.TInt, ref.TTextHash:
		v.I = int64(int32(s.Int64()))
	case ref.TFloat:
		v.I = int64(f32bits(s.Float32()))
	case ref.TDouble:
		v.I = int64(f64bits(s.Float64()))
	case ref.TDSum:
		v.N = []int64{int64(f64bits(s.Float64())), int64(int32(s.Int64())), int64(f64bits(s.Float64())), int64(f64bits(s.Float64()))}
	case ref.TLSum:
		v.N = []int64{s.Int64(), int64(int32(s.Int64())), s.Int64(), s.Int64()}
	case ref.TText:
		v.S = hexs([]byte(s.String()))
	case ref.TBlob:
		v.S = hexs(s.Bytes())
	case ref.TIP4:
		x := s.Next()
		v.S = hexs([]byte{byte(x), byte(x >> 8), byte(x >> 16), byte(x >> 24)})
	case ref.TList:
		n := s.LenSmall(4)
		for i := 0; i < n; i++ {
			v.L = append(v.L, SValue(s, depth-1))
		}
	case ref.TIntArr, ref.TLongArr, ref.TFloatArr:
		n := s.LenSmall(5)
		for i := 0; i < n; i++ {
			switch t {
			case ref.TIntArr:
				v.N = append(v.N, int64(int32(s.Int64())))
			case ref.TLongArr:
				v.N = append(v.N, s.Int64())
			default:
				v.N = append(v.N, int64(f32bits(s.Float32())))
			}
		}
	case ref.TTextArr:
		n := s.LenSmall(4)
		for i := 0; i < n; i++ {
			v.TA = append(v.TA, hexs([]byte(s.String())))
		}
	case ref.TMap:
		return SMap(s, depth-1)
	case ref.TIntMap:
		return SIntMap(s, depth-1)
	}
	return v
}

// SMap draws a string-keyed map value with distinct keys.
func SMap(s *rfl.Stream, depth int) *ref.V {
	v := &ref.V{T: ref.TMap}
	n := s.LenSmall(5)
	seen := map[string]bool{}
	for i := 0; i < n; i++ {
		k := sKey(s, i)
		if seen[k] {
			continue
		}
		seen[k] = true
		v.K = append(v.K, hexs([]byte(k)))
		v.L = append(v.L, SValue(s, depth))
	}
	return v
}

// SIntMap draws an int-keyed map value with distinct keys.
func SIntMap(s *rfl.Stream, depth int) *ref.V {
	v := &ref.V{T: ref.TIntMap}
	n := s.LenSmall(5)
	seen := map[int32]bool{}
	for i := 0; i < n; i++ {
		k := int32(s.Int64())
		if s.Bool() {
			k = int32(s.Intn(5))*101 - 101
		}
		if seen[k] {
			continue
		}
		seen[k] = true
		v.KI = append(v.KI, k)
		v.L = append(v.L, SValue(s, depth))
	}
	return v
}

func mapValue(s *rfl.Stream) *value.MapValue {
	return gval.ToGolib(SMap(s, 2)).(*value.MapValue)
}
func intMapValue(s *rfl.Stream) *value.IntMapValue {
	return gval.ToGolib(SIntMap(s, 2)).(*value.IntMapValue)
}

// ---- enumeration helper ------------------------------------------------------------

type sliceEnum struct {
	items []interface{}
	i     int
}

func (e *sliceEnum) HasMoreElements() bool { return e.i < len(e.items) }
func (e *sliceEnum) NextElement() interface{} {
	x := e.items[e.i]
	e.i++
	return x
}

func timeCountMap(s *rfl.Stream) *hmap.IntKeyMap {
	if s.Intn(3) == 0 {
		return nil
	}
	n := s.LenSmall(4)
	if !largeRecords && s.Intn(30) == 1 {
		n = []int{999, 1000, 1001, 1001 + s.Intn(1200)}[s.Intn(4)] // the per-record tables have no entry limit on the wire
	}
	m := hmap.NewIntKeyMap(n+1, 1)
	for i := 0; i < n; i++ {
		m.Put(int32(s.Int64())+int32(i), pack.NewTimeCount(int32(s.Int64()), int32(s.Int64()), s.Int64()))
	}
	return m
}

// Records of the record-list packs.
// largeRecords switches the record-list builders to counts around the 16-bit boundary of the record counter.
var largeRecords bool

// recN is the number of records of a record-list pack.
func recN(s *rfl.Stream, small int) int {
	if !largeRecords {
		return s.LenSmall(small)
	}
	return []int{32767, 32768, 32769 + s.Intn(30000), 65535}[s.Intn(4)]
}

// distinctN: large lists repeat 8 distinct records (filling 65535 records reflectively would dominate the run).
func distinctN(n int) int {
	if n > 8 {
		return 8
	}
	return n
}

func ServiceRecs(s *rfl.Stream) []*pack.ServiceRec {
	n := recN(s, 4)
	out := make([]*pack.ServiceRec, n)
	for i := range out {
		if i >= distinctN(n) {
			out[i] = out[i%8]
			continue
		}
		r := pack.NewServiceRec()
		rfl.Fill(r, s, opts())
		r.SqlMap = timeCountMap(s)
		r.HttpcMap = timeCountMap(s)
		out[i] = r
	}
	return out
}

func TransactionRecs(s *rfl.Stream) []*pack.TransactionRec {
	n := recN(s, 4)
	out := make([]*pack.TransactionRec, n)
	for i := range out {
		if i >= distinctN(n) {
			out[i] = out[i%8]
			continue
		}
		r := pack.NewTransactionRec()
		rfl.Fill(r, s, opts())
		r.SqlMap = timeCountMap(s)
		r.HttpcMap = timeCountMap(s)
		out[i] = r
	}
	return out
}

func toIfaces[T any](xs []*T) []interface{} {
	out := make([]interface{}, len(xs))
	for i, x := range xs {
		out[i] = x
	}
	return out
}

func toList[T any](xs []*T) *list.List {
	l := list.New()
	for _, x := range xs {
		l.PushBack(x)
	}
	return l
}

// ---- TxRecord ------------------------------------------------------------------------

// TxRecord draws a transaction record with every combination of the optional groups.
func TxRecord(s *rfl.Stream) *service.TxRecord {
	r := service.NewTxRecord()
	rfl.Fill(r, s, opts())
	switch s.Intn(4) {
	case 0:
		r.Fields = nil
	case 1:
		r.Fields = value.NewMapValue()
	default:
		r.Fields = mapValue(s)
	}
	if s.Intn(40) == 0 {
		// the number of custom fields travels in one byte: up to 255 of them
		r.Fields = value.NewMapValue()
		n := []int{253, 254, 255}[s.Intn(3)]
		for i := 0; i < n; i++ {
			r.Fields.PutLong("f"+strconv.Itoa(i), int64(i))
		}
	}
	if s.Intn(3) == 0 {
		r.Mtid = 0
	}
	if s.Intn(3) == 0 {
		r.McallerPcode = 0
	}
	return r
}

// NormalizeTxRecord applies the decode-side rules the format documents: groups
// whose presence condition did not hold are absent (zero), ErrorLevel defaults
// to WARNING when an error is set, an empty Fields map is not carried.
func NormalizeTxRecord(r *service.TxRecord) {
	if r.Mtid == 0 {
		r.Mdepth, r.Mcaller = 0, 0
	}
	if r.McallerPcode == 0 {
		r.McallerOkind, r.McallerOid, r.McallerSpec, r.McallerUrl, r.MthisSpec = 0, 0, 0, 0, 0
	}
	if r.ErrorLevel == 0 && r.Error != 0 {
		r.ErrorLevel = service.WARNING
	}
	if r.Fields != nil && r.Fields.Size() == 0 {
		r.Fields = nil
	}
}

// ---- the pack types -------------------------------------------------------------------

func meterMap(s *rfl.Stream, kind int) *hmap.IntKeyLinkedMap {
	if s.Intn(3) == 0 {
		return nil
	}
	m := hmap.NewIntKeyLinkedMapDefault()
	n := s.LenSmall(4)
	for i := 0; i < n; i++ {
		k := int32(s.Int64())
		switch kind {
		case 0:
			x := pack.NewTxMeter()
			x.Time, x.Count, x.Error, x.Actx = s.Int64(), int32(s.Int64()), int32(s.Int64()), int32(s.Int64())
			m.Put(k, x)
		case 1:
			x := pack.NewSqlMeter()
			x.Time, x.Count, x.Error, x.Actx = s.Int64(), int32(s.Int64()), int32(s.Int64()), int32(s.Int64())
			x.FetchCount, x.FetchTime = s.Int64(), s.Int64()
			m.Put(k, x)
		default:
			x := pack.NewHttpcMeter()
			x.Time, x.Count, x.Error, x.Actx = s.Int64(), int32(s.Int64()), int32(s.Int64()), int32(s.Int64())
			m.Put(k, x)
		}
	}
	return m
}

func intIntMap(s *rfl.Stream) *hmap.IntIntMap {
	m := hmap.NewIntIntMapDefault()
	n := s.LenSmall(5)
	for i := 0; i < n; i++ {
		k := int32(s.Int64())
		if s.Intn(3) == 0 {
			k = int32(s.Intn(4))*101 + 1 // keys sharing a bucket of the 101-bucket table
		}
		m.Put(k, int32(s.Int64()))
	}
	return m
}

func anyList(s *rfl.Stream, n int) wlist.AnyList {
	switch s.Intn(5) {
	case 0:
		l := wlist.NewIntListDefault()
		for i := 0; i < n; i++ {
			l.AddInt(int(s.Int64()))
		}
		return l
	case 1:
		l := wlist.NewLongListDefault()
		for i := 0; i < n; i++ {
			l.AddLong(s.Int64())
		}
		return l
	case 2:
		l := wlist.NewFloatListDefault()
		for i := 0; i < n; i++ {
			l.AddFloat(s.Float32())
		}
		return l
	case 3:
		l := wlist.NewDoubleListDefault()
		for i := 0; i < n; i++ {
			l.AddDouble(s.Float64())
		}
		return l
	}
	l := wlist.NewStringListDefault()
	for i := 0; i < n; i++ {
		l.AddString(s.String())
	}
	return l
}

// registeredInner lists the types usable as inner packs of container packs (decoded through ReadPack).
var registeredInner = []string{"ParamPack", "TextPack", "LogSinkPack", "TagCountPack", "ActiveStackPack", "HitMapPack1", "EventPack", "RealtimeUserPack", "StatSqlPack", "ZipPack"}

func innerPacks(s *rfl.Stream, depth int, onlyLogSink bool) []pack.Pack {
	n := s.LenSmall(4)
	var out []pack.Pack
	if largeRecords && depth == 0 {
		// tens of thousands of inner packs: 8 distinct small text packs, repeated
		n = recN(s, 4)
		for i := 0; i < n; i++ {
			if i >= 8 {
				out = append(out, out[i%8])
				continue
			}
			tp := pack.NewTextPack()
			header(tp, s)
			tp.AddText(pack.TextRec{Div: byte(i), Hash: int32(s.Int64()), Text: s.String()})
			out = append(out, tp)
		}
		return out
	}
	for i := 0; i < n; i++ {
		name := "LogSinkPack"
		if !onlyLogSink {
			name = registeredInner[s.Intn(len(registeredInner))]
			if depth >= 1 && (name == "ZipPack") {
				name = "TextPack"
			}
		}
		out = append(out, ByName[name].Build(s, depth+1))
	}
	return out
}

// Aux remembers what a container / record-list pack was built from, so that the
// check can compare GetRecords() with the originals instead of with itself.
type AuxInfo struct {
	Inner              []pack.Pack   // inner packs of Zip / LogSinkZip / Composite
	Raw                []byte        // concatenated inner encodings (LogSinkZip)
	ZipMin             int           // threshold handed to SetRecords (LogSinkZip)
	Records            []interface{} // records of record-list packs
	Version            byte          // record layout version (StatTransactionPack*)
	ViaSetRecordsArray bool
	// Count: the value of the pack's RecordCount field when CountSet. The field is carried next to the record blob (which
	// has its own 16-bit counter); one record-list pack in six is given a RecordCount that differs from the number of
	// records in the blob (a sender that merged or filtered after SetRecords, a foreign agent): the field survives as it
	// is, and the records are those of the blob (seed C03-s24)
	Count    int
	CountSet bool
}

func skewCount(p pack.Pack, s *rfl.Stream, a *AuxInfo) *AuxInfo {
	if s.Intn(6) != 0 {
		return a
	}
	n := len(a.Records)
	v := []int{1, n/2 + 1, n + 3, n - 1, 70000, 2}[s.Intn(6)]
	if v == n || v < 0 {
		v = n + 1
	}
	f := reflect.ValueOf(p).Elem().FieldByName("RecordCount")
	if !f.IsValid() || !f.CanSet() {
		return a
	}
	f.SetInt(int64(v))
	a.Count, a.CountSet = v, true
	return a
}

var (
	auxMu sync.Mutex
	auxOf = map[pack.Pack]*AuxInfo{}
)

func setAux(p pack.Pack, a *AuxInfo) {
	auxMu.Lock()
	auxOf[p] = a
	auxMu.Unlock()
}

// Aux returns what p was built from (nil if nothing was recorded).
func Aux(p pack.Pack) *AuxInfo {
	auxMu.Lock()
	defer auxMu.Unlock()
	return auxOf[p]
}

// ResetAux forgets all recorded build information (call at the start of a case).
func ResetAux() {
	auxMu.Lock()
	auxOf = map[pack.Pack]*AuxInfo{}
	auxMu.Unlock()
}

// Specs lists every pack type with a write/read pair.
var Specs []*Spec

// ByName indexes Specs.
var ByName = map[string]*Spec{}

func add(sp *Spec) {
	Specs = append(Specs, sp)
	ByName[sp.Name] = sp
}

func simple(name string, code int16, registered bool, mk func() pack.Pack, fix func(p pack.Pack, s *rfl.Stream, depth int), ignore []string, skipFields ...string) {
	add(&Spec{Name: name, Code: code, Registered: registered, New: mk, Ignore: ignore,
		Build: func(s *rfl.Stream, depth int) pack.Pack {
			p := mk()
			rfl.Fill(p, s, opts(skipFields...))
			header(p, s)
			if fix != nil {
				fix(p, s, depth)
			}
			return p
		}})
}

func init() {
	simple("ParamPack", pack.PACK_PARAMETER, true, func() pack.Pack { return pack.NewParamPack() },
		func(p pack.Pack, s *rfl.Stream, _ int) {
			pp := p.(*pack.ParamPack)
			m := SMap(s, 2)
			for i, k := range m.K {
				pp.Put(string(unhexs(k)), gval.ToGolib(m.L[i]))
			}
		}, nil)

	simple("CounterPack1", pack.PACK_COUNTER_1, true, func() pack.Pack { return pack.NewCounterPack1() },
		func(p pack.Pack, s *rfl.Stream, _ int) {
			c := p.(*pack.CounterPack1)
			switch s.Intn(6) {
			case 0, 1, 2:
				c.DbNumActive, c.DbNumIdle = intIntMap(s), intIntMap(s)
			case 3:
				c.DbNumActive, c.DbNumIdle = nil, nil
			case 4: // only one of the two: the section is absent (it is written when both are set)
				c.DbNumActive, c.DbNumIdle = intIntMap(s), nil
			default:
				c.DbNumActive, c.DbNumIdle = nil, intIntMap(s)
			}
			if s.Intn(3) == 0 {
				c.Extra = nil
			} else {
				c.Extra = intMapValue(s)
			}
			c.TxcallerOidMeter = meterMap(s, 0)
			c.SqlMeter = meterMap(s, 1)
			c.HttpcMeter = meterMap(s, 2)
			if s.Intn(3) == 0 {
				c.TxcallerGroupMeter = nil
			} else {
				c.TxcallerGroupMeter = hmap.NewLinkedMapDefault()
				n := s.LenSmall(3)
				for i := 0; i < n; i++ {
					x := pack.NewTxMeter()
					x.Time, x.Count, x.Error, x.Actx = s.Int64(), int32(s.Int64()), int32(s.Int64()), int32(s.Int64())
					c.TxcallerGroupMeter.Put(lang.NewPKIND(s.Int64(), int32(s.Int64())), x)
				}
			}
			// F13 (open known finding): a non-empty TxcallerPOidMeter is written without the per-entry
			// active-count array the reader expects. While it is open the map stays nil/empty.
			c.TxcallerPOidMeter = nil
			if !pbt.KnownOpen("F13") {
				if s.Intn(3) != 0 {
					c.TxcallerPOidMeter = hmap.NewLinkedMapDefault()
					n := s.LenSmall(3)
					for i := 0; i < n; i++ {
						x := pack.NewTxMeter()
						x.Time, x.Count, x.Error, x.Actx = s.Int64(), int32(s.Int64()), int32(s.Int64()), int32(s.Int64())
						c.TxcallerPOidMeter.Put(lang.NewPOID(s.Int64(), int32(s.Int64())), x)
					}
				}
			} else if s.Intn(3) == 0 {
				c.TxcallerPOidMeter = hmap.NewLinkedMapDefault()
			}
			if c.TxcallerUnknown != nil {
				c.TxcallerUnknown.Acts = nil
			}
		}, []string{"ActiveStatKeys", "CollectIntervalMs", "TxcallerUnknown.Acts"})
	ByName["CounterPack1"].Normalize = func(p pack.Pack) {
		// the DB-pool section is written when both maps are set; with only one of them the pack travels without it
		if c := p.(*pack.CounterPack1); c.DbNumActive == nil || c.DbNumIdle == nil {
			c.DbNumActive, c.DbNumIdle = nil, nil
		}
	}

	add(&Spec{Name: "ProfilePack", Code: pack.PACK_PROFILE, Registered: true, New: func() pack.Pack { return pack.NewProfilePack() },
		Build: func(s *rfl.Stream, depth int) pack.Pack {
			p := pack.NewProfilePack()
			header(p, s)
			p.Transaction = TxRecord(s)
			p.Steps = s.Bytes()
			return p
		},
		Normalize: func(p pack.Pack) { NormalizeTxRecord(p.(*pack.ProfilePack).Transaction) }})

	simple("ActiveStackPack", pack.PACK_ACTIVESTACK_1, true, func() pack.Pack { return pack.NewActiveStackPack() }, nil, nil)

	simple("TextPack", pack.PACK_TEXT, true, func() pack.Pack { return pack.NewTextPack() },
		func(p pack.Pack, s *rfl.Stream, _ int) {
			tp := p.(*pack.TextPack)
			n := s.LenSmall(5)
			for i := 0; i < n; i++ {
				r := pack.TextRec{Div: byte(s.Int64()), Hash: int32(s.Int64()), Text: s.String()}
				if s.Intn(4) == 0 {
					// the hash field is whatever the sending agent computed: the same (div, hash) can come with another text
					r.Div, r.Hash = 1, 777
				}
				tp.AddText(r)
			}
		}, nil, "TextPack.records")

	simple("ErrorSnapPack1", pack.PACK_ERROR_SNAP_1, true, func() pack.Pack { return pack.NewErrorSnapPack1() }, nil, nil)
	simple("RealtimeUserPack", pack.PACK_REALTIME_USER, true, func() pack.Pack { return pack.NewRealtimeUserPack() }, nil, nil)

	simple("StatServicePack", pack.PACK_STAT_SERVICE, true, func() pack.Pack { return pack.NewStatServicePack() },
		func(p pack.Pack, s *rfl.Stream, _ int) {
			sp := p.(*pack.StatServicePack)
			if !largeRecords && s.Intn(4) == 0 {
				sp.Records, sp.RecordCount = nil, 0
				return
			}
			recs := ServiceRecs(s)
			sp.SetRecords(len(recs), &sliceEnum{items: toIfaces(recs)})
			setAux(p, skewCount(p, s, &AuxInfo{Records: toIfaces(recs)}))
		}, nil, "StatServicePack.Records", "StatServicePack.RecordCount")

	add(&Spec{Name: "StatGeneralPack", Code: pack.PACK_STAT_GENERAL, Registered: true, New: func() pack.Pack { return pack.NewStatGeneralPack() },
		Build:  func(s *rfl.Stream, depth int) pack.Pack { return buildGeneral(pack.NewStatGeneralPack(), s) },
		Ignore: []string{"dataBytes", "dataBytesSize", "lock", "DataStartTime"}}) // DataStartTime is carried by type 0x0911 only
	add(&Spec{Name: "StatGeneralPack1", Code: pack.PACK_STAT_GENERAL_1, Registered: false, New: func() pack.Pack { return pack.NewStatGeneralPackType(pack.PACK_STAT_GENERAL_1) },
		Build: func(s *rfl.Stream, depth int) pack.Pack {
			return buildGeneral(pack.NewStatGeneralPackType(pack.PACK_STAT_GENERAL_1), s)
		},
		Ignore: []string{"dataBytes", "dataBytesSize", "lock"}})

	simple("StatSqlPack", pack.PACK_STAT_SQL, true, func() pack.Pack { return pack.NewStatSqlPack() },
		func(p pack.Pack, s *rfl.Stream, _ int) {
			sp := p.(*pack.StatSqlPack)
			if !largeRecords && s.Intn(5) == 0 {
				sp.Records, sp.RecordCount = nil, 0
				return
			}
			n := recN(s, 4)
			recs := make([]*pack.SqlRec, n)
			for i := range recs {
				if i >= distinctN(n) {
					recs[i] = recs[i%8]
					continue
				}
				recs[i] = pack.NewSqlRec()
				rfl.Fill(recs[i], s, opts())
			}
			if s.Bool() {
				sp.SetRecords(n, &sliceEnum{items: toIfaces(recs)})
			} else {
				sp.SetRecordsList(toList(recs))
			}
			setAux(p, skewCount(p, s, &AuxInfo{Records: toIfaces(recs)}))
		}, nil, "StatSqlPack.Records", "StatSqlPack.RecordCount")

	simple("StatHttpcPack", pack.PACK_STAT_HTTPC, true, func() pack.Pack { return pack.NewStatHttpcPack() },
		func(p pack.Pack, s *rfl.Stream, _ int) {
			sp := p.(*pack.StatHttpcPack)
			if !largeRecords && s.Intn(5) == 0 {
				sp.Records, sp.RecordCount = nil, 0
				return
			}
			n := recN(s, 4)
			recs := make([]*pack.HttpcRec, n)
			for i := range recs {
				if i >= distinctN(n) {
					recs[i] = recs[i%8]
					continue
				}
				recs[i] = pack.NewHttpcRec()
				rfl.Fill(recs[i], s, opts())
			}
			if s.Bool() {
				sp.SetRecords(n, &sliceEnum{items: toIfaces(recs)})
			} else {
				sp.SetRecordsList(toList(recs))
			}
			setAux(p, skewCount(p, s, &AuxInfo{Records: toIfaces(recs)}))
		}, nil, "StatHttpcPack.Records", "StatHttpcPack.RecordCount")

	simple("StatErrorPack", pack.PACK_STAT_ERROR, true, func() pack.Pack { return pack.NewStatErrorPack() },
		func(p pack.Pack, s *rfl.Stream, _ int) {
			sp := p.(*pack.StatErrorPack)
			n := recN(s, 4)
			recs := make([]*pack.ErrorRec, n)
			for i := range recs {
				if i >= distinctN(n) {
					recs[i] = recs[i%8]
					continue
				}
				recs[i] = pack.NewErrorRec()
				rfl.Fill(recs[i], s, opts())
			}
			arr := !s.Bool()
			if !arr {
				sp.SetRecords(n, &sliceEnum{items: toIfaces(recs)})
			} else {
				sp.SetRecordsArray(recs)
			}
			setAux(p, skewCount(p, s, &AuxInfo{Records: toIfaces(recs), ViaSetRecordsArray: arr}))
		}, nil, "StatErrorPack.Records", "StatErrorPack.RecordCount")

	simple("StatRemoteIpPack", pack.PACK_STAT_REMOTE_IP, true, func() pack.Pack { return pack.NewStatRemoteIpPack() },
		func(p pack.Pack, s *rfl.Stream, _ int) {
			sp := p.(*pack.StatRemoteIpPack)
			n := s.LenSmall(6)
			if s.Intn(40) == 1 {
				n = 200
			}
			for i := 0; i < n; i++ {
				sp.IpTable.Put(int32(s.Int64())+int32(i), int32(s.Int64()))
			}
		}, nil)
	simple("StatUserAgentPack", pack.PACK_STAT_USER_AGENT, true, func() pack.Pack { return pack.NewStatUserAgentPack() },
		func(p pack.Pack, s *rfl.Stream, _ int) {
			sp := p.(*pack.StatUserAgentPack)
			n := s.LenSmall(6)
			for i := 0; i < n; i++ {
				sp.UserAgents.Put(int32(s.Int64()), int32(s.Int64()))
			}
		}, nil)

	simple("EventPack", pack.PACK_EVENT, true, func() pack.Pack { return pack.NewEventPack() },
		func(p pack.Pack, s *rfl.Stream, _ int) {
			ep := p.(*pack.EventPack)
			n := s.LenSmall(5)
			if s.Intn(60) == 1 {
				n = 251 // 251 user attributes + 4 reserved = 255, the limit of the one-byte count
			}
			for i := 0; i < n; i++ {
				k := sKey(s, i)
				if n > 10 {
					k = fmt.Sprintf("attr%d", i)
				}
				if strings.HasPrefix(k, "_") {
					k = "u" + k
				}
				ep.Attr.Put(k, s.String())
			}
		}, nil)
	// the writer carries Uuid/Escalation/Status/Otype as four reserved attributes, which the reader removes again
	ByName["EventPack"].Ignore = []string{"Eid"} // no writer emits Eid
	ByName["EventPack"].Normalize = func(p pack.Pack) {
		ep := p.(*pack.EventPack)
		for _, k := range []string{pack.ESCALATION_KEY, pack.UUID_KEY, pack.STATUS_KEY, pack.OTYPE_KEY} {
			ep.Attr.Remove(k)
		}
	}

	simple("HitMapPack1", pack.PACK_HITMAP_1, true, func() pack.Pack { return pack.NewHitMapPack1() },
		func(p pack.Pack, s *rfl.Stream, _ int) {
			hp := p.(*pack.HitMapPack1)
			hp.Hit = make([]int32, pack.HITMAP_LENGTH)
			hp.Error = make([]int32, pack.HITMAP_LENGTH)
			for i := 0; i < pack.HITMAP_LENGTH; i++ {
				hp.Hit[i] = int32(s.Next() % 65536)
				hp.Error[i] = int32(s.Next() % 65536)
				if i%7 == 0 && !s.Exhausted() {
					hp.Hit[i] = []int32{0, 1, 32767, 32768, 65535}[s.Intn(5)]
				}
			}
		}, nil)

	simple("ExtensionPack", pack.PACK_EXTENSION, true, func() pack.Pack { return pack.NewExtensionPack() },
		func(p pack.Pack, s *rfl.Stream, _ int) {
			ep := p.(*pack.ExtensionPack)
			n := s.LenSmall(5)
			for i := 0; i < n; i++ {
				ep.Header.Put(sKey(s, i), int32(s.Int64()))
			}
			ep.Value = intMapValue(s)
		}, nil)

	tagFix := func(tags, data **value.MapValue) func(s *rfl.Stream) {
		return func(s *rfl.Stream) {
			*tags = mapValue(s)
			*data = mapValue(s)
		}
	}
	simple("TagCountPack", pack.TAG_COUNT, true, func() pack.Pack { return pack.NewTagCountPack() },
		func(p pack.Pack, s *rfl.Stream, _ int) {
			tp := p.(*pack.TagCountPack)
			tagFix(&tp.Tags, &tp.Data)(s)
			if s.Intn(3) != 0 {
				rfl.Field(tp, "tagHash").SetInt(0) // let Write compute it
			}
		}, nil)
	simple("TagLogPack", pack.TAG_LOG, true, func() pack.Pack { return pack.NewTagLogPack() },
		func(p pack.Pack, s *rfl.Stream, _ int) {
			tp := p.(*pack.TagLogPack)
			tagFix(&tp.Tags, &tp.Fields)(s)
			if s.Intn(3) != 0 {
				rfl.Field(tp, "tagHash").SetInt(0)
			}
		}, nil)

	add(&Spec{Name: "CompositePack", Code: pack.PACK_COMPOSITE, Registered: true, New: func() pack.Pack { return pack.NewCompositePack() },
		Build: func(s *rfl.Stream, depth int) pack.Pack {
			p := pack.NewCompositePack()
			header(p, s)
			inner := innerPacks(s, depth, false)
			rfl.Field(p, "pack").Set(reflect.ValueOf(inner))
			setAux(p, &AuxInfo{Inner: inner})
			return p
		}})

	simple("LogSinkPack", pack.PACK_LOGSINK, true, func() pack.Pack { return pack.NewLogSinkPack() },
		func(p pack.Pack, s *rfl.Stream, _ int) {
			lp := p.(*pack.LogSinkPack)
			lp.Tags = mapValue(s)
			switch s.Intn(4) {
			case 0:
				lp.Fields = nil
			case 1:
				lp.Fields = value.NewMapValue()
			default:
				lp.Fields = mapValue(s)
			}
			if s.Intn(3) != 0 {
				lp.TagHash = 0
			}
		}, nil)

	add(&Spec{Name: "ZipPack", Code: pack.PACK_ZIP, Registered: true, New: func() pack.Pack { return pack.NewZipPack() },
		Build: func(s *rfl.Stream, depth int) pack.Pack {
			p := pack.NewZipPack()
			header(p, s)
			p.Status = byte(s.Intn(3))
			if s.Intn(4) == 0 {
				p.Records, p.RecordCount = s.Bytes(), int(int32(s.Int64()))
			} else {
				inner := innerPacks(s, depth, false)
				p.SetRecords(inner)
				setAux(p, &AuxInfo{Inner: inner})
			}
			return p
		}})

	add(&Spec{Name: "LogSinkZipPack", Code: pack.PACK_LOGSINK_ZIP, Registered: true, New: func() pack.Pack { return pack.NewLogSinkZipPack() },
		Build: func(s *rfl.Stream, depth int) pack.Pack {
			p := pack.NewLogSinkZipPack()
			header(p, s)
			inner := innerPacks(s, depth, true)
			var raw []byte
			for _, ip := range inner {
				raw = append(raw, pack.ToBytesPack(ip)...)
			}
			p.RecordCount = len(inner)
			// threshold on both sides of the payload size
			zipMin := 0
			switch s.Intn(4) {
			case 0:
				zipMin = len(raw) + 1
			case 1:
				zipMin = len(raw)
			case 2:
				zipMin = len(raw) - 1
			default:
				zipMin = s.Intn(400)
			}
			if zipMin < 0 {
				zipMin = 0
			}
			p.SetRecords(raw, zipMin)
			setAux(p, &AuxInfo{Inner: inner, Raw: raw, ZipMin: zipMin})
			return p
		}})

	// large payloads: containers whose inner packs total 70 KB .. 2.5 MB (beyond 16-bit lengths, the 64 KiB
	// batch size and 1 MiB), compressed and uncompressed
	bigInner := func(s *rfl.Stream) []pack.Pack {
		total := []int{70000, 300000, 1200000, 2500000}[s.Intn(4)]
		n := 1 + s.Intn(3)
		var out []pack.Pack
		for i := 0; i < n; i++ {
			lp := ByName["LogSinkPack"].Build(s, 1).(*pack.LogSinkPack)
			b := make([]byte, total/n)
			seed := byte(s.Next())
			for j := range b {
				b[j] = seed + byte(j*31) + byte(j>>8)
			}
			lp.Content = string(b)
			out = append(out, lp)
		}
		return out
	}
	add(&Spec{Name: "LogSinkZipPack/large", Code: pack.PACK_LOGSINK_ZIP, Registered: true, New: func() pack.Pack { return pack.NewLogSinkZipPack() },
		Build: func(s *rfl.Stream, depth int) pack.Pack {
			p := pack.NewLogSinkZipPack()
			header(p, s)
			inner := bigInner(s)
			var raw []byte
			for _, ip := range inner {
				raw = append(raw, pack.ToBytesPack(ip)...)
			}
			p.RecordCount = len(inner)
			zipMin := 100
			if s.Intn(3) == 0 {
				zipMin = len(raw) + 1 // stays uncompressed
			}
			p.SetRecords(raw, zipMin)
			setAux(p, &AuxInfo{Inner: inner, Raw: raw, ZipMin: zipMin})
			return p
		}})
	add(&Spec{Name: "ZipPack/large", Code: pack.PACK_ZIP, Registered: true, New: func() pack.Pack { return pack.NewZipPack() },
		Build: func(s *rfl.Stream, depth int) pack.Pack {
			p := pack.NewZipPack()
			header(p, s)
			inner := bigInner(s)
			p.SetRecords(inner)
			setAux(p, &AuxInfo{Inner: inner})
			return p
		}})

	simple("ServerInfoPack", pack.PACK_SERVERINFO, true, func() pack.Pack { return pack.NewServerInfoPack() },
		func(p pack.Pack, s *rfl.Stream, _ int) {
			p.(*pack.ServerInfoPack).Attr = mapValue(s)
		}, []string{"AbstractPack", "Host"})
	ByName["ServerInfoPack"].NoHeader = true

	// ---- types not reachable through CreatePack (own Write/Read pair) ----
	simple("SMBasePack", pack.PACK_SM_BASE, false, func() pack.Pack { return pack.NewSMBasePack() },
		func(p pack.Pack, s *rfl.Stream, _ int) {
			bp := p.(*pack.SMBasePack)
			mkCpu := func(win bool) pack.Cpu {
				if win {
					c := &pack.CpuWindow{}
					rfl.Fill(c, s, opts())
					return c
				}
				c := &pack.CpuLinux{}
				rfl.Fill(c, s, opts())
				return c
			}
			bp.OS = []int16{pack.OS_LINUX, pack.OS_WINDOW, pack.OS_OSX, pack.OS_HPUX, pack.OS_AIX}[s.Intn(5)]
			win := bp.OS == pack.OS_WINDOW
			bp.Cpu = mkCpu(win)
			n := s.LenSmall(4)
			if s.Intn(50) == 1 {
				n = 255
			}
			bp.CpuCore = nil
			for i := 0; i < n; i++ {
				bp.CpuCore = append(bp.CpuCore, mkCpu(win))
			}
			if win {
				m := &pack.MemoryWindow{}
				rfl.Fill(m, s, opts())
				bp.Memory = m
			} else {
				m := &pack.MemoryLinux{}
				rfl.Fill(m, s, opts())
				bp.Memory = m
			}
			switch s.Intn(3) {
			case 0:
				bp.Extra = nil
			case 1:
				bp.Extra = value.NewMapValue()
			default:
				bp.Extra = mapValue(s)
			}
		}, nil)
	simple("SMDiskPerfPack", pack.PACK_SM_DISK_QUATA, false, func() pack.Pack { return pack.NewSMDiskPerfPack() }, nil, []string{"Count"})
	ByName["SMDiskPerfPack"].Ignore = nil
	simple("SMNetPerfPack", pack.PACK_SM_NET_PERF, false, func() pack.Pack { return pack.NewSMNetPerfPack() }, nil, nil)
	simple("SMProcPerfPack", pack.PACK_SM_PROC_PERF, false, func() pack.Pack { return pack.NewSMProcPerfPack() }, nil, nil)
	simple("SMTCPPerfPack", pack.PACK_SM_PORT_PERF, false, func() pack.Pack { return pack.NewSMTCPPerfPack() }, nil, nil)
	simple("SMLogEventPack", pack.PACK_SM_LOG_EVENT, false, func() pack.Pack { return pack.NewSMLogEventPack() },
		func(p pack.Pack, s *rfl.Stream, _ int) {
			lp := p.(*pack.SMLogEventPack)
			for i := range lp.LogEvent { // the writer dereferences Keyword and LogRule
				if lp.LogEvent[i].Keyword == nil {
					k := s.String()
					lp.LogEvent[i].Keyword = &k
				}
				if lp.LogEvent[i].LogRule == nil {
					k := s.String()
					lp.LogEvent[i].LogRule = &k
				}
			}
		}, nil)
	simple("SMPingPack", pack.PACK_SM_PING, false, func() pack.Pack { return pack.NewSMPingPack() }, nil, nil)
	simple("SMDownCheckPack", pack.PACK_SM_DOWN_CHECK, false, func() pack.Pack { return pack.NewSMDownCheckPack() },
		func(p pack.Pack, s *rfl.Stream, _ int) {
			dp := p.(*pack.SMDownCheckPack)
			n := recN(s, 4)
			recs := make([]*pack.DownCheckRec, n)
			for i := range recs {
				if i >= distinctN(n) {
					recs[i] = recs[i%8]
					continue
				}
				recs[i] = &pack.DownCheckRec{}
				rfl.Fill(recs[i], s, opts())
			}
			dp.SetRecords(recs)
			setAux(p, skewCount(p, s, &AuxInfo{Records: toIfaces(recs)}))
		}, nil, "SMDownCheckPack.Records", "SMDownCheckPack.RecordCount")
	simple("SMExtension", pack.PACK_SM_EXTENSION, false, func() pack.Pack { return pack.NewSMExtensionPack() },
		func(p pack.Pack, s *rfl.Stream, _ int) {
			ep := p.(*pack.SMExtension)
			ep.SetHeader(intMapValue(s))
			ep.SetValues(intMapValue(s))
			ep.SetMetaValues(intMapValue(s))
		}, nil)
	simple("ProfileStepSplitPack", pack.PACK_PROFILE_STEP_SPLIT, false, func() pack.Pack { return pack.NewProfileStepSplitPack() }, nil, nil)

	for _, v := range []struct {
		name string
		v1   bool
	}{{"StatTransactionPack", false}, {"StatTransactionPack1", true}} {
		v := v
		mk := func() pack.Pack {
			if v.v1 {
				return pack.NewStatTransactionPack1()
			}
			return pack.NewStatTransactionPack()
		}
		code := int16(pack.PACK_STAT_SERVICE)
		if v.v1 {
			code = pack.PACK_STAT_SERVICE_1
		}
		add(&Spec{Name: v.name, Code: code, Registered: false, New: mk, Ignore: []string{"Version"},
			Build: func(s *rfl.Stream, depth int) pack.Pack {
				p := mk()
				header(p, s)
				ver := byte(2 + s.Intn(3)) // record layouts 2, 3, 4
				recs := TransactionRecs(s)
				useList := s.Bool()
				switch tp := p.(type) {
				case *pack.StatTransactionPack:
					tp.Version = ver
					if useList {
						tp.SetRecordsList(toList(recs))
					} else {
						tp.SetRecords(len(recs), &sliceEnum{items: toIfaces(recs)})
					}
				case *pack.StatTransactionPack1:
					tp.Version = ver
					tp.Spec = int(int32(s.Int64()))
					if useList {
						tp.SetRecordsList(toList(recs))
					} else {
						tp.SetRecords(len(recs), &sliceEnum{items: toIfaces(recs)})
					}
				}
				setAux(p, skewCount(p, s, &AuxInfo{Records: toIfaces(recs), Version: ver}))
				return p
			}})
	}
}

func buildGeneral(p *pack.StatGeneralPack, s *rfl.Stream) pack.Pack {
	header(p, s)
	p.Id = s.String()
	p.DataStartTime = s.Int64()
	cols := s.LenSmall(4)
	rows := s.LenSmall(6)
	if largeRecords {
		cols, rows = recN(s, 4), 1
	}
	for i := 0; i < cols; i++ {
		p.Put(fmt.Sprintf("%s%d", sKey(s, i), i), anyList(s, rows))
	}
	return p
}

// ---- canonical form ------------------------------------------------------------------

var hmapPkg = reflect.TypeOf(hmap.IntIntMap{}).PkgPath()

type entryKV struct {
	key string
	kv  []rfl.KV
}

// Hook renders golib container types for comparison: value maps through their
// reference view, hmap structures through their public enumerations
// (insertion order for linked maps, sorted by key for unordered ones).
func Hook(path string, v reflect.Value, out *[]rfl.KV) bool {
	if v.Kind() != reflect.Ptr {
		return false
	}
	switch x := v.Interface().(type) {
	case *value.MapValue:
		if x == nil || x.Size() == 0 {
			*out = append(*out, rfl.KV{Path: path, Val: "map{}"})
			return true
		}
		return valueLeaf(path, x, out)
	case *value.IntMapValue:
		if x == nil {
			*out = append(*out, rfl.KV{Path: path, Val: "<nil>"})
			return true
		}
		return valueLeaf(path, x, out)
	case wlist.AnyList:
		return false
	}
	t := v.Type().Elem()
	if t.PkgPath() == hmapPkg && strings.HasSuffix(t.Name(), "Map") {
		if v.IsNil() {
			*out = append(*out, rfl.KV{Path: path + ".len", Val: "0"})
			return true
		}
		en := v.MethodByName("Entries").Call(nil)[0]
		var entries []entryKV
		for en.MethodByName("HasMoreElements").Call(nil)[0].Bool() {
			e := en.MethodByName("NextElement").Call(nil)[0].Elem()
			k := e.MethodByName("GetKey").Call(nil)[0]
			val := e.MethodByName("GetValue").Call(nil)[0]
			var kk []rfl.KV
			canonInto("", k, &kk)
			ks := fmt.Sprint(kk)
			var vv []rfl.KV
			canonInto("", val, &vv)
			entries = append(entries, entryKV{key: ks, kv: vv})
			if len(entries) > 1000000 {
				panic("enumeration does not terminate")
			}
		}
		if !strings.Contains(t.Name(), "Linked") {
			sort.SliceStable(entries, func(i, j int) bool { return entries[i].key < entries[j].key })
		}
		*out = append(*out, rfl.KV{Path: path + ".len", Val: fmt.Sprint(len(entries))})
		for i, e := range entries {
			*out = append(*out, rfl.KV{Path: fmt.Sprintf("%s#%d.key", path, i), Val: e.key})
			for _, kv := range e.kv {
				*out = append(*out, rfl.KV{Path: fmt.Sprintf("%s#%d.val%s", path, i, kv.Path), Val: kv.Val})
			}
		}
		return true
	}
	return false
}

func valueLeaf(path string, x value.Value, out *[]rfl.KV) bool {
	rv, err := gval.FromGolib(x)
	if err != nil {
		*out = append(*out, rfl.KV{Path: path, Val: "malformed value: " + err.Error()})
		return true
	}
	*out = append(*out, rfl.KV{Path: path, Val: "v:" + hexs(ref.ValueBytes(rv))})
	return true
}

func canonInto(path string, v reflect.Value, out *[]rfl.KV) {
	if v.Kind() == reflect.Interface && !v.IsNil() {
		v = v.Elem()
	}
	if v.IsValid() && v.CanInterface() {
		if al, ok := v.Interface().(wlist.AnyList); ok && al != nil {
			anyListLeaves(path, al, out)
			return
		}
		if val, ok := v.Interface().(value.Value); ok && val != nil {
			valueLeaf(path, val, out)
			return
		}
	}
	for _, kv := range rfl.Canon(v.Interface(), Hook) {
		p := kv.Path
		if p != "" && path != "" {
			p = path + "." + p
		} else if p == "" {
			p = path
		}
		*out = append(*out, rfl.KV{Path: p, Val: kv.Val})
	}
}

func anyListLeaves(path string, al wlist.AnyList, out *[]rfl.KV) {
	*out = append(*out, rfl.KV{Path: path + ".type", Val: fmt.Sprint(al.GetType())})
	*out = append(*out, rfl.KV{Path: path + ".len", Val: fmt.Sprint(al.Size())})
	for i := 0; i < al.Size(); i++ {
		var s string
		switch al.GetType() {
		case wlist.ANYLIST_INT:
			s = fmt.Sprint(al.GetInt(i))
		case wlist.ANYLIST_LONG:
			s = fmt.Sprint(al.GetLong(i))
		case wlist.ANYLIST_FLOAT:
			s = fmt.Sprintf("%#x", f32bits(al.GetFloat(i)))
		case wlist.ANYLIST_DOUBLE:
			s = fmt.Sprintf("%#x", f64bits(al.GetDouble(i)))
		default:
			s = "s:" + al.GetString(i)
		}
		*out = append(*out, rfl.KV{Path: fmt.Sprintf("%s[%d]", path, i), Val: s})
	}
}

// Canon renders a pack for comparison. StatGeneralPack is read through GetDataTable().
func Canon(p pack.Pack) []rfl.KV {
	if g, ok := p.(*pack.StatGeneralPack); ok {
		g.GetDataTable()
	}
	return rfl.Canon(p, Hook)
}

func hexs(b []byte) string     { return gen.Hex(b) }
func unhexs(s string) []byte   { return gen.UnHex(s) }
func f32bits(f float32) uint32 { return math.Float32bits(f) }
func f64bits(f float64) uint64 { return math.Float64bits(f) }

// Record-list packs with record counts around the boundaries of the 16-bit record counter.
var LargeRecordTypes = []string{"StatSqlPack", "StatHttpcPack", "StatErrorPack", "StatServicePack", "StatTransactionPack", "StatTransactionPack1", "SMDownCheckPack", "CompositePack", "StatGeneralPack"}

func init() {
	for _, name := range LargeRecordTypes {
		base := ByName[name]
		sp := *base
		sp.Name = name + "/large"
		sp.Build = func(s *rfl.Stream, depth int) pack.Pack {
			largeRecords = true
			defer func() { largeRecords = false }()
			return base.Build(s, depth)
		}
		add(&sp)
	}
}
