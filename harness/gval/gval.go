// Package gval bridges the reference value model (ref.V) and golib's value
// package: a builder that uses only public constructors, a "reference view"
// that walks a golib value through its public getters/enumerators, and the
// rapid generator of values shared by C02, C04, C20 and the pack checks.
package gval

import (
	"encoding/hex"
	"fmt"
	"math"

	"github.com/whatap/golib/lang/value"
	"pgregory.net/rapid"
	"verif/gen"
	"verif/ref"
)

func unhex(s string) []byte {
	b, err := hex.DecodeString(s)
	if err != nil {
		panic(err)
	}
	return b
}

// ToGolib builds the golib value for v using public constructors only.
func ToGolib(v *ref.V) value.Value {
	switch v.T {
	case ref.TNull:
		return value.NewNullValue()
	case ref.TBool:
		return value.NewBoolValue(v.I != 0)
	case ref.TDecimal:
		return value.NewDecimalValue(v.I)
	case ref.TInt:
		return value.NewIntValue(int32(v.I))
	case ref.TLong:
		return value.NewLongValue(v.I)
	case ref.TFloat:
		return value.NewFloatValue(math.Float32frombits(uint32(v.I)))
	case ref.TDouble:
		return value.NewDoubleValue(math.Float64frombits(uint64(v.I)))
	case ref.TDSum:
		s := value.NewDoubleSummary()
		s.Sum, s.Count, s.Min, s.Max = math.Float64frombits(uint64(v.N[0])), int32(v.N[1]), math.Float64frombits(uint64(v.N[2])), math.Float64frombits(uint64(v.N[3]))
		return s
	case ref.TLSum:
		s := value.NewLongSummary()
		s.Sum, s.Count, s.Min, s.Max = v.N[0], int32(v.N[1]), v.N[2], v.N[3]
		return s
	case ref.TText:
		return value.NewTextValue(string(unhex(v.S)))
	case ref.TTextHash:
		return value.NewTextHashValue(int32(v.I))
	case ref.TBlob:
		return value.NewBlobValue(unhex(v.S))
	case ref.TIP4:
		return value.NewIP4Value(unhex(v.S))
	case ref.TList:
		l := value.NewListValue(nil)
		for _, e := range v.L {
			l.Add(ToGolib(e))
		}
		return l
	case ref.TIntArr:
		a := make([]int32, len(v.N))
		for i, x := range v.N {
			a[i] = int32(x)
		}
		return value.NewIntArray(a)
	case ref.TFloatArr:
		a := make([]float32, len(v.N))
		for i, x := range v.N {
			a[i] = math.Float32frombits(uint32(x))
		}
		return value.NewFloatArray(a)
	case ref.TLongArr:
		a := make([]int64, len(v.N))
		copy(a, v.N)
		return value.NewLongArray(a)
	case ref.TTextArr:
		a := make([]string, len(v.TA))
		for i, x := range v.TA {
			a[i] = string(unhex(x))
		}
		return value.NewTextArray(a)
	case ref.TMap:
		m := value.NewMapValue()
		for i, k := range v.K {
			m.Put(string(unhex(k)), ToGolib(v.L[i]))
		}
		return m
	case ref.TIntMap:
		m := value.NewIntMapValue()
		for i, k := range v.KI {
			m.Put(k, ToGolib(v.L[i]))
		}
		return m
	}
	panic(fmt.Sprintf("gval: unknown type %d", v.T))
}

// FromGolib is the reference view of a golib value, read through public fields,
// getters and enumerators only. It returns an error for a value whose dynamic
// type does not match its type code.
func FromGolib(g value.Value) (v *ref.V, err error) {
	defer func() {
		if p := recover(); p != nil {
			v, err = nil, fmt.Errorf("walking the decoded value panicked: %v", p)
		}
	}()
	return fromGolib(g), nil
}

func fromGolib(g value.Value) *ref.V {
	if g == nil {
		panic("nil value inside a container")
	}
	t := g.GetValueType()
	v := &ref.V{T: t}
	switch x := g.(type) {
	case *value.NullValue:
		want(t, ref.TNull)
	case *value.BoolValue:
		want(t, ref.TBool)
		if x.Val {
			v.I = 1
		}
	case *value.DecimalValue:
		want(t, ref.TDecimal)
		v.I = x.Val
	case *value.IntValue:
		want(t, ref.TInt)
		v.I = int64(x.Val)
	case *value.LongValue:
		want(t, ref.TLong)
		v.I = x.Val
	case *value.FloatValue:
		want(t, ref.TFloat)
		v.I = int64(math.Float32bits(x.Val))
	case *value.DoubleValue:
		want(t, ref.TDouble)
		v.I = int64(math.Float64bits(x.Val))
	case *value.DoubleSummary:
		want(t, ref.TDSum)
		v.N = []int64{int64(math.Float64bits(x.Sum)), int64(x.Count), int64(math.Float64bits(x.Min)), int64(math.Float64bits(x.Max))}
	case *value.LongSummary:
		want(t, ref.TLSum)
		v.N = []int64{x.Sum, int64(x.Count), x.Min, x.Max}
	case *value.TextValue:
		want(t, ref.TText)
		v.S = hex.EncodeToString([]byte(x.Val))
	case *value.TextHashValue:
		want(t, ref.TTextHash)
		v.I = int64(x.Val)
	case *value.BlobValue:
		want(t, ref.TBlob)
		v.S = hex.EncodeToString(x.Val)
	case *value.IP4Value:
		want(t, ref.TIP4)
		v.S = hex.EncodeToString(x.Val)
	case *value.ListValue:
		want(t, ref.TList)
		for i := 0; i < x.Size(); i++ {
			v.L = append(v.L, fromGolib(x.Get(i)))
		}
	case *value.IntArray:
		want(t, ref.TIntArr)
		for _, e := range x.Val {
			v.N = append(v.N, int64(e))
		}
	case *value.FloatArray:
		want(t, ref.TFloatArr)
		for _, e := range x.Val {
			v.N = append(v.N, int64(math.Float32bits(e)))
		}
	case *value.LongArray:
		want(t, ref.TLongArr)
		v.N = append(v.N, x.Val...)
	case *value.TextArray:
		want(t, ref.TTextArr)
		for _, e := range x.Val {
			v.TA = append(v.TA, hex.EncodeToString([]byte(e)))
		}
	case *value.MapValue:
		want(t, ref.TMap)
		keys := x.Keys()
		n := 0
		for keys.HasMoreElements() {
			k := keys.NextString()
			v.K = append(v.K, hex.EncodeToString([]byte(k)))
			v.L = append(v.L, fromGolib(x.Get(k)))
			if n++; n > x.Size()+1 {
				panic("key enumeration yields more keys than Size()")
			}
		}
		if n != x.Size() {
			panic(fmt.Sprintf("map enumerates %d keys but Size() is %d", n, x.Size()))
		}
	case *value.IntMapValue:
		want(t, ref.TIntMap)
		keys := x.Keys()
		n := 0
		for keys.HasMoreElements() {
			k := keys.NextInt()
			v.KI = append(v.KI, k)
			v.L = append(v.L, fromGolib(x.Get(k)))
			if n++; n > x.Size()+1 {
				panic("key enumeration yields more keys than Size()")
			}
		}
		if n != x.Size() {
			panic(fmt.Sprintf("int map enumerates %d keys but Size() is %d", n, x.Size()))
		}
	default:
		panic(fmt.Sprintf("value of unexpected dynamic type %T", g))
	}
	return v
}

func want(got byte, w byte) {
	if got != w {
		panic(fmt.Sprintf("dynamic type does not match type code: code %d, expected %d", got, w))
	}
}

// ---- generator ----------------------------------------------------------------

// Opts bound the generated values.
type Opts struct {
	MaxDepth int  // nesting depth budget (scalars count 1)
	MaxWidth int  // ordinary container width
	Wide     int  // size of the occasional wide container (0: none)
	NoNaN    bool // exclude NaN from float scalars, summaries and float arrays (ordering laws)
	BigText  bool // allow 64 KiB-threshold strings
	OddIP    bool // IPv4 values are sometimes constructed from an address that is not 4 bytes long (16 = IPv6, 0, 3, 5): the constructor makes 0.0.0.0 of it
}

var scalarTypes = []byte{ref.TNull, ref.TBool, ref.TDecimal, ref.TInt, ref.TLong, ref.TFloat, ref.TDouble, ref.TDSum, ref.TLSum, ref.TText, ref.TTextHash, ref.TBlob, ref.TIP4,
	ref.TIntArr, ref.TFloatArr, ref.TTextArr, ref.TLongArr}
var containerTypes = []byte{ref.TList, ref.TMap, ref.TIntMap}

// collidingIntKeys: k, k+101, k+203 … collide in a 101-bucket table whatever the mixing, once reduced; plus negatives and extremes.
var intKeyAlphabet = []int32{0, 1, -1, 2, 101, 102, 202, 203, 304, -101, 1000, math.MaxInt32, math.MinInt32, math.MaxInt32 - 101, 65536, -65536}

// Value draws a value within the budgets.
func Value(o Opts) *rapid.Generator[*ref.V] {
	return rapid.Custom(func(t *rapid.T) *ref.V { return draw(t, o, o.MaxDepth, true) })
}

func f32bits(t *rapid.T, o Opts, label string) int64 {
	if o.NoNaN {
		return int64(math.Float32bits(gen.Float32NoNaN().Draw(t, label)))
	}
	return int64(math.Float32bits(gen.Float32().Draw(t, label)))
}

func f64bits(t *rapid.T, o Opts, label string) int64 {
	if o.NoNaN {
		return int64(math.Float64bits(gen.Float64NoNaN().Draw(t, label)))
	}
	return int64(math.Float64bits(gen.Float64().Draw(t, label)))
}

func width(t *rapid.T, o Opts, top bool) int {
	k := rapid.IntRange(0, 99).Draw(t, "wk")
	switch {
	case k < 15:
		return 0
	case k < 35:
		return 1
	case k < 85:
		return rapid.IntRange(2, max(2, o.MaxWidth)).Draw(t, "w")
	case k < 95:
		return rapid.IntRange(70, 160).Draw(t, "w") // past the first growth of a 101-bucket table (threshold 75)
	default:
		if top && o.Wide > 0 {
			return o.Wide
		}
		return rapid.IntRange(2, max(2, o.MaxWidth)).Draw(t, "w")
	}
}

func draw(t *rapid.T, o Opts, depth int, top bool) *ref.V {
	var ty byte
	if depth > 1 && rapid.IntRange(0, 99).Draw(t, "container") < 45 {
		ty = rapid.SampledFrom(containerTypes).Draw(t, "ctype")
	} else {
		ty = rapid.SampledFrom(scalarTypes).Draw(t, "stype")
	}
	return DrawOfType(t, o, ty, depth, top)
}

// DrawOfType draws a value of the given type code.
func DrawOfType(t *rapid.T, o Opts, ty byte, depth int, top bool) *ref.V {
	v := &ref.V{T: ty}
	switch ty {
	case ref.TNull:
	case ref.TBool:
		v.I = int64(rapid.IntRange(0, 1).Draw(t, "b"))
	case ref.TDecimal, ref.TLong:
		v.I = gen.Int64().Draw(t, "i")
	case ref.TInt, ref.TTextHash:
		v.I = int64(gen.Int32().Draw(t, "i"))
	case ref.TFloat:
		v.I = f32bits(t, o, "f")
	case ref.TDouble:
		v.I = f64bits(t, o, "d")
	case ref.TDSum:
		v.N = []int64{f64bits(t, o, "sum"), int64(gen.Int32().Draw(t, "cnt")), f64bits(t, o, "min"), f64bits(t, o, "max")}
	case ref.TLSum:
		v.N = []int64{gen.Int64().Draw(t, "sum"), int64(gen.Int32().Draw(t, "cnt")), gen.Int64().Draw(t, "min"), gen.Int64().Draw(t, "max")}
	case ref.TText:
		v.S = hex.EncodeToString([]byte(gen.String(o.BigText).Draw(t, "s")))
	case ref.TBlob:
		v.S = hex.EncodeToString(gen.Bytes(o.BigText).Draw(t, "b"))
	case ref.TIP4:
		n := 4
		if o.OddIP && rapid.IntRange(0, 3).Draw(t, "oddip") == 0 {
			n = rapid.SampledFrom([]int{16, 16, 0, 3, 5}).Draw(t, "iplen")
		}
		v.S = hex.EncodeToString(rapid.SliceOfN(rapid.Byte(), n, n).Draw(t, "ip"))
	case ref.TIntArr, ref.TLongArr, ref.TFloatArr:
		n := arrLen(t, o, top)
		v.N = make([]int64, n)
		if n > 64 {
			first := gen.Int64().Draw(t, "first")
			for i := range v.N {
				v.N[i] = elemOf(ty, first+int64(i)*7919)
			}
		} else {
			for i := range v.N {
				switch ty {
				case ref.TIntArr:
					v.N[i] = int64(gen.Int32().Draw(t, "e"))
				case ref.TLongArr:
					v.N[i] = gen.Int64().Draw(t, "e")
				default:
					v.N[i] = f32bits(t, o, "e")
				}
			}
		}
	case ref.TTextArr:
		n := arrLen(t, o, top)
		v.TA = make([]string, n)
		for i := range v.TA {
			if n > 64 {
				v.TA[i] = hex.EncodeToString([]byte(fmt.Sprintf("t%d", i)))
			} else {
				v.TA[i] = hex.EncodeToString([]byte(gen.String(false).Draw(t, "te")))
			}
		}
	case ref.TList:
		n := width(t, o, top)
		for i := 0; i < n; i++ {
			v.L = append(v.L, child(t, o, depth, n, i))
		}
	case ref.TMap:
		n := width(t, o, top)
		seen := map[string]bool{}
		for i := 0; i < n; i++ {
			var k string
			if n > 24 {
				k = fmt.Sprintf("k%d", i)
				if i == 3 {
					k = ""
				}
			} else {
				k = rapid.OneOf(gen.SmallString(), rapid.SampledFrom([]string{"", "a", "b", "name", "가"})).Draw(t, "key")
			}
			if seen[k] {
				continue
			}
			seen[k] = true
			v.K = append(v.K, hex.EncodeToString([]byte(k)))
			v.L = append(v.L, child(t, o, depth, n, i))
		}
	case ref.TIntMap:
		n := width(t, o, top)
		seen := map[int32]bool{}
		for i := 0; i < n; i++ {
			var k int32
			if n > 24 {
				k = int32(i*101) - 5050 // many keys colliding modulo 101
			} else {
				k = rapid.OneOf(rapid.SampledFrom(intKeyAlphabet), gen.Int32()).Draw(t, "ikey")
			}
			if seen[k] {
				continue
			}
			seen[k] = true
			v.KI = append(v.KI, k)
			v.L = append(v.L, child(t, o, depth, n, i))
		}
	default:
		panic("gval: cannot draw type")
	}
	return v
}

func elemOf(ty byte, x int64) int64 {
	switch ty {
	case ref.TIntArr:
		return int64(int32(x))
	case ref.TFloatArr:
		return int64(math.Float32bits(float32(x % 100000)))
	}
	return x
}

func arrLen(t *rapid.T, o Opts, top bool) int {
	k := rapid.IntRange(0, 99).Draw(t, "ak")
	switch {
	case k < 15:
		return 0
	case k < 90:
		return rapid.IntRange(1, 12).Draw(t, "alen")
	case k < 97 || !top || o.Wide == 0:
		return rapid.IntRange(13, 300).Draw(t, "alen")
	}
	if o.Wide > 32767 {
		return 32767
	}
	return o.Wide
}

// child draws an element of a container of n elements: wide containers get cheap elements.
func child(t *rapid.T, o Opts, depth, n, i int) *ref.V {
	if n > 24 {
		switch i % 4 {
		case 0:
			return ref.DecV(int64(i) * 1000003)
		case 1:
			return ref.TextV(fmt.Sprintf("v%d", i))
		case 2:
			return &ref.V{T: ref.TNull}
		default:
			return &ref.V{T: ref.TInt, I: int64(i)}
		}
	}
	return draw(t, o, depth-1, false)
}

func max(a, b int) int {
	if a > b {
		return a
	}
	return b
}

// Deep builds a value nested `depth` levels deep (alternating list / map / int map).
func Deep(depth int) *ref.V {
	v := ref.DecV(42)
	for i := 0; i < depth; i++ {
		switch i % 3 {
		case 0:
			v = &ref.V{T: ref.TList, L: []*ref.V{v}}
		case 1:
			v = &ref.V{T: ref.TMap, K: []string{hex.EncodeToString([]byte("k"))}, L: []*ref.V{v}}
		default:
			v = &ref.V{T: ref.TIntMap, KI: []int32{int32(i)}, L: []*ref.V{v}}
		}
	}
	return v
}
