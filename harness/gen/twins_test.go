package gen

import (
	"testing"

	"github.com/whatap/golib/util/hash"
)

// The twins must really collide (and differ), otherwise the generators that rely on them test nothing.
func TestHashTwinsCollide(t *testing.T) {
	for i := 0; i+1 < len(HashTwins); i += 2 {
		a, b := HashTwins[i], HashTwins[i+1]
		if a == b || len(a) != len(b) || hash.HashStr(a) != hash.HashStr(b) {
			t.Fatalf("%q / %q are not hash twins", a, b)
		}
	}
}
