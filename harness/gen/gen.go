// Package gen holds the rapid generators shared by the property packages:
// boundary-biased integers, raw-bit floats, strings and byte strings with
// lengths around the format's thresholds.
package gen

import (
	"math"

	"pgregory.net/rapid"
)

// Int64Boundaries: 0, ±1, every decimal class limit ±2, fixed-width extremes.
var Int64Boundaries = func() []int64 {
	base := []int64{0, 1, -1, 2, -2,
		127, 128, -128, -129, 255, 256,
		32767, 32768, -32768, -32769, 65535, 65536,
		8388607, 8388608, -8388608, -8388609, 16777215, 16777216,
		2147483647, 2147483648, -2147483648, -2147483649, 4294967295, 4294967296,
		549755813887, 549755813888, -549755813888, -549755813889, 1099511627775, 1099511627776,
		math.MaxInt64, math.MinInt64, math.MaxInt64 - 1, math.MinInt64 + 1}
	seen := map[int64]bool{}
	var out []int64
	for _, b := range base {
		for d := int64(-2); d <= 2; d++ {
			v := b + d
			if (d > 0 && v < b) || (d < 0 && v > b) {
				continue // overflow
			}
			if !seen[v] {
				seen[v] = true
				out = append(out, v)
			}
		}
	}
	return out
}()

// Int64 mixes uniform bit patterns, boundary values and small values.
func Int64() *rapid.Generator[int64] {
	return rapid.OneOf(
		rapid.SampledFrom(Int64Boundaries),
		rapid.Int64(),
		rapid.Int64Range(-300, 300),
		rapid.Custom(func(t *rapid.T) int64 { // random magnitude class
			bits := rapid.IntRange(0, 63).Draw(t, "bits")
			v := int64(rapid.Uint64().Draw(t, "raw") >> uint(63-bits))
			if rapid.Bool().Draw(t, "neg") {
				v = -v
			}
			return v
		}),
	)
}

func Int32() *rapid.Generator[int32] {
	return rapid.Custom(func(t *rapid.T) int32 { return int32(Int64().Draw(t, "i32")) })
}
func Int16() *rapid.Generator[int16] {
	return rapid.Custom(func(t *rapid.T) int16 { return int16(Int64().Draw(t, "i16")) })
}

// Float32 from raw bit patterns (all NaN payloads, ±0, subnormals, ±Inf) mixed with ordinary values.
func Float32() *rapid.Generator[float32] {
	return rapid.OneOf(
		rapid.Custom(func(t *rapid.T) float32 { return math.Float32frombits(rapid.Uint32().Draw(t, "f32bits")) }),
		rapid.SampledFrom([]float32{0, float32(math.Copysign(0, -1)), 1, -1, 0.5, math.MaxFloat32, math.SmallestNonzeroFloat32,
			float32(math.Inf(1)), float32(math.Inf(-1)), math.Float32frombits(0x7fc00000), math.Float32frombits(0x7f800001), math.Float32frombits(0xffffffff)}),
		rapid.Float32(),
	)
}

func Float64() *rapid.Generator[float64] {
	return rapid.OneOf(
		rapid.Custom(func(t *rapid.T) float64 { return math.Float64frombits(rapid.Uint64().Draw(t, "f64bits")) }),
		rapid.SampledFrom([]float64{0, math.Copysign(0, -1), 1, -1, 0.5, math.MaxFloat64, math.SmallestNonzeroFloat64,
			math.Inf(1), math.Inf(-1), math.Float64frombits(0x7ff8000000000000), math.Float64frombits(0x7ff0000000000001), math.Float64frombits(0xffffffffffffffff)}),
		rapid.Float64(),
	)
}

// Float64NoNaN excludes NaN (for ordering/equality laws).
func Float64NoNaN() *rapid.Generator[float64] {
	return rapid.Custom(func(t *rapid.T) float64 {
		v := Float64().Draw(t, "f")
		if v != v {
			return 0
		}
		return v
	})
}
func Float32NoNaN() *rapid.Generator[float32] {
	return rapid.Custom(func(t *rapid.T) float32 {
		v := Float32().Draw(t, "f")
		if v != v {
			return 0
		}
		return v
	})
}

// ThresholdLens are byte-string lengths around the blob / short-length thresholds.
var ThresholdLens = []int{0, 1, 2, 252, 253, 254, 255, 256, 257}
var BigLens = []int{32767, 32768, 65534, 65535, 65536, 65537}

// Len draws a byte-string length: mostly small, sometimes at a threshold,
// rarely (when big is allowed) at a 16-bit threshold.
func Len(big bool) *rapid.Generator[int] {
	return rapid.Custom(func(t *rapid.T) int {
		k := rapid.IntRange(0, 99).Draw(t, "lenkind")
		switch {
		case k < 70:
			return rapid.IntRange(0, 24).Draw(t, "len")
		case k < 90:
			return rapid.SampledFrom(ThresholdLens).Draw(t, "len")
		case k < 98 || !big:
			return rapid.IntRange(0, 600).Draw(t, "len")
		default:
			return rapid.SampledFrom(BigLens).Draw(t, "len")
		}
	})
}

// Bytes draws a byte string of a Len-distributed length (never nil; see BytesOrNil).
func Bytes(big bool) *rapid.Generator[[]byte] {
	return rapid.Custom(func(t *rapid.T) []byte {
		n := Len(big).Draw(t, "n")
		if n <= 64 {
			return rapid.SliceOfN(rapid.Byte(), n, n).Draw(t, "bytes")
		}
		// long strings: cheap pattern with a random seed byte, so cases stay small to shrink
		seed := rapid.Byte().Draw(t, "fill")
		b := make([]byte, n)
		for i := range b {
			b[i] = seed + byte(i*7)
		}
		return b
	})
}

var stringAlphabets = []string{
	"abcXYZ019 _-=;:/.",
	"가나다한글テスト日本語",
	"\x00\x01\x7f\x80\xff\xfe\xc0\xaf", // control + invalid UTF-8
	"é€😀ß",
}

// String draws empty, ASCII, multi-byte UTF-8 and invalid UTF-8 strings with Len-distributed byte length.
func String(big bool) *rapid.Generator[string] {
	return rapid.Custom(func(t *rapid.T) string {
		if rapid.IntRange(0, 11).Draw(t, "twin") == 0 {
			return rapid.SampledFrom(HashTwins[:8]).Draw(t, "hashtwin") // different strings with the same 32-bit hash
		}
		n := Len(big).Draw(t, "slen")
		if n == 0 {
			return ""
		}
		alpha := []byte(rapid.SampledFrom(stringAlphabets).Draw(t, "alpha"))
		if n <= 48 {
			idx := rapid.SliceOfN(rapid.IntRange(0, len(alpha)-1), n, n).Draw(t, "chars")
			b := make([]byte, n)
			for i, k := range idx {
				b[i] = alpha[k]
			}
			return string(b)
		}
		off := rapid.IntRange(0, len(alpha)-1).Draw(t, "off")
		b := make([]byte, n)
		for i := range b {
			b[i] = alpha[(off+i)%len(alpha)]
		}
		return string(b)
	})
}

// HashTwins: pairs (2i, 2i+1) of different equal-length strings with the same 32-bit golib string hash (the
// CRC-32 variant of util/hash; found by search). Anything that identifies a string by its hash confuses them.
var HashTwins = []string{
	"xmhkihbk", "ftwrdvba", "icumtxjc", "hhscqzaf", "orvwfbde", "obebodpu", "xdkzbgyg", "reofztky",
	"grzojqxb", "dpqypfid", "nwugvcdj", "fcsptbva", "uuucbnxu", "yeoioaps", "uvuyxeeq", "izhkoien",
	"qcgcnfth", "bnvowbox", "pmenozgx", "fcrwpscf", "ehqsikby", "xcviwdge", "xdwgenmo", "dgxdnuui",
}

// SmallString draws a short identifier-like string (possibly empty); one draw in eight is one of the hash twins.
func SmallString() *rapid.Generator[string] {
	return rapid.OneOf(rapid.Just(""), rapid.StringMatching(`[a-zA-Z0-9_./=-]{1,12}`), rapid.StringMatching(`[a-zA-Z0-9_./=-]{1,12}`), rapid.StringMatching(`[a-zA-Z0-9_./=-]{1,12}`),
		rapid.SampledFrom([]string{"가", "é€", "a b", "\xff"}), rapid.SampledFrom(HashTwins[:8]))
}

// Hex renders bytes for JSON-serialisable cases.
func Hex(b []byte) string {
	const d = "0123456789abcdef"
	out := make([]byte, 2*len(b))
	for i, x := range b {
		out[2*i] = d[x>>4]
		out[2*i+1] = d[x&15]
	}
	return string(out)
}

// UnHex is the inverse of Hex (panics on malformed input: replay files are machine-written).
func UnHex(s string) []byte {
	out := make([]byte, len(s)/2)
	v := func(c byte) byte {
		switch {
		case c >= '0' && c <= '9':
			return c - '0'
		case c >= 'a' && c <= 'f':
			return c - 'a' + 10
		}
		panic("bad hex")
	}
	for i := range out {
		out[i] = v(s[2*i])<<4 | v(s[2*i+1])
	}
	return out
}
