// Package pbt is the thin layer every property package of this harness uses
// on top of pgregory.net/rapid:
//
//   - a check is split into Draw (rapid owns every random choice) and Run (a
//     pure function of the drawn, JSON-serialisable case), so that a shrunk
//     failing case can be stored as a replay file and re-executed without the
//     library (TestReplay in every package);
//   - every executed case is counted and classified (non-trivial by the
//     check's stated rule, class histogram, fingerprint for distinct counting,
//     a few samples written out) and the per-process "evidence part" is written
//     when the test binary exits; the driver (/verif/check) merges the parts of
//     all shards into /verif/evidence/<id>.json;
//   - seeds and case counts come from the environment the driver sets
//     (VERIF_SEED, VERIF_TIER, VERIF_SHARD, VERIF_NSHARDS, VERIF_SCALE,
//     VERIF_OUT), never from the clock.
package pbt

import (
	"encoding/base64"
	"encoding/binary"
	"encoding/json"
	"flag"
	"fmt"
	"hash/fnv"
	"os"
	"path/filepath"
	"runtime/debug"
	"sort"
	"strconv"
	"strings"
	"sync"
	"sync/atomic"
	"testing"
	"time"

	"pgregory.net/rapid"
)

// Result is what Run reports about one executed case.
type Result struct {
	Err     error    // non-nil: the property is violated by this case
	NT      bool     // the case is non-trivial by the check's stated rule
	Classes []string // labels for the class histogram
	Key     []byte   // identity of the case for distinct counting (nil: JSON of the case)
}

// Fail builds a violating result.
func Fail(format string, a ...interface{}) *Result {
	return &Result{Err: fmt.Errorf(format, a...)}
}

// Spec is one generated sub-check of a property.
type Spec[C any] struct {
	Prop     string // property id, e.g. "C01"
	Name     string // sub-check name, unique within the property
	Rule     string // how cases are generated and what makes one non-trivial / distinct
	Quick    int    // total number of cases in the quick tier (over all shards)
	Thorough int    // total number of cases in the thorough tier (over all shards)
	Draw     func(t *rapid.T) C
	Run      func(c C) *Result
	// Parallel > 0: after the sequential pass, the cases that passed (the last 400) are run again by this many
	// goroutines at the same time, each case on its own objects. A Run that passes alone must pass next to others:
	// the code under test may share nothing between unrelated objects (scratch buffers, caches, pooled encoders).
	// Only for sub-checks whose Run touches no process-wide state of the harness.
	Parallel int
	// Excluded, when set, reports how many drawn cases were steered away from
	// an open known finding (reported in evidence).
}

type sub struct {
	Name        string                 `json:"name"`
	Rule        string                 `json:"rule"`
	Evaluations int64                  `json:"evaluations"`
	NTCount     int64                  `json:"nt_count"` // only for exhaustive sweeps (distinct by construction)
	Exhaustive  bool                   `json:"exhaustive"`
	Requested   int64                  `json:"requested"`
	Classes     map[string]int64       `json:"classes"`
	Samples     []json.RawMessage      `json:"samples"`
	FPs         string                 `json:"fps"` // base64 of little-endian uint64 fingerprints of non-trivial cases
	Excluded    int64                  `json:"excluded"`
	Extra       map[string]interface{} `json:"extra,omitempty"`

	fps       map[uint64]struct{}
	ntSamples int
}

var (
	mu      sync.Mutex
	subs    = map[string]*sub{}
	order   []string
	replays = map[string]func(raw json.RawMessage) error{}
	started = time.Now()
	notes   []string
)

func getSub(name, rule string) *sub {
	s, ok := subs[name]
	if !ok {
		s = &sub{Name: name, Rule: rule, Classes: map[string]int64{}, fps: map[uint64]struct{}{}}
		subs[name] = s
		order = append(order, name)
	}
	if rule != "" {
		s.Rule = rule
	}
	return s
}

// ---- environment ----------------------------------------------------------

func envInt(k string, def int64) int64 {
	if v := os.Getenv(k); v != "" {
		if n, err := strconv.ParseInt(v, 10, 64); err == nil {
			return n
		}
	}
	return def
}

// Tier returns "quick" or "thorough".
func Tier() string {
	if os.Getenv("VERIF_TIER") == "thorough" {
		return "thorough"
	}
	return "quick"
}

// Thorough reports whether the thorough tier is running.
func Thorough() bool { return Tier() == "thorough" }

// Shard returns this process's shard index and the number of shards.
func Shard() (int, int) {
	n := int(envInt("VERIF_NSHARDS", 1))
	if n < 1 {
		n = 1
	}
	i := int(envInt("VERIF_SHARD", 0))
	if i < 0 || i >= n {
		i = 0
	}
	return i, n
}

// Seed returns VERIF_SEED (default 1).
func Seed() int64 { return envInt("VERIF_SEED", 1) }

func scale() float64 {
	if v := os.Getenv("VERIF_SCALE"); v != "" {
		if f, err := strconv.ParseFloat(v, 64); err == nil && f > 0 {
			return f
		}
	}
	return 1
}

// Pick returns q in the quick tier and t in the thorough tier.
func Pick(q, t int) int {
	if Thorough() {
		return t
	}
	return q
}

// OutDir is the directory for evidence parts, replay candidates and journals.
func OutDir() string {
	d := os.Getenv("VERIF_OUT")
	if d == "" {
		d = filepath.Join(os.TempDir(), "verif-out-default")
	}
	_ = os.MkdirAll(d, 0o755)
	return d
}

func splitmix(x uint64) uint64 {
	x += 0x9e3779b97f4a7c15
	x = (x ^ (x >> 30)) * 0xbf58476d1ce4e5b9
	x = (x ^ (x >> 27)) * 0x94d049bb133111eb
	return x ^ (x >> 31)
}

func hash64(b []byte) uint64 {
	h := fnv.New64a()
	h.Write(b)
	return h.Sum64()
}

// SeedFor derives the rapid seed of a sub-check from VERIF_SEED, the shard and
// the sub-check name. Never 0 (rapid treats 0 as "random").
func SeedFor(name string) uint64 {
	i, _ := Shard()
	s := splitmix(uint64(Seed())*1000003 + uint64(i))
	s = splitmix(s ^ hash64([]byte(name)))
	if s == 0 {
		s = 0x5eed
	}
	return s
}

// Cases returns the number of cases this shard runs for the given totals.
func Cases(quick, thorough int) int {
	total := float64(Pick(quick, thorough)) * scale()
	_, n := Shard()
	c := int(total/float64(n) + 0.999)
	if c < 1 {
		c = 1
	}
	return c
}

// ---- recording ------------------------------------------------------------

const maxSampleBytes = 3000

func sampleOf(c interface{}) json.RawMessage {
	b, err := json.Marshal(c)
	if err != nil {
		b, _ = json.Marshal(fmt.Sprintf("%+v", c))
	}
	if len(b) > maxSampleBytes {
		s := string(b[:maxSampleBytes])
		b, _ = json.Marshal(map[string]interface{}{"truncated_json_prefix": s, "full_length": len(b)})
	}
	return b
}

func record(s *sub, c interface{}, r *Result) {
	mu.Lock()
	defer mu.Unlock()
	s.Evaluations++
	for _, cl := range r.Classes {
		s.Classes[cl]++
	}
	if r.NT {
		key := r.Key
		if key == nil {
			key, _ = json.Marshal(c)
		}
		fp := hash64(key)
		if _, dup := s.fps[fp]; !dup {
			s.fps[fp] = struct{}{}
			if s.ntSamples < 3 {
				s.ntSamples++
				s.Samples = append(s.Samples, sampleOf(c))
			}
		}
	} else if len(s.Samples) == 0 {
		s.Samples = append(s.Samples, sampleOf(c))
	}
}

// Note adds a free-text line to the evidence (assumptions, measured maxima…).
func Note(format string, a ...interface{}) {
	mu.Lock()
	defer mu.Unlock()
	notes = append(notes, fmt.Sprintf(format, a...))
}

// Extra stores a measured value under the sub-check's "extra" map.
func Extra(name, key string, v interface{}) {
	mu.Lock()
	defer mu.Unlock()
	s := getSub(name, "")
	if s.Extra == nil {
		s.Extra = map[string]interface{}{}
	}
	s.Extra[key] = v
}

// CountExcluded records that a generator steered n cases away from an open known finding.
func CountExcluded(name string, n int64) {
	mu.Lock()
	defer mu.Unlock()
	getSub(name, "").Excluded += n
}

type replayFile struct {
	Property string          `json:"property"`
	Check    string          `json:"check"`
	Error    string          `json:"error"`
	Case     json.RawMessage `json:"case"`
}

func saveReplay(prop, name string, c interface{}, err error) {
	b, e := json.Marshal(c)
	if e != nil {
		b, _ = json.Marshal(fmt.Sprintf("%+v", c))
	}
	rf := replayFile{Property: prop, Check: name, Error: err.Error(), Case: b}
	out, _ := json.MarshalIndent(rf, "", " ")
	i, _ := Shard()
	_ = os.WriteFile(filepath.Join(OutDir(), fmt.Sprintf("replay-%s-%d.json", name, i)), out, 0o644)
}

// SafeRun executes f, converting a panic into an error result.
func SafeRun(f func() *Result) (r *Result) {
	defer func() {
		if p := recover(); p != nil {
			r = &Result{Err: fmt.Errorf("unexpected panic: %v\n%s", p, trimStack(debug.Stack()))}
		}
	}()
	r = f()
	if r == nil {
		r = &Result{}
	}
	return r
}

// trimStack keeps the frames of a stack trace but drops everything that varies
// from run to run (goroutine ids, argument words, pc offsets), so that rapid
// recognises the same failure again while shrinking.
func trimStack(b []byte) string {
	lines := strings.Split(string(b), "\n")
	var out []string
	for _, l := range lines {
		switch {
		case strings.HasPrefix(l, "goroutine "):
			continue
		case strings.HasPrefix(l, "\t"):
			if k := strings.Index(l, " +0x"); k > 0 {
				l = l[:k]
			}
		default:
			if k := strings.LastIndex(l, "("); k > 0 && strings.HasSuffix(l, ")") {
				l = l[:k]
			}
		}
		if strings.Contains(l, "runtime/debug") || strings.Contains(l, "/pbt.") || strings.Contains(l, "pbt/pbt.go") {
			continue
		}
		out = append(out, l)
		if len(out) >= 24 {
			break
		}
	}
	return strings.Join(out, "\n")
}

// Register makes the spec replayable and returns it.
func Register[C any](s Spec[C]) *Spec[C] {
	sp := &s
	replays[s.Name] = func(raw json.RawMessage) error {
		var c C
		if err := json.Unmarshal(raw, &c); err != nil {
			return fmt.Errorf("replay file does not decode into the case type: %v", err)
		}
		return SafeRun(func() *Result { return sp.Run(c) }).Err
	}
	replays[s.Name+"@parallel"] = func(raw json.RawMessage) error {
		var b parallelBatch[C]
		if err := json.Unmarshal(raw, &b); err != nil {
			return fmt.Errorf("replay file does not decode into a batch of cases: %v", err)
		}
		for round := 0; round < 60; round++ { // schedule dependent: many rounds
			if _, err := sp.runBatch(b.Cases, b.G, 1); err != nil {
				return err
			}
		}
		return nil
	}
	return sp
}

type parallelBatch[C any] struct {
	G     int `json:"g"`
	Cases []C `json:"cases"`
}

// runBatch runs every case `rounds` times, spread over g goroutines that start together.
func (s *Spec[C]) runBatch(cases []C, g, rounds int) (int64, error) {
	if g < 2 {
		g = 2
	}
	var wg sync.WaitGroup
	var gate, failed atomic.Bool
	var n atomic.Int64
	var emu sync.Mutex
	var first error
	for w := 0; w < g; w++ {
		wg.Add(1)
		go func(w int) {
			defer wg.Done()
			for !gate.Load() {
			}
			for r := 0; r < rounds && !failed.Load(); r++ {
				for i := (w + r) % g; i < len(cases) && !failed.Load(); i += g {
					res := SafeRun(func() *Result { return s.Run(cases[i]) })
					n.Add(1)
					if res.Err != nil {
						emu.Lock()
						if first == nil {
							first = fmt.Errorf("case %d of the batch, which passes on its own, fails while %d goroutines run other cases of the same sub-check on their own objects: %v", i, g, res.Err)
						}
						emu.Unlock()
						failed.Store(true)
					}
				}
			}
		}(w)
	}
	gate.Store(true)
	wg.Wait()
	return n.Load(), first
}

func setFlag(name, v string) {
	if f := flag.Lookup(name); f != nil {
		_ = f.Value.Set(v)
	}
}

// Check runs the sub-check with rapid for this shard's share of the tier's case count.
func (s *Spec[C]) Check(t *testing.T) {
	t.Helper()
	if os.Getenv("VERIF_REPLAY") != "" {
		t.Skip("replay mode")
	}
	n := Cases(s.Quick, s.Thorough)
	mu.Lock()
	sb := getSub(s.Name, s.Rule)
	sb.Requested += int64(n)
	mu.Unlock()
	setFlag("rapid.checks", strconv.Itoa(n))
	setFlag("rapid.seed", strconv.FormatUint(SeedFor(s.Name), 10))
	setFlag("rapid.nofailfile", "true")
	if flag.Lookup("rapid.shrinktime") != nil && os.Getenv("VERIF_SHRINKTIME") != "" {
		setFlag("rapid.shrinktime", os.Getenv("VERIF_SHRINKTIME"))
	}
	var kept []C
	rapid.Check(t, func(rt *rapid.T) {
		c := s.Draw(rt)
		r := SafeRun(func() *Result { return s.Run(c) })
		record(sb, c, r)
		if r.Err != nil {
			saveReplay(s.Prop, s.Name, c, r.Err)
			rt.Fatalf("%s/%s violated: %v", s.Prop, s.Name, r.Err)
		}
		if s.Parallel > 0 {
			if len(kept) < 400 {
				kept = append(kept, c)
			} else {
				kept[int(sb.Evaluations)%400] = c
			}
		}
	})
	if s.Parallel > 0 && !t.Failed() && len(kept) >= 2 {
		runs, err := s.runBatch(kept, s.Parallel, Pick(3, 12))
		mu.Lock()
		sb.Evaluations += runs
		if sb.Classes == nil {
			sb.Classes = map[string]int64{}
		}
		sb.Classes["re-run-concurrently-with-other-cases"] += runs
		mu.Unlock()
		if err != nil {
			saveReplay(s.Prop, s.Name+"@parallel", parallelBatch[C]{G: s.Parallel, Cases: kept}, err)
			t.Fatalf("%s/%s violated: %v", s.Prop, s.Name, err)
		}
	}
}

// RunCase executes one hand-written or enumerated case through the same
// recording and replay machinery (used for boundary catalogues).
func (s *Spec[C]) RunCase(t *testing.T, c C) {
	t.Helper()
	mu.Lock()
	sb := getSub(s.Name, s.Rule)
	mu.Unlock()
	r := SafeRun(func() *Result { return s.Run(c) })
	record(sb, c, r)
	if r.Err != nil {
		saveReplay(s.Prop, s.Name, c, r.Err)
		t.Fatalf("%s/%s violated: %v", s.Prop, s.Name, r.Err)
	}
}

// ---- exhaustive sweeps ------------------------------------------------------

// Sweep describes a complete enumeration of the index space [0,N).
type Sweep struct {
	Prop string
	Name string
	Rule string
	N    uint64
	// Run checks index i; nt says whether the case is non-trivial by Rule.
	Run func(i uint64) (nt bool, err error)
	// Show renders index i for samples / replay files.
	Show func(i uint64) interface{}
}

type sweepCase struct {
	Index uint64      `json:"index"`
	Shown interface{} `json:"shown,omitempty"`
}

// RegisterSweep makes the sweep replayable.
func RegisterSweep(s Sweep) *Sweep {
	sp := &s
	replays[s.Name] = func(raw json.RawMessage) error {
		var c sweepCase
		if err := json.Unmarshal(raw, &c); err != nil {
			return err
		}
		var err error
		func() {
			defer func() {
				if p := recover(); p != nil {
					err = fmt.Errorf("unexpected panic: %v", p)
				}
			}()
			_, err = sp.Run(c.Index)
		}()
		return err
	}
	return sp
}

// Check enumerates this shard's contiguous share of [0,N) using `workers` goroutines.
func (s *Sweep) Check(t *testing.T, workers int) {
	t.Helper()
	if os.Getenv("VERIF_REPLAY") != "" {
		t.Skip("replay mode")
	}
	si, sn := Shard()
	lo := s.N / uint64(sn) * uint64(si)
	hi := s.N / uint64(sn) * uint64(si+1)
	if si == sn-1 {
		hi = s.N
	}
	if workers < 1 {
		workers = 1
	}
	mu.Lock()
	sb := getSub(s.Name, s.Rule)
	sb.Exhaustive = true
	sb.Requested += int64(hi - lo)
	mu.Unlock()
	show := func(i uint64) interface{} {
		if s.Show != nil {
			return s.Show(i)
		}
		return nil
	}
	var wg sync.WaitGroup
	var failMu sync.Mutex
	var failIdx uint64
	var failErr error
	span := (hi - lo + uint64(workers) - 1) / uint64(workers)
	for w := 0; w < workers; w++ {
		a := lo + span*uint64(w)
		b := a + span
		if b > hi {
			b = hi
		}
		if a >= b {
			continue
		}
		wg.Add(1)
		go func(a, b uint64) {
			defer wg.Done()
			var ev, nt int64
			cur := a
			defer func() {
				if p := recover(); p != nil {
					failMu.Lock()
					if failErr == nil {
						failIdx, failErr = cur, fmt.Errorf("unexpected panic: %v\n%s", p, trimStack(debug.Stack()))
					}
					failMu.Unlock()
				}
				mu.Lock()
				sb.Evaluations += ev
				sb.NTCount += nt
				mu.Unlock()
			}()
			for i := a; i < b; i++ {
				cur = i
				isNT, err := s.Run(i)
				ev++
				if isNT {
					nt++
				}
				if err != nil {
					failMu.Lock()
					if failErr == nil || i < failIdx {
						failIdx, failErr = i, err
					}
					failMu.Unlock()
					return
				}
			}
		}(a, b)
	}
	wg.Wait()
	mu.Lock()
	if hi > lo {
		for _, i := range []uint64{lo, lo + (hi-lo)/2, hi - 1} {
			if len(sb.Samples) < 3 {
				sb.Samples = append(sb.Samples, sampleOf(sweepCase{Index: i, Shown: show(i)}))
			}
		}
	}
	mu.Unlock()
	if failErr != nil {
		saveReplay(s.Prop, s.Name, sweepCase{Index: failIdx, Shown: show(failIdx)}, failErr)
		t.Fatalf("%s/%s violated at index %d: %v", s.Prop, s.Name, failIdx, failErr)
	}
}

// ---- known findings -------------------------------------------------------

type finding struct {
	ID       string `json:"id"`
	Property string `json:"property"`
	Status   string `json:"status"` // "open" or "fixed"
	What     string `json:"what"`
}

var (
	knownOnce sync.Once
	known     = map[string]finding{}
)

func loadKnown() {
	p := os.Getenv("VERIF_KNOWN")
	if p == "" {
		p = "/verif/known_findings.json"
	}
	b, err := os.ReadFile(p)
	if err != nil {
		return
	}
	var doc struct {
		Findings []finding `json:"findings"`
	}
	if json.Unmarshal(b, &doc) == nil {
		for _, f := range doc.Findings {
			known[f.ID] = f
		}
	}
}

// KnownOpen reports whether finding id is listed as an open (unrepaired) known
// finding. Generators exclude the listed input class only while this is true.
func KnownOpen(id string) bool {
	knownOnce.Do(loadKnown)
	f, ok := known[id]
	return ok && f.Status == "open"
}

// ProbeKnown runs the dedicated probe of an open finding and prints the
// KNOWN-FINDING line while it still reproduces. It never fails the test.
func ProbeKnown(id string, probe func() (reproduces bool, detail string)) {
	if !KnownOpen(id) {
		return
	}
	f := known[id]
	rep, detail := false, ""
	func() {
		defer func() {
			if p := recover(); p != nil {
				rep, detail = true, fmt.Sprintf("panic: %v", p)
			}
		}()
		rep, detail = probe()
	}()
	if rep {
		fmt.Printf("KNOWN-FINDING: property=%s id=%s %s [%s]\n", f.Property, id, f.What, detail)
	} else {
		fmt.Printf("NOTE: known finding %s (property %s) no longer reproduces: %s\n", id, f.Property, detail)
	}
}

// ---- process entry / exit ---------------------------------------------------

type part struct {
	Property string   `json:"property"`
	Tier     string   `json:"tier"`
	Seed     int64    `json:"seed"`
	Shard    int      `json:"shard"`
	NShards  int      `json:"nshards"`
	WallS    float64  `json:"wall_s"`
	Subs     []*sub   `json:"subs"`
	Notes    []string `json:"notes"`
}

// WritePart writes this process's evidence part.
func WritePart(prop string) {
	mu.Lock()
	defer mu.Unlock()
	i, n := Shard()
	p := part{Property: prop, Tier: Tier(), Seed: Seed(), Shard: i, NShards: n, WallS: time.Since(started).Seconds(), Notes: notes}
	for _, name := range order {
		s := subs[name]
		keys := make([]uint64, 0, len(s.fps))
		for k := range s.fps {
			keys = append(keys, k)
		}
		sort.Slice(keys, func(a, b int) bool { return keys[a] < keys[b] })
		buf := make([]byte, 8*len(keys))
		for j, k := range keys {
			binary.LittleEndian.PutUint64(buf[8*j:], k)
		}
		s.FPs = base64.StdEncoding.EncodeToString(buf)
		p.Subs = append(p.Subs, s)
	}
	b, _ := json.Marshal(p)
	tag := os.Getenv("VERIF_PART_TAG")
	_ = os.WriteFile(filepath.Join(OutDir(), fmt.Sprintf("part-%s%d.json", tag, i)), b, 0o644)
}

// Main is called from TestMain of every property package.
func Main(m *testing.M, prop string) {
	flag.Parse()
	code := m.Run()
	if os.Getenv("VERIF_REPLAY") == "" {
		WritePart(prop)
	}
	os.Exit(code)
}

// Replay implements TestReplay: it re-executes the case stored in the file
// named by VERIF_REPLAY without the generator library.
func Replay(t *testing.T) {
	path := os.Getenv("VERIF_REPLAY")
	if path == "" {
		t.Skip("VERIF_REPLAY not set")
	}
	b, err := os.ReadFile(path)
	if err != nil {
		t.Fatalf("cannot read replay file: %v", err)
	}
	var rf replayFile
	if err := json.Unmarshal(b, &rf); err != nil {
		t.Fatalf("cannot parse replay file: %v", err)
	}
	f, ok := replays[rf.Check]
	if !ok {
		t.Skipf("check %q is not part of this package", rf.Check)
	}
	if err := f(rf.Case); err != nil {
		fmt.Printf("REPLAY-VIOLATION check=%s: %v\n", rf.Check, err)
		t.Fatalf("replayed case still violates %s/%s: %v", rf.Property, rf.Check, err)
	}
	fmt.Printf("REPLAY-OK check=%s\n", rf.Check)
}

// WithTimeout runs f and reports whether it returned within d.
func WithTimeout(d time.Duration, f func()) (returned bool, panicked interface{}) {
	done := make(chan interface{}, 1)
	go func() {
		defer func() { done <- recover() }()
		f()
	}()
	select {
	case p := <-done:
		return true, p
	case <-time.After(d):
		return false, nil
	}
}

// ---- crash journal and hang watchdog (decoder checks) ---------------------------------

// Journal writes the case about to be executed to this shard's one-entry journal
// file (in replay-file format). If the process then dies (out of memory, fatal
// runtime error) the driver replays the journaled case in a fresh process and
// reports it only if it dies again.
func Journal(prop, check string, c interface{}) {
	b, err := json.Marshal(c)
	if err != nil {
		return
	}
	rf := replayFile{Property: prop, Check: check, Error: "process died while executing this case", Case: b}
	out, _ := json.Marshal(rf)
	i, _ := Shard()
	_ = os.WriteFile(filepath.Join(OutDir(), fmt.Sprintf("journal-%s%d.json", os.Getenv("VERIF_PART_TAG"), i)), out, 0o644)
}

// ClearJournal removes the journal entry (called after the case completed).
func ClearJournal() {
	i, _ := Shard()
	_ = os.Remove(filepath.Join(OutDir(), fmt.Sprintf("journal-%s%d.json", os.Getenv("VERIF_PART_TAG"), i)))
}

// Watchdog reports a case that makes no progress for `limit`: it stores the
// case as a replay candidate, prints the reason and terminates the process with
// exit status 1 (a hung goroutine cannot be cancelled).
type Watchdog struct {
	mu      sync.Mutex
	prop    string
	check   string
	current interface{}
	detail  string
	since   time.Time
	active  bool
	stop    chan struct{}
}

// NewWatchdog starts the monitoring goroutine.
func NewWatchdog(prop, check string, limit time.Duration) *Watchdog {
	w := &Watchdog{prop: prop, check: check, stop: make(chan struct{})}
	go func() {
		tk := time.NewTicker(500 * time.Millisecond)
		defer tk.Stop()
		for {
			select {
			case <-w.stop:
				return
			case <-tk.C:
				w.mu.Lock()
				if w.active && time.Since(w.since) > limit {
					c, d := w.current, w.detail
					w.mu.Unlock()
					err := fmt.Errorf("no termination within %v: %s", limit, d)
					saveReplay(prop, check, c, err)
					fmt.Printf("--- FAIL: %s/%s violated: %v\n", prop, check, err)
					WritePart(prop)
					os.Exit(1)
				}
				w.mu.Unlock()
			}
		}
	}()
	return w
}

// Begin marks the start of one unit of work on case c.
func (w *Watchdog) Begin(c interface{}, detail string) {
	w.mu.Lock()
	w.current, w.detail, w.since, w.active = c, detail, time.Now(), true
	w.mu.Unlock()
}

// Touch restarts the clock for the current case (a new unit of work started).
func (w *Watchdog) Touch(detail string) {
	w.mu.Lock()
	w.detail, w.since = detail, time.Now()
	w.mu.Unlock()
}

// End marks the case as finished.
func (w *Watchdog) End() {
	w.mu.Lock()
	w.active = false
	w.mu.Unlock()
}

// Stop ends the monitoring goroutine.
func (w *Watchdog) Stop() { close(w.stop) }
