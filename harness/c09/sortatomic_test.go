package c09

// sort-is-one-operation: the statement compares every history with a dictionary model, operation by operation; Sort is
// one of the operations. While a Sort is under way (its comparator is the caller's code and may take its time) another
// goroutine puts a new key or removes an old one. Whichever of the two operations comes first in the resulting history,
// afterwards the new key is in the structure and the removed one is not.

import (
	"fmt"
	"testing"
	"time"

	"verif/pbt"
)

func sortAtomicOne(name string, remove bool) (bool, error) {
	s := suts[name]
	c := Case{Type: name}
	in := s.mk(&c)
	putName := ""
	for _, n := range []string{"put", "putLast", "add", "addLast"} {
		if in.put[n] != nil {
			putName = n
			break
		}
	}
	rm := in.get["remove"]
	if putName == "" || in.sortHook == nil || (remove && rm == nil) {
		return false, nil
	}
	put := in.put[putName]
	base := s.nSpecial // ordinary keys of the alphabet come after the special ones
	if base+6 >= s.nKeys {
		base = 0
	}
	for k := base; k < base+5; k++ {
		put(k, 1)
	}
	target := base + 5
	if remove {
		target = base + 2
	}
	done := make(chan struct{})
	fired := false
	in.sortHook(func() {
		if fired {
			return
		}
		fired = true
		go func() {
			defer close(done)
			if remove {
				rm(target)
			} else {
				put(target, 7)
			}
		}()
		select { // give the other goroutine every chance to get in, if it can
		case <-done:
		case <-time.After(40 * time.Millisecond):
		}
	})
	if !fired {
		return false, nil
	}
	select {
	case <-done:
	case <-time.After(20 * time.Second):
		return true, fmt.Errorf("%s: an operation issued by another goroutine while Sort was running has not returned 20 s after Sort returned", name)
	}
	has := in.containsKey(target)
	if remove && has {
		return true, fmt.Errorf("%s: Remove(%s) by another goroutine returned while a Sort was under way; after both have returned the key is in the structure again (in every order of the two operations it is gone)", name, s.keyStr(target))
	}
	if !remove && !has {
		return true, fmt.Errorf("%s: %s(%s) by another goroutine returned while a Sort was under way; after both have returned the key is not in the structure (in every order of the two operations it is there), Size()=%d", name, putName, s.keyStr(target), in.size())
	}
	want := 6
	if remove {
		want = 4
	}
	if in.size() != want {
		return true, fmt.Errorf("%s: Size()=%d after 5 insertions, one concurrent %v and a Sort; expected %d", name, in.size(), map[bool]string{true: "removal", false: "insertion"}[remove], want)
	}
	return true, nil
}

var sweepSortAtomic *pbt.Sweep

func init() {
	// after c09_test.go's init has registered the 13 types
	sweepSortAtomic = pbt.RegisterSweep(pbt.Sweep{Prop: "C09", Name: "sort-is-one-operation",
		Rule: "for each of the 13 linked types, with 5 entries: Sort with a comparator that, at its first call, lets another goroutine put a new key (or remove an existing one) and gives it 40 ms; after Sort and the other operation have both returned the new key must be present (the removed one absent) and Size() must fit - that holds for either order of the two operations, so the verdict does not depend on the schedule; 10 repetitions per type and kind; every run is a distinct non-trivial case",
		N:    uint64(len(sutOrder) * 2 * 10),
		Run: func(i uint64) (bool, error) {
			name := sutOrder[int(i)%len(sutOrder)]
			return sortAtomicOne(name, (i/uint64(len(sutOrder)))%2 == 1)
		},
		Show: func(i uint64) interface{} {
			return fmt.Sprintf("%s remove=%v", sutOrder[int(i)%len(sutOrder)], (i/uint64(len(sutOrder)))%2 == 1)
		}})
}

func TestSortIsOneOperation(t *testing.T) { sweepSortAtomic.Check(t, 4) }

// sorts-of-two-instances: two structures of one type are independent objects. While A is being sorted its comparator
// (the caller's code) sorts B, a second instance - a report that orders one map by looking values up in another sorted
// map does that. Afterwards each holds its own entries, in order (seed C09-s24: a work list shared by all instances).
func sortTwoInstancesOne(name string, viaGoroutine bool) (bool, error) {
	s := suts[name]
	ca, cb := Case{Type: name}, Case{Type: name}
	a, b := s.mk(&ca), s.mk(&cb)
	putName := ""
	for _, n := range []string{"put", "putLast", "add", "addLast"} {
		if a.put[n] != nil {
			putName = n
			break
		}
	}
	if putName == "" || a.sortHook == nil || a.keys["keys"] == nil {
		return false, nil
	}
	base := s.nSpecial
	if base+10 >= s.nKeys {
		base = 0
	}
	if base+10 > s.nKeys {
		return false, nil
	}
	// A: keys base+4 .. base (descending insertion), B: keys base+9 .. base+5
	for k := base + 4; k >= base; k-- {
		a.put[putName](k, 1)
	}
	for k := base + 9; k >= base+5; k-- {
		b.put[putName](k, 2)
	}
	fired := false
	a.sortHook(func() {
		if fired {
			return
		}
		fired = true
		if viaGoroutine {
			done := make(chan struct{})
			go func() { defer close(done); b.sortHook(func() {}) }()
			<-done
		} else {
			b.sortHook(func() {})
		}
	})
	if !fired {
		return false, nil
	}
	for _, x := range []struct {
		in    *inst
		label string
		lo    int
	}{{a, "the structure being sorted", base}, {b, "the second structure (sorted from the first one's comparator)", base + 5}} {
		ks, err := x.in.keys["keys"](20)
		if err != nil {
			return true, fmt.Errorf("%s: %s: key enumeration after the sorts: %v", name, x.label, err)
		}
		if len(ks) != 5 || x.in.size() != 5 {
			return true, fmt.Errorf("%s: %s holds %d keys (Size()=%d) after the two sorts, 5 were inserted", name, x.label, len(ks), x.in.size())
		}
		own := map[int]bool{}
		for _, k := range ks {
			if k < x.lo || k >= x.lo+5 || own[k] {
				return true, fmt.Errorf("%s: %s enumerates key %s after the two sorts, which it was never given (or twice); its keys are %s..%s", name, x.label, s.keyStr(k), s.keyStr(x.lo), s.keyStr(x.lo+4))
			}
			own[k] = true
			if !x.in.containsKey(k) {
				return true, fmt.Errorf("%s: %s enumerates key %s but ContainsKey says no", name, x.label, s.keyStr(k))
			}
		}
	}
	return true, nil
}

var sweepSortTwo *pbt.Sweep

func init() {
	sweepSortTwo = pbt.RegisterSweep(pbt.Sweep{Prop: "C09", Name: "sorts-of-two-instances",
		Rule: "for each of the 13 linked types: two instances with 5 entries each (disjoint keys, inserted in descending order); instance A is sorted with a comparator that, at its first call, sorts instance B (from the same goroutine, or from a goroutine it waits for); afterwards both must enumerate exactly their own 5 keys, Size()=5, every key found by ContainsKey - the instances are independent objects; 5 repetitions per type and kind; every run is a distinct non-trivial case",
		N:    uint64(len(sutOrder) * 2 * 5),
		Run: func(i uint64) (bool, error) {
			return sortTwoInstancesOne(sutOrder[int(i)%len(sutOrder)], (i/uint64(len(sutOrder)))%2 == 1)
		},
		Show: func(i uint64) interface{} {
			return fmt.Sprintf("%s via-goroutine=%v", sutOrder[int(i)%len(sutOrder)], (i/uint64(len(sutOrder)))%2 == 1)
		}})
}

func TestSortTwoInstances(t *testing.T) { sweepSortTwo.Check(t, 1) }
