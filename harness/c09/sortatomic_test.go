package c09

// sort-is-one-operation: the statement compares every history with a dictionary model, operation by operation; Sort is
// one of the operations. While a Sort is under way (its comparator is the caller's code and may take its time) another
// goroutine puts a new key or removes an old one. Whichever of the two operations comes first in the resulting history,
// afterwards the new key is in the structure and the removed one is not.

import (
	"fmt"
	"testing"
	"time"

	"verif/pbt"
)

func sortAtomicOne(name string, remove bool) (bool, error) {
	s := suts[name]
	c := Case{Type: name}
	in := s.mk(&c)
	putName := ""
	for _, n := range []string{"put", "putLast", "add", "addLast"} {
		if in.put[n] != nil {
			putName = n
			break
		}
	}
	rm := in.get["remove"]
	if putName == "" || in.sortHook == nil || (remove && rm == nil) {
		return false, nil
	}
	put := in.put[putName]
	base := s.nSpecial // ordinary keys of the alphabet come after the special ones
	if base+6 >= s.nKeys {
		base = 0
	}
	for k := base; k < base+5; k++ {
		put(k, 1)
	}
	target := base + 5
	if remove {
		target = base + 2
	}
	done := make(chan struct{})
	fired := false
	in.sortHook(func() {
		if fired {
			return
		}
		fired = true
		go func() {
			defer close(done)
			if remove {
				rm(target)
			} else {
				put(target, 7)
			}
		}()
		select { // give the other goroutine every chance to get in, if it can
		case <-done:
		case <-time.After(40 * time.Millisecond):
		}
	})
	if !fired {
		return false, nil
	}
	select {
	case <-done:
	case <-time.After(20 * time.Second):
		return true, fmt.Errorf("%s: an operation issued by another goroutine while Sort was running has not returned 20 s after Sort returned", name)
	}
	has := in.containsKey(target)
	if remove && has {
		return true, fmt.Errorf("%s: Remove(%s) by another goroutine returned while a Sort was under way; after both have returned the key is in the structure again (in every order of the two operations it is gone)", name, s.keyStr(target))
	}
	if !remove && !has {
		return true, fmt.Errorf("%s: %s(%s) by another goroutine returned while a Sort was under way; after both have returned the key is not in the structure (in every order of the two operations it is there), Size()=%d", name, putName, s.keyStr(target), in.size())
	}
	want := 6
	if remove {
		want = 4
	}
	if in.size() != want {
		return true, fmt.Errorf("%s: Size()=%d after 5 insertions, one concurrent %v and a Sort; expected %d", name, in.size(), map[bool]string{true: "removal", false: "insertion"}[remove], want)
	}
	return true, nil
}

var sweepSortAtomic *pbt.Sweep

func init() {
	// after c09_test.go's init has registered the 13 types
	sweepSortAtomic = pbt.RegisterSweep(pbt.Sweep{Prop: "C09", Name: "sort-is-one-operation",
		Rule: "for each of the 13 linked types, with 5 entries: Sort with a comparator that, at its first call, lets another goroutine put a new key (or remove an existing one) and gives it 40 ms; after Sort and the other operation have both returned the new key must be present (the removed one absent) and Size() must fit - that holds for either order of the two operations, so the verdict does not depend on the schedule; 10 repetitions per type and kind; every run is a distinct non-trivial case",
		N:    uint64(len(sutOrder) * 2 * 10),
		Run: func(i uint64) (bool, error) {
			name := sutOrder[int(i)%len(sutOrder)]
			return sortAtomicOne(name, (i/uint64(len(sutOrder)))%2 == 1)
		},
		Show: func(i uint64) interface{} {
			return fmt.Sprintf("%s remove=%v", sutOrder[int(i)%len(sutOrder)], (i/uint64(len(sutOrder)))%2 == 1)
		}})
}

func TestSortIsOneOperation(t *testing.T) { sweepSortAtomic.Check(t, 4) }
