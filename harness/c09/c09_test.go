// C09 Linked hash maps/sets behave as bounded insertion-ordered dictionaries.
//
// One generated sub-check per linked type (13). A case is an operation
// history (ops as data); Run executes it against the real golib structure and
// against the reference model below (a slice-ordered dictionary with an optional
// bound and the four put modes) and compares, after EVERY step, the return
// value of the step, Size/IsEmpty/IsFull, first/last key and value, and the
// complete key / value / entry enumerations and the key array; lookups of all
// live keys (plus absent keys) are audited as well.
package c09

import (
	"fmt"
	"os"
	"sort"
	"strings"
	"sync"
	"testing"

	"pgregory.net/rapid"
	"verif/pbt"
)

func TestMain(m *testing.M) { pbt.Main(m, "C09") }

func TestReplay(t *testing.T) { pbt.Replay(t) }

// ---- case -------------------------------------------------------------------

// Op is one step of a history. K is an index into the per-type key alphabet
// (0..nSpecial-1 special keys: 0, negatives, extremes, colliding keys, "" …;
// nSpecial.. bulk keys), V an index into the per-type value alphabet (for
// setMax: the bound; for fill-*: the number of consecutive bulk keys put).
type Op struct {
	Op string `json:"op"`
	K  int    `json:"k,omitempty"`
	V  int    `json:"v,omitempty"`
}

type Case struct {
	Type   string  `json:"type"`
	Custom bool    `json:"custom,omitempty"` // use the (capacity, loadFactor) constructor
	Cap    int     `json:"cap,omitempty"`
	LF     float32 `json:"lf,omitempty"`
	Ops    []Op    `json:"ops"`
}

// ---- reference model --------------------------------------------------------

const (
	mForceFirst = 1
	mForceLast  = 2
	mFirst      = 3
	mLast       = 4
)

const (
	kSet = iota
	kAdd
	kAddNoOver
)

type ment struct {
	K int
	V int64
}

// labels collected while a history runs (evidence classes, NT rule).
type labels struct {
	growth, chain2, chain3, evict, evictFirstEnd, evictLastEnd, evictAfterGrowth            bool
	setMaxMid, setMaxBelow, removeMid, removeChain, sortAny, sortAfterRemove                bool
	sortFailed, sortTrunc, updateAtFull, moveFirst, moveLast, lruMove, emptyKey, extremeKey bool
	negKey, cleared, removedAny, noOverRefused, multiEvict, nullKeyIgnored                  bool
	steps, maxSize                                                                          int
}

// htab mirrors the bucket layout (capacity, threshold, chains) for LABELLING
// only; no verdict depends on it.
type htab struct {
	cap, thr, n int
	lf          float32
	b           map[int][]int
	hash        func(k int) uint64
	grew        int
}

func newHtab(cap int, thr int, lf float32, hash func(int) uint64) *htab {
	return &htab{cap: cap, thr: thr, lf: lf, b: map[int][]int{}, hash: hash}
}

func (h *htab) idx(k int) int { return int(h.hash(k) % uint64(h.cap)) }

func (h *htab) insert(k int) (chain int) {
	if h.n >= h.thr {
		nc := h.cap*2 + 1
		nb := map[int][]int{}
		for i := h.cap - 1; i >= 0; i-- {
			for _, kk := range h.b[i] {
				j := int(h.hash(kk) % uint64(nc))
				nb[j] = append([]int{kk}, nb[j]...)
			}
		}
		h.cap, h.b = nc, nb
		h.thr = int(float32(nc) * h.lf)
		h.grew++
	}
	i := h.idx(k)
	h.b[i] = append([]int{k}, h.b[i]...)
	h.n++
	return len(h.b[i])
}

// remove returns the position in the chain and the chain length before removal.
func (h *htab) remove(k int) (pos, chain int) {
	i := h.idx(k)
	c := h.b[i]
	for p, kk := range c {
		if kk == k {
			h.b[i] = append(append([]int{}, c[:p]...), c[p+1:]...)
			h.n--
			return p, len(c)
		}
	}
	return -1, len(c)
}

func (h *htab) clear() { h.b = map[int][]int{}; h.n = 0 }

type model struct {
	es        []ment
	max       int
	none      int64
	nullKey   int // key index the type documents as "null key, never stored" (-1: none)
	add       func(a, b int64) int64
	cmp       func(a, b int) int
	ht        *htab
	lab       *labels
	nSpecial  int
	negKeys   map[int]bool
	extKeys   map[int]bool
	emptyKeyI int
}

func (m *model) find(k int) int {
	for i := range m.es {
		if m.es[i].K == k {
			return i
		}
	}
	return -1
}

func (m *model) delAt(i int) ment {
	e := m.es[i]
	m.es = append(m.es[:i:i], m.es[i+1:]...)
	pos, chain := m.ht.remove(e.K)
	if chain >= 2 {
		m.lab.removeChain = true
	}
	if chain >= 3 && pos > 0 && pos < chain-1 {
		m.lab.removeMid = true
	}
	return e
}

func (m *model) noteKey(k int) {
	if k == m.emptyKeyI {
		m.lab.emptyKey = true
	}
	if m.negKeys[k] {
		m.lab.negKey = true
	}
	if m.extKeys[k] {
		m.lab.extremeKey = true
	}
}

func (m *model) put(k int, v int64, mode, kind int) (prev int64, had bool) {
	if k == m.nullKey {
		m.lab.nullKeyIgnored = true
		return 0, false
	}
	if i := m.find(k); i >= 0 {
		prev = m.es[i].V
		if kind == kSet {
			m.es[i].V = v
		} else {
			m.es[i].V = m.add(prev, v)
		}
		if m.max > 0 && len(m.es) >= m.max {
			m.lab.updateAtFull = true
		}
		e := m.es[i]
		switch mode {
		case mForceFirst:
			if i != 0 {
				m.es = append(m.es[:i:i], m.es[i+1:]...)
				m.es = append([]ment{e}, m.es...)
				m.lab.moveFirst = true
			}
		case mForceLast:
			if i != len(m.es)-1 {
				m.es = append(m.es[:i:i], m.es[i+1:]...)
				m.es = append(m.es, e)
				m.lab.moveLast = true
			}
		}
		return prev, true
	}
	if kind == kAddNoOver {
		if m.max > 0 && len(m.es) >= m.max {
			m.lab.noOverRefused = true
			return 0, false
		}
	} else if m.max > 0 {
		n := 0
		for len(m.es) >= m.max {
			if mode == mForceFirst || mode == mFirst {
				m.delAt(len(m.es) - 1)
				m.lab.evictLastEnd = true
			} else {
				m.delAt(0)
				m.lab.evictFirstEnd = true
			}
			m.lab.evict = true
			if m.ht.grew > 0 {
				m.lab.evictAfterGrowth = true
			}
			n++
		}
		if n > 1 {
			m.lab.multiEvict = true
		}
	}
	g := m.ht.grew
	c := m.ht.insert(k)
	if m.ht.grew > g {
		m.lab.growth = true
	}
	if c >= 2 {
		m.lab.chain2 = true
	}
	if c >= 3 {
		m.lab.chain3 = true
	}
	m.noteKey(k)
	if mode == mForceFirst || mode == mFirst {
		m.es = append([]ment{{k, v}}, m.es...)
	} else {
		m.es = append(m.es, ment{k, v})
	}
	if len(m.es) > m.lab.maxSize {
		m.lab.maxSize = len(m.es)
	}
	return 0, false
}

func (m *model) get(k int, lru bool) (int64, bool) {
	i := m.find(k)
	if i < 0 {
		return 0, false
	}
	e := m.es[i]
	if lru && i != len(m.es)-1 {
		m.es = append(m.es[:i:i], m.es[i+1:]...)
		m.es = append(m.es, e)
		m.lab.lruMove = true
	}
	return e.V, true
}

func (m *model) remove(k int) (int64, bool) {
	i := m.find(k)
	if i < 0 {
		return 0, false
	}
	m.lab.removedAny = true
	return m.delAt(i).V, true
}

func (m *model) removeEnd(first bool) (int64, bool) {
	if len(m.es) == 0 {
		return 0, false
	}
	m.lab.removedAny = true
	if first {
		return m.delAt(0).V, true
	}
	return m.delAt(len(m.es) - 1).V, true
}

func (m *model) clear() {
	m.es = nil
	m.ht.clear()
	m.lab.cleared = true
}

// sortBy: collect, sort by the comparator, clear, re-insert with plain put
// (so a bound lowered below the current size keeps the last max entries).
func (m *model) sortBy(desc bool) {
	list := append([]ment{}, m.es...)
	sort.SliceStable(list, func(i, j int) bool {
		c := m.cmp(list[i].K, list[j].K)
		if desc {
			return c > 0
		}
		return c < 0
	})
	m.lab.sortAny = true
	if m.lab.removedAny {
		m.lab.sortAfterRemove = true
	}
	if m.max > 0 && len(list) > m.max {
		m.lab.sortTrunc = true
	}
	m.es = nil
	m.ht.clear()
	for _, e := range list {
		m.put(e.K, e.V, mLast, kSet)
	}
}

func (m *model) containsValue(eq func(a, b int64) bool, v int64) bool {
	for _, e := range m.es {
		if eq(e.V, v) {
			return true
		}
	}
	return false
}

// ---- adapter interface --------------------------------------------------------

const (
	rVal  = iota // a decoded value (code in v)
	rNone        // a "no value" representation of an interface-typed API: nil, "" or 0
	rBad         // something that is neither a value of the alphabet's type nor a none representation
)

type ret struct {
	v    int64
	kind int
	desc string
}

func (r ret) String() string {
	switch r.kind {
	case rNone:
		return "none(" + r.desc + ")"
	case rBad:
		return "unexpected(" + r.desc + ")"
	}
	return r.desc
}

type kv struct {
	k int
	v ret
}

// inst is one live structure under test, seen through closures that translate
// concrete keys/values to alphabet indices / value codes.
type inst struct {
	size          func() int
	isEmpty       func() bool
	isFull        func() bool
	put           map[string]func(k int, v int64) ret // put putFirst putLast add addFirst addLast addNoOver unipoint
	get           map[string]func(k int) ret          // get getLRU remove
	pop           map[string]func() ret               // removeFirst removeLast
	endVal        map[string]func() ret               // firstValue lastValue
	endKey        map[string]func() int               // firstKey lastKey
	containsKey   func(k int) bool
	containsValue func(v int64) bool
	keys          map[string]func(limit int) ([]int, error) // keys keyArray (audited every step); keySet toKeySet (by op)
	vals          map[string]func(limit int) ([]ret, error) // values (every step); valueIterator (by op)
	entries       func(limit int) ([]kv, error)
	clear         func()
	sort          func(desc bool)
	sortHook      func(hook func()) // ascending sort whose comparator calls hook first
	sortFail      func(after int)   // ascending sort whose comparator panics at its (after+1)th call
	setMax        func(n int)
	setNone       func(code int64)
	str           map[string]func() string // toString toFormatString
	toBytes       func() []byte
	toObject      func(b []byte)
	roundTrip     func(b []byte) ([]kv, error) // fresh instance <- ToObject(b); its entries
	tableLen      func() int
}

// sut describes one of the 13 types.
type sut struct {
	name      string
	isSet     bool
	hasCtor   bool // (capacity, loadFactor) constructor
	capZeroOK bool // constructor guards capacity 0
	nKeys     int
	nSpecial  int
	nVals     int
	valCode   func(i int) int64 // value alphabet
	keyStr    func(k int) string
	valStr    func(code int64) string
	fmtEntry  func(k int, code int64) string // rendering inside ToString
	cmp       func(a, b int) int
	hash      func(k int) uint64
	add       func(a, b int64) int64
	valEq     func(a, b int64) bool // == of the value type (ContainsValue)
	numeric   bool                  // typed numeric value API: none is NONE (or 0)
	nullKey   int
	emptyKey  int
	negKeys   map[int]bool
	extKeys   map[int]bool
	ops       []wop // ops offered, with generator weights
	encode    func(es []ment) []byte
	mk        func(c *Case) *inst
	methods   func() []string // exported methods of the type (reflection)
	covered   []string        // exported methods exercised by the adapter
}

type wop struct {
	op string
	w  int
}

var suts = map[string]*sut{}
var sutOrder []string

func register(s *sut) {
	suts[s.name] = s
	sutOrder = append(sutOrder, s.name)
}

// ---- running a history ---------------------------------------------------------

type runner struct {
	w    *watch
	s    *sut
	in   *inst
	m    *model
	step int
	desc string
}

func (r *runner) isNone(x ret) bool {
	if r.s.numeric {
		return x.kind == rVal && (x.v == r.m.none || x.v == 0)
	}
	return x.kind == rNone
}

func (r *runner) failf(format string, a ...interface{}) error {
	return fmt.Errorf("%s step %d (%s): %s", r.s.name, r.step, r.desc, fmt.Sprintf(format, a...))
}

func (r *runner) expectRet(what string, got ret, prev int64, had bool) error {
	if had {
		if got.kind != rVal || got.v != prev {
			return r.failf("%s returned %v, model says %s", what, got, r.s.valStr(prev))
		}
		return nil
	}
	if !r.isNone(got) {
		return r.failf("%s returned %v, model says no value (expected the type's none value)", what, got)
	}
	return nil
}

func (r *runner) keysEq(what string, got []int, err error, want []int, ordered bool) error {
	if err != nil {
		return r.failf("%s: %v", what, err)
	}
	g, w := got, want
	if !ordered {
		g, w = append([]int{}, got...), append([]int{}, want...)
		sort.Ints(g)
		sort.Ints(w)
	}
	if len(g) != len(w) {
		return r.failf("%s yields %d keys %s, model has %d keys %s", what, len(got), r.keyList(got), len(want), r.keyList(want))
	}
	for i := range g {
		if g[i] != w[i] {
			return r.failf("%s differs at position %d: got %s, model %s", what, i, r.keyList(got), r.keyList(want))
		}
	}
	return nil
}

func (r *runner) keyList(ks []int) string {
	var sb strings.Builder
	sb.WriteString("[")
	for i, k := range ks {
		if i > 0 {
			sb.WriteString(" ")
		}
		if i >= 24 {
			fmt.Fprintf(&sb, "… %d more", len(ks)-i)
			break
		}
		if k < 0 {
			sb.WriteString("<not-in-alphabet>")
		} else {
			sb.WriteString(r.s.keyStr(k))
		}
	}
	sb.WriteString("]")
	return sb.String()
}

func (r *runner) modelKeys() []int {
	ks := make([]int, len(r.m.es))
	for i, e := range r.m.es {
		ks[i] = e.K
	}
	return ks
}

func (r *runner) valsEq(what string, got []ret, err error) error {
	if err != nil {
		return r.failf("%s: %v", what, err)
	}
	if len(got) != len(r.m.es) {
		return r.failf("%s yields %d values, model has %d", what, len(got), len(r.m.es))
	}
	for i, e := range r.m.es {
		if got[i].kind != rVal || got[i].v != e.V {
			return r.failf("%s differs at position %d: got %v, model %s (key %s)", what, i, got[i], r.s.valStr(e.V), r.s.keyStr(e.K))
		}
	}
	return nil
}

func (r *runner) entriesEq(what string, got []kv, err error) error {
	if err != nil {
		return r.failf("%s: %v", what, err)
	}
	if len(got) != len(r.m.es) {
		return r.failf("%s yields %d entries, model has %d", what, len(got), len(r.m.es))
	}
	for i, e := range r.m.es {
		if got[i].k != e.K || got[i].v.kind != rVal || got[i].v.v != e.V {
			gk := "<not-in-alphabet>"
			if got[i].k >= 0 {
				gk = r.s.keyStr(got[i].k)
			}
			return r.failf("%s differs at position %d: got %s=%v, model %s=%s", what, i, gk, got[i].v, r.s.keyStr(e.K), r.s.valStr(e.V))
		}
	}
	return nil
}

func (r *runner) expectedString(nl bool) string {
	var sb strings.Builder
	sb.WriteString("{")
	for i, e := range r.m.es {
		if i > 0 {
			sb.WriteString(", ")
		}
		sb.WriteString(r.s.fmtEntry(e.K, e.V))
		if nl {
			sb.WriteString("\n")
		}
	}
	sb.WriteString("}")
	return sb.String()
}

// audit compares everything observable without changing the structure.
func (r *runner) audit(lookups bool) error {
	in, m := r.in, r.m
	n := len(m.es)
	limit := n + 3
	if got := in.size(); got != n {
		return r.failf("Size() = %d, model %d", got, n)
	}
	if got := in.isEmpty(); got != (n == 0) {
		return r.failf("IsEmpty() = %v with %d entries", got, n)
	}
	if want := m.max > 0 && m.max <= n; in.isFull() != want {
		return r.failf("IsFull() = %v, model %v (size %d, max %d)", !want, want, n, m.max)
	}
	for _, name := range []string{"firstKey", "lastKey"} {
		if f := in.endKey[name]; f != nil {
			got := f()
			if n > 0 {
				want := m.es[0].K
				if name == "lastKey" {
					want = m.es[n-1].K
				}
				if got != want {
					return r.failf("%s = %s, model %s", name, r.keyList([]int{got}), r.s.keyStr(want))
				}
			}
		}
	}
	for _, name := range []string{"firstValue", "lastValue"} {
		if f := in.endVal[name]; f != nil {
			got := f()
			if n > 0 {
				want := m.es[0].V
				if name == "lastValue" {
					want = m.es[n-1].V
				}
				if got.kind != rVal || got.v != want {
					return r.failf("%s = %v, model %s", name, got, r.s.valStr(want))
				}
			}
		}
	}
	mk := r.modelKeys()
	for _, name := range []string{"keys", "keyArray"} {
		if f := in.keys[name]; f != nil {
			got, err := f(limit)
			if err := r.keysEq(name, got, err, mk, true); err != nil {
				return err
			}
		}
	}
	if f := in.vals["values"]; f != nil {
		got, err := f(limit)
		if err := r.valsEq("values", got, err); err != nil {
			return err
		}
	}
	if in.entries != nil {
		got, err := in.entries(limit)
		if err := r.entriesEq("entries", got, err); err != nil {
			return err
		}
	}
	if lookups {
		for _, e := range m.es {
			if !in.containsKey(e.K) {
				return r.failf("contains(%s) = false for a key the model holds", r.s.keyStr(e.K))
			}
			if f := in.get["get"]; f != nil {
				if got := f(e.K); got.kind != rVal || got.v != e.V {
					return r.failf("get(%s) = %v, model %s", r.s.keyStr(e.K), got, r.s.valStr(e.V))
				}
			}
		}
		// absent keys: the special keys plus neighbours of the bulk range in use
		for k := 0; k < r.s.nSpecial+8 && k < r.s.nKeys; k++ {
			if m.find(k) >= 0 {
				continue
			}
			if in.containsKey(k) {
				return r.failf("contains(%s) = true for a key the model does not hold", r.s.keyStr(k))
			}
			if f := in.get["get"]; f != nil {
				if got := f(k); !r.isNone(got) {
					return r.failf("get(%s) = %v for an absent key (expected the none value)", r.s.keyStr(k), got)
				}
			}
		}
	}
	return nil
}

// extended runs the read-only observers that are too costly for every step.
func (r *runner) extended(which string) error {
	in := r.in
	limit := len(r.m.es) + 3
	all := which == ""
	if f := in.str["toString"]; f != nil && (all || which == "toString") {
		if got, want := f(), r.expectedString(false); got != want {
			return r.failf("ToString() = %q, model %q", clip(got), clip(want))
		}
	}
	if f := in.str["toFormatString"]; f != nil && (all || which == "toFormatString") {
		if got, want := f(), r.expectedString(true); got != want {
			return r.failf("ToFormatString() = %q, model %q", clip(got), clip(want))
		}
	}
	if f := in.keys["keySet"]; f != nil && (all || which == "keySet") {
		got, err := f(limit)
		if err := r.keysEq("GetKeySet", got, err, r.modelKeys(), true); err != nil {
			return err
		}
	}
	if f := in.keys["toKeySet"]; f != nil && (all || which == "toKeySet") {
		got, err := f(limit)
		if err := r.keysEq("ToKeySet (as a set)", got, err, r.modelKeys(), false); err != nil {
			return err
		}
	}
	if f := in.vals["valueIterator"]; f != nil && (all || which == "valueIterator") {
		got, err := f(limit)
		if err := r.valsEq("ValueIterator", got, err); err != nil {
			return err
		}
	}
	if in.toBytes != nil && (all || which == "toBytes") {
		got := in.toBytes()
		want := r.s.encode(r.m.es)
		if string(got) != string(want) {
			return r.failf("ToBytes() = %x, reference encoding of the model's entries %x", clipB(got), clipB(want))
		}
		es, err := in.roundTrip(want)
		if err := r.entriesEq("entries of a fresh map after ToObject(reference bytes)", es, err); err != nil {
			return err
		}
	}
	return nil
}

func clip(s string) string {
	if len(s) > 300 {
		return s[:300] + "…"
	}
	return s
}
func clipB(b []byte) []byte {
	if len(b) > 120 {
		return b[:120]
	}
	return b
}

var putModes = map[string][2]int{
	"put": {mLast, kSet}, "putFirst": {mForceFirst, kSet}, "putLast": {mForceLast, kSet},
	"add": {mLast, kAdd}, "addFirst": {mForceFirst, kAdd}, "addLast": {mForceLast, kAdd},
	"addNoOver": {mLast, kAddNoOver}, "unipoint": {mLast, kSet},
}

func (r *runner) doPut(name string, k int, code int64) error {
	f := r.in.put[name]
	if f == nil {
		return r.failf("harness: type does not offer %s", name)
	}
	if r.s.isSet {
		code = int64(k)
	}
	md := putModes[name]
	prev, had := r.m.put(k, code, md[0], md[1])
	got := f(k, code)
	if name == "unipoint" {
		if got.kind != rVal || got.v != int64(k) {
			return r.failf("Unipoint(%s) returned %v, expected the key itself", r.s.keyStr(k), got)
		}
		return nil
	}
	return r.expectRet(fmt.Sprintf("%s(%s, %s)", name, r.s.keyStr(k), r.s.valStr(code)), got, prev, had)
}

func (r *runner) val(i int) int64 {
	if i < 0 {
		i = -i
	}
	return r.s.valCode(i % r.s.nVals)
}

func (r *runner) key(i int) int {
	if i < 0 {
		i = -i
	}
	return i % r.s.nKeys
}

// exec performs one op on both sides. Fill ops expand to single puts, each
// audited like any other step.
func (r *runner) exec(op Op, last bool) error {
	s, in, m := r.s, r.in, r.m
	if strings.HasPrefix(op.Op, "fill-") {
		name := strings.TrimPrefix(op.Op, "fill-")
		nb := s.nKeys - s.nSpecial
		cnt := op.V
		if cnt < 0 {
			cnt = 0
		}
		if cnt > nb {
			cnt = nb
		}
		for i := 0; i < cnt; i++ {
			k := s.nSpecial + (r.key(op.K)+i)%nb
			r.step++
			r.w.prog.Add(1)
			r.desc = fmt.Sprintf("%s #%d of %+v", name, i, op)
			g := m.ht.grew
			if err := r.doPut(name, k, r.val(i%5+1)); err != nil {
				return err
			}
			if err := r.audit(len(m.es) <= 24 || i == cnt-1 || i%16 == 0 || m.ht.grew != g); err != nil {
				return err
			}
		}
		return nil
	}
	r.step++
	r.desc = fmt.Sprintf("%+v", op)
	k := r.key(op.K)
	grewBefore := m.ht.grew
	switch op.Op {
	case "put", "putFirst", "putLast", "add", "addFirst", "addLast", "addNoOver", "unipoint":
		if err := r.doPut(op.Op, k, r.val(op.V)); err != nil {
			return err
		}
	case "get", "getLRU":
		f := in.get[op.Op]
		if f == nil {
			return r.failf("harness: type does not offer %s", op.Op)
		}
		v, had := m.get(k, op.Op == "getLRU")
		if err := r.expectRet(fmt.Sprintf("%s(%s)", op.Op, s.keyStr(k)), f(k), v, had); err != nil {
			return err
		}
	case "remove":
		v, had := m.remove(k)
		if err := r.expectRet(fmt.Sprintf("remove(%s)", s.keyStr(k)), in.get["remove"](k), v, had); err != nil {
			return err
		}
	case "removeFirst", "removeLast":
		v, had := m.removeEnd(op.Op == "removeFirst")
		if err := r.expectRet(op.Op+"()", in.pop[op.Op](), v, had); err != nil {
			return err
		}
	case "containsKey":
		if got, want := in.containsKey(k), m.find(k) >= 0; got != want {
			return r.failf("contains(%s) = %v, model %v", s.keyStr(k), got, want)
		}
	case "containsValue":
		code := r.val(op.V)
		if got, want := in.containsValue(code), m.containsValue(s.valEq, code); got != want {
			return r.failf("ContainsValue(%s) = %v, model %v", s.valStr(code), got, want)
		}
	case "containsValueOf":
		// state-relative: the value currently stored under key K (else a value of the alphabet)
		code := r.val(op.V)
		if i := m.find(k); i >= 0 {
			code = m.es[i].V
		}
		if got, want := in.containsValue(code), m.containsValue(s.valEq, code); got != want {
			return r.failf("ContainsValue(%s) = %v, model %v", s.valStr(code), got, want)
		}
	case "clear":
		m.clear()
		in.clear()
	case "sortAsc", "sortDesc":
		m.sortBy(op.Op == "sortDesc")
		in.sort(op.Op == "sortDesc")
	case "sortFail":
		// the caller's comparator panics during the sort: the call fails, and a failed call leaves the dictionary as it was
		// (a sort that needed fewer comparisons than that completes normally)
		failed := false
		func() {
			defer func() {
				if recover() != nil {
					failed = true
				}
			}()
			in.sortFail(op.V % 5)
		}()
		if failed {
			m.lab.sortFailed = true
		} else {
			m.sortBy(false)
		}
	case "setMax":
		if r.step > 1 && len(m.es) > 0 {
			m.lab.setMaxMid = true
		}
		if op.V > 0 && op.V < len(m.es) {
			m.lab.setMaxBelow = true
		}
		m.max = op.V
		in.setMax(op.V)
	case "setNone":
		m.none = r.val(op.V)
		in.setNone(m.none)
	case "toObject":
		k2 := r.key(op.K + 1)
		pairs := []ment{{k, r.val(op.V)}, {k2, r.val(op.V + 1)}}
		for _, p := range pairs {
			m.put(p.K, p.V, mLast, kSet)
		}
		in.toObject(s.encode(pairs))
	case "toString", "toFormatString", "keySet", "toKeySet", "valueIterator", "toBytes":
		if err := r.extended(op.Op); err != nil {
			return err
		}
	default:
		return r.failf("harness: unknown op")
	}
	n := len(m.es)
	return r.audit(n <= 24 || last || r.step%8 == 0 || m.ht.grew != grewBefore)
}

var (
	statMu    sync.Mutex
	statCases = map[string]int{}
	statClass = map[string]map[string]int{}
	statMax   = map[string]int{}
	capMis    = map[string]int{}
)

func runHistory(s *sut, c Case, w *watch) *pbt.Result {
	cp := c
	if !s.hasCtor {
		cp.Custom = false
	}
	if cp.Custom {
		if cp.Cap < 0 {
			cp.Cap = -cp.Cap
		}
		if cp.Cap == 0 && !s.capZeroOK {
			cp.Cap = 1
		}
		if cp.LF < 0.1 {
			cp.LF = 0.1
		}
	}
	lab := &labels{}
	cap, thr, lf := 101, 75, float32(0.75)
	if cp.Custom {
		cap, lf = cp.Cap, cp.LF
		if cap == 0 {
			cap = 1
		}
		thr = int(float32(cap) * lf)
	}
	m := &model{max: 0, nullKey: s.nullKey, add: s.add, cmp: s.cmp, lab: lab, ht: newHtab(cap, thr, lf, s.hash),
		nSpecial: s.nSpecial, negKeys: s.negKeys, extKeys: s.extKeys, emptyKeyI: s.emptyKey}
	r := &runner{s: s, in: s.mk(&cp), m: m, desc: "fresh", w: w}
	if err := r.audit(true); err != nil {
		return &pbt.Result{Err: err}
	}
	for i, op := range c.Ops {
		w.at("op #%d %+v", i, op)
		if err := r.exec(op, i == len(c.Ops)-1); err != nil {
			return &pbt.Result{Err: err}
		}
	}
	w.at("final observers")
	r.step++
	r.desc = "final observers"
	if err := r.extended(""); err != nil {
		return &pbt.Result{Err: err}
	}
	if err := r.audit(true); err != nil {
		return &pbt.Result{Err: err}
	}
	lab.steps = r.step
	// labelling self-check: the mirrored capacity should equal the real table length
	if r.in.tableLen != nil {
		if tl := r.in.tableLen(); tl != m.ht.cap {
			statMu.Lock()
			capMis[s.name]++
			statMu.Unlock()
		}
	}
	cl := classesOf(&cp, lab)
	nt := lab.growth || lab.chain2 || lab.evict || lab.sortAfterRemove
	statMu.Lock()
	statCases[s.name]++
	if statClass[s.name] == nil {
		statClass[s.name] = map[string]int{}
	}
	for _, x := range cl {
		statClass[s.name][x]++
	}
	if nt {
		statClass[s.name]["NT"]++
	}
	if lab.maxSize > statMax[s.name] {
		statMax[s.name] = lab.maxSize
	}
	statMu.Unlock()
	return &pbt.Result{NT: nt, Classes: cl}
}

func classesOf(c *Case, l *labels) []string {
	var cl []string
	add := func(b bool, s string) {
		if b {
			cl = append(cl, s)
		}
	}
	add(c.Custom, "ctor-custom")
	add(l.growth, "growth")
	add(l.chain2, "chain>=2")
	add(l.chain3, "chain>=3")
	add(l.evict, "evict")
	add(l.evictFirstEnd, "evict-from-first-end")
	add(l.evictLastEnd, "evict-from-last-end")
	add(l.multiEvict, "evict-several-at-once")
	add(l.evictAfterGrowth, "evict-after-growth")
	add(l.setMaxMid, "setmax-mid-history")
	add(l.setMaxBelow, "setmax-below-size")
	add(l.removeChain, "remove-from-chain>=2")
	add(l.removeMid, "remove-chain-middle")
	add(l.sortAny, "sort")
	add(l.sortAfterRemove, "sort-after-remove")
	add(l.sortTrunc, "sort-with-size>max")
	add(l.sortFailed, "sort-whose-comparator-panics")
	add(l.updateAtFull, "update-while-full")
	add(l.moveFirst, "putfirst-moves-existing")
	add(l.moveLast, "putlast-moves-existing")
	add(l.lruMove, "getlru-moves")
	add(l.emptyKey, "empty-string-key-stored")
	add(l.nullKeyIgnored, "null-key-ignored")
	add(l.extremeKey, "extreme-key")
	add(l.negKey, "negative-key")
	add(l.cleared, "clear")
	add(l.noOverRefused, "addnoover-refused")
	switch {
	case l.steps <= 10:
		cl = append(cl, "steps<=10")
	case l.steps <= 50:
		cl = append(cl, "steps<=50")
	case l.steps <= 150:
		cl = append(cl, "steps<=150")
	default:
		cl = append(cl, "steps>150")
	}
	return cl
}

// ---- generator -----------------------------------------------------------------

var lfs = []float32{0.1, 0.25, 0.5, 0.75, 1, 2, 4}
var caps = []int{0, 1, 1, 2, 3, 3, 5, 7, 11, 16, 50, 101, 200}
var maxes = []int{1, 1, 2, 2, 3, 3, 4, 5, 8, 13, 20, 60, 80, 100, 0, -1}

func drawCase(s *sut) func(t *rapid.T) Case {
	total := 0
	for _, w := range s.ops {
		total += w.w
	}
	has := func(op string) bool {
		for _, w := range s.ops {
			if w.op == op {
				return true
			}
		}
		return false
	}
	var putOps []string
	for _, p := range []string{"put", "putFirst", "putLast", "add", "addFirst", "addLast", "addNoOver", "unipoint"} {
		if has(p) {
			putOps = append(putOps, p)
		}
	}
	return func(t *rapid.T) Case {
		c := Case{Type: s.name}
		if s.hasCtor && rapid.IntRange(0, 9).Draw(t, "ctor") < 6 {
			c.Custom = true
			c.Cap = rapid.SampledFrom(caps).Draw(t, "cap")
			if c.Cap == 0 && !s.capZeroOK {
				c.Cap = 1
			}
			c.LF = rapid.SampledFrom(lfs).Draw(t, "lf")
		}
		maxOps := pbt.Pick(120, 400)
		// profile: 0 small/hot keys, 1 growth, 2 bounded, 3 bounded + growth
		profile := rapid.IntRange(0, 9).Draw(t, "profile")
		hot := rapid.IntRange(3, s.nSpecial).Draw(t, "hot")
		nb := s.nKeys - s.nSpecial
		bulkStart := rapid.IntRange(0, nb-1).Draw(t, "bulkStart")
		bulkSpan := rapid.SampledFrom([]int{4, 12, 40, 110, nb}).Draw(t, "bulkSpan")
		drawKey := func() int {
			z := rapid.IntRange(0, 9).Draw(t, "kz")
			switch {
			case z < 6:
				return rapid.IntRange(0, hot-1).Draw(t, "k")
			case z < 9:
				return s.nSpecial + (bulkStart+rapid.IntRange(0, bulkSpan-1).Draw(t, "kb"))%nb
			}
			return rapid.IntRange(0, s.nKeys-1).Draw(t, "kany")
		}
		drawOp := func() Op {
			x := rapid.IntRange(0, total-1).Draw(t, "w")
			name := ""
			for _, w := range s.ops {
				if x < w.w {
					name = w.op
					break
				}
				x -= w.w
			}
			op := Op{Op: name}
			switch name {
			case "put", "putFirst", "putLast", "add", "addFirst", "addLast", "addNoOver", "toObject":
				op.K, op.V = drawKey(), rapid.IntRange(0, s.nVals-1).Draw(t, "v")
			case "unipoint", "get", "getLRU", "remove", "containsKey":
				op.K = drawKey()
			case "containsValueOf":
				op.K, op.V = drawKey(), rapid.IntRange(0, s.nVals-1).Draw(t, "v")
			case "clear":
				if rapid.IntRange(0, 3).Draw(t, "reallyClear") > 0 {
					op.Op, op.K, op.V = "put", drawKey(), rapid.IntRange(0, s.nVals-1).Draw(t, "v")
				}
			case "containsValue", "setNone":
				op.V = rapid.IntRange(0, s.nVals-1).Draw(t, "v")
			case "setMax":
				op.V = rapid.SampledFrom(maxes).Draw(t, "max")
			case "fill":
				op.Op = "fill-" + rapid.SampledFrom(putOps).Draw(t, "fillop")
				op.K = rapid.IntRange(0, nb-1).Draw(t, "fk")
				op.V = rapid.IntRange(1, pbt.Pick(40, 120)).Draw(t, "fn")
			}
			return op
		}
		var ops []Op
		bounded := profile == 5 || profile == 6 || profile == 7 || profile == 8
		growth := profile == 2 || profile == 3 || profile == 4 || profile == 8 || profile == 9
		if bounded && rapid.IntRange(0, 3).Draw(t, "maxfirst") > 0 {
			mx := rapid.SampledFrom(maxes[:12]).Draw(t, "max0")
			if growth && !c.Custom {
				mx = rapid.SampledFrom([]int{78, 80, 90, 100, 120}).Draw(t, "max0g")
			}
			ops = append(ops, Op{Op: "setMax", V: mx})
		}
		if growth {
			n := rapid.IntRange(70, pbt.Pick(115, 330)).Draw(t, "fill0")
			if c.Custom {
				n = rapid.IntRange(4, 60).Draw(t, "fill0c")
			}
			ops = append(ops, Op{Op: "fill-" + rapid.SampledFrom(putOps).Draw(t, "fill0op"), K: bulkStart, V: n})
		}
		n := rapid.IntRange(1, maxOps-len(ops)).Draw(t, "nops")
		if profile == 0 {
			n = rapid.IntRange(1, 30).Draw(t, "nopsShort")
		}
		for i := 0; i < n; i++ {
			ops = append(ops, drawOp())
		}
		if bounded && profile == 7 {
			// bound introduced mid-history, possibly below the current size
			at := rapid.IntRange(0, len(ops)).Draw(t, "maxAt")
			mx := rapid.SampledFrom(maxes[:10]).Draw(t, "maxMid")
			ops = append(ops[:at:at], append([]Op{{Op: "setMax", V: mx}}, ops[at:]...)...)
		}
		c.Ops = ops
		return c
	}
}

// ---- registration ----------------------------------------------------------------

const rule = "history = optional (capacity, loadFactor) constructor + 1..120 (quick) / 1..400 (thorough) ops over every public method of the type " +
	"(k = index into the type's key alphabet: special keys 0/negatives/extremes/colliding k,k+101,k+202,k+203,…/\"\" first, then bulk keys; " +
	"fill-<put op> expands to V single puts of consecutive bulk keys), each step compared with the slice-ordered reference dictionary; " +
	"non-trivial = the history contains a table growth, a hash chain of length >= 2, an eviction, or a sort after a removal; distinct by op sequence"

var specs = map[string]*pbt.Spec[Case]{}

func specFor(name string) *pbt.Spec[Case] {
	if sp, ok := specs[name]; ok {
		return sp
	}
	s := suts[name]
	if s == nil {
		panic("no adapter for " + name)
	}
	sp := pbt.Register(pbt.Spec[Case]{
		Prop: "C09", Name: "hist-" + name, Rule: rule,
		Quick: 600, Thorough: 30000,
		Draw: drawCase(s),
		Run:  runCase,
	})
	specs[name] = sp
	return sp
}

func init() {
	registerAll()
	// make every sub-check replayable even when a single test is selected
	for _, n := range sutOrder {
		specFor(n)
	}
}

func check(t *testing.T, name string) {
	specFor(name).Check(t)
	statMu.Lock()
	defer statMu.Unlock()
	n := statCases[name]
	if n == 0 {
		return
	}
	fr := map[string]float64{}
	for k, v := range statClass[name] {
		fr[k] = float64(int(10000*float64(v)/float64(n))) / 100
	}
	pbt.Extra("hist-"+name, "class_percent", fr)
	pbt.Extra("hist-"+name, "max_entries_reached", statMax[name])
	pbt.Extra("hist-"+name, "label_mirror_capacity_mismatches", capMis[name])
	for _, must := range []string{"growth", "chain>=2", "evict", "sort-after-remove", "remove-chain-middle", "setmax-below-size", "evict-after-growth"} {
		if n >= 100 && fr[must] < 5 {
			pbt.Note("INCONCLUSIVE-CLASS hist-%s: class %q is only %.2f%% of %d histories (floor 5%%)", name, must, fr[must], n)
		}
	}
}

func TestLinkedMap(t *testing.T)          { check(t, "LinkedMap") }
func TestIntKeyLinkedMap(t *testing.T)    { check(t, "IntKeyLinkedMap") }
func TestLongKeyLinkedMap(t *testing.T)   { check(t, "LongKeyLinkedMap") }
func TestStringKeyLinkedMap(t *testing.T) { check(t, "StringKeyLinkedMap") }
func TestIntIntLinkedMap(t *testing.T)    { check(t, "IntIntLinkedMap") }
func TestIntFloatLinkedMap(t *testing.T)  { check(t, "IntFloatLinkedMap") }
func TestLongFloatLinkedMap(t *testing.T) { check(t, "LongFloatLinkedMap") }
func TestLongLongLinkedMap(t *testing.T)  { check(t, "LongLongLinkedMap") }
func TestStringIntLinkedMap(t *testing.T) { check(t, "StringIntLinkedMap") }
func TestStringLongLinkedMap(t *testing.T) {
	check(t, "StringLongLinkedMap")
}
func TestLinkedSet(t *testing.T)       { check(t, "LinkedSet") }
func TestIntLinkedSet(t *testing.T)    { check(t, "IntLinkedSet") }
func TestStringLinkedSet(t *testing.T) { check(t, "StringLinkedSet") }

// TestMethodCoverage records, per type, the exported methods the adapter does
// not exercise (evidence note; never a verdict).
func TestMethodCoverage(t *testing.T) {
	for _, n := range sutOrder {
		s := suts[n]
		cov := map[string]bool{}
		for _, c := range s.covered {
			cov[c] = true
		}
		var missing []string
		for _, m := range s.methods() {
			if !cov[m] {
				missing = append(missing, m)
			}
		}
		if len(missing) > 0 {
			pbt.Note("hist-%s: exported methods not exercised: %s", n, strings.Join(missing, ","))
			t.Logf("%s: not exercised: %v", n, missing)
		}
	}
}

// TestRegressions replays, through the same machinery, the minimal histories
// of the defects this check found on the pinned tree (F21–F24, F36, F091, F092),
// so that reverting any of the fixes fails deterministically.
func TestRegressions(t *testing.T) {
	if os.Getenv("VERIF_REPLAY") != "" {
		t.Skip("replay mode")
	}
	if i, _ := pbt.Shard(); i != 0 {
		t.Skip("only on shard 0")
	}
	run := func(typ string, ops ...Op) {
		specFor(typ).RunCase(t, Case{Type: typ, Ops: ops})
	}
	for _, typ := range []string{"IntKeyLinkedMap", "IntIntLinkedMap", "IntFloatLinkedMap", "LongFloatLinkedMap", "LongLongLinkedMap"} {
		// F21: ContainsValue walked tab[len(tab)]
		run(typ, Op{Op: "put", K: 4, V: 0}, Op{Op: "containsValue", V: 0}, Op{Op: "containsValue", V: 5})
	}
	for _, typ := range []string{"StringIntLinkedMap", "StringLongLinkedMap"} {
		// F21: ContainsValue skipped bucket 0 (key index 5 hashes to bucket 0)
		run(typ, Op{Op: "put", K: 5, V: 2}, Op{Op: "containsValueOf", K: 5}, Op{Op: "containsValue", V: 2})
		// F24: Add* must accumulate
		run(typ, Op{Op: "add", K: 0, V: 0}, Op{Op: "add", K: 0, V: 1}, Op{Op: "addFirst", K: 0, V: 2}, Op{Op: "addLast", K: 0, V: 5}, Op{Op: "get", K: 0})
		// F092: Values() enumerated entries
		run(typ, Op{Op: "put", K: 0, V: 0}, Op{Op: "put", K: 1, V: 1})
	}
	// F22: Sort locked twice
	run("IntKeyLinkedMap", Op{Op: "put", K: 1, V: 0}, Op{Op: "put", K: 0, V: 1}, Op{Op: "sortAsc"}, Op{Op: "sortDesc"})
	// F23: wrong type assertions
	run("LongLongLinkedMap", Op{Op: "put", K: 0, V: 0}, Op{Op: "toString"})
	run("LinkedSet", Op{Op: "put", K: 1}, Op{Op: "put", K: 0}, Op{Op: "sortAsc"}, Op{Op: "sortDesc"})
	// F36: the empty string is stored but Contains("") was hard-wired to false
	run("StringLinkedSet", Op{Op: "put", K: 4}, Op{Op: "containsKey", K: 4}, Op{Op: "remove", K: 4}, Op{Op: "containsKey", K: 4})
	// F091: ToBytes asserted the entry by value
	for _, typ := range []string{"IntFloatLinkedMap", "LongFloatLinkedMap"} {
		run(typ, Op{Op: "put", K: 0, V: 1}, Op{Op: "toBytes"})
	}
}
