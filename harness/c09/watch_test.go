package c09

import (
	"bytes"
	"fmt"
	"regexp"
	"runtime"
	"runtime/debug"
	"strconv"
	"strings"
	"sync/atomic"
	"syscall"
	"time"

	"verif/pbt"
)

// Hang detection that does not use wall-clock time as the correctness signal
// (the machine may be heavily loaded: a runnable goroutine can be starved for
// many seconds). A history is declared hung only when
//
//   - self-deadlock: the goroutine executing it is, in three consecutive stack
//     samples without any step progress, parked in a blocking wait state
//     (sync.Mutex.Lock, semacquire, chan …) with a golib hmap frame on its
//     stack — nobody else can ever release that lock, the histories are
//     single-goroutine; or
//   - endless loop: the process has consumed >= spinCPU seconds of CPU time
//     (getrusage, i.e. time actually executed, not elapsed) since the last step
//     completed, after subtracting what goroutines leaked by earlier detected
//     loops can have consumed at most.
//
// Wall time only decides how often samples are taken.

type watch struct {
	prog  atomic.Int64 // incremented for every completed step
	gid   atomic.Int64
	where atomic.Value // string
}

func (w *watch) at(format string, a ...interface{}) {
	w.where.Store(fmt.Sprintf(format, a...))
	w.prog.Add(1)
}

const spinCPU = 10 * time.Second

var leakedSpinners atomic.Int64

func cpuNow() time.Duration {
	var ru syscall.Rusage
	if err := syscall.Getrusage(syscall.RUSAGE_SELF, &ru); err != nil {
		return 0
	}
	return time.Duration(ru.Utime.Nano() + ru.Stime.Nano())
}

func curGoid() int64 {
	buf := make([]byte, 64)
	buf = buf[:runtime.Stack(buf, false)]
	// "goroutine 123 [running]:"
	f := bytes.Fields(buf)
	if len(f) >= 2 {
		if n, err := strconv.ParseInt(string(f[1]), 10, 64); err == nil {
			return n
		}
	}
	return -1
}

var stateRe = regexp.MustCompile(`^goroutine (\d+) \[([^\]]*)\]:`)

// goroutineState returns the wait state and stack of goroutine gid.
func goroutineState(gid int64) (state, stack string) {
	buf := make([]byte, 1<<20)
	buf = buf[:runtime.Stack(buf, true)]
	for _, blk := range strings.Split(string(buf), "\n\n") {
		m := stateRe.FindStringSubmatch(blk)
		if m == nil {
			continue
		}
		if n, _ := strconv.ParseInt(m[1], 10, 64); n == gid {
			st := m[2]
			if i := strings.Index(st, ","); i >= 0 { // "sync.Mutex.Lock, 2 minutes"
				st = st[:i]
			}
			return st, blk
		}
	}
	return "", ""
}

func blockedState(st string) bool {
	return strings.HasPrefix(st, "sync.") || strings.HasPrefix(st, "semacquire") || strings.HasPrefix(st, "chan ") || st == "select"
}

func runCase(c Case) *pbt.Result {
	s := suts[c.Type]
	if s == nil {
		return pbt.Fail("harness: unknown type %q", c.Type)
	}
	w := &watch{}
	w.where.Store("start")
	w.gid.Store(-1)
	done := make(chan *pbt.Result, 1)
	go func() {
		w.gid.Store(curGoid())
		defer func() {
			if p := recover(); p != nil {
				done <- pbt.Fail("%s: panic at %v: %v\n%s", s.name, w.where.Load(), p, trim(debug.Stack()))
			}
		}()
		done <- runHistory(s, c, w)
	}()
	// fast path: almost every history finishes within milliseconds
	tick := time.NewTicker(500 * time.Millisecond)
	defer tick.Stop()
	lastProg := int64(-1)
	var stuckSince, lastSample time.Time
	var cpu0 time.Duration
	blocked := 0
	for {
		select {
		case r := <-done:
			return r
		case now := <-tick.C:
			if p := w.prog.Load(); p != lastProg {
				lastProg, stuckSince, cpu0, blocked, lastSample = p, now, cpuNow(), 0, time.Time{}
				continue
			}
			if now.Sub(stuckSince) < 4*time.Second || now.Sub(lastSample) < 2*time.Second {
				continue
			}
			lastSample = now
			st, stack := goroutineState(w.gid.Load())
			if blockedState(st) && strings.Contains(stack, "golib/util/hmap.") {
				blocked++
				if blocked >= 3 {
					return pbt.Fail("%s: self-deadlock at %v: the call never returns; its goroutine is parked in [%s] inside golib in %d consecutive samples with no other goroutine able to wake it\n%s",
						s.name, w.where.Load(), st, blocked, trim([]byte(stack)))
				}
			} else {
				blocked = 0
			}
			allowance := time.Duration(leakedSpinners.Load()) * now.Sub(stuckSince)
			if used := cpuNow() - cpu0 - allowance; used >= spinCPU {
				leakedSpinners.Add(1)
				return pbt.Fail("%s: endless loop at %v: %v of CPU time consumed without the call returning (goroutine state [%s])\n%s",
					s.name, w.where.Load(), used.Round(time.Second), st, trim([]byte(stack)))
			}
		}
	}
}

func trim(b []byte) string {
	lines := strings.Split(string(b), "\n")
	if len(lines) > 24 {
		lines = lines[:24]
	}
	return strings.Join(lines, "\n")
}
