package c09

import (
	"container/list"
	"fmt"
	"math"
	"reflect"
	"strconv"
	"strings"

	wio "github.com/whatap/golib/io"
	"github.com/whatap/golib/util/hmap"
	"verif/gen"
	"verif/ref"
)

// ---- helpers -------------------------------------------------------------------

func drain[T any](has func() bool, next func() T, limit int) ([]T, error) {
	var out []T
	for has() {
		if len(out) >= limit {
			return out, fmt.Errorf("enumeration has not ended after %d elements (more than the model holds; cycle or stale entries)", len(out))
		}
		out = append(out, next())
	}
	return out, nil
}

// overlapping starts the enumeration that is going to be audited, then starts and advances a second enumeration of
// the same structure: enumerations are independent of each other (starting one is not a modification).
func overlapping[E interface{ HasMoreElements() bool }](mk func() E, step func(E)) E {
	en := mk()
	if o := mk(); o.HasMoreElements() {
		step(o)
	}
	return en
}

func tableLenOf(p interface{}) func() int {
	return func() int { return reflect.ValueOf(p).Elem().FieldByName("table").Len() }
}

func methodsOf(p interface{}) func() []string {
	return func() []string {
		t := reflect.TypeOf(p)
		var out []string
		for i := 0; i < t.NumMethod(); i++ {
			out = append(out, t.Method(i).Name)
		}
		return out
	}
}

func words(s string) []string { return strings.Fields(s) }

// ---- value codecs -----------------------------------------------------------------

// interface{} values: code c >= 1; odd -> int(c), even -> "s<c>". Never nil, "" or 0,
// so that the none representations of the interface-typed API are unambiguous.
func ifaceVal(code int64) interface{} {
	if code%2 != 0 {
		return int(code)
	}
	return "s" + strconv.FormatInt(code, 10)
}

func ifaceRet(x interface{}) ret {
	switch t := x.(type) {
	case nil:
		return ret{kind: rNone, desc: "nil"}
	case string:
		if t == "" {
			return ret{kind: rNone, desc: `""`}
		}
		if strings.HasPrefix(t, "s") {
			if c, err := strconv.ParseInt(t[1:], 10, 64); err == nil && c%2 == 0 {
				return ret{v: c, kind: rVal, desc: fmt.Sprintf("%q", t)}
			}
		}
	case int:
		if t == 0 {
			return ret{kind: rNone, desc: "0"}
		}
		if t%2 != 0 {
			return ret{v: int64(t), kind: rVal, desc: strconv.Itoa(t)}
		}
	}
	return ret{kind: rBad, desc: fmt.Sprintf("%T %v", x, x)}
}

func ifaceValStr(code int64) string { return fmt.Sprintf("%#v", ifaceVal(code)) }

type vcodec[V any] struct {
	to   func(code int64) V
	from func(v V) int64
	str  func(code int64) string
	add  func(a, b int64) int64
	eq   func(a, b int64) bool
	fmtS string // verb the entry's ToString uses for the value
	vals []int64
	enc  func(w *ref.W, code int64)
}

func (c *vcodec[V]) ret(v V) ret {
	code := c.from(v)
	return ret{v: code, kind: rVal, desc: c.str(code)}
}

// retI decodes an interface{} that must hold a V.
func (c *vcodec[V]) retI(x interface{}) ret {
	if v, ok := x.(V); ok {
		return c.ret(v)
	}
	return ret{kind: rBad, desc: fmt.Sprintf("%T %v", x, x)}
}

var i32c = &vcodec[int32]{
	to: func(c int64) int32 { return int32(c) }, from: func(v int32) int64 { return int64(v) },
	str:  func(c int64) string { return strconv.FormatInt(c, 10) },
	add:  func(a, b int64) int64 { return int64(int32(a) + int32(b)) },
	eq:   func(a, b int64) bool { return a == b },
	vals: []int64{1, 2, 3, -1, 0, 7, 100, -100, math.MaxInt32, math.MinInt32, 5, -7},
	enc:  func(w *ref.W, c int64) { w.Dec(c) },
}

var i64c = &vcodec[int64]{
	to: func(c int64) int64 { return c }, from: func(v int64) int64 { return v },
	str:  func(c int64) string { return strconv.FormatInt(c, 10) },
	add:  func(a, b int64) int64 { return a + b },
	eq:   func(a, b int64) bool { return a == b },
	vals: []int64{1, 2, 3, -1, 0, 7, 100, -100, math.MaxInt64, math.MinInt64, 1 << 32, -7},
	enc:  func(w *ref.W, c int64) { w.Dec(c) },
}

func f32bits(f float32) int64 { return int64(math.Float32bits(f)) }
func f32of(c int64) float32   { return math.Float32frombits(uint32(c)) }

var f32c = &vcodec[float32]{
	to: f32of, from: f32bits,
	str: func(c int64) string { return strconv.FormatFloat(float64(f32of(c)), 'g', -1, 32) },
	add: func(a, b int64) int64 { return f32bits(f32of(a) + f32of(b)) },
	eq:  func(a, b int64) bool { return f32of(a) == f32of(b) },
	vals: []int64{f32bits(1), f32bits(2.5), f32bits(-1), f32bits(0), f32bits(0.5), f32bits(float32(math.Copysign(0, -1))),
		f32bits(1e30), f32bits(-1e30), f32bits(3e38), f32bits(100.25), f32bits(-7.75), f32bits(1e-40)},
	enc: func(w *ref.W, c int64) { w.F32(f32of(c)) },
}

// ---- group A: maps with interface{} values ------------------------------------------

type ifaceMap[K any] interface {
	Size() int
	IsEmpty() bool
	IsFull() bool
	ContainsKey(K) bool
	Get(K) interface{}
	GetFirstKey() K
	GetLastKey() K
	GetFirstValue() interface{}
	GetLastValue() interface{}
	Put(K, interface{}) interface{}
	PutLast(K, interface{}) interface{}
	PutFirst(K, interface{}) interface{}
	Remove(K) interface{}
	RemoveFirst() interface{}
	RemoveLast() interface{}
	Clear()
	Sort(func(a, b K) bool)
	ToString() string
	KeyArray() []K
	Values() hmap.Enumeration
	Entries() hmap.Enumeration
}

type keyConv[K any] struct {
	to   func(i int) K
	from func(k K) int
	less func(a, b K) bool
}

func (kc keyConv[K]) froms(in []K) []int {
	out := make([]int, len(in))
	for i, k := range in {
		out[i] = kc.from(k)
	}
	return out
}

func mkIfaceMap[K any](m ifaceMap[K], kc keyConv[K], keys func(limit int) ([]int, error), setMax func(int),
	entryKV func(x interface{}) (K, interface{}, bool), ptr interface{}) *inst {
	in := &inst{
		size: m.Size, isEmpty: m.IsEmpty, isFull: m.IsFull,
		put: map[string]func(int, int64) ret{
			"put":      func(k int, v int64) ret { return ifaceRet(m.Put(kc.to(k), ifaceVal(v))) },
			"putFirst": func(k int, v int64) ret { return ifaceRet(m.PutFirst(kc.to(k), ifaceVal(v))) },
			"putLast":  func(k int, v int64) ret { return ifaceRet(m.PutLast(kc.to(k), ifaceVal(v))) },
		},
		get: map[string]func(int) ret{
			"get":    func(k int) ret { return ifaceRet(m.Get(kc.to(k))) },
			"remove": func(k int) ret { return ifaceRet(m.Remove(kc.to(k))) },
		},
		pop: map[string]func() ret{
			"removeFirst": func() ret { return ifaceRet(m.RemoveFirst()) },
			"removeLast":  func() ret { return ifaceRet(m.RemoveLast()) },
		},
		endVal: map[string]func() ret{
			"firstValue": func() ret { return ifaceRet(m.GetFirstValue()) },
			"lastValue":  func() ret { return ifaceRet(m.GetLastValue()) },
		},
		endKey: map[string]func() int{
			"firstKey": func() int { return kc.from(m.GetFirstKey()) },
			"lastKey":  func() int { return kc.from(m.GetLastKey()) },
		},
		containsKey: func(k int) bool { return m.ContainsKey(kc.to(k)) },
		keys: map[string]func(int) ([]int, error){
			"keys":     keys,
			"keyArray": func(int) ([]int, error) { return kc.froms(m.KeyArray()), nil },
		},
		vals: map[string]func(int) ([]ret, error){
			"values": func(limit int) ([]ret, error) {
				en := m.Values()
				xs, err := drain(en.HasMoreElements, en.NextElement, limit)
				out := make([]ret, len(xs))
				for i, x := range xs {
					out[i] = ifaceRet(x)
				}
				return out, err
			},
		},
		entries: func(limit int) ([]kv, error) {
			en := m.Entries()
			xs, err := drain(en.HasMoreElements, en.NextElement, limit)
			out := make([]kv, len(xs))
			for i, x := range xs {
				k, v, ok := entryKV(x)
				if !ok {
					return nil, fmt.Errorf("entry enumeration yields a %T", x)
				}
				out[i] = kv{kc.from(k), ifaceRet(v)}
			}
			return out, err
		},
		clear: m.Clear,
		sort: func(desc bool) {
			if desc {
				m.Sort(func(a, b K) bool { return kc.less(b, a) })
			} else {
				m.Sort(kc.less)
			}
		},
		sortHook: func(hook func()) {
			m.Sort(func(a, b K) bool {
				hook()
				return kc.less(a, b)
			})
		},
		sortFail: func(after int) {
			n := 0
			m.Sort(func(a, b K) bool {
				if n >= after {
					panic("the caller's comparator fails")
				}
				n++
				return kc.less(a, b)
			})
		},
		setMax:   setMax,
		str:      map[string]func() string{"toString": m.ToString},
		tableLen: tableLenOf(ptr),
	}
	return in
}

var ifaceOps = []wop{{"put", 12}, {"putFirst", 6}, {"putLast", 6}, {"get", 3}, {"remove", 9}, {"removeFirst", 3}, {"removeLast", 3},
	{"containsKey", 2}, {"clear", 1}, {"sortAsc", 2}, {"sortDesc", 2}, {"sortFail", 1}, {"setMax", 3}, {"toString", 1}, {"fill", 2}}

const ifaceCovered = "Size IsEmpty IsFull ContainsKey Get GetFirstKey GetLastKey GetFirstValue GetLastValue Put PutLast PutFirst " +
	"Remove RemoveFirst RemoveLast Clear Sort ToString KeyArray Keys Values Entries SetMax"

func ifaceSut(name string, nKeys, nSpecial int) *sut {
	return &sut{
		name: name, nKeys: nKeys, nSpecial: nSpecial, nVals: 12,
		valCode: func(i int) int64 { return int64(i + 1) },
		valStr:  ifaceValStr,
		add:     func(a, b int64) int64 { return b },
		valEq:   func(a, b int64) bool { return a == b },
		nullKey: -1, emptyKey: -1,
		ops:     ifaceOps,
		covered: words(ifaceCovered),
	}
}

// ---- group B: maps with numeric values ------------------------------------------------

type numMap[K any, V any] interface {
	Size() int
	IsEmpty() bool
	IsFull() bool
	ContainsKey(K) bool
	ContainsValue(V) bool
	Get(K) V
	GetFirstKey() K
	GetLastKey() K
	Put(K, V) V
	PutLast(K, V) V
	PutFirst(K, V) V
	Add(K, V) V
	AddLast(K, V) V
	AddFirst(K, V) V
	Clear()
	Sort(func(a, b K) bool)
	ToString() string
	KeyArray() []K
	Entries() hmap.Enumeration
}

type numExtra[K any, V any] struct {
	keys        func(limit int) ([]int, error)
	values      func(limit int) ([]ret, error)
	setMax      func(int)
	setNone     func(int64)
	remove      func(K) ret
	removeFirst func() ret
	removeLast  func() ret
	firstValue  func() ret
	lastValue   func() ret
	entryKV     func(x interface{}) (K, V, bool)
	ptr         interface{}
}

func mkNumMap[K any, V any](m numMap[K, V], kc keyConv[K], vc *vcodec[V], x numExtra[K, V]) *inst {
	in := &inst{
		size: m.Size, isEmpty: m.IsEmpty, isFull: m.IsFull,
		put: map[string]func(int, int64) ret{
			"put":      func(k int, v int64) ret { return vc.ret(m.Put(kc.to(k), vc.to(v))) },
			"putFirst": func(k int, v int64) ret { return vc.ret(m.PutFirst(kc.to(k), vc.to(v))) },
			"putLast":  func(k int, v int64) ret { return vc.ret(m.PutLast(kc.to(k), vc.to(v))) },
			"add":      func(k int, v int64) ret { return vc.ret(m.Add(kc.to(k), vc.to(v))) },
			"addFirst": func(k int, v int64) ret { return vc.ret(m.AddFirst(kc.to(k), vc.to(v))) },
			"addLast":  func(k int, v int64) ret { return vc.ret(m.AddLast(kc.to(k), vc.to(v))) },
		},
		get: map[string]func(int) ret{
			"get":    func(k int) ret { return vc.ret(m.Get(kc.to(k))) },
			"remove": func(k int) ret { return x.remove(kc.to(k)) },
		},
		pop:    map[string]func() ret{"removeFirst": x.removeFirst, "removeLast": x.removeLast},
		endVal: map[string]func() ret{"firstValue": x.firstValue, "lastValue": x.lastValue},
		endKey: map[string]func() int{
			"firstKey": func() int { return kc.from(m.GetFirstKey()) },
			"lastKey":  func() int { return kc.from(m.GetLastKey()) },
		},
		containsKey:   func(k int) bool { return m.ContainsKey(kc.to(k)) },
		containsValue: func(v int64) bool { return m.ContainsValue(vc.to(v)) },
		keys: map[string]func(int) ([]int, error){
			"keys":     x.keys,
			"keyArray": func(int) ([]int, error) { return kc.froms(m.KeyArray()), nil },
		},
		vals: map[string]func(int) ([]ret, error){"values": x.values},
		entries: func(limit int) ([]kv, error) {
			en := m.Entries()
			xs, err := drain(en.HasMoreElements, en.NextElement, limit)
			out := make([]kv, len(xs))
			for i, e := range xs {
				k, v, ok := x.entryKV(e)
				if !ok {
					return nil, fmt.Errorf("entry enumeration yields a %T", e)
				}
				out[i] = kv{kc.from(k), vc.ret(v)}
			}
			return out, err
		},
		clear: m.Clear,
		sort: func(desc bool) {
			if desc {
				m.Sort(func(a, b K) bool { return kc.less(b, a) })
			} else {
				m.Sort(kc.less)
			}
		},
		sortHook: func(hook func()) {
			m.Sort(func(a, b K) bool {
				hook()
				return kc.less(a, b)
			})
		},
		sortFail: func(after int) {
			n := 0
			m.Sort(func(a, b K) bool {
				if n >= after {
					panic("the caller's comparator fails")
				}
				n++
				return kc.less(a, b)
			})
		},
		setMax:   x.setMax,
		setNone:  x.setNone,
		str:      map[string]func() string{"toString": m.ToString},
		tableLen: tableLenOf(x.ptr),
	}
	return in
}

var numOps = []wop{{"put", 10}, {"putFirst", 5}, {"putLast", 5}, {"add", 3}, {"addFirst", 3}, {"addLast", 3}, {"get", 3}, {"remove", 9},
	{"removeFirst", 3}, {"removeLast", 3}, {"containsKey", 2}, {"containsValue", 1}, {"containsValueOf", 2}, {"clear", 1}, {"sortAsc", 2}, {"sortDesc", 2}, {"sortFail", 1},
	{"setMax", 3}, {"setNone", 1}, {"toString", 1}, {"fill", 2}}

const numCovered = "Size IsEmpty IsFull ContainsKey ContainsValue Get GetFirstKey GetLastKey GetFirstValue GetLastValue Put PutLast PutFirst " +
	"Add AddLast AddFirst Remove RemoveFirst RemoveLast Clear Sort ToString KeyArray Keys Values Entries SetMax"

func numSut[V any](name string, nKeys, nSpecial int, vc *vcodec[V]) *sut {
	return &sut{
		name: name, nKeys: nKeys, nSpecial: nSpecial, nVals: len(vc.vals),
		valCode: func(i int) int64 { return vc.vals[i] },
		valStr:  vc.str,
		add:     vc.add,
		valEq:   vc.eq,
		numeric: true,
		nullKey: -1, emptyKey: -1,
		ops:     numOps,
		covered: words(numCovered),
	}
}

func withOps(base []wop, extra ...wop) []wop { return append(append([]wop{}, base...), extra...) }

// ---- group C: sets -----------------------------------------------------------------------

type setAPI[K any] interface {
	Size() int
	IsEmpty() bool
	IsFull() bool
	Contains(K) bool
	GetFirst() K
	GetLast() K
	Put(K) interface{}
	PutLast(K) interface{}
	PutFirst(K) interface{}
	Remove(K) interface{}
	RemoveFirst() interface{}
	RemoveLast() interface{}
	Clear()
	Sort(func(a, b K) bool)
	ToString() string
}

func mkSet[K any](m setAPI[K], kc keyConv[K], keyRet func(x interface{}) ret, keys func(limit int) ([]int, error),
	keyArray func() []K, setMax func(int), ptr interface{}) *inst {
	return &inst{
		size: m.Size, isEmpty: m.IsEmpty, isFull: m.IsFull,
		put: map[string]func(int, int64) ret{
			"put":      func(k int, _ int64) ret { return keyRet(m.Put(kc.to(k))) },
			"putFirst": func(k int, _ int64) ret { return keyRet(m.PutFirst(kc.to(k))) },
			"putLast":  func(k int, _ int64) ret { return keyRet(m.PutLast(kc.to(k))) },
		},
		get: map[string]func(int) ret{"remove": func(k int) ret { return keyRet(m.Remove(kc.to(k))) }},
		pop: map[string]func() ret{
			"removeFirst": func() ret { return keyRet(m.RemoveFirst()) },
			"removeLast":  func() ret { return keyRet(m.RemoveLast()) },
		},
		endKey: map[string]func() int{
			"firstKey": func() int { return kc.from(m.GetFirst()) },
			"lastKey":  func() int { return kc.from(m.GetLast()) },
		},
		containsKey: func(k int) bool { return m.Contains(kc.to(k)) },
		keys: map[string]func(int) ([]int, error){
			"keys":     keys,
			"keyArray": func(int) ([]int, error) { return kc.froms(keyArray()), nil },
		},
		clear: m.Clear,
		sort: func(desc bool) {
			if desc {
				m.Sort(func(a, b K) bool { return kc.less(b, a) })
			} else {
				m.Sort(kc.less)
			}
		},
		sortHook: func(hook func()) {
			m.Sort(func(a, b K) bool {
				hook()
				return kc.less(a, b)
			})
		},
		sortFail: func(after int) {
			n := 0
			m.Sort(func(a, b K) bool {
				if n >= after {
					panic("the caller's comparator fails")
				}
				n++
				return kc.less(a, b)
			})
		},
		setMax:   setMax,
		str:      map[string]func() string{"toString": m.ToString},
		tableLen: tableLenOf(ptr),
	}
}

// setRet decodes what a set's Put/Remove/RemoveFirst returns: nil or the
// constant 0 mean "nothing", otherwise it must be a key of the alphabet.
func setRet[K any](from func(K) int, keyStr func(int) string) func(x interface{}) ret {
	return func(x interface{}) ret {
		switch t := x.(type) {
		case nil:
			return ret{kind: rNone, desc: "nil"}
		case int:
			if t == 0 {
				return ret{kind: rNone, desc: "0"}
			}
		case K:
			if i := from(t); i >= 0 {
				return ret{v: int64(i), kind: rVal, desc: keyStr(i)}
			}
		}
		return ret{kind: rBad, desc: fmt.Sprintf("%T %v", x, x)}
	}
}

var setOps = []wop{{"put", 12}, {"putFirst", 6}, {"putLast", 6}, {"remove", 9}, {"removeFirst", 3}, {"removeLast", 3},
	{"containsKey", 3}, {"clear", 1}, {"sortAsc", 2}, {"sortDesc", 2}, {"sortFail", 1}, {"setMax", 3}, {"toString", 1}, {"fill", 2}}

const setCovered = "Size IsEmpty IsFull Contains GetFirst GetLast Put PutLast PutFirst Remove RemoveFirst RemoveLast Clear Sort ToString Keys SetMax"

func setSut(name string, nKeys, nSpecial int) *sut {
	s := &sut{
		name: name, isSet: true, nKeys: nKeys, nSpecial: nSpecial, nVals: 1,
		valCode: func(i int) int64 { return 0 },
		add:     func(a, b int64) int64 { return b },
		valEq:   func(a, b int64) bool { return a == b },
		nullKey: -1, emptyKey: -1,
		ops:     setOps,
		covered: words(setCovered),
	}
	return s
}

// ---- concrete types ------------------------------------------------------------------------

func cmpOrdered[T int32 | int64 | string](a []T) func(i, j int) int {
	return func(i, j int) int {
		switch {
		case a[i] < a[j]:
			return -1
		case a[i] > a[j]:
			return 1
		}
		return 0
	}
}

func ordConv[T int32 | int64 | string](ks *keyset[T]) keyConv[T] {
	return keyConv[T]{to: func(i int) T { return ks.alpha[i] }, from: ks.ix, less: func(a, b T) bool { return a < b }}
}

func signExt32(a []int32) func(int) uint64 { return func(k int) uint64 { return uint64(int64(a[k])) } }

func encodeWith[K any](alpha []K, encKey func(w *ref.W, k K), encVal func(w *ref.W, code int64)) func(es []ment) []byte {
	return func(es []ment) []byte {
		w := ref.NewW()
		w.Dec(int64(len(es)))
		for _, e := range es {
			encKey(w, alpha[e.K])
			encVal(w, e.V)
		}
		return w.B
	}
}

func registerAll() {
	a32 := newKeyset(int32Alphabet())
	a64 := newKeyset(int64Alphabet())
	aCRC := newKeyset(stringAlphabet(crcHash, [4]string{gen.HashTwins[0], gen.HashTwins[1], gen.HashTwins[2], gen.HashTwins[3]}))
	aJH := newKeyset(stringAlphabet(javaHash, [4]string{"Aa", "BB", "AaBB", "BBAa"}))
	aLK := newKeyset(lkAlphabet())

	neg32, ext32 := negExt(a32.alpha, nSpecial32, math.MinInt32, math.MaxInt32)
	neg64, ext64 := negExt(a64.alpha, nSpecial64, math.MinInt64, math.MaxInt64)
	negS, extS := strNegExt(aCRC.alpha)
	negLK, extLK := map[int]bool{}, map[int]bool{}
	for i := 0; i < nSpecialLK; i++ {
		k := aLK.alpha[i]
		if k.id < 0 {
			negLK[i] = true
		}
		if k.id == math.MinInt64 || k.id == math.MaxInt64 || k.h >= 1<<63 {
			extLK[i] = true
		}
	}

	k32 := ordConv(a32)
	k64 := ordConv(a64)
	kCRC := ordConv(aCRC)
	kJH := ordConv(aJH)
	kLK := keyConv[hmap.LinkedKey]{
		to: func(i int) hmap.LinkedKey { return aLK.alpha[i] },
		from: func(k hmap.LinkedKey) int {
			if x, ok := k.(lk); ok {
				return aLK.ix(x)
			}
			return -1
		},
		less: func(a, b hmap.LinkedKey) bool { return a.(lk).id < b.(lk).id },
	}
	str32 := func(k int) string { return strconv.FormatInt(int64(a32.alpha[k]), 10) }
	str64 := func(k int) string { return strconv.FormatInt(a64.alpha[k], 10) }
	strCRC := func(k int) string { return quote(aCRC.alpha[k]) }
	strJH := func(k int) string { return quote(aJH.alpha[k]) }
	strLK := func(k int) string { return fmt.Sprintf("lk%v", aLK.alpha[k]) }
	cmpLK := func(i, j int) int {
		switch {
		case aLK.alpha[i].id < aLK.alpha[j].id:
			return -1
		case aLK.alpha[i].id > aLK.alpha[j].id:
			return 1
		}
		return 0
	}
	hashLK := func(k int) uint64 { return uint64(aLK.alpha[k].h) }

	intKeys := func(en hmap.IntEnumer, limit int) ([]int, error) {
		xs, err := drain(en.HasMoreElements, en.NextInt, limit)
		return a32.ixs(xs), err
	}
	longKeys := func(en hmap.LongEnumer, limit int) ([]int, error) {
		xs, err := drain(en.HasMoreElements, en.NextLong, limit)
		return a64.ixs(xs), err
	}
	strKeys := func(ks *keyset[string], en hmap.StringEnumer, limit int) ([]int, error) {
		xs, err := drain(en.HasMoreElements, en.NextString, limit)
		return ks.ixs(xs), err
	}
	lkKeys := func(en hmap.Enumeration, limit int) ([]int, error) {
		xs, err := drain(en.HasMoreElements, en.NextElement, limit)
		out := make([]int, len(xs))
		for i, x := range xs {
			out[i] = -1
			if k, ok := x.(hmap.LinkedKey); ok {
				out[i] = kLK.from(k)
			}
		}
		return out, err
	}

	// ---------------- LinkedMap
	{
		s := ifaceSut("LinkedMap", len(aLK.alpha), nSpecialLK)
		s.hasCtor = true
		s.keyStr, s.cmp, s.hash, s.negKeys, s.extKeys = strLK, cmpLK, hashLK, negLK, extLK
		s.fmtEntry = func(k int, c int64) string { return fmt.Sprintf("%v=%v", aLK.alpha[k], ifaceVal(c)) }
		s.methods = methodsOf(&hmap.LinkedMap{})
		s.mk = func(c *Case) *inst {
			var m *hmap.LinkedMap
			if c.Custom {
				m = hmap.NewLinkedMap(c.Cap, c.LF)
			} else {
				m = hmap.NewLinkedMapDefault()
			}
			return mkIfaceMap[hmap.LinkedKey](m, kLK,
				func(limit int) ([]int, error) {
					return lkKeys(overlapping(m.Keys, func(e hmap.Enumeration) { e.NextElement() }), limit)
				},
				func(n int) { m.SetMax(n) },
				func(x interface{}) (hmap.LinkedKey, interface{}, bool) {
					e, ok := x.(*hmap.LinkedEntry)
					if !ok {
						return nil, nil, false
					}
					return e.GetKey(), e.GetValue(), true
				}, m)
		}
		register(s)
	}
	// ---------------- IntKeyLinkedMap
	{
		s := ifaceSut("IntKeyLinkedMap", len(a32.alpha), nSpecial32)
		s.hasCtor, s.capZeroOK = true, true
		s.keyStr, s.cmp, s.negKeys, s.extKeys = str32, cmpOrdered(a32.alpha), neg32, ext32
		s.hash = func(k int) uint64 { return uint64(a32.alpha[k] & math.MaxInt32) }
		s.fmtEntry = func(k int, c int64) string { return fmt.Sprintf("%d=%v", a32.alpha[k], ifaceVal(c)) }
		s.ops = withOps(ifaceOps, wop{"getLRU", 4}, wop{"containsValue", 1}, wop{"containsValueOf", 2}, wop{"toFormatString", 1}, wop{"keySet", 1}, wop{"toKeySet", 1}, wop{"valueIterator", 1})
		s.covered = append(s.covered, words("GetLRU ContainsValue ToFormatString GetKeySet ToKeySet ValueIterator")...)
		s.methods = methodsOf(&hmap.IntKeyLinkedMap{})
		s.mk = func(c *Case) *inst {
			var m *hmap.IntKeyLinkedMap
			if c.Custom {
				m = hmap.NewIntKeyLinkedMap(c.Cap, c.LF)
			} else {
				m = hmap.NewIntKeyLinkedMapDefault()
			}
			in := mkIfaceMap[int32](m, k32,
				func(limit int) ([]int, error) {
					return intKeys(overlapping(m.Keys, func(e hmap.IntEnumer) { e.NextInt() }), limit)
				},
				func(n int) { m.SetMax(n) },
				func(x interface{}) (int32, interface{}, bool) {
					e, ok := x.(*hmap.IntKeyLinkedEntry)
					if !ok {
						return 0, nil, false
					}
					return e.GetKey(), e.GetValue(), true
				}, m)
			in.get["getLRU"] = func(k int) ret { return ifaceRet(m.GetLRU(a32.alpha[k])) }
			in.containsValue = func(v int64) bool { return m.ContainsValue(ifaceVal(v)) }
			in.str["toFormatString"] = m.ToFormatString
			in.keys["keySet"] = func(limit int) ([]int, error) {
				set := m.GetKeySet()
				if set == nil {
					return nil, fmt.Errorf("GetKeySet returned nil")
				}
				if set.Size() > limit {
					return nil, fmt.Errorf("GetKeySet holds %d keys", set.Size())
				}
				return intKeys(overlapping(set.Keys, func(e hmap.IntEnumer) { e.NextInt() }), limit)
			}
			in.keys["toKeySet"] = func(limit int) ([]int, error) {
				var l *list.List = m.ToKeySet()
				if l == nil {
					return nil, fmt.Errorf("ToKeySet returned nil")
				}
				var out []int
				for e := l.Front(); e != nil; e = e.Next() {
					k, ok := e.Value.(int32)
					if !ok {
						return nil, fmt.Errorf("ToKeySet element is a %T", e.Value)
					}
					out = append(out, a32.ix(k))
				}
				return out, nil
			}
			in.vals["valueIterator"] = func(limit int) ([]ret, error) {
				en, ok := m.ValueIterator().(hmap.Enumeration)
				if !ok {
					return nil, fmt.Errorf("ValueIterator() is not an Enumeration")
				}
				xs, err := drain(en.HasMoreElements, en.NextElement, limit)
				out := make([]ret, len(xs))
				for i, x := range xs {
					out[i] = ifaceRet(x)
				}
				return out, err
			}
			return in
		}
		register(s)
	}
	// ---------------- LongKeyLinkedMap
	{
		s := ifaceSut("LongKeyLinkedMap", len(a64.alpha), nSpecial64)
		s.hasCtor = true
		s.keyStr, s.cmp, s.negKeys, s.extKeys = str64, cmpOrdered(a64.alpha), neg64, ext64
		s.hash = func(k int) uint64 { x := a64.alpha[k]; return uint64(x ^ (x >> 32)) }
		s.fmtEntry = func(k int, c int64) string { return fmt.Sprintf("%d=%v", a64.alpha[k], ifaceVal(c)) }
		s.methods = methodsOf(&hmap.LongKeyLinkedMap{})
		s.mk = func(c *Case) *inst {
			var m *hmap.LongKeyLinkedMap
			if c.Custom {
				m = hmap.NewLongKeyLinkedMap(c.Cap, c.LF)
			} else {
				m = hmap.NewLongKeyLinkedMapDefault()
			}
			return mkIfaceMap[int64](m, k64,
				func(limit int) ([]int, error) {
					return longKeys(overlapping(m.Keys, func(e hmap.LongEnumer) { e.NextLong() }), limit)
				},
				func(n int) { m.SetMax(n) },
				func(x interface{}) (int64, interface{}, bool) {
					e, ok := x.(*hmap.LongKeyLinkedEntry)
					if !ok {
						return 0, nil, false
					}
					return e.GetKey(), e.GetValue(), true
				}, m)
		}
		register(s)
	}
	// ---------------- StringKeyLinkedMap
	{
		s := ifaceSut("StringKeyLinkedMap", len(aCRC.alpha), nSpecialStr)
		s.keyStr, s.cmp, s.negKeys, s.extKeys = strCRC, cmpOrdered(aCRC.alpha), negS, extS
		s.hash = func(k int) uint64 { return crcHash(aCRC.alpha[k]) }
		s.emptyKey = aCRC.ix("")
		s.fmtEntry = func(k int, c int64) string { return fmt.Sprintf("%s=%v", aCRC.alpha[k], ifaceVal(c)) }
		s.methods = methodsOf(&hmap.StringKeyLinkedMap{})
		s.mk = func(c *Case) *inst {
			m := hmap.NewStringKeyLinkedMap()
			return mkIfaceMap[string](m, kCRC,
				func(limit int) ([]int, error) {
					return strKeys(aCRC, overlapping(m.Keys, func(e hmap.StringEnumer) { e.NextString() }), limit)
				},
				func(n int) { m.SetMax(n) },
				func(x interface{}) (string, interface{}, bool) {
					e, ok := x.(*hmap.StringKeyLinkedEntry)
					if !ok {
						return "", nil, false
					}
					return e.GetKey(), e.GetValue(), true
				}, m)
		}
		register(s)
	}
	// ---------------- IntIntLinkedMap
	{
		s := numSut("IntIntLinkedMap", len(a32.alpha), nSpecial32, i32c)
		s.keyStr, s.cmp, s.hash, s.negKeys, s.extKeys = str32, cmpOrdered(a32.alpha), signExt32(a32.alpha), neg32, ext32
		s.fmtEntry = func(k int, c int64) string { return fmt.Sprintf("%d=%d", a32.alpha[k], int32(c)) }
		s.ops = withOps(numOps, wop{"addNoOver", 4}, wop{"toBytes", 1}, wop{"toObject", 1})
		s.covered = append(s.covered, words("AddNoOver ToBytes ToObject")...)
		s.encode = encodeWith(a32.alpha, func(w *ref.W, k int32) { w.Dec(int64(k)) }, i32c.enc)
		s.methods = methodsOf(&hmap.IntIntLinkedMap{})
		entryKV := func(x interface{}) (int32, int32, bool) {
			e, ok := x.(*hmap.IntIntLinkedEntry)
			if !ok {
				return 0, 0, false
			}
			return e.GetKey(), e.GetValue(), true
		}
		s.mk = func(c *Case) *inst {
			m := hmap.NewIntIntLinkedMap()
			in := mkNumMap[int32, int32](m, k32, i32c, numExtra[int32, int32]{
				keys: func(limit int) ([]int, error) {
					return intKeys(overlapping(m.Keys, func(e hmap.IntEnumer) { e.NextInt() }), limit)
				},
				values: func(limit int) ([]ret, error) {
					en := m.Values()
					xs, err := drain(en.HasMoreElements, en.NextInt, limit)
					return mapRet(xs, i32c.ret), err
				},
				setMax: func(n int) { m.SetMax(n) }, setNone: func(c int64) { m.NONE = int32(c) },
				remove:      func(k int32) ret { return i32c.ret(m.Remove(k)) },
				removeFirst: func() ret { return i32c.ret(m.RemoveFirst()) }, removeLast: func() ret { return i32c.ret(m.RemoveLast()) },
				firstValue: func() ret { return i32c.ret(m.GetFirstValue()) }, lastValue: func() ret { return i32c.ret(m.GetLastValue()) },
				entryKV: entryKV, ptr: m,
			})
			in.put["addNoOver"] = func(k int, v int64) ret { return i32c.ret(m.AddNoOver(a32.alpha[k], int32(v))) }
			in.toBytes = func() []byte { o := wio.NewDataOutputX(); m.ToBytes(o); return o.ToByteArray() }
			in.toObject = func(b []byte) { m.ToObject(wio.NewDataInputX(b)) }
			in.roundTrip = func(b []byte) ([]kv, error) {
				f := hmap.NewIntIntLinkedMap().ToObject(wio.NewDataInputX(b))
				return freshEntries(f.Entries(), f.Size(), func(x interface{}) (int, ret, bool) {
					k, v, ok := entryKV(x)
					return a32.ix(k), i32c.ret(v), ok
				})
			}
			return in
		}
		register(s)
	}
	// ---------------- IntFloatLinkedMap
	{
		s := numSut("IntFloatLinkedMap", len(a32.alpha), nSpecial32, f32c)
		s.keyStr, s.cmp, s.hash, s.negKeys, s.extKeys = str32, cmpOrdered(a32.alpha), signExt32(a32.alpha), neg32, ext32
		s.fmtEntry = func(k int, c int64) string { return fmt.Sprintf("%d=%f", a32.alpha[k], f32of(c)) }
		s.ops = withOps(numOps, wop{"toBytes", 1}, wop{"toObject", 1})
		s.covered = append(s.covered, words("ToBytes ToObject")...)
		s.encode = encodeWith(a32.alpha, func(w *ref.W, k int32) { w.Dec(int64(k)) }, f32c.enc)
		s.methods = methodsOf(&hmap.IntFloatLinkedMap{})
		entryKV := func(x interface{}) (int32, float32, bool) {
			e, ok := x.(*hmap.IntFloatLinkedEntry)
			if !ok {
				return 0, 0, false
			}
			return e.GetKey(), e.GetValue(), true
		}
		s.mk = func(c *Case) *inst {
			m := hmap.NewIntFloatLinkedMap()
			in := mkNumMap[int32, float32](m, k32, f32c, numExtra[int32, float32]{
				keys: func(limit int) ([]int, error) {
					return intKeys(overlapping(m.Keys, func(e hmap.IntEnumer) { e.NextInt() }), limit)
				},
				values: func(limit int) ([]ret, error) {
					en := m.Values()
					xs, err := drain(en.HasMoreElements, en.NextFloat, limit)
					return mapRet(xs, f32c.ret), err
				},
				setMax: func(n int) { m.SetMax(n) }, setNone: func(c int64) { m.NONE = f32of(c) },
				remove:      func(k int32) ret { return f32c.ret(m.Remove(k)) },
				removeFirst: func() ret { return f32c.ret(m.RemoveFirst()) }, removeLast: func() ret { return f32c.ret(m.RemoveLast()) },
				firstValue: func() ret { return f32c.ret(m.GetFirstValue()) }, lastValue: func() ret { return f32c.ret(m.GetLastValue()) },
				entryKV: entryKV, ptr: m,
			})
			in.toBytes = func() []byte { o := wio.NewDataOutputX(); m.ToBytes(o); return o.ToByteArray() }
			in.toObject = func(b []byte) { m.ToObject(wio.NewDataInputX(b)) }
			in.roundTrip = func(b []byte) ([]kv, error) {
				f := hmap.NewIntFloatLinkedMap().ToObject(wio.NewDataInputX(b))
				return freshEntries(f.Entries(), f.Size(), func(x interface{}) (int, ret, bool) {
					k, v, ok := entryKV(x)
					return a32.ix(k), f32c.ret(v), ok
				})
			}
			return in
		}
		register(s)
	}
	// ---------------- LongFloatLinkedMap
	{
		s := numSut("LongFloatLinkedMap", len(a64.alpha), nSpecial64, f32c)
		s.keyStr, s.cmp, s.negKeys, s.extKeys = str64, cmpOrdered(a64.alpha), neg64, ext64
		s.hash = func(k int) uint64 { return uint64(a64.alpha[k]) }
		s.fmtEntry = func(k int, c int64) string { return fmt.Sprintf("%d=%f", a64.alpha[k], f32of(c)) }
		s.ops = withOps(numOps, wop{"toBytes", 1}, wop{"toObject", 1})
		s.covered = append(s.covered, words("ToBytes ToObject")...)
		s.encode = encodeWith(a64.alpha, func(w *ref.W, k int64) { w.Dec(k) }, f32c.enc)
		s.methods = methodsOf(&hmap.LongFloatLinkedMap{})
		entryKV := func(x interface{}) (int64, float32, bool) {
			e, ok := x.(*hmap.LongFloatLinkedEntry)
			if !ok {
				return 0, 0, false
			}
			return e.GetKey(), e.GetValue(), true
		}
		s.mk = func(c *Case) *inst {
			m := hmap.NewLongFloatLinkedMap()
			in := mkNumMap[int64, float32](m, k64, f32c, numExtra[int64, float32]{
				keys: func(limit int) ([]int, error) {
					return longKeys(overlapping(m.Keys, func(e hmap.LongEnumer) { e.NextLong() }), limit)
				},
				values: func(limit int) ([]ret, error) {
					en := m.Values()
					xs, err := drain(en.HasMoreElements, en.NextFloat, limit)
					return mapRet(xs, f32c.ret), err
				},
				setMax: func(n int) { m.SetMax(n) }, setNone: func(c int64) { m.NONE = f32of(c) },
				remove:      func(k int64) ret { return f32c.ret(m.Remove(k)) },
				removeFirst: func() ret { return f32c.ret(m.RemoveFirst()) }, removeLast: func() ret { return f32c.ret(m.RemoveLast()) },
				firstValue: func() ret { return f32c.ret(m.GetFirstValue()) }, lastValue: func() ret { return f32c.ret(m.GetLastValue()) },
				entryKV: entryKV, ptr: m,
			})
			in.toBytes = func() []byte { o := wio.NewDataOutputX(); m.ToBytes(o); return o.ToByteArray() }
			in.toObject = func(b []byte) { m.ToObject(wio.NewDataInputX(b)) }
			in.roundTrip = func(b []byte) ([]kv, error) {
				f := hmap.NewLongFloatLinkedMap().ToObject(wio.NewDataInputX(b))
				return freshEntries(f.Entries(), f.Size(), func(x interface{}) (int, ret, bool) {
					k, v, ok := entryKV(x)
					return a64.ix(k), f32c.ret(v), ok
				})
			}
			return in
		}
		register(s)
	}
	// ---------------- LongLongLinkedMap
	{
		s := numSut("LongLongLinkedMap", len(a64.alpha), nSpecial64, i64c)
		s.hasCtor, s.capZeroOK = true, true
		s.keyStr, s.cmp, s.negKeys, s.extKeys = str64, cmpOrdered(a64.alpha), neg64, ext64
		s.hash = func(k int) uint64 { return uint64(a64.alpha[k]) }
		s.fmtEntry = func(k int, c int64) string { return fmt.Sprintf("%d=%d", a64.alpha[k], c) }
		s.ops = withOps(numOps, wop{"toBytes", 1}, wop{"toObject", 1})
		s.covered = append(s.covered, words("ToBytes ToObject SetNullValue")...)
		s.encode = encodeWith(a64.alpha, func(w *ref.W, k int64) { w.Dec(k) }, i64c.enc)
		s.methods = methodsOf(&hmap.LongLongLinkedMap{})
		entryKV := func(x interface{}) (int64, int64, bool) {
			e, ok := x.(*hmap.LongLongLinkedEntry)
			if !ok {
				return 0, 0, false
			}
			return e.GetKey(), e.GetValue(), true
		}
		s.mk = func(c *Case) *inst {
			var m *hmap.LongLongLinkedMap
			if c.Custom {
				m = hmap.NewLongLongLinkedMap(c.Cap, c.LF)
			} else {
				m = hmap.NewLongLongLinkedMapDefault()
			}
			in := mkNumMap[int64, int64](m, k64, i64c, numExtra[int64, int64]{
				keys: func(limit int) ([]int, error) {
					return longKeys(overlapping(m.Keys, func(e hmap.LongEnumer) { e.NextLong() }), limit)
				},
				values: func(limit int) ([]ret, error) {
					en := m.Values()
					xs, err := drain(en.HasMoreElements, en.NextLong, limit)
					return mapRet(xs, i64c.ret), err
				},
				setMax: func(n int) { m.SetMax(n) }, setNone: func(c int64) { m.SetNullValue(c) },
				remove:      func(k int64) ret { return i64c.ret(m.Remove(k)) },
				removeFirst: func() ret { return i64c.ret(m.RemoveFirst()) }, removeLast: func() ret { return i64c.ret(m.RemoveLast()) },
				firstValue: func() ret { return i64c.ret(m.GetFirstValue()) }, lastValue: func() ret { return i64c.ret(m.GetLastValue()) },
				entryKV: entryKV, ptr: m,
			})
			in.toBytes = func() []byte { o := wio.NewDataOutputX(); m.ToBytes(o); return o.ToByteArray() }
			in.toObject = func(b []byte) { m.ToObject(wio.NewDataInputX(b)) }
			in.roundTrip = func(b []byte) ([]kv, error) {
				f := hmap.NewLongLongLinkedMapDefault().ToObject(wio.NewDataInputX(b))
				return freshEntries(f.Entries(), f.Size(), func(x interface{}) (int, ret, bool) {
					k, v, ok := entryKV(x)
					return a64.ix(k), i64c.ret(v), ok
				})
			}
			return in
		}
		register(s)
	}
	// ---------------- StringIntLinkedMap
	{
		s := numSut("StringIntLinkedMap", len(aCRC.alpha), nSpecialStr, i32c)
		s.keyStr, s.cmp, s.negKeys, s.extKeys = strCRC, cmpOrdered(aCRC.alpha), negS, extS
		s.hash = func(k int) uint64 { return crcHash(aCRC.alpha[k]) }
		s.nullKey = aCRC.ix("") // put/add have an explicit guard: the empty string is the null key and is never stored
		s.fmtEntry = func(k int, c int64) string { return fmt.Sprintf("%s=%v", aCRC.alpha[k], int32(c)) }
		s.covered = append(s.covered, "SetNullValue")
		s.methods = methodsOf(&hmap.StringIntLinkedMap{})
		s.mk = func(c *Case) *inst {
			m := hmap.NewStringIntLinkedMap()
			return mkNumMap[string, int32](m, kCRC, i32c, numExtra[string, int32]{
				keys: func(limit int) ([]int, error) {
					return strKeys(aCRC, overlapping(m.Keys, func(e hmap.StringEnumer) { e.NextString() }), limit)
				},
				values: func(limit int) ([]ret, error) {
					en := m.Values()
					xs, err := drain(en.HasMoreElements, en.NextElement, limit)
					return mapRet(xs, i32c.retI), err
				},
				setMax: func(n int) { m.SetMax(n) }, setNone: func(c int64) { m.SetNullValue(int32(c)) },
				remove:      func(k string) ret { return i32c.retI(m.Remove(k)) },
				removeFirst: func() ret { return i32c.retI(m.RemoveFirst()) }, removeLast: func() ret { return i32c.retI(m.RemoveLast()) },
				firstValue: func() ret { return i32c.retI(m.GetFirstValue()) }, lastValue: func() ret { return i32c.retI(m.GetLastValue()) },
				entryKV: func(x interface{}) (string, int32, bool) {
					e, ok := x.(*hmap.StringIntLinkedEntry)
					if !ok {
						return "", 0, false
					}
					return e.GetKey(), e.GetValue(), true
				}, ptr: m,
			})
		}
		register(s)
	}
	// ---------------- StringLongLinkedMap
	{
		s := numSut("StringLongLinkedMap", len(aCRC.alpha), nSpecialStr, i64c)
		s.keyStr, s.cmp, s.negKeys, s.extKeys = strCRC, cmpOrdered(aCRC.alpha), negS, extS
		s.hash = func(k int) uint64 { return crcHash(aCRC.alpha[k]) }
		s.nullKey = aCRC.ix("")
		s.fmtEntry = func(k int, c int64) string { return fmt.Sprintf("%s=%v", aCRC.alpha[k], c) }
		s.covered = append(s.covered, "SetNullValue")
		s.methods = methodsOf(&hmap.StringLongLinkedMap{})
		s.mk = func(c *Case) *inst {
			m := hmap.NewStringLongLinkedMap()
			return mkNumMap[string, int64](m, kCRC, i64c, numExtra[string, int64]{
				keys: func(limit int) ([]int, error) {
					return strKeys(aCRC, overlapping(m.Keys, func(e hmap.StringEnumer) { e.NextString() }), limit)
				},
				values: func(limit int) ([]ret, error) {
					en := m.Values()
					xs, err := drain(en.HasMoreElements, en.NextElement, limit)
					return mapRet(xs, i64c.retI), err
				},
				setMax: func(n int) { m.SetMax(n) }, setNone: func(c int64) { m.SetNullValue(c) },
				remove:      func(k string) ret { return i64c.retI(m.Remove(k)) },
				removeFirst: func() ret { return i64c.retI(m.RemoveFirst()) }, removeLast: func() ret { return i64c.retI(m.RemoveLast()) },
				firstValue: func() ret { return i64c.retI(m.GetFirstValue()) }, lastValue: func() ret { return i64c.retI(m.GetLastValue()) },
				entryKV: func(x interface{}) (string, int64, bool) {
					e, ok := x.(*hmap.StringLongLinkedEntry)
					if !ok {
						return "", 0, false
					}
					return e.GetKey(), e.GetValue(), true
				}, ptr: m,
			})
		}
		register(s)
	}
	// ---------------- LinkedSet
	{
		s := setSut("LinkedSet", len(aLK.alpha), nSpecialLK)
		s.keyStr, s.cmp, s.hash, s.negKeys, s.extKeys = strLK, cmpLK, hashLK, negLK, extLK
		s.valStr = func(c int64) string { return strLK(int(c)) }
		s.fmtEntry = func(k int, _ int64) string { return fmt.Sprintf("%v", aLK.alpha[k]) }
		s.covered = append(s.covered, "KeyArray")
		s.methods = methodsOf(&hmap.LinkedSet{})
		s.mk = func(c *Case) *inst {
			m := hmap.NewLinkedSet()
			return mkSet[hmap.LinkedKey](m, kLK, setRet(kLK.from, strLK),
				func(limit int) ([]int, error) {
					return lkKeys(overlapping(m.Keys, func(e hmap.Enumeration) { e.NextElement() }), limit)
				},
				m.KeyArray, func(n int) { m.SetMax(n) }, m)
		}
		register(s)
	}
	// ---------------- IntLinkedSet
	{
		s := setSut("IntLinkedSet", len(a32.alpha), nSpecial32)
		s.keyStr, s.cmp, s.hash, s.negKeys, s.extKeys = str32, cmpOrdered(a32.alpha), signExt32(a32.alpha), neg32, ext32
		s.valStr = func(c int64) string { return str32(int(c)) }
		s.fmtEntry = func(k int, _ int64) string { return fmt.Sprintf("%d", a32.alpha[k]) }
		s.covered = append(s.covered, "KeyArray")
		s.methods = methodsOf(&hmap.IntLinkedSet{})
		s.mk = func(c *Case) *inst {
			m := hmap.NewIntLinkedSet()
			return mkSet[int32](m, k32, setRet(k32.from, str32),
				func(limit int) ([]int, error) {
					return intKeys(overlapping(m.Keys, func(e hmap.IntEnumer) { e.NextInt() }), limit)
				},
				m.KeyArray, func(n int) { m.SetMax(n) }, m)
		}
		register(s)
	}
	// ---------------- StringLinkedSet
	{
		s := setSut("StringLinkedSet", len(aJH.alpha), nSpecialStr)
		s.keyStr, s.cmp, s.negKeys, s.extKeys = strJH, cmpOrdered(aJH.alpha), negS, extS
		s.hash = func(k int) uint64 { return javaHash(aJH.alpha[k]) }
		s.emptyKey = aJH.ix("")
		s.valStr = func(c int64) string { return strJH(int(c)) }
		s.fmtEntry = func(k int, _ int64) string { return aJH.alpha[k] }
		s.ops = withOps(setOps, wop{"unipoint", 4})
		s.covered = append(s.covered, "GetArray", "Unipoint")
		s.methods = methodsOf(&hmap.StringLinkedSet{})
		s.mk = func(c *Case) *inst {
			m := hmap.NewStringLinkedSet()
			in := mkSet[string](m, kJH, setRet(kJH.from, strJH),
				func(limit int) ([]int, error) {
					return strKeys(aJH, overlapping(m.Keys, func(e hmap.StringEnumer) { e.NextString() }), limit)
				},
				m.GetArray, func(n int) { m.SetMax(n) }, m)
			in.put["unipoint"] = func(k int, _ int64) ret {
				got := m.Unipoint(aJH.alpha[k])
				if i := aJH.ix(got); i >= 0 {
					return ret{v: int64(i), kind: rVal, desc: strJH(i)}
				}
				return ret{kind: rBad, desc: quote(got)}
			}
			return in
		}
		register(s)
	}
}

func mapRet[T any](xs []T, f func(T) ret) []ret {
	out := make([]ret, len(xs))
	for i, x := range xs {
		out[i] = f(x)
	}
	return out
}

func freshEntries(en hmap.Enumeration, size int, conv func(x interface{}) (int, ret, bool)) ([]kv, error) {
	xs, err := drain(en.HasMoreElements, en.NextElement, size+3)
	out := make([]kv, len(xs))
	for i, x := range xs {
		k, v, ok := conv(x)
		if !ok {
			return nil, fmt.Errorf("entry enumeration yields a %T", x)
		}
		out[i] = kv{k, v}
	}
	return out, err
}
