package c09

import (
	"fmt"
	"hash/crc32"
	"math"
	"strings"

	"github.com/whatap/golib/util/hmap"
)

// Key alphabets. The first nSpecial entries are the "special" keys (colliding
// keys first, so that even a small hot set contains a collision chain), the rest
// are bulk keys used to drive the table past its growth threshold.

const nBulk = 420

type keyset[K comparable] struct {
	alpha []K
	idx   map[K]int
}

func newKeyset[K comparable](alpha []K) *keyset[K] {
	ks := &keyset[K]{alpha: alpha, idx: map[K]int{}}
	for i, k := range alpha {
		if _, dup := ks.idx[k]; dup {
			panic(fmt.Sprintf("duplicate key in alphabet: %v", k))
		}
		ks.idx[k] = i
	}
	return ks
}

func (ks *keyset[K]) ix(k K) int {
	if i, ok := ks.idx[k]; ok {
		return i
	}
	return -1
}

func (ks *keyset[K]) ixs(in []K) []int {
	out := make([]int, len(in))
	for i, k := range in {
		out[i] = ks.ix(k)
	}
	return out
}

// ---- integer keys ------------------------------------------------------------

func intSpecials(min, max int64, wide bool) []int64 {
	s := []int64{5, 106, 207, 208, 0, -1, -5, -106, min, max, 411, 20508, 1, -207, -208, 7, 108, min + 1, max - 1, max - 101, 2, 3, 101, 202}
	if wide {
		s = append(s, 1<<32, 1<<32+101, -(1 << 32), math.MinInt32, math.MaxInt32, 1<<40+5)
	}
	return s
}

func int32Alphabet() []int32 {
	var a []int32
	for _, v := range intSpecials(math.MinInt32, math.MaxInt32, false) {
		a = append(a, int32(v))
	}
	for i := 0; i < nBulk; i++ {
		a = append(a, int32(1000+i))
	}
	return a
}

func int64Alphabet() []int64 {
	a := intSpecials(math.MinInt64, math.MaxInt64, true)
	for i := 0; i < nBulk; i++ {
		a = append(a, int64(1000+i))
	}
	return a
}

const nSpecial32 = 24
const nSpecial64 = 30

func negExt[K int32 | int64](alpha []K, n int, min, max K) (neg, ext map[int]bool) {
	neg, ext = map[int]bool{}, map[int]bool{}
	for i := 0; i < n; i++ {
		if alpha[i] < 0 {
			neg[i] = true
		}
		if alpha[i] <= min+1 || alpha[i] >= max-101 {
			ext[i] = true
		}
	}
	return
}

// ---- string keys -------------------------------------------------------------

func crcHash(s string) uint64 { return uint64(int64(int32(crc32.ChecksumIEEE([]byte(s))))) }

func javaHash(s string) uint64 {
	h := 0
	for i := 0; i < len(s); i++ {
		h = 31*h + int(s[i])
	}
	return uint64(h)
}

const nSpecialStr = 26

// stringAlphabet builds the string alphabet for a given hash: "a", two keys in
// a's bucket of the 101-table, one in a's bucket of the 203-table, "", assorted
// short / multi-byte / long keys, one key colliding with "a" in both tables.
func stringAlphabet(hash func(string) uint64, twins [4]string) []string {
	// twins: two pairs of different strings with the same FULL hash (not merely the same bucket)
	if hash(twins[0]) != hash(twins[1]) || hash(twins[2]) != hash(twins[3]) || twins[0] == twins[1] {
		panic("string twins do not collide")
	}
	base := hash("a")
	var c101 []string
	var c203, cboth, zero string
	for i := 0; i < 400000 && (len(c101) < 2 || c203 == "" || cboth == "" || zero == ""); i++ {
		s := fmt.Sprintf("c%d", i)
		h := hash(s)
		if zero == "" && h%101 == 0 && h%203 == 0 {
			zero = s // bucket 0 of the 101- and the 203-table
			continue
		}
		e101, e203 := h%101 == base%101, h%203 == base%203
		switch {
		case e101 && e203:
			if cboth == "" {
				cboth = s
			}
		case e101:
			if len(c101) < 2 {
				c101 = append(c101, s)
			}
		case e203:
			if c203 == "" {
				c203 = s
			}
		}
	}
	if len(c101) < 2 || c203 == "" {
		panic("no colliding strings found")
	}
	if cboth == "" {
		cboth = "c-both-missing"
	}
	if zero == "" {
		zero = "c-zero-missing"
	}
	a := []string{"a", c101[0], c101[1], twins[0], twins[1], c203, "", zero, "A", "aa", "ab", "키", " ", "a\x00", "0", "-1",
		strings.Repeat("long", 75), cboth, "zz", "a ", "\xff\xfe", "B", "ba", "b", twins[2], twins[3]}
	if len(a) != nSpecialStr {
		panic("string specials")
	}
	for i := 0; i < nBulk; i++ {
		a = append(a, fmt.Sprintf("k%04d", i))
	}
	return a
}

func strNegExt(alpha []string) (neg, ext map[int]bool) {
	neg, ext = map[int]bool{}, map[int]bool{}
	for i := 0; i < nSpecialStr; i++ {
		if len(alpha[i]) > 100 || alpha[i] == "\xff\xfe" {
			ext[i] = true
		}
	}
	return
}

func quote(s string) string {
	if len(s) > 24 {
		return fmt.Sprintf("%q…(%d bytes)", s[:12], len(s))
	}
	return fmt.Sprintf("%q", s)
}

// ---- LinkedKey keys ------------------------------------------------------------

// lk is the harness's LinkedKey: identity is id, the hash is explicit so that
// different keys can share a full hash value (not only a bucket).
type lk struct {
	id int64
	h  uint
}

func (k lk) Hash() uint { return k.h }
func (k lk) Equals(o hmap.LinkedKey) bool {
	x, ok := o.(lk)
	return ok && x.id == k.id
}

const nSpecialLK = 20

func lkAlphabet() []lk {
	a := []lk{{1, 5}, {2, 106}, {3, 207}, {4, 208}, {5, 5}, {6, 0}, {-1, 411}, {7, ^uint(0)}, {8, 1 << 63}, {9, 5},
		{-2, 20508}, {0, 0}, {math.MinInt64, 7}, {math.MaxInt64, 108}, {10, 101}, {11, 202}, {-3, ^uint(0) - 101}, {12, 1}, {13, 2}, {14, 3}}
	if len(a) != nSpecialLK {
		panic("lk specials")
	}
	for i := 0; i < nBulk; i++ {
		a = append(a, lk{int64(1000 + i), uint(1000 + i)})
	}
	return a
}
