// C13 Typed lists are faithful sequences; sorting yields an ordering permutation.
//
// Sub-checks: "lists" (operation histories on the five typed lists against a
// slice model, incl. out-of-range reporting and the wire form against the
// reference encoder), "sorting" (validity predicate on the index permutation,
// one- and two-level), "filtering" (selection by index list) and "linkedlist"
// (operation histories on LinkedList against a slice model).
package c13

import (
	"bytes"
	"fmt"
	"math"
	"path/filepath"
	"reflect"
	"runtime"
	"sort"
	"strconv"
	"strings"
	"testing"
	"time"

	wio "github.com/whatap/golib/io"
	"github.com/whatap/golib/lang/value"
	"github.com/whatap/golib/util/list"
	"pgregory.net/rapid"
	"verif/gen"
	"verif/pbt"
	"verif/ref"
)

func TestMain(m *testing.M) { pbt.Main(m, "C13") }

func TestReplay(t *testing.T) { pbt.Replay(t) }

// noPanic converts an unexpected panic inside Run into a violation whose message
// is the same on every run (panic value + first golib frame). pbt would do the
// conversion itself, but it appends a stack trace whose argument words differ
// between runs, and rapid does not shrink a failure it cannot reproduce verbatim.
func noPanic[C any](run func(C) *pbt.Result) func(C) *pbt.Result {
	return func(c C) (r *pbt.Result) {
		defer func() {
			if p := recover(); p != nil {
				site := "?"
				pcs := make([]uintptr, 32)
				frames := runtime.CallersFrames(pcs[:runtime.Callers(2, pcs)])
				for {
					f, more := frames.Next()
					if strings.Contains(f.Function, "whatap/golib") {
						site = fmt.Sprintf("%s (%s:%d)", f.Function, filepath.Base(f.File), f.Line)
						break
					}
					if !more {
						break
					}
				}
				r = pbt.Fail("unexpected panic: %v, raised in %s", p, site)
			}
		}()
		return run(c)
	}
}

// ---- elements ----------------------------------------------------------------------------
//
// In a Case an element is text (readable, JSON-safe also for ±Inf and -0):
// decimal for int/long lists, strconv 'g' shortest form for float/double lists,
// hex of the bytes for string lists.

const (
	tInt    = "int"
	tLong   = "long"
	tFloat  = "float"
	tDouble = "double"
	tString = "string"
)

var allTypes = []string{tInt, tLong, tFloat, tDouble, tString}

// elem is the decoded element: i for int/long, f for float/double (a float list holds float32 values exactly), s for string.
type elem struct {
	i int64
	f float64
	s string
}

func parseElem(typ, txt string) elem {
	switch typ {
	case tInt, tLong:
		v, err := strconv.ParseInt(txt, 10, 64)
		if err != nil {
			panic("bad int element " + txt)
		}
		return elem{i: v}
	case tFloat:
		v, err := strconv.ParseFloat(txt, 32)
		if err != nil || v != v {
			panic("bad float element " + txt)
		}
		return elem{f: float64(float32(v))}
	case tDouble:
		v, err := strconv.ParseFloat(txt, 64)
		if err != nil || v != v {
			panic("bad double element " + txt)
		}
		return elem{f: v}
	case tString:
		return elem{s: string(gen.UnHex(txt))}
	}
	panic("unknown list type " + typ)
}

func showElem(typ string, e elem) string {
	switch typ {
	case tInt, tLong:
		return strconv.FormatInt(e.i, 10)
	case tFloat:
		return strconv.FormatFloat(e.f, 'g', -1, 32)
	case tDouble:
		return strconv.FormatFloat(e.f, 'g', -1, 64)
	}
	return gen.Hex([]byte(e.s))
}

func parseElems(typ string, txt []string) []elem {
	out := make([]elem, len(txt))
	for i, x := range txt {
		out[i] = parseElem(typ, x)
	}
	return out
}

// same: element identity (bitwise on floats: -0 and +0 are different stored values).
func same(typ string, a, b elem) bool {
	switch typ {
	case tInt, tLong:
		return a.i == b.i
	case tFloat, tDouble:
		return math.Float64bits(a.f) == math.Float64bits(b.f)
	}
	return a.s == b.s
}

func showElems(typ string, es []elem) string {
	var sb strings.Builder
	sb.WriteString("[")
	for i, e := range es {
		if i > 0 {
			sb.WriteString(" ")
		}
		if i == 16 {
			fmt.Fprintf(&sb, "… %d elements", len(es))
			break
		}
		if typ == tString {
			fmt.Fprintf(&sb, "%q", e.s)
		} else {
			sb.WriteString(showElem(typ, e))
		}
	}
	sb.WriteString("]")
	return sb.String()
}

func sameSeq(typ string, got, want []elem) error {
	if len(got) != len(want) {
		return fmt.Errorf("holds %d elements %s, the model holds %d elements %s", len(got), showElems(typ, got), len(want), showElems(typ, want))
	}
	for i := range got {
		if !same(typ, got[i], want[i]) {
			return fmt.Errorf("element %d is %s, the model has %s", i, showElems(typ, got[i:i+1]), showElems(typ, want[i:i+1]))
		}
	}
	return nil
}

// ---- adapters over the five concrete list types ------------------------------------------------

type adapter struct {
	typ         string
	any         list.AnyList
	addAll      func(other *adapter)
	addAllArray func(es []elem)
	toArray     func() []elem
	// holdRaw takes the slice ToArray returns exactly as it is. unchanged reports whether that slice still holds what
	// it held when it was taken; scribble overwrites every element of it.
	holdRaw func() (unchanged func() bool, scribble func())
}

func newList(typ string, capacity int) *adapter {
	a := &adapter{typ: typ}
	switch typ {
	case tInt:
		var l *list.IntList
		if capacity < 0 {
			l = list.NewIntListDefault()
		} else {
			l = list.NewIntList(capacity)
		}
		a.any = l
		a.addAll = func(o *adapter) { l.AddAll(o.any.(*list.IntList)) }
		a.addAllArray = func(es []elem) {
			arr := make([]int, len(es))
			for i, e := range es {
				arr[i] = int(e.i)
			}
			l.AddAllArray(arr)
		}
		a.holdRaw = func() (func() bool, func()) {
			raw := l.ToArray()
			keep := append([]int(nil), raw...)
			return func() bool {
					if len(raw) != len(keep) {
						return false
					}
					for i := range raw {
						if raw[i] != keep[i] && (raw[i] == raw[i] || keep[i] == keep[i]) {
							return false
						}
					}
					return true
				}, func() {
					for i := range raw {
						raw[i] = 0x5a5a5a
					}
				}
		}
		a.toArray = func() []elem {
			arr := l.ToArray()
			out := make([]elem, len(arr))
			for i, v := range arr {
				out[i] = elem{i: int64(v)}
			}
			return out
		}
	case tLong:
		var l *list.LongList
		if capacity < 0 {
			l = list.NewLongListDefault()
		} else {
			l = list.NewLongList(capacity)
		}
		a.any = l
		a.addAll = func(o *adapter) { l.AddAll(o.any.(*list.LongList)) }
		a.addAllArray = func(es []elem) {
			arr := make([]int64, len(es))
			for i, e := range es {
				arr[i] = e.i
			}
			l.AddAllArray(arr)
		}
		a.holdRaw = func() (func() bool, func()) {
			raw := l.ToArray()
			keep := append([]int64(nil), raw...)
			return func() bool {
					if len(raw) != len(keep) {
						return false
					}
					for i := range raw {
						if raw[i] != keep[i] && (raw[i] == raw[i] || keep[i] == keep[i]) {
							return false
						}
					}
					return true
				}, func() {
					for i := range raw {
						raw[i] = 0x5a5a5a5a5a
					}
				}
		}
		a.toArray = func() []elem {
			arr := l.ToArray()
			out := make([]elem, len(arr))
			for i, v := range arr {
				out[i] = elem{i: v}
			}
			return out
		}
	case tFloat:
		var l *list.FloatList
		if capacity < 0 {
			l = list.NewFloatListDefault()
		} else {
			l = list.NewFloatList(capacity)
		}
		a.any = l
		a.addAll = func(o *adapter) { l.AddAll(o.any.(*list.FloatList)) }
		a.addAllArray = func(es []elem) {
			arr := make([]float32, len(es))
			for i, e := range es {
				arr[i] = float32(e.f)
			}
			l.AddAllArray(arr)
		}
		a.holdRaw = func() (func() bool, func()) {
			raw := l.ToArray()
			keep := append([]float32(nil), raw...)
			return func() bool {
					if len(raw) != len(keep) {
						return false
					}
					for i := range raw {
						if raw[i] != keep[i] && (raw[i] == raw[i] || keep[i] == keep[i]) {
							return false
						}
					}
					return true
				}, func() {
					for i := range raw {
						raw[i] = 12345.5
					}
				}
		}
		a.toArray = func() []elem {
			arr := l.ToArray()
			out := make([]elem, len(arr))
			for i, v := range arr {
				out[i] = elem{f: float64(v)}
			}
			return out
		}
	case tDouble:
		var l *list.DoubleList
		if capacity < 0 {
			l = list.NewDoubleListDefault()
		} else {
			l = list.NewDoubleList(capacity)
		}
		a.any = l
		a.addAll = func(o *adapter) { l.AddAll(o.any.(*list.DoubleList)) }
		a.addAllArray = func(es []elem) {
			arr := make([]float64, len(es))
			for i, e := range es {
				arr[i] = e.f
			}
			l.AddAllArray(arr)
		}
		a.holdRaw = func() (func() bool, func()) {
			raw := l.ToArray()
			keep := append([]float64(nil), raw...)
			return func() bool {
					if len(raw) != len(keep) {
						return false
					}
					for i := range raw {
						if raw[i] != keep[i] && (raw[i] == raw[i] || keep[i] == keep[i]) {
							return false
						}
					}
					return true
				}, func() {
					for i := range raw {
						raw[i] = 98765.25
					}
				}
		}
		a.toArray = func() []elem {
			arr := l.ToArray()
			out := make([]elem, len(arr))
			for i, v := range arr {
				out[i] = elem{f: v}
			}
			return out
		}
	case tString:
		var l *list.StringList
		if capacity < 0 {
			l = list.NewStringListDefault()
		} else {
			l = list.NewStringList(capacity)
		}
		a.any = l
		a.addAll = func(o *adapter) { l.AddAll(o.any.(*list.StringList)) }
		a.addAllArray = func(es []elem) {
			arr := make([]string, len(es))
			for i, e := range es {
				arr[i] = e.s
			}
			l.AddAllArray(arr)
		}
		a.holdRaw = func() (func() bool, func()) {
			raw := l.ToArray()
			keep := append([]string(nil), raw...)
			return func() bool {
					if len(raw) != len(keep) {
						return false
					}
					for i := range raw {
						if raw[i] != keep[i] && (raw[i] == raw[i] || keep[i] == keep[i]) {
							return false
						}
					}
					return true
				}, func() {
					for i := range raw {
						raw[i] = "scribbled"
					}
				}
		}
		a.toArray = func() []elem {
			arr := l.ToArray()
			out := make([]elem, len(arr))
			for i, v := range arr {
				out[i] = elem{s: v}
			}
			return out
		}
	default:
		panic("unknown list type " + typ)
	}
	return a
}

// listOf builds a list of the given type and capacity holding es (native adds).
func listOf(typ string, capacity int, es []elem) *adapter {
	a := newList(typ, capacity)
	a.addAllArray(es)
	return a
}

// backing returns the length of the backing array (reflection, read-only; -1 if the layout is unexpected).
func (a *adapter) backing() int {
	t := reflect.ValueOf(a.any).Elem().FieldByName("table")
	if !t.IsValid() || t.Kind() != reflect.Slice {
		return -1
	}
	return t.Len()
}

// ---- exact conversions between an element and the five argument flavours -----------------------

const (
	two24 = 1 << 24
	two53 = 1 << 53
)

func absI(v int64) uint64 {
	if v < 0 {
		return uint64(-v) // MinInt64 maps onto 2^63, which is what is wanted
	}
	return uint64(v)
}

// isIntegral reports whether f is a finite integer-valued float that is not -0 and whose magnitude is at most lim.
func isIntegral(f float64, lim float64) bool {
	return !math.IsInf(f, 0) && f == math.Trunc(f) && math.Abs(f) <= lim && !(f == 0 && math.Signbit(f))
}

// sixDecimals renders v the way the list documents the float->string conversion (%.6f).
func sixDecimals(v float64) string { return fmt.Sprintf("%.6f", v) }

// flavourArg says whether element e of a list of type typ can be handed over
// exactly in flavour fl, and returns the argument in that flavour.
type arg struct {
	i int64
	f float64
	s string
}

func flavourArg(typ, fl string, e elem) (arg, bool) {
	switch typ {
	case tInt, tLong:
		switch fl {
		case tInt, tLong:
			return arg{i: e.i}, true
		case tFloat:
			return arg{f: float64(e.i)}, absI(e.i) <= two24
		case tDouble:
			return arg{f: float64(e.i)}, absI(e.i) <= two53
		case tString:
			return arg{s: strconv.FormatInt(e.i, 10)}, true
		}
	case tFloat, tDouble:
		switch fl {
		case tFloat:
			return arg{f: e.f}, typ == tFloat || math.Float64bits(float64(float32(e.f))) == math.Float64bits(e.f)
		case tDouble:
			return arg{f: e.f}, true
		case tInt, tLong:
			lim := float64(two24)
			if typ == tDouble {
				lim = two53
			}
			if !isIntegral(e.f, lim) {
				return arg{}, false
			}
			return arg{i: int64(e.f)}, true
		case tString:
			bits := 32
			if typ == tDouble {
				bits = 64
			}
			return arg{s: strconv.FormatFloat(e.f, 'g', -1, bits)}, true
		}
	case tString:
		switch fl {
		case tString:
			return arg{s: e.s}, true
		case tInt, tLong:
			v, err := strconv.ParseInt(e.s, 10, 64)
			return arg{i: v}, err == nil && strconv.FormatInt(v, 10) == e.s
		case tFloat:
			v, err := strconv.ParseFloat(e.s, 32)
			return arg{f: v}, err == nil && !math.IsInf(v, 0) && v == v && sixDecimals(float64(float32(v))) == e.s
		case tDouble:
			v, err := strconv.ParseFloat(e.s, 64)
			return arg{f: v}, err == nil && !math.IsInf(v, 0) && v == v && sixDecimals(v) == e.s
		}
	}
	return arg{}, false
}

func addFlavour(l list.AnyList, fl string, a arg) {
	switch fl {
	case tInt:
		l.AddInt(int(a.i))
	case tLong:
		l.AddLong(a.i)
	case tFloat:
		l.AddFloat(float32(a.f))
	case tDouble:
		l.AddDouble(a.f)
	case tString:
		l.AddString(a.s)
	}
}

func setFlavour(l list.AnyList, fl string, i int, a arg) {
	switch fl {
	case tInt:
		l.SetInt(i, int(a.i))
	case tLong:
		l.SetLong(i, a.i)
	case tFloat:
		l.SetFloat(i, float32(a.f))
	case tDouble:
		l.SetDouble(i, a.f)
	case tString:
		l.SetString(i, a.s)
	}
}

// panics runs f and reports whether it panicked.
func panics(f func()) (p interface{}) {
	defer func() { p = recover() }()
	f()
	return nil
}

// checkGetters compares all getters at an in-range index with the model element e,
// each flavour only where the conversion from the stored type is exact.
func checkGetters(typ string, l list.AnyList, i int, e elem) error {
	var wantI int64
	var wantF32 float32
	var wantF64 float64
	var wantS string
	okI, okF32, okF64, okS := false, false, false, false
	switch typ {
	case tInt, tLong:
		wantI, okI = e.i, true
		wantF32, okF32 = float32(e.i), absI(e.i) <= two24
		wantF64, okF64 = float64(e.i), absI(e.i) <= two53
		wantS, okS = strconv.FormatInt(e.i, 10), true
	case tFloat, tDouble:
		wantF64, okF64 = e.f, true
		wantF32 = float32(e.f)
		okF32 = typ == tFloat || math.Float64bits(float64(wantF32)) == math.Float64bits(e.f)
		if isIntegral(e.f, 1<<62) || (e.f == 0) {
			wantI, okI = int64(e.f), true
		}
	case tString:
		wantS, okS = e.s, true
		if a, ok := flavourArg(tString, tLong, e); ok {
			wantI, okI = a.i, true
			wantF32, okF32 = float32(a.i), absI(a.i) <= two24
			wantF64, okF64 = float64(a.i), absI(a.i) <= two53
		} else {
			if a, ok := flavourArg(tString, tFloat, e); ok {
				wantF32, okF32 = float32(a.f), true
			}
			if a, ok := flavourArg(tString, tDouble, e); ok {
				wantF64, okF64 = a.f, true
			}
		}
	}
	if okI {
		if g := l.GetLong(i); g != wantI {
			return fmt.Errorf("GetLong(%d)=%d, the model has %d", i, g, wantI)
		}
		if g := l.GetInt(i); int64(g) != wantI {
			return fmt.Errorf("GetInt(%d)=%d, the model has %d", i, g, wantI)
		}
	}
	if okF32 {
		if g := l.GetFloat(i); math.Float32bits(g) != math.Float32bits(wantF32) {
			return fmt.Errorf("GetFloat(%d)=%v, the model has %v", i, g, wantF32)
		}
	}
	if okF64 {
		if g := l.GetDouble(i); math.Float64bits(g) != math.Float64bits(wantF64) {
			return fmt.Errorf("GetDouble(%d)=%v, the model has %v", i, g, wantF64)
		}
	}
	if okS {
		if g := l.GetString(i); g != wantS {
			return fmt.Errorf("GetString(%d)=%q, the model has %q", i, g, wantS)
		}
	} else if isIntegral(e.f, two24) { // float lists: the text form of a small integral value must read back as that value
		g := l.GetString(i)
		if v, err := strconv.ParseFloat(g, 64); err != nil || v != e.f {
			return fmt.Errorf("GetString(%d)=%q does not read back as %v", i, g, e.f)
		}
	}
	switch v := l.GetValue(i).(type) {
	case *value.DecimalValue:
		if typ != tInt && typ != tLong || v.Val != e.i {
			return fmt.Errorf("GetValue(%d) is decimal %d, the model has %s element %s", i, v.Val, typ, showElem(typ, e))
		}
	case *value.FloatValue:
		if typ != tFloat || math.Float32bits(v.Val) != math.Float32bits(float32(e.f)) {
			return fmt.Errorf("GetValue(%d) is float %v, the model has %s element %s", i, v.Val, typ, showElem(typ, e))
		}
	case *value.DoubleValue:
		if typ != tDouble || math.Float64bits(v.Val) != math.Float64bits(e.f) {
			return fmt.Errorf("GetValue(%d) is double %v, the model has %s element %s", i, v.Val, typ, showElem(typ, e))
		}
	case *value.TextValue:
		if typ != tString || v.Val != e.s {
			return fmt.Errorf("GetValue(%d) is text %q, the model has %s element %s", i, v.Val, typ, showElem(typ, e))
		}
	default:
		return fmt.Errorf("GetValue(%d) has unexpected type %T", i, v)
	}
	return nil
}

// checkOutOfRange requires every getter to report (panic on) index i.
func checkOutOfRange(l list.AnyList, i, size int) error {
	calls := []struct {
		name string
		f    func() interface{}
	}{
		{"GetInt", func() interface{} { return l.GetInt(i) }},
		{"GetLong", func() interface{} { return l.GetLong(i) }},
		{"GetFloat", func() interface{} { return l.GetFloat(i) }},
		{"GetDouble", func() interface{} { return l.GetDouble(i) }},
		{"GetString", func() interface{} { return l.GetString(i) }},
		{"GetValue", func() interface{} { return l.GetValue(i) }},
	}
	for _, c := range calls {
		var got interface{}
		if p := panics(func() { got = c.f() }); p == nil {
			return fmt.Errorf("%s(%d) on a list of size %d returned %v instead of reporting the index", c.name, i, size, got)
		}
	}
	return nil
}

// refWire is the reference wire form: 24-bit count, then the per-element codec.
func refWire(typ string, es []elem) []byte {
	w := ref.NewW()
	w.CountI24(len(es))
	for _, e := range es {
		switch typ {
		case tInt, tLong:
			w.Dec(e.i)
		case tFloat:
			w.F32(float32(e.f))
		case tDouble:
			w.F64(e.f)
		case tString:
			w.Text(e.s)
		}
	}
	return w.B
}

// ---- sub-check "lists" ------------------------------------------------------------------------

type LOp struct {
	K  string   `json:"k"`
	Fl string   `json:"fl,omitempty"` // argument flavour of add/set (falls back to the native one when not exact)
	I  int      `json:"i,omitempty"`  // index of set/get
	E  string   `json:"e,omitempty"`  // element (text form, see above)
	Es []string `json:"es,omitempty"` // elements of add-all / add-all-array
	C  int      `json:"c,omitempty"`  // capacity of the second list (-1: default constructor)
}

type ListCase struct {
	T   string `json:"type"`
	Cap int    `json:"cap"` // -1: default constructor
	Ops []LOp  `json:"ops"`
}

func drawElemText(t *rapid.T, typ string, exactish bool) string {
	switch typ {
	case tInt, tLong:
		if exactish {
			return strconv.FormatInt(rapid.Int64Range(-two24, two24).Draw(t, "e"), 10)
		}
		return strconv.FormatInt(gen.Int64().Draw(t, "e"), 10)
	case tFloat:
		if exactish {
			return strconv.FormatFloat(float64(rapid.Int32Range(-4000, 4000).Draw(t, "e"))/4, 'g', -1, 32)
		}
		return strconv.FormatFloat(float64(gen.Float32NoNaN().Draw(t, "e")), 'g', -1, 32)
	case tDouble:
		if exactish {
			return strconv.FormatFloat(float64(rapid.Int32Range(-4000, 4000).Draw(t, "e"))/4, 'g', -1, 64)
		}
		return strconv.FormatFloat(gen.Float64NoNaN().Draw(t, "e"), 'g', -1, 64)
	}
	// strings
	switch rapid.IntRange(0, 5).Draw(t, "skind") {
	case 0:
		return ""
	case 1:
		return gen.Hex([]byte(strconv.FormatInt(gen.Int64().Draw(t, "e"), 10)))
	case 2:
		return gen.Hex([]byte(sixDecimals(float64(rapid.Int32Range(-4000, 4000).Draw(t, "e")) / 4)))
	case 3:
		return gen.Hex([]byte(gen.String(false).Draw(t, "e")))
	}
	return gen.Hex([]byte(gen.SmallString().Draw(t, "e")))
}

func drawElems(t *rapid.T, typ string, max int) []string {
	n := rapid.IntRange(0, max).Draw(t, "n")
	out := make([]string, n)
	for i := range out {
		out[i] = drawElemText(t, typ, rapid.Bool().Draw(t, "exactish"))
	}
	return out
}

func drawCapacity(t *rapid.T, label string) int {
	switch rapid.IntRange(0, 5).Draw(t, label+"kind") {
	case 0:
		return -1
	case 1:
		return 0
	case 2:
		return rapid.IntRange(1, 3).Draw(t, label)
	}
	return rapid.IntRange(0, 40).Draw(t, label)
}

var listKinds = []string{"add", "add", "add", "add", "add", "set", "set", "get", "get", "get", "addall", "addallarray", "toarray", "wire", "badtext", "toarraykept"}

// texts no numeric list can take
var badTexts = []string{"x3", "", "12.5x", " 7", "0x10", "1e", "--1", "NaN?"}

func drawListCase(t *rapid.T) ListCase {
	c := ListCase{T: rapid.SampledFrom(allTypes).Draw(t, "type"), Cap: drawCapacity(t, "cap")}
	size, capEst := 0, c.Cap
	if capEst < 0 {
		capEst = 0
	}
	grow := func(n int) {
		if size+n > capEst {
			capEst += capEst >> 1
			if capEst < size+n {
				capEst = size + n
			}
		}
		size += n
	}
	drawIndex := func() int {
		switch k := rapid.IntRange(0, 9).Draw(t, "ikind"); {
		case k < 5 && size > 0:
			return rapid.IntRange(0, size-1).Draw(t, "idx")
		case k < 7:
			return size + rapid.IntRange(0, 2).Draw(t, "past")
		case k == 7:
			return rapid.IntRange(-2, -1).Draw(t, "neg")
		}
		return rapid.IntRange(-2, size+capEst+2).Draw(t, "idx")
	}
	var n int
	if rapid.IntRange(0, 5).Draw(t, "short") == 0 {
		n = rapid.IntRange(1, 6).Draw(t, "nops")
	} else {
		n = rapid.IntRange(7, 50).Draw(t, "nops")
	}
	for i := 0; i < n; i++ {
		op := LOp{K: rapid.SampledFrom(listKinds).Draw(t, "kind")}
		switch op.K {
		case "add":
			op.Fl = rapid.SampledFrom(allTypes).Draw(t, "flavour")
			op.E = drawElemText(t, c.T, op.Fl != c.T)
			grow(1)
		case "set":
			op.Fl = rapid.SampledFrom(allTypes).Draw(t, "flavour")
			op.E = drawElemText(t, c.T, op.Fl != c.T)
			op.I = drawIndex()
		case "get":
			op.I = drawIndex()
		case "badtext":
			op.I, op.C = rapid.IntRange(0, 1000).Draw(t, "which"), rapid.IntRange(0, 1).Draw(t, "addorset")
		case "toarraykept":
			grow(1)
		case "addall":
			op.Es, op.C = drawElems(t, c.T, 12), drawCapacity(t, "ocap")
			grow(len(op.Es))
		case "addallarray":
			op.Es = drawElems(t, c.T, 12)
			grow(len(op.Es))
		case "wire":
			op.C = drawCapacity(t, "rcap")
		}
		c.Ops = append(c.Ops, op)
	}
	return c
}

func runListCase(c ListCase) *pbt.Result {
	a := newList(c.T, c.Cap)
	l := a.any
	var md []elem
	grewWithContent := false
	usedFlavours := map[string]bool{}
	oor, stalePossible := 0, 0
	for n, op := range c.Ops {
		fail := func(format string, x ...interface{}) *pbt.Result {
			return pbt.Fail("op %d %s on %s list: %s", n, op.K, c.T, fmt.Sprintf(format, x...))
		}
		before := a.backing()
		switch op.K {
		case "add", "set":
			e := parseElem(c.T, op.E)
			fl := op.Fl
			ar, ok := flavourArg(c.T, fl, e)
			if !ok {
				fl = c.T
				ar, _ = flavourArg(c.T, fl, e)
			}
			usedFlavours[fl] = true
			if op.K == "add" {
				addFlavour(l, fl, ar)
				md = append(md, e)
				break
			}
			inRange := op.I >= 0 && op.I < len(md)
			p := panics(func() { setFlavour(l, fl, op.I, ar) })
			if inRange {
				if p != nil {
					return fail("Set%s(%d, %s) panicked on a list of size %d: %v", fl, op.I, showElem(c.T, e), len(md), p)
				}
				md[op.I] = e
			} else {
				oor++
				if p == nil {
					return fail("Set%s(%d, …) on a list of size %d (backing array %d) did not report the index", fl, op.I, len(md), before)
				}
				if err := sameSeq(c.T, a.toArray(), md); err != nil {
					return fail("after the rejected Set(%d): list %v", op.I, err)
				}
			}
		case "badtext":
			// AddString / SetString with a text the element type cannot take: if the call reports it (panics), the list
			// is exactly what it was
			if c.T == tString {
				break
			}
			bad := badTexts[(op.I%len(badTexts)+len(badTexts))%len(badTexts)]
			var p interface{}
			if op.C%2 == 0 || len(md) == 0 {
				p = panics(func() { l.AddString(bad) })
			} else {
				p = panics(func() { l.SetString(((op.I%len(md))+len(md))%len(md), bad) })
			}
			if p != nil {
				if l.Size() != len(md) {
					return fail("the text %q was rejected (%v) but Size() went from %d to %d", bad, p, len(md), l.Size())
				}
				if err := sameSeq(c.T, a.toArray(), md); err != nil {
					return fail("after the rejected text %q: list %v", bad, err)
				}
			} else {
				// accepted after all: the model follows what the list itself says it stored
				md = a.toArray()
			}
		case "toarraykept":
			// the array handed out is the caller's: later changes of the list do not reach it, writing into it does not reach the list
			unchanged, scribble := a.holdRaw()
			if len(md) > 0 {
				e := md[0]
				ar, _ := flavourArg(c.T, c.T, e)
				setFlavour(l, c.T, len(md)-1, ar)
				md[len(md)-1] = e
				addFlavour(l, c.T, ar)
				md = append(md, e)
			}
			if !unchanged() {
				return fail("the array obtained from ToArray (list size %d) changed when the list was changed afterwards", len(md)-1)
			}
			scribble()
			if err := sameSeq(c.T, a.toArray(), md); err != nil {
				return fail("after writing into the array obtained from ToArray earlier: list %v", err)
			}
		case "get":
			if op.I >= 0 && op.I < len(md) {
				if err := checkGetters(c.T, l, op.I, md[op.I]); err != nil {
					return fail("%v", err)
				}
			} else {
				oor++
				if op.I >= len(md) && op.I < before {
					stalePossible++
				}
				if err := checkOutOfRange(l, op.I, len(md)); err != nil {
					return fail("%v (backing array %d)", err, before)
				}
			}
		case "addall":
			es := parseElems(c.T, op.Es)
			other := listOf(c.T, op.C, es)
			a.addAll(other)
			md = append(md, es...)
			if err := sameSeq(c.T, other.toArray(), es); err != nil {
				return fail("the argument of AddAll afterwards %v", err)
			}
		case "addallarray":
			es := parseElems(c.T, op.Es)
			a.addAllArray(es)
			md = append(md, es...)
		case "toarray":
			if err := sameSeq(c.T, a.toArray(), md); err != nil {
				return fail("ToArray() %v", err)
			}
		case "wire":
			o := wio.NewDataOutputX()
			l.Write(o)
			got := append([]byte(nil), o.ToByteArray()...)
			if want := refWire(c.T, md); !bytes.Equal(got, want) {
				return fail("Write produced %d bytes %.60x, the reference encoding (24-bit count + elements) has %d bytes %.60x", len(got), got, len(want), want)
			}
			back := newList(c.T, op.C)
			in := wio.NewDataInputX(got)
			back.any.Read(in)
			if in.Available() != 0 {
				return fail("Read left %d of %d bytes unread", in.Available(), len(got))
			}
			if back.any.Size() != len(md) {
				return fail("Read(Write(l)).Size()=%d, the list holds %d", back.any.Size(), len(md))
			}
			if err := sameSeq(c.T, back.toArray(), md); err != nil {
				return fail("Read(Write(l)) %v", err)
			}
		default:
			panic("unknown op kind " + op.K)
		}
		if l.Size() != len(md) {
			return fail("Size()=%d afterwards, the model holds %d", l.Size(), len(md))
		}
		if after := a.backing(); after > before && before > 0 && len(md) > 1 {
			grewWithContent = true
		}
	}
	if err := sameSeq(c.T, a.toArray(), md); err != nil {
		return pbt.Fail("final state of the %s list: %v", c.T, err)
	}
	for i, e := range md {
		if err := checkGetters(c.T, l, i, e); err != nil {
			return pbt.Fail("final state of the %s list: %v", c.T, err)
		}
	}
	for _, i := range []int{-1, len(md), len(md) + 1, a.backing() - 1, a.backing()} {
		if i < 0 || i >= len(md) {
			if err := checkOutOfRange(l, i, len(md)); err != nil {
				return pbt.Fail("final state of the %s list: %v (backing array %d)", c.T, err, a.backing())
			}
		}
	}
	cl := []string{"type=" + c.T}
	if grewWithContent {
		cl = append(cl, "grew")
	}
	if oor > 0 {
		cl = append(cl, "out-of-range-index")
	}
	if stalePossible > 0 {
		cl = append(cl, "index-inside-backing-array")
	}
	for f := range usedFlavours {
		if f != c.T {
			cl = append(cl, "foreign-flavour")
			break
		}
	}
	sort.Strings(cl)
	return &pbt.Result{NT: grewWithContent, Classes: cl}
}

var specLists = pbt.Register(pbt.Spec[ListCase]{
	Prop: "C13", Name: "lists", Parallel: 8,
	Rule:  "histories of 1-50 ops (Add*/Set* in all five argument flavours where the conversion to the element type is exact, Get* in all flavours + GetValue, AddAll, AddAllArray, ToArray, Write/Read) on Int/Long/Float/Double/String lists with initial capacity default/0..40 and indices in [-2, size+capacity+2], against a slice model; an out-of-range index must panic in every getter and setter; Write bytes must equal the reference (24-bit count + decimal/float/double/text elements); non-trivial = the backing array was re-allocated while the list held elements (capacity growth step crossed, observed by reflection); distinct by whole history",
	Quick: 20000, Thorough: 3000000,
	Draw: drawListCase, Run: noPanic(runListCase),
})

func TestLists(t *testing.T) {
	// long lists on the wire: the element count travels in 24 bits; sizes on both sides of 2^16
	shard, n := pbt.Shard()
	k := 0
	for _, typ := range allTypes {
		for _, size := range []int{65535, 65536, pbt.Pick(70000, 300000)} {
			k++
			if k%n != shard {
				continue
			}
			es := make([]string, size)
			for i := range es {
				v := (i*7 + i/256) % 1000
				if typ == tString {
					es[i] = gen.Hex([]byte(strconv.Itoa(v)))
				} else {
					es[i] = strconv.Itoa(v)
				}
			}
			specLists.RunCase(t, ListCase{T: typ, Cap: -1, Ops: []LOp{{K: "addallarray", Es: es}, {K: "wire", C: -1}}})
		}
	}
	specLists.Check(t)
}

// ---- sub-check "sorting" ---------------------------------------------------------------------

type SortCase struct {
	T     string   `json:"type"`
	Vals  []string `json:"vals"`
	CT    string   `json:"child_type,omitempty"` // "": Sorting(asc) only
	CVals []string `json:"child_vals,omitempty"`
	Asc   bool     `json:"asc"`
	CAsc  bool     `json:"child_asc"`
	// Rot > 0: afterwards the list is overwritten in place (Set, same length) with its own values rotated by Rot
	// positions and sorted again: the order must be that of the new content
	Rot int `json:"rot,omitempty"`
	// SelfChild: additionally a two-level sort whose child list is the list itself
	SelfChild bool `json:"self_child,omitempty"`
	// ShortChild: finally a two-level sort whose child list has fewer elements than the list (a caller's mistake: the call
	// may fail); afterwards the list is unchanged and can be sorted as before
	ShortChild bool `json:"short_child,omitempty"`
}

// cmpElem is the oracle's order: integers and floats numerically (no NaN by construction), strings bytewise.
func cmpElem(typ string, a, b elem) int {
	switch typ {
	case tInt, tLong:
		switch {
		case a.i < b.i:
			return -1
		case a.i > b.i:
			return 1
		}
		return 0
	case tFloat, tDouble:
		switch {
		case a.f < b.f:
			return -1
		case a.f > b.f:
			return 1
		}
		return 0
	}
	switch {
	case a.s < b.s:
		return -1
	case a.s > b.s:
		return 1
	}
	return 0
}

var sortExtremes = map[string][]string{
	tInt:    {"0", "-1", "1", strconv.FormatInt(math.MaxInt64, 10), strconv.FormatInt(math.MinInt64, 10), "2147483647", "-2147483648"},
	tLong:   {"0", "-1", "1", strconv.FormatInt(math.MaxInt64, 10), strconv.FormatInt(math.MinInt64, 10), "9007199254740993", "9007199254740992"},
	tFloat:  {"0", "-0", "1", "-1", "+Inf", "-Inf", "3.4028235e+38", "-3.4028235e+38", "1e-45", "0.5"},
	tDouble: {"0", "-0", "1", "-1", "+Inf", "-Inf", "1.7976931348623157e+308", "-1.7976931348623157e+308", "5e-324", "0.1"},
	tString: {"", gen.Hex([]byte("a")), gen.Hex([]byte("A")), gen.Hex([]byte("aa")), gen.Hex([]byte("b")), gen.Hex([]byte("\xff")), gen.Hex([]byte("10")), gen.Hex([]byte("9")), gen.Hex([]byte("é"))},
}

// child lists hold numeric values within ±2^53 (the child comparator works in float64).
var childExtremes = map[string][]string{
	tInt:    {"0", "-1", "1", "9007199254740992", "-9007199254740992", "9007199254740991"},
	tLong:   {"0", "-1", "1", "9007199254740992", "-9007199254740992", "9007199254740991"},
	tFloat:  sortExtremes[tFloat],
	tDouble: sortExtremes[tDouble],
	tString: sortExtremes[tString],
}

func drawAlphabet(t *rapid.T, typ string, child bool) []string {
	n := rapid.IntRange(1, 6).Draw(t, "alpha")
	ext := sortExtremes[typ]
	if child {
		ext = childExtremes[typ]
	}
	out := make([]string, n)
	for i := range out {
		switch rapid.IntRange(0, 2).Draw(t, "akind") {
		case 0:
			out[i] = rapid.SampledFrom(ext).Draw(t, "ext")
		case 1:
			out[i] = drawElemText(t, typ, true)
		default:
			if child && (typ == tInt || typ == tLong) {
				out[i] = strconv.FormatInt(rapid.Int64Range(-two53, two53).Draw(t, "e"), 10)
			} else {
				out[i] = drawElemText(t, typ, false)
			}
		}
	}
	return out
}

func drawSortLen(t *rapid.T) int {
	switch k := rapid.IntRange(0, 19).Draw(t, "lenkind"); {
	case k < 8:
		return rapid.IntRange(0, 12).Draw(t, "n") // sort.Sort: insertion sort only
	case k < 16:
		return rapid.IntRange(13, 60).Draw(t, "n")
	}
	return rapid.IntRange(61, 300).Draw(t, "n")
}

func drawSortCase(t *rapid.T) SortCase {
	c := SortCase{T: rapid.SampledFrom(allTypes).Draw(t, "type"), Asc: rapid.Bool().Draw(t, "asc"), CAsc: rapid.Bool().Draw(t, "casc")}
	n := drawSortLen(t)
	alpha := drawAlphabet(t, c.T, false)
	idx := rapid.SliceOfN(rapid.IntRange(0, len(alpha)-1), n, n).Draw(t, "vals")
	c.Vals = make([]string, n)
	for i, k := range idx {
		c.Vals[i] = alpha[k]
	}
	if rapid.IntRange(0, 4).Draw(t, "haschild") != 0 {
		c.CT = rapid.SampledFrom(allTypes).Draw(t, "ctype")
		calpha := drawAlphabet(t, c.CT, true)
		cidx := rapid.SliceOfN(rapid.IntRange(0, len(calpha)-1), n, n).Draw(t, "cvals")
		c.CVals = make([]string, n)
		for i, k := range cidx {
			c.CVals[i] = calpha[k]
		}
	}
	c.SelfChild = rapid.IntRange(0, 3).Draw(t, "selfchild") == 0
	c.ShortChild = rapid.IntRange(0, 4).Draw(t, "shortchild") == 0
	if rapid.IntRange(0, 2).Draw(t, "rotate?") == 0 {
		c.Rot = rapid.IntRange(1, 7).Draw(t, "rot")
	}
	return c
}

// validOrder checks that perm is a permutation of 0..n-1 whose consecutive
// elements are ordered by (primary, then child) in the requested directions.
func validOrder(what string, perm []int, typ string, vals []elem, asc bool, ctyp string, cvals []elem, casc bool) error {
	n := len(vals)
	if len(perm) != n {
		return fmt.Errorf("%s returned %d indices for a list of %d elements", what, len(perm), n)
	}
	seen := make([]bool, n)
	for _, p := range perm {
		if p < 0 || p >= n {
			return fmt.Errorf("%s returned index %d, outside 0..%d", what, p, n-1)
		}
		if seen[p] {
			return fmt.Errorf("%s returned index %d twice: not a permutation", what, p)
		}
		seen[p] = true
	}
	for k := 0; k+1 < n; k++ {
		a, b := perm[k], perm[k+1]
		c := cmpElem(typ, vals[a], vals[b])
		if !asc {
			c = -c
		}
		if c > 0 {
			return fmt.Errorf("%s (ascending=%v): position %d holds index %d (value %s) before index %d (value %s)", what, asc, k, a, showElems(typ, vals[a:a+1]), b, showElems(typ, vals[b:b+1]))
		}
		if c == 0 && ctyp != "" {
			cc := cmpElem(ctyp, cvals[a], cvals[b])
			if !casc {
				cc = -cc
			}
			if cc > 0 {
				return fmt.Errorf("%s (child ascending=%v): equal primary values %s at positions %d,%d but child values are %s then %s", what, casc, showElems(typ, vals[a:a+1]), k, k+1, showElems(ctyp, cvals[a:a+1]), showElems(ctyp, cvals[b:b+1]))
			}
		}
	}
	return nil
}

func runSortCase(c SortCase) *pbt.Result {
	vals := parseElems(c.T, c.Vals)
	a := listOf(c.T, -1, vals)
	perm := a.any.Sorting(c.Asc)
	if err := validOrder("Sorting", perm, c.T, vals, c.Asc, "", nil, false); err != nil {
		return &pbt.Result{Err: err}
	}
	var cvals []elem
	var child *adapter
	if c.CT != "" {
		if len(c.CVals) != len(c.Vals) {
			panic("child list must have the size of the primary list")
		}
		cvals = parseElems(c.CT, c.CVals)
		child = listOf(c.CT, len(cvals), cvals)
		perm = a.any.SortingAnyList(c.Asc, child.any, c.CAsc)
		if err := validOrder("SortingAnyList", perm, c.T, vals, c.Asc, c.CT, cvals, c.CAsc); err != nil {
			return &pbt.Result{Err: err}
		}
		if err := sameSeq(c.CT, child.toArray(), cvals); err != nil {
			return pbt.Fail("sorting changed the child list: %v", err)
		}
	}
	if err := sameSeq(c.T, a.toArray(), vals); err != nil {
		return pbt.Fail("sorting changed the list: %v", err)
	}
	// the sorted view obtained through Filtering is the list in that order
	f := a.any.Filtering(perm)
	if f.Size() != len(perm) {
		return pbt.Fail("Filtering(sorted indices).Size()=%d, expected %d", f.Size(), len(perm))
	}
	for i, p := range perm {
		if err := checkGetters(c.T, f, i, vals[p]); err != nil {
			return pbt.Fail("Filtering(sorted indices): %v", err)
		}
	}
	// the list as its own tie-breaker (the same column named twice in a two-level sort)
	if c.SelfChild {
		var selfPerm []int
		returned, p := pbt.WithTimeout(20*time.Second, func() { selfPerm = a.any.SortingAnyList(c.Asc, a.any, c.CAsc) })
		if !returned {
			return pbt.Fail("SortingAnyList with the list itself as the child list did not return within 20 s (%d elements)", len(vals))
		}
		if p != nil {
			return pbt.Fail("SortingAnyList with the list itself as the child list panicked: %v", p)
		}
		if err := validOrder("SortingAnyList(child = the list itself)", selfPerm, c.T, vals, c.Asc, "", nil, false); err != nil {
			return &pbt.Result{Err: err}
		}
	}
	if n := len(vals); c.Rot > 0 && n >= 2 {
		rot := make([]elem, n)
		for i := range vals {
			rot[i] = vals[(i+c.Rot)%n]
			setFlavour(a.any, c.T, i, arg{i: rot[i].i, f: rot[i].f, s: rot[i].s})
		}
		if err := sameSeq(c.T, a.toArray(), rot); err != nil {
			return pbt.Fail("after overwriting the list in place: %v", err)
		}
		for _, asc := range []bool{c.Asc, !c.Asc, c.Asc} {
			if err := validOrder("Sorting after the list was overwritten in place (same length)", a.any.Sorting(asc), c.T, rot, asc, "", nil, false); err != nil {
				return &pbt.Result{Err: err}
			}
		}
		if child != nil {
			if err := validOrder("SortingAnyList after the list was overwritten in place", a.any.SortingAnyList(c.Asc, child.any, c.CAsc), c.T, rot, c.Asc, c.CT, cvals, c.CAsc); err != nil {
				return &pbt.Result{Err: err}
			}
		}
	}
	if c.ShortChild && len(vals) >= 2 && c.Rot == 0 {
		ct := c.CT
		if ct == "" {
			ct = c.T
		}
		var sv []elem
		if cvals != nil {
			sv = cvals[:len(vals)/2]
		} else {
			sv = vals[:len(vals)/2]
		}
		short := listOf(ct, -1, sv)
		returned, _ := pbt.WithTimeout(20*time.Second, func() { a.any.SortingAnyList(c.Asc, short.any, c.CAsc) })
		if !returned {
			return pbt.Fail("SortingAnyList with a child list of %d elements for a list of %d did not return within 20 s", len(sv), len(vals))
		}
		if err := sameSeq(c.T, a.toArray(), vals); err != nil {
			return pbt.Fail("a two-level sort with a too short child list changed the list: %v", err)
		}
		var again []int
		returned, p := pbt.WithTimeout(20*time.Second, func() { again = a.any.Sorting(c.Asc) })
		if !returned {
			return pbt.Fail("after a two-level sort with a too short child list (%d of %d elements) had failed or returned, Sorting on the same list did not return within 20 s", len(sv), len(vals))
		}
		if p != nil {
			return pbt.Fail("Sorting after a two-level sort with a too short child list panicked: %v", p)
		}
		if err := validOrder("Sorting after a two-level sort with a too short child list", again, c.T, vals, c.Asc, "", nil, false); err != nil {
			return &pbt.Result{Err: err}
		}
	}
	dupPrimary := false
	seen := map[string]bool{}
	for _, e := range vals {
		k := showElem(c.T, e)
		if c.T == tFloat || c.T == tDouble {
			if e.f == 0 {
				k = "0" // -0 and +0 are equal keys
			}
		}
		if seen[k] {
			dupPrimary = true
		}
		seen[k] = true
	}
	cl := []string{"type=" + c.T, fmt.Sprintf("asc=%v", c.Asc)}
	if c.CT != "" {
		cl = append(cl, "child="+c.CT, fmt.Sprintf("child-asc=%v", c.CAsc))
	} else {
		cl = append(cl, "child=none")
	}
	switch n := len(vals); {
	case n <= 12:
		cl = append(cl, "n<=12")
	case n <= 60:
		cl = append(cl, "n<=60")
	default:
		cl = append(cl, "n<=300")
	}
	if dupPrimary {
		cl = append(cl, "equal-primary-keys")
	}
	return &pbt.Result{NT: dupPrimary, Classes: cl}
}

var specSorting = pbt.Register(pbt.Spec[SortCase]{
	Prop: "C13", Name: "sorting", Parallel: 8,
	Rule:  "lists of 0-300 values (lengths on both sides of sort.Sort's insertion-sort limit) over an alphabet of 1-6 values (extremes, ±0, ±Inf, no NaN, empty string) so duplicates abound; 80% with a child list of any of the five types (numeric children within ±2^53); all four direction combinations; Sorting and SortingAnyList results must be a permutation of 0..n-1 whose consecutive elements are ordered by (primary, then child) in the requested directions; lists unchanged; in a quarter of the cases also a two-level sort with the list itself as child (must return, ordered by the primary); Filtering(result) is the list in that order; in a third of the cases the list is then overwritten in place (Set, same length) with its values rotated by 1-7 positions and sorted again in both directions and with the child: the orders must be those of the new content; in a fifth of the cases finally a two-level sort with a child list half as long (may fail) after which the list is unchanged and sorts as before; non-trivial = >= 2 equal primary keys; distinct by whole case",
	Quick: 15000, Thorough: 2000000,
	Draw: drawSortCase, Run: noPanic(runSortCase),
})

func TestSorting(t *testing.T) { specSorting.Check(t) }

// ---- sub-check "filtering" ---------------------------------------------------------------------

type FilterCase struct {
	T    string   `json:"type"`
	Cap  int      `json:"cap"`
	Vals []string `json:"vals"`
	Idx  []int    `json:"idx"`
}

func drawFilterCase(t *rapid.T) FilterCase {
	c := FilterCase{T: rapid.SampledFrom(allTypes).Draw(t, "type"), Cap: drawCapacity(t, "cap")}
	c.Vals = drawElems(t, c.T, 30)
	n := len(c.Vals)
	bad := rapid.IntRange(0, 7).Draw(t, "bad") == 0 // one index of the list is out of range
	m := 0
	if n > 0 {
		m = rapid.IntRange(0, 2*n+5).Draw(t, "nidx")
	}
	c.Idx = make([]int, 0, m+1)
	for i := 0; i < m; i++ {
		c.Idx = append(c.Idx, rapid.IntRange(0, n-1).Draw(t, "ix"))
	}
	if bad {
		b := rapid.SampledFrom([]int{-1, n, n + 1, n + 40, -2}).Draw(t, "badix")
		if m == 0 {
			c.Idx = append(c.Idx, b)
		} else {
			c.Idx[rapid.IntRange(0, m-1).Draw(t, "badpos")] = b
		}
	}
	return c
}

func runFilterCase(c FilterCase) *pbt.Result {
	vals := parseElems(c.T, c.Vals)
	a := listOf(c.T, c.Cap, vals)
	bad := -1
	for k, ix := range c.Idx {
		if ix < 0 || ix >= len(vals) {
			bad = k
			break
		}
	}
	var f list.AnyList
	p := panics(func() { f = a.any.Filtering(c.Idx) })
	if bad >= 0 {
		if p == nil {
			return pbt.Fail("Filtering with index %d at position %d on a %s list of %d elements (backing array %d) did not report the index", c.Idx[bad], bad, c.T, len(vals), a.backing())
		}
		if err := sameSeq(c.T, a.toArray(), vals); err != nil {
			return pbt.Fail("the rejected Filtering changed the list: %v", err)
		}
		return &pbt.Result{NT: false, Classes: []string{"type=" + c.T, "out-of-range-index"}}
	}
	if p != nil {
		return pbt.Fail("Filtering(%v) on a %s list of %d elements panicked: %v", c.Idx, c.T, len(vals), p)
	}
	if f == nil {
		return pbt.Fail("Filtering returned nil")
	}
	if f.GetType() != a.any.GetType() {
		return pbt.Fail("Filtering of a %s list returned list type %d", c.T, f.GetType())
	}
	if f.Size() != len(c.Idx) {
		return pbt.Fail("Filtering(%d indices).Size()=%d", len(c.Idx), f.Size())
	}
	for i, ix := range c.Idx {
		if err := checkGetters(c.T, f, i, vals[ix]); err != nil {
			return pbt.Fail("Filtering(idx)[%d] should be l[%d]: %v", i, ix, err)
		}
	}
	if err := checkOutOfRange(f, len(c.Idx), len(c.Idx)); err != nil {
		return pbt.Fail("filtered list: %v", err)
	}
	if err := sameSeq(c.T, a.toArray(), vals); err != nil {
		return pbt.Fail("Filtering changed the source list: %v", err)
	}
	repeated, seen := false, map[int]bool{}
	for _, ix := range c.Idx {
		if seen[ix] {
			repeated = true
		}
		seen[ix] = true
	}
	cl := []string{"type=" + c.T}
	if repeated {
		cl = append(cl, "repeated-index")
	}
	if len(c.Idx) > len(vals) {
		cl = append(cl, "more-indices-than-elements")
	}
	return &pbt.Result{NT: len(c.Idx) >= 2, Classes: cl}
}

var specFiltering = pbt.Register(pbt.Spec[FilterCase]{
	Prop: "C13", Name: "filtering", Parallel: 8,
	Rule:  "typed list of 0-30 elements and an index list of 0..2n+5 entries (repeats, more indices than elements; 1 case in 8 has one entry out of range, which must be reported by a panic); Filtering(idx)[i] == l[idx[i]] in every exact getter flavour, same list type, size len(idx), source unchanged; non-trivial = >= 2 indices; distinct by whole case",
	Quick: 10000, Thorough: 1000000,
	Draw: drawFilterCase, Run: noPanic(runFilterCase),
})

func TestFiltering(t *testing.T) { specFiltering.Check(t) }

// ---- sub-check "linkedlist" ------------------------------------------------------------------

type LLOp struct {
	K string `json:"k"`
	V int    `json:"v,omitempty"` // value (stored as int)
	P int    `json:"p,omitempty"` // state-relative: the (P mod size)-th live node, counted from the first
}

type LLCase struct {
	Ops []LLOp `json:"ops"`
}

var llKinds = []string{"addfirst", "addfirst", "addlast", "addlast", "add", "putbefore", "putbefore", "putbefore", "remove", "remove", "remove",
	"removefirst", "removelast", "clear", "toarray", "walk", "tostring"}

func drawLLCase(t *rapid.T) LLCase {
	var n int
	if rapid.IntRange(0, 5).Draw(t, "short") == 0 {
		n = rapid.IntRange(1, 6).Draw(t, "nops")
	} else {
		n = rapid.IntRange(7, 60).Draw(t, "nops")
	}
	c := LLCase{}
	for i := 0; i < n; i++ {
		k := rapid.SampledFrom(llKinds).Draw(t, "kind")
		if k == "clear" && rapid.IntRange(0, 2).Draw(t, "keepclear") != 0 {
			k = "addlast"
		}
		op := LLOp{K: k}
		switch k {
		case "addfirst", "addlast", "add":
			op.V = rapid.IntRange(-3, 9).Draw(t, "v")
		case "putbefore":
			op.V, op.P = rapid.IntRange(-3, 9).Draw(t, "v"), rapid.IntRange(0, 40).Draw(t, "pos")
		case "remove":
			op.P = rapid.IntRange(0, 40).Draw(t, "pos")
		}
		c.Ops = append(c.Ops, op)
	}
	return c
}

// llWalk follows first/next and compares with the model; returns the nodes.
func llWalk(l *list.LinkedList, md []int) ([]*list.LinkedListEntity, error) {
	var nodes []*list.LinkedListEntity
	e := l.GetFirst()
	for i := 0; i < len(md); i++ {
		if e == nil {
			return nil, fmt.Errorf("walk from GetFirst() ends after %d nodes, the model holds %d", i, len(md))
		}
		if v, ok := e.Value.(int); !ok || v != md[i] {
			return nil, fmt.Errorf("node %d of the walk holds %v, the model has %d", i, e.Value, md[i])
		}
		nodes = append(nodes, e)
		e = l.GetNext(e)
	}
	if e != nil {
		return nil, fmt.Errorf("walk from GetFirst() continues after %d nodes (next holds %v)", len(md), e.Value)
	}
	last := l.GetLast()
	if len(md) == 0 {
		if last != nil || l.GetFirst() != nil {
			return nil, fmt.Errorf("empty list: GetFirst()=%v GetLast()=%v, expected nil", l.GetFirst(), last)
		}
	} else if last != nodes[len(nodes)-1] {
		return nil, fmt.Errorf("GetLast() is not the node the walk ended on")
	}
	return nodes, nil
}

func runLLCase(c LLCase) *pbt.Result {
	l := list.NewLinkedList()
	var md []int
	interior := false
	kinds := map[string]bool{}
	for n, op := range c.Ops {
		fail := func(format string, x ...interface{}) *pbt.Result {
			return pbt.Fail("op %d %s: %s", n, op.K, fmt.Sprintf(format, x...))
		}
		kinds[op.K] = true
		switch op.K {
		case "addfirst":
			l.AddFirst(op.V)
			md = append([]int{op.V}, md...)
		case "addlast":
			l.AddLast(op.V)
			md = append(md, op.V)
		case "add":
			if !l.Add(op.V) {
				return fail("Add returned false")
			}
			md = append(md, op.V)
		case "putbefore", "remove":
			if len(md) == 0 {
				continue
			}
			nodes, err := llWalk(l, md)
			if err != nil {
				return fail("%v", err)
			}
			p := op.P % len(md)
			if p > 0 && p < len(md)-1 {
				interior = true
			}
			if op.K == "putbefore" {
				nn := l.PutBefore(op.V, nodes[p])
				if nn == nil || nn.Value != op.V {
					return fail("PutBefore returned a node holding %v", nn)
				}
				md = append(md[:p], append([]int{op.V}, md[p:]...)...)
				if l.GetNext(nn) != nodes[p] {
					return fail("the node returned by PutBefore is not followed by the node it was put before")
				}
			} else {
				if g := l.Remove(nodes[p]); g != md[p] {
					return fail("Remove(node %d) returned %v, the model has %d", p, g, md[p])
				}
				md = append(md[:p], md[p+1:]...)
			}
		case "removefirst":
			g := l.RemoveFirst()
			if len(md) == 0 {
				if g != nil {
					return fail("RemoveFirst() on an empty list returned %v", g)
				}
			} else {
				if g != md[0] {
					return fail("RemoveFirst() returned %v, the model has %d", g, md[0])
				}
				md = md[1:]
			}
		case "removelast":
			g := l.RemoveLast()
			if len(md) == 0 {
				if g != nil {
					return fail("RemoveLast() on an empty list returned %v", g)
				}
			} else {
				if g != md[len(md)-1] {
					return fail("RemoveLast() returned %v, the model has %d", g, md[len(md)-1])
				}
				md = md[:len(md)-1]
			}
		case "clear":
			l.Clear()
			md = nil
		case "toarray":
			arr := l.ToArray()
			if len(arr) != len(md) {
				return fail("ToArray() has %d elements, the model holds %d", len(arr), len(md))
			}
			for i, v := range arr {
				if v != md[i] {
					return fail("ToArray()[%d]=%v, the model has %d", i, v, md[i])
				}
			}
		case "walk":
			if _, err := llWalk(l, md); err != nil {
				return fail("%v", err)
			}
		case "tostring":
			want := make([]string, len(md))
			for i, v := range md {
				want[i] = strconv.Itoa(v)
			}
			if g := l.ToString(); g != strings.Join(want, ",") {
				return fail("ToString()=%q, the model reads %q", g, strings.Join(want, ","))
			}
		default:
			panic("unknown op kind " + op.K)
		}
		if l.Size() != len(md) {
			return fail("Size()=%d afterwards, the model holds %d", l.Size(), len(md))
		}
	}
	if _, err := llWalk(l, md); err != nil {
		return pbt.Fail("final state: %v", err)
	}
	arr := l.ToArray()
	if len(arr) != len(md) {
		return pbt.Fail("final state: ToArray() has %d elements, the model holds %d", len(arr), len(md))
	}
	for i, v := range arr {
		if v != md[i] {
			return pbt.Fail("final state: ToArray()[%d]=%v, the model has %d", i, v, md[i])
		}
	}
	// drain from the back: exercises the prev links of every surviving node
	for i := len(md) - 1; i >= 0; i-- {
		if g := l.RemoveLast(); g != md[i] {
			return pbt.Fail("draining the final list from the back: RemoveLast() returned %v, the model has %d at position %d", g, md[i], i)
		}
		if l.Size() != i {
			return pbt.Fail("draining the final list from the back: Size()=%d, expected %d", l.Size(), i)
		}
	}
	if l.GetFirst() != nil || l.GetLast() != nil {
		return pbt.Fail("drained list still has first/last nodes")
	}
	cl := []string{}
	if interior {
		cl = append(cl, "interior-node-op")
	}
	for k := range kinds {
		cl = append(cl, "op="+k)
	}
	sort.Strings(cl)
	return &pbt.Result{NT: interior, Classes: cl}
}

var specLinked = pbt.Register(pbt.Spec[LLCase]{
	Prop: "C13", Name: "linkedlist", Parallel: 8,
	Rule:  "LinkedList histories of 1-60 ops (add-first/last, Add, put-before the i-th live node, remove the i-th live node, remove-first/last incl. on empty, clear, to-array, first/next/last walk, to-string) with int values from a small alphabet against a slice model; return values and Size() after every step; finally the list is drained from the back (checks the prev links); non-trivial = a put-before or node removal strictly inside a list of >= 3 nodes; distinct by whole history",
	Quick: 10000, Thorough: 1000000,
	Draw: drawLLCase, Run: noPanic(runLLCase),
})

func TestLinkedList(t *testing.T) { specLinked.Check(t) }

// ---- hand-written boundary cases ---------------------------------------------------------------

func hexs(ss ...string) []string {
	out := make([]string, len(ss))
	for i, s := range ss {
		out[i] = gen.Hex([]byte(s))
	}
	return out
}

func TestBoundaries(t *testing.T) {
	// capacity 4, five adds (growth 4 -> 6), stale-slot probes at size and inside the backing array
	specLists.RunCase(t, ListCase{T: tInt, Cap: 4, Ops: []LOp{
		{K: "add", Fl: tInt, E: "7"}, {K: "get", I: 1}, {K: "get", I: 3}, {K: "get", I: 4}, {K: "set", Fl: tInt, I: 1, E: "9"},
		{K: "add", Fl: tFloat, E: "16777216"}, {K: "add", Fl: tDouble, E: "-9007199254740992"}, {K: "add", Fl: tString, E: "-9223372036854775808"},
		{K: "add", Fl: tLong, E: "9223372036854775807"}, {K: "get", I: 5}, {K: "get", I: -1}, {K: "set", Fl: tLong, I: 5, E: "1"}, {K: "set", Fl: tString, I: 0, E: "-12"},
		{K: "addall", Es: []string{"1", "2", "3"}, C: -1}, {K: "addallarray", Es: []string{}}, {K: "toarray"}, {K: "wire", C: -1}}})
	specLists.RunCase(t, ListCase{T: tFloat, Cap: -1, Ops: []LOp{
		{K: "wire", C: 0}, {K: "add", Fl: tFloat, E: "-0"}, {K: "add", Fl: tString, E: "+Inf"}, {K: "add", Fl: tInt, E: "-16777216"}, {K: "add", Fl: tDouble, E: "1e-45"},
		{K: "get", I: 0}, {K: "get", I: 2}, {K: "get", I: 4}, {K: "wire", C: 2}}})
	specLists.RunCase(t, ListCase{T: tString, Cap: 0, Ops: []LOp{
		{K: "add", Fl: tString, E: ""}, {K: "add", Fl: tInt, E: gen.Hex([]byte("-42"))}, {K: "add", Fl: tDouble, E: gen.Hex([]byte("2.500000"))}, {K: "add", Fl: tString, E: gen.Hex([]byte("\xff\x00"))},
		{K: "get", I: 1}, {K: "get", I: 2}, {K: "get", I: 4}, {K: "wire", C: -1}}})
	// many duplicates, both levels, all directions
	for _, asc := range []bool{true, false} {
		for _, casc := range []bool{true, false} {
			specSorting.RunCase(t, SortCase{T: tInt, Vals: []string{"3", "1", "3", "1", "3", "2", "2", "1", "3", "1", "2", "3", "1", "1", "2"}, CT: tString,
				CVals: hexs("b", "a", "a", "b", "", "10", "9", "c", "b", "a", "9", "c", "", "d", "10"), Asc: asc, CAsc: casc})
			specSorting.RunCase(t, SortCase{T: tString, Vals: hexs("x", "", "x", "", "y"), CT: tLong, CVals: []string{"9007199254740992", "-1", "-9007199254740992", "0", "5"}, Asc: asc, CAsc: casc})
			specSorting.RunCase(t, SortCase{T: tDouble, Vals: []string{"0", "-0", "+Inf", "-Inf", "0", "-0"}, CT: tFloat, CVals: []string{"2", "1", "0", "0", "-1", "3"}, Asc: asc, CAsc: casc})
		}
	}
	specSorting.RunCase(t, SortCase{T: tLong, Vals: []string{}, Asc: true})
	specFiltering.RunCase(t, FilterCase{T: tDouble, Cap: 8, Vals: []string{"1.5", "-0", "3"}, Idx: []int{2, 2, 0, 1, 1, 1, 2, 0}})
	specFiltering.RunCase(t, FilterCase{T: tInt, Cap: 8, Vals: []string{"1", "2", "3"}, Idx: []int{0, 3}})
	specFiltering.RunCase(t, FilterCase{T: tString, Cap: -1, Vals: []string{}, Idx: []int{}})
	specLinked.RunCase(t, LLCase{Ops: []LLOp{{K: "removefirst"}, {K: "removelast"}, {K: "addlast", V: 1}, {K: "addfirst", V: 0}, {K: "add", V: 2}, {K: "putbefore", V: 5, P: 1},
		{K: "putbefore", V: 6, P: 0}, {K: "walk"}, {K: "remove", P: 2}, {K: "remove", P: 0}, {K: "remove", P: 2}, {K: "tostring"}, {K: "toarray"}, {K: "clear"}, {K: "walk"}, {K: "addfirst", V: 3}}})
}
