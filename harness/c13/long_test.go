package c13

// Lists as long as the wire form can count (24-bit count: 8 388 607 elements), grown one element at a time from the
// default constructor, and one more growth step on a list that was created large. Every growth step on the way must
// succeed (the request is far below any limit of the list), the size must be what was added, and elements read back.

import (
	"fmt"
	"runtime"
	"testing"

	wlist "github.com/whatap/golib/util/list"
	"verif/pbt"
)

const wireMax = 1<<23 - 1

type longListDriver struct {
	name string
	mk   func(capacity int) wlist.AnyList // capacity < 0: default constructor
}

var longLists = []longListDriver{
	{"IntList", func(c int) wlist.AnyList {
		if c < 0 {
			return wlist.NewIntListDefault()
		}
		return wlist.NewIntList(c)
	}},
	{"LongList", func(c int) wlist.AnyList {
		if c < 0 {
			return wlist.NewLongListDefault()
		}
		return wlist.NewLongList(c)
	}},
	{"FloatList", func(c int) wlist.AnyList {
		if c < 0 {
			return wlist.NewFloatListDefault()
		}
		return wlist.NewFloatList(c)
	}},
	{"DoubleList", func(c int) wlist.AnyList {
		if c < 0 {
			return wlist.NewDoubleListDefault()
		}
		return wlist.NewDoubleList(c)
	}},
	{"StringList", func(c int) wlist.AnyList {
		if c < 0 {
			return wlist.NewStringListDefault()
		}
		return wlist.NewStringList(c)
	}},
}

// value of element i: small enough to be exact in every flavour (float32 holds integers up to 2^24)
func longVal(i int) int { return i % 1000003 }

func growTo(d longListDriver, l wlist.AnyList, from, to int) (err error) {
	defer func() {
		if p := recover(); p != nil {
			err = fmt.Errorf("%s: adding element %d (of %d wanted; the wire form counts up to %d) failed: %v", d.name, l.Size()+1, to, wireMax, p)
		}
	}()
	for i := from; i < to; i++ {
		l.AddInt(longVal(i))
	}
	return nil
}

func checkLong(d longListDriver, l wlist.AnyList, n int) error {
	if l.Size() != n {
		return fmt.Errorf("%s: Size() = %d after %d elements were added", d.name, l.Size(), n)
	}
	for _, i := range []int{0, 1, 9, 10, 11, 1000, 65535, 65536, 1 << 20, 5592404, 5592405, 5592406, 6000000, 7972438, 7972439, n / 2, n - 2, n - 1} {
		if i < 0 || i >= n {
			continue
		}
		if got := l.GetInt(i); got != longVal(i) {
			return fmt.Errorf("%s: element %d of %d reads %d, %d was added", d.name, i, n, got, longVal(i))
		}
	}
	return nil
}

var sweepLong = pbt.RegisterSweep(pbt.Sweep{Prop: "C13", Name: "lists-up-to-the-wire-limit",
	Rule: "exhaustive over (5 typed lists) x (grown element by element from the default constructor to 8 388 607 elements = the largest count the 24-bit wire field carries | created with capacity 6 000 000, filled, then 10 more elements): every add succeeds, Size() is the number added, sampled positions incl. both ends and the growth steps read back; non-trivial = all",
	N:    uint64(2 * len(longLists)),
	Run: func(i uint64) (bool, error) {
		d := longLists[int(i)/2]
		defer runtime.GC()
		if i%2 == 0 {
			l := d.mk(-1)
			if err := growTo(d, l, 0, wireMax); err != nil {
				return true, err
			}
			return true, checkLong(d, l, wireMax)
		}
		l := d.mk(6000000)
		if err := growTo(d, l, 0, 6000010); err != nil {
			return true, err
		}
		return true, checkLong(d, l, 6000010)
	},
	Show: func(i uint64) interface{} {
		return map[string]interface{}{"list": longLists[int(i)/2].name, "from_default_constructor": i%2 == 0}
	},
})

func TestListsUpToWireLimit(t *testing.T) { sweepLong.Check(t, 1) }
