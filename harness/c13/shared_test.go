package c13

import (
	"fmt"
	"runtime"
	"sync"
	"testing"

	"github.com/whatap/golib/util/list"
	"pgregory.net/rapid"
	"verif/pbt"
)

// ---- the linked list filled by several goroutines ------------------------------------------------
//
// The linked list is the one list type that carries its own lock (it is the storage of the request queues and is
// handed between goroutines). A mix of adds is still a sequence when the adds come from several goroutines: every
// element is there exactly once, the forward chain (ToArray, first/next walk) and the backward chain (remove-last
// until empty) describe the same sequence, and the elements one goroutine appended (prepended) keep their order
// (seed C13-s22: node linked from an unlocked read of the ends).

type SharedAddsCase struct {
	Adders []string `json:"adders"` // per goroutine: "last", "first", "add" (Add = AddLast) or "mixed" (alternating first/last)
	N      int      `json:"n"`      // elements per goroutine
	Procs  int      `json:"procs"`  // GOMAXPROCS while the goroutines run
}

func runSharedAdds(c SharedAddsCase) *pbt.Result {
	if c.Procs > 0 {
		defer runtime.GOMAXPROCS(runtime.GOMAXPROCS(c.Procs))
	}
	l := list.NewLinkedList()
	var wg sync.WaitGroup
	start := make(chan struct{})
	for g, how := range c.Adders {
		wg.Add(1)
		go func(g int, how string) {
			defer wg.Done()
			<-start
			for k := 0; k < c.N; k++ {
				v := g*1000000 + k
				switch {
				case how == "last":
					l.AddLast(v)
				case how == "first":
					l.AddFirst(v)
				case how == "add":
					l.Add(v)
				case k%2 == 0:
					l.AddLast(v)
				default:
					l.AddFirst(v)
				}
			}
		}(g, how)
	}
	close(start)
	wg.Wait()
	total := len(c.Adders) * c.N
	if s := l.Size(); s != total {
		return pbt.Fail("%d goroutines added %d elements each: Size() = %d, want %d", len(c.Adders), c.N, s, total)
	}
	fwd := l.ToArray()
	if len(fwd) != total {
		return pbt.Fail("%d goroutines added %d elements each: ToArray() has %d elements, Size() = %d", len(c.Adders), c.N, len(fwd), total)
	}
	// first/next walk
	var walk []interface{}
	for e := l.GetFirst(); e != nil && len(walk) <= total; e = l.GetNext(e) {
		walk = append(walk, e.Value)
	}
	if len(walk) != total {
		return pbt.Fail("first/next walk visits %d nodes, the list holds %d", len(walk), total)
	}
	seen := map[int]bool{}
	lastPos := map[int]int{} // goroutine -> k of the element seen last in forward order
	for i, x := range fwd {
		v, ok := x.(int)
		if !ok || walk[i] != x {
			return pbt.Fail("position %d: ToArray() holds %v, the first/next walk %v", i, x, walk[i])
		}
		if seen[v] {
			return pbt.Fail("element %d occurs twice in the list", v)
		}
		seen[v] = true
		g, k := v/1000000, v%1000000
		if g >= len(c.Adders) || k >= c.N {
			return pbt.Fail("element %d was never added", v)
		}
		switch c.Adders[g] {
		case "last", "add":
			if p, had := lastPos[g]; had && k < p {
				return pbt.Fail("goroutine %d appended %d after %d, the list holds them in the other order", g, p, k)
			}
			lastPos[g] = k
		case "first":
			if p, had := lastPos[g]; had && k > p {
				return pbt.Fail("goroutine %d prepended %d after %d, the list holds them in the other order", g, k, p)
			}
			lastPos[g] = k
		}
	}
	// backward chain: remove-last until empty gives the reverse of the forward order
	for i := total - 1; i >= 0; i-- {
		x := l.RemoveLast()
		if x != fwd[i] {
			return pbt.Fail("RemoveLast() number %d returned %v; ToArray() had %v at position %d (%d elements were added by %d goroutines)", total-i, x, fwd[i], i, total, len(c.Adders))
		}
	}
	if s := l.Size(); s != 0 || l.RemoveLast() != nil || l.RemoveFirst() != nil {
		return pbt.Fail("after removing all %d elements Size() = %d", total, s)
	}
	return &pbt.Result{NT: true, Classes: []string{fmt.Sprintf("goroutines=%d", len(c.Adders)), fmt.Sprintf("procs=%d", c.Procs)}}
}

var specSharedAdds = pbt.Register(pbt.Spec[SharedAddsCase]{
	Prop: "C13", Name: "linkedlist-shared-adds",
	Rule:  "2-6 goroutines add 200-3000 distinct elements each to one LinkedList at the same time (each goroutine AddLast only, AddFirst only, Add only, or alternating; GOMAXPROCS 2, 4 or 16); afterwards Size, ToArray and the first/next walk must show every element exactly once, elements appended (prepended) by one goroutine in its order, and RemoveLast until empty must return the reverse of ToArray (forward and backward chain agree); every case is non-trivial; distinct by case",
	Quick: 60, Thorough: 1500,
	Draw: func(t *rapid.T) SharedAddsCase {
		g := rapid.IntRange(2, 6).Draw(t, "goroutines")
		c := SharedAddsCase{N: rapid.SampledFrom([]int{200, 1000, 3000}).Draw(t, "n"), Procs: rapid.SampledFrom([]int{2, 4, 16}).Draw(t, "procs")}
		for i := 0; i < g; i++ {
			c.Adders = append(c.Adders, rapid.SampledFrom([]string{"last", "last", "first", "add", "mixed"}).Draw(t, "adder"))
		}
		return c
	},
	Run: noPanic(runSharedAdds),
})

func TestLinkedListSharedAdds(t *testing.T) { specSharedAdds.Check(t) }
