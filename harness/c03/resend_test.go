package c03

// Two sub-checks about pack objects that live longer than one encode:
//   pack-resent-after-change  - the same object is encoded, its scalar fields get other values, it is encoded again: what
//                               the second encoding decodes to is the object as it is then
//   concurrent-same-type      - several goroutines each encode / decode a pack of their own, all of one type, at once

import (
	"bytes"
	"fmt"
	"reflect"
	"sync"
	"sync/atomic"
	"testing"

	"github.com/whatap/golib/lang/pack"
	"pgregory.net/rapid"
	"verif/gpack"
	"verif/pbt"
	"verif/rfl"
)

// types whose exported scalar fields are free (no field selects a layout or has to agree with a container)
var resendTypes = []string{"TagCountPack", "LogSinkPack", "ParamPack", "EventPack", "HitMapPack1", "CounterPack1", "ActiveStackPack", "RealtimeUserPack"}

func refillScalars(p pack.Pack, s *rfl.Stream) int {
	n := 0
	var walk func(v reflect.Value)
	walk = func(v reflect.Value) {
		t := v.Type()
		for i := 0; i < t.NumField(); i++ {
			f := t.Field(i)
			if f.PkgPath != "" {
				continue
			}
			fv := v.Field(i)
			switch fv.Kind() {
			case reflect.Struct:
				walk(fv)
			case reflect.Int8, reflect.Int16, reflect.Int32, reflect.Int64, reflect.Int:
				if f.Name == "TagHash" {
					continue
				}
				x := s.Int64()
				if s.Intn(4) == 0 {
					x = 0 // back to "not set"
				}
				if fv.OverflowInt(x) {
					x = int64(int8(x))
				}
				fv.SetInt(x)
				n++
			case reflect.Uint8:
				fv.SetUint(uint64(uint8(s.Int64())))
				n++
			case reflect.Bool:
				fv.SetBool(s.Bool())
				n++
			case reflect.String:
				fv.SetString(s.String())
				n++
			}
		}
	}
	walk(reflect.ValueOf(p).Elem())
	return n
}

type ResendCase struct {
	Pack  gpack.Case `json:"pack"`
	Seed2 uint64     `json:"seed2"`
	Times int        `json:"times"`
}

func runResend(c ResendCase) *pbt.Result {
	sp := gpack.ByName[c.Pack.Type]
	if sp == nil {
		return pbt.Fail("unknown pack type %q", c.Pack.Type)
	}
	gpack.ResetAux()
	p := sp.Build(c.Pack.Stream(), 0)
	s2 := rfl.NewStream(nil, c.Seed2, 400)
	changed := 0
	for round := 0; round <= c.Times; round++ {
		if round > 0 {
			changed += refillScalars(p, s2)
		}
		b := encode(sp, p)
		// the documented normalisation is applied for the comparison only: what the writer left in the object stays there
		// for the next round (the event pack's writer keeps its reserved attributes in the pack's own attribute map)
		restore := func() {}
		if ep, ok := p.(*pack.EventPack); ok {
			saved := map[string]interface{}{}
			for _, k := range []string{pack.ESCALATION_KEY, pack.UUID_KEY, pack.STATUS_KEY, pack.OTYPE_KEY} {
				if ep.Attr.ContainsKey(k) {
					saved[k] = ep.Attr.Get(k)
				}
			}
			restore = func() {
				for _, k := range []string{pack.ESCALATION_KEY, pack.UUID_KEY, pack.STATUS_KEY, pack.OTYPE_KEY} {
					if v, ok := saved[k]; ok {
						ep.Attr.Put(k, v)
					}
				}
			}
		}
		if sp.Normalize != nil {
			sp.Normalize(p)
		}
		want := gpack.Canon(p)
		restore()
		q, left := decode(sp, append([]byte(nil), b...))
		if q == nil || left != 0 {
			return pbt.Fail("%s, encoding number %d of the same object: decoding leaves %d bytes / nil", c.Pack.Type, round+1, left)
		}
		if d := rfl.Diff(want, gpack.Canon(q), ignoreFor(sp)); d != "" {
			return pbt.Fail("%s: the same pack object was encoded %d times with its scalar fields given other values (one in four back to zero) in between; encoding number %d decodes to something else than the object holds now: %s", c.Pack.Type, round+1, round+1, d)
		}
	}
	return &pbt.Result{NT: changed > 0, Classes: []string{"type=" + c.Pack.Type}}
}

var specResend = pbt.Register(pbt.Spec[ResendCase]{
	Prop: "C03", Name: "pack-resent-after-change",
	Rule:  "a pack of one of eight types whose scalar fields are free (tag count, log sink, parameter, event, hit map, counter, active stack, realtime user) is encoded and decoded, then 1-3 times every exported scalar field (header included) gets another value - one in four goes back to zero - and the same object is encoded and decoded again: each decoded pack must equal the object as it is at that moment in every carried field; non-trivial = at least one scalar changed; distinct by case",
	Quick: 2500, Thorough: 120000,
	Draw: func(t *rapid.T) ResendCase {
		return ResendCase{Pack: gpack.Case{Type: rapid.SampledFrom(resendTypes).Draw(t, "type"), Seed: rapid.Uint64().Draw(t, "seed"), Len: rapid.SampledFrom([]int{5, 40, 400}).Draw(t, "len")},
			Seed2: rapid.Uint64().Draw(t, "seed2"), Times: rapid.IntRange(1, 3).Draw(t, "times")}
	},
	Run: runResend,
})

func TestPackResentAfterChange(t *testing.T) { specResend.Check(t) }

// ---- concurrent-same-type ----------------------------------------------------------------------------------

type SameTypeCase struct {
	Type   string `json:"type"`
	G      int    `json:"g"`
	Rounds int    `json:"rounds"`
	Seed   uint64 `json:"seed"`
	Len    int    `json:"len"`
}

func runSameType(c SameTypeCase) *pbt.Result {
	sp := gpack.ByName[c.Type]
	if sp == nil {
		return pbt.Fail("unknown pack type %q", c.Type)
	}
	gpack.ResetAux()
	packs := make([]pack.Pack, c.G)
	want := make([][]byte, c.G)
	for g := range packs {
		packs[g] = sp.Build(rfl.NewStream(nil, c.Seed+uint64(g)*0x9e3779b97f4a7c15, c.Len), 0)
		encode(sp, packs[g]) // some writers settle derived attributes on the first encoding
		normalizeInner(packs[g])
		if sp.Normalize != nil {
			sp.Normalize(packs[g]) // the documented decode-side normalisation, so that re-encoding a decoded pack gives the same bytes
		}
		want[g] = encode(sp, packs[g])
		if again := encode(sp, packs[g]); !bytes.Equal(again, want[g]) {
			return &pbt.Result{Classes: []string{"skipped:encoding-not-repeatable-sequentially(pack-roundtrip's business)"}}
		}
	}
	errs := make(chan error, c.G)
	var wg sync.WaitGroup
	var gate atomic.Int32
	for g := range packs {
		wg.Add(1)
		go func(g int) {
			defer wg.Done()
			defer func() {
				if r := recover(); r != nil {
					errs <- fmt.Errorf("%s: goroutine %d of %d panicked while the others encoded packs of their own: %v", c.Type, g, c.G, r)
				}
			}()
			for gate.Load() == 0 {
			}
			for r := 0; r < c.Rounds; r++ {
				b := encode(sp, packs[g])
				if !bytes.Equal(b, want[g]) {
					k := 0
					for k < len(b) && k < len(want[g]) && b[k] == want[g][k] {
						k++
					}
					errs <- fmt.Errorf("%s: goroutine %d of %d, round %d: encoding its own pack gives other bytes (from offset %d, %d vs %d bytes) than when nothing else was going on; %d other goroutines were encoding packs of the same type", c.Type, g, c.G, r, k, len(b), len(want[g]), c.G-1)
					return
				}
				q, left := decode(sp, b)
				if q == nil || left != 0 {
					errs <- fmt.Errorf("%s: goroutine %d round %d: its own encoding does not decode (%d bytes left)", c.Type, g, r, left)
					return
				}
				if re := encode(sp, q); !bytes.Equal(re, want[g]) && !f38Applies(packs[g]) {
					errs <- fmt.Errorf("%s: goroutine %d of %d, round %d: decoding its own encoding and re-encoding gives other bytes than sequentially", c.Type, g, c.G, r)
					return
				}
			}
		}(g)
	}
	gate.Store(1)
	wg.Wait()
	close(errs)
	for e := range errs {
		return &pbt.Result{Err: e}
	}
	return &pbt.Result{NT: true, Classes: []string{"type=" + c.Type}}
}

var specSameType = pbt.Register(pbt.Spec[SameTypeCase]{
	Prop: "C03", Name: "concurrent-same-type",
	Rule:  "2-12 goroutines, each with a generated pack of its own, all of ONE pack type (every type in turn, large record lists excluded), encode, decode and re-encode their pack 20-200 times at the same time: every encoding must be byte-identical to the one the same object gave when nothing else was running, and must decode and re-encode to it; non-trivial = every case; distinct by case",
	Quick: 60, Thorough: 3000,
	Draw: func(t *rapid.T) SameTypeCase {
		return SameTypeCase{Type: rapid.SampledFrom(typeNames()).Draw(t, "type"), G: rapid.IntRange(2, 12).Draw(t, "g"), Rounds: rapid.IntRange(20, 200).Draw(t, "rounds"),
			Seed: rapid.Uint64().Draw(t, "seed"), Len: rapid.SampledFrom([]int{40, 200}).Draw(t, "len")}
	},
	Run: runSameType,
})

func TestConcurrentSameType(t *testing.T) {
	// every type once with 8 goroutines, then generated cases
	shard, n := pbt.Shard()
	for i, name := range typeNames() {
		if i%n == shard {
			specSameType.RunCase(t, SameTypeCase{Type: name, G: 8, Rounds: pbt.Pick(60, 400), Seed: uint64(pbt.Seed())*977 + uint64(i), Len: 120})
		}
	}
	specSameType.Check(t)
}
