package c03

// component-roundtrip: the element structs of the server-monitoring packs have
// their own exported Write/Read pair (they are what the packs' writers and
// readers delegate to, and callers can use them directly). Each pair must agree
// with itself on every carried field.

import (
	"bytes"
	"reflect"
	"testing"

	wio "github.com/whatap/golib/io"
	"github.com/whatap/golib/lang/pack"
	"pgregory.net/rapid"
	"verif/gpack"
	"verif/pbt"
	"verif/rfl"
)

type component struct {
	New    func() interface{}
	Ignore map[string]bool // fields the wire format does not carry
}

var components = map[string]component{
	"CpuLinux":     {New: func() interface{} { return &pack.CpuLinux{} }},
	"CpuOSX":       {New: func() interface{} { return &pack.CpuOSX{} }},
	"CpuWindow":    {New: func() interface{} { return &pack.CpuWindow{} }},
	"MemoryLinux":  {New: func() interface{} { return &pack.MemoryLinux{} }},
	"MemoryWindow": {New: func() interface{} { return &pack.MemoryWindow{} }},
	// Count is written as the constant 1 (the collector's layout keeps the slot); not carried
	"DiskPerf":     {New: func() interface{} { return &pack.DiskPerf{} }, Ignore: map[string]bool{"Count": true}},
	"NetPerf":      {New: func() interface{} { return &pack.NetPerf{} }, Ignore: map[string]bool{"Count": true}},
	"ProcNetPerf":  {New: func() interface{} { return &pack.ProcNetPerf{} }},
	"ProcFilePerf": {New: func() interface{} { return &pack.ProcFilePerf{} }},
	"ProcPerf":     {New: func() interface{} { return &pack.ProcPerf{} }},
	"TCPPortPerf":  {New: func() interface{} { return &pack.TCPPortPerf{} }},
	"TimeCount":    {New: func() interface{} { return &pack.TimeCount{} }},
}

func componentNames() []string {
	var out []string
	for k := range components {
		out = append(out, k)
	}
	for i := 1; i < len(out); i++ {
		for j := i; j > 0 && out[j] < out[j-1]; j-- {
			out[j], out[j-1] = out[j-1], out[j]
		}
	}
	return out
}

func compWrite(x interface{}) []byte {
	o := wio.NewDataOutputX()
	reflect.ValueOf(x).MethodByName("Write").Call([]reflect.Value{reflect.ValueOf(o)})
	return append([]byte(nil), o.ToByteArray()...)
}

func runComponent(c gpack.Case) *pbt.Result {
	comp, ok := components[c.Type]
	if !ok {
		return pbt.Fail("unknown component %q", c.Type)
	}
	p := comp.New()
	rfl.Fill(p, c.Stream(), &rfl.Opts{MaxSlice: 4})
	b := compWrite(p)
	ignore := func(path string) bool { return comp.Ignore[path] }
	for _, extra := range [][]byte{nil, {0xAB, 0xCD, 0xEF}} {
		q := comp.New()
		in := wio.NewDataInputX(append(append([]byte(nil), b...), extra...))
		var perr interface{}
		func() {
			defer func() { perr = recover() }()
			reflect.ValueOf(q).MethodByName("Read").Call([]reflect.Value{reflect.ValueOf(in)})
		}()
		if perr != nil {
			return pbt.Fail("%s: Read panics on the bytes its own Write produced: %v", c.Type, perr)
		}
		if left := int(in.Available()); left != len(extra) {
			return pbt.Fail("%s: Read consumed %d of the %d-byte encoding", c.Type, len(b)+len(extra)-left, len(b))
		}
		if d := rfl.Diff(rfl.Canon(p, nil), rfl.Canon(q, nil), ignore); d != "" {
			return pbt.Fail("%s: the value read back differs from the one written in a carried field: %s", c.Type, d)
		}
		if re := compWrite(q); !bytes.Equal(re, b) {
			return pbt.Fail("%s: re-encoding the value read back differs (%d vs %d bytes)", c.Type, len(re), len(b))
		}
	}
	nd, tot := rfl.NonDefault(rfl.Canon(p, nil))
	return &pbt.Result{NT: tot > 0 && nd*2 >= tot, Classes: []string{"component=" + c.Type}, Key: append([]byte(c.Type+"|"), b...)}
}

var specComp = pbt.Register(pbt.Spec[gpack.Case]{
	Prop: "C03", Name: "component-roundtrip",
	Rule:  "one of the 12 element structs of lang/pack that export their own Write/Read pair (CPU, memory, disk, network, process, port elements of the server-monitoring packs, TimeCount), every field filled reflectively from a rapid-drawn choice stream; oracle = Read of the bytes Write produced consumes exactly those bytes (also with foreign trailing bytes), yields field-by-field equal values in every carried field, and re-encodes byte-identically; non-trivial = at least half of the leaves non-default; distinct by type and encoded bytes",
	Quick: 2400, Thorough: 120000,
	Draw: func(t *rapid.T) gpack.Case { return drawCase(t, componentNames()) },
	Run:  runComponent,
})

func TestComponentRoundTrip(t *testing.T) { specComp.Check(t) }

func TestEveryComponent(t *testing.T) {
	for _, name := range componentNames() {
		for seed := uint64(1); seed <= 6; seed++ {
			specComp.RunCase(t, gpack.Case{Type: name, Seed: seed*104729 + uint64(pbt.Seed()), Len: 60})
		}
	}
}
