// C03 Every pack type survives serialize/deserialize with all carried fields intact.
package c03

import (
	"bytes"
	"container/list"
	"fmt"
	"os"
	"reflect"
	"sort"
	"strings"
	"testing"

	wio "github.com/whatap/golib/io"
	"github.com/whatap/golib/lang"
	"github.com/whatap/golib/lang/pack"
	"github.com/whatap/golib/util/compressutil"
	"github.com/whatap/golib/util/hmap"
	"pgregory.net/rapid"
	"verif/gpack"
	"verif/pbt"
	"verif/ref"
	"verif/rfl"
)

func TestMain(m *testing.M) {
	// an agent's environment: the counter pack's constructor reads its default start time from here; what is written
	// and read back is the pack's field, whatever the environment says
	os.Setenv("WHATAP.starttime", "1234567890123")
	pbt.Main(m, "C03")
}
func TestReplay(t *testing.T) { pbt.Replay(t) }

func encode(sp *gpack.Spec, p pack.Pack) []byte {
	if sp.Registered {
		return append([]byte(nil), pack.ToBytesPack(p)...)
	}
	o := wio.NewDataOutputX()
	p.Write(o)
	return append([]byte(nil), o.ToByteArray()...)
}

// decode returns the decoded pack and the number of unread bytes.
func decode(sp *gpack.Spec, b []byte) (pack.Pack, int) {
	in := wio.NewDataInputX(b)
	if sp.Registered {
		q := pack.ReadPack(in)
		return q, int(in.Available())
	}
	q := sp.New()
	q.Read(in)
	return q, int(in.Available())
}

func refHeader(p pack.Pack) []byte {
	ap := reflect.ValueOf(p).Elem().FieldByName("AbstractPack")
	pcode, oid, okind, onode, tm := ap.FieldByName("Pcode").Int(), int32(ap.FieldByName("Oid").Int()), int32(ap.FieldByName("Okind").Int()), int32(ap.FieldByName("Onode").Int()), ap.FieldByName("Time").Int()
	w := ref.NewW()
	if okind|onode == 0 {
		w.Dec(pcode)
		w.I32(oid)
		w.I64(tm)
	} else {
		w.U8(9)
		w.Dec(pcode)
		w.I32(oid)
		w.I32(okind)
		w.I32(onode)
		w.I64(tm)
	}
	return w.B
}

var headerInBlob = map[string]bool{"SMBasePack": true, "SMPingPack": true}

func ignoreFor(sp *gpack.Spec) func(string) bool {
	base := rfl.IgnorePrefixes(sp.Ignore...)
	return func(p string) bool {
		if base(p) {
			return true
		}
		if sp.Name == "CompositePack" && strings.HasPrefix(p, "pack[") {
			// delegate to the inner pack's own rules: pack[i].<path> (the inner types are those of registeredInner)
			if k := strings.Index(p, "]."); k > 0 {
				rest := p[k+2:]
				for _, isp := range gpack.Specs {
					if isp.Name != "CompositePack" && len(isp.Ignore) > 0 && isp.Registered && rfl.IgnorePrefixes(isp.Ignore...)(rest) && innerHasType(isp.Name) {
						return true
					}
				}
			}
		}
		// not carried by the wire format (measured in the design phase and confirmed against the writers):
		if strings.HasSuffix(p, ".Acts") { // TxMeter.Acts: no writer emits it
			return true
		}
		if sp.Name == "SMDiskPerfPack" || sp.Name == "SMNetPerfPack" {
			if strings.HasSuffix(p, ".Count") { // the writer emits the constant 1
				return true
			}
		}
		return false
	}
}

// innerHasType: only EventPack among the inner types has not-carried fields; keep the delegation narrow.
func innerHasType(name string) bool { return name == "EventPack" }

func recIgnore(version byte) func(string) bool {
	return func(p string) bool {
		switch {
		case p == "Profiled": // replaced by the version byte in the record layout
			return true
		case version <= 2 && (p == "ApdexSatisfied" || p == "ApdexTolerated"):
			return true
		case version <= 3 && (p == "TimeMin" || p == "TimeStd"):
			return true
		}
		return false
	}
}

func run(c gpack.Case) *pbt.Result {
	sp := gpack.ByName[c.Type]
	if sp == nil {
		return pbt.Fail("unknown pack type %q in case", c.Type)
	}
	gpack.ResetAux()
	return runBuilt(c, sp, sp.Build(c.Stream(), 0))
}

// runBuilt is the oracle of one pack that has already been built.
func runBuilt(c gpack.Case, sp *gpack.Spec, p pack.Pack) *pbt.Result {
	b := encode(sp, p)
	normalizeInner(p)
	if sp.Normalize != nil {
		sp.Normalize(p)
	}
	canonP := gpack.Canon(p)
	bN := encode(sp, p) // encoding of the normalised original (identical to b unless a documented normalisation applies)
	if sp.Normalize != nil {
		sp.Normalize(p)
	}
	if sp.Normalize == nil && !bytes.Equal(b, bN) {
		return pbt.Fail("%s: encoding the same pack twice gives different bytes (%d vs %d)", c.Type, len(b), len(bN))
	}
	// type tag and common header against the reference layout
	body := b
	if sp.Registered {
		if len(b) < 2 || int16(b[0])<<8|int16(b[1]) != sp.Code {
			return pbt.Fail("%s: type tag %x, expected %#04x", c.Type, b[:2], sp.Code)
		}
		body = b[2:]
	}
	if !sp.NoHeader && !headerInBlob[sp.Name] {
		h := refHeader(p)
		if !bytes.HasPrefix(body, h) {
			return pbt.Fail("%s: body does not start with the reference common header %x (got %x)", c.Type, h, body[:min(len(body), len(h))])
		}
	}
	// a receiver also sees cut-off messages (and recovers from the decoder's panic); whatever failed before, a
	// well-formed message must decode afterwards
	for _, cut := range []int{len(b) / 3, len(b) - 1} {
		if cut > 0 && cut < len(b) {
			func() {
				defer func() { recover() }()
				decode(sp, append([]byte(nil), b[:cut]...))
			}()
		}
	}
	for _, extra := range [][]byte{nil, {0xAB, 0xCD, 0xEF}} {
		buf := append(append([]byte(nil), b...), extra...)
		q, left := decode(sp, buf)
		if q == nil {
			return pbt.Fail("%s: decoder returned nil", c.Type)
		}
		if reflect.TypeOf(q) != reflect.TypeOf(p) {
			return pbt.Fail("%s: decoded concrete type %T, wrote %T", c.Type, q, p)
		}
		if left != len(extra) {
			return pbt.Fail("%s: decoding consumed %d of the %d-byte encoding (%d foreign bytes appended, %d unread)", c.Type, len(buf)-left, len(b), len(extra), left)
		}
		// the receiver re-uses its buffer for the next message: the decoded pack must own what it holds
		for i := range buf {
			buf[i] = 0xA5
		}
		if d := rfl.Diff(canonP, gpack.Canon(q), ignoreFor(sp)); d != "" {
			return pbt.Fail("%s: decoded pack differs from the original in a carried field: %s", c.Type, d)
		}
		if re := encode(sp, q); !bytes.Equal(re, bN) {
			if f38Applies(p) && len(re) == len(bN) {
				// open known finding F38: entry order inside the unordered DB-pool map sections may differ;
				// require instead that the re-encoding decodes to an equal pack.
				q2, left2 := decode(sp, re)
				if left2 == 0 && rfl.Diff(canonP, gpack.Canon(q2), ignoreFor(sp)) == "" {
					pbt.CountExcluded("pack-roundtrip", 1)
					continue
				}
			}
			k := 0
			for k < len(re) && k < len(bN) && re[k] == bN[k] {
				k++
			}
			return pbt.Fail("%s: re-encoding the decoded pack differs at offset %d (%d vs %d bytes)", c.Type, k, len(re), len(bN))
		}
		var canonQ []rfl.KV
		if gpack.Aux(p) != nil {
			canonQ = gpack.Canon(q)
		}
		if err := containerChecks(sp, p, q); err != nil {
			return &pbt.Result{Err: fmt.Errorf("%s: %v", c.Type, err)}
		}
		// reading the records / tables of a decoded pack (what containerChecks just did through the public accessors)
		// is not a change of the pack: its fields are what they were and it encodes as before
		if canonQ != nil {
			if d := rfl.Diff(canonQ, gpack.Canon(q), nil); d != "" {
				return pbt.Fail("%s: reading the records of the decoded pack through its accessors changed the pack: %s", c.Type, d)
			}
			if re := encode(sp, q); !bytes.Equal(re, bN) && !(f38Applies(p) && len(re) == len(bN)) {
				return pbt.Fail("%s: after its records were read through the accessors the decoded pack re-encodes differently (%d vs %d bytes)", c.Type, len(re), len(bN))
			}
		}
	}
	nd, tot := rfl.NonDefault(canonP)
	hdr := "header=short"
	if !sp.NoHeader {
		ap := reflect.ValueOf(p).Elem().FieldByName("AbstractPack")
		if ap.FieldByName("Okind").Int()|ap.FieldByName("Onode").Int() != 0 {
			hdr = "header=marker9"
		}
	}
	return &pbt.Result{NT: tot > 0 && nd*2 >= tot, Classes: []string{"type=" + c.Type, hdr, fmt.Sprintf("%s/%s", c.Type, hdr)}, Key: b}
}

// normalizeInner applies the documented decode-side normalisations to the inner packs of a composite pack.
func normalizeInner(p pack.Pack) {
	if _, ok := p.(*pack.CompositePack); !ok {
		return
	}
	if aux := gpack.Aux(p); aux != nil {
		for _, ip := range aux.Inner {
			if isp := gpack.ByName[reflect.TypeOf(ip).Elem().Name()]; isp != nil && isp.Normalize != nil {
				isp.Normalize(ip)
			}
			normalizeInner(ip)
		}
	}
}

// f38Applies: CounterPack1 with >= 2 entries in one of the unordered DB-pool maps, while F38 is listed open.
func f38Applies(p pack.Pack) bool {
	c, ok := p.(*pack.CounterPack1)
	if !ok || !pbt.KnownOpen("F38") || c.DbNumActive == nil || c.DbNumIdle == nil {
		return false
	}
	return c.DbNumActive.Size() >= 2 || c.DbNumIdle.Size() >= 2
}

func min(a, b int) int {
	if a < b {
		return a
	}
	return b
}

func identity(p pack.Pack) [4]int64 {
	ap := reflect.ValueOf(p).Elem().FieldByName("AbstractPack")
	return [4]int64{ap.FieldByName("Pcode").Int(), ap.FieldByName("Oid").Int(), ap.FieldByName("Okind").Int(), ap.FieldByName("Onode").Int()}
}

// innerEqual compares a decoded inner pack with the original one; the identity fields of the decoded pack must be the container's.
func innerEqual(orig, got pack.Pack, container pack.Pack, stamped bool) error {
	if reflect.TypeOf(orig) != reflect.TypeOf(got) {
		return fmt.Errorf("inner pack decoded as %T, was %T", got, orig)
	}
	name := reflect.TypeOf(orig).Elem().Name()
	sp := gpack.ByName[name]
	if sp != nil && sp.Normalize != nil {
		sp.Normalize(orig)
	}
	ign := func(p string) bool {
		if stamped && (p == "AbstractPack.Pcode" || p == "AbstractPack.Oid" || p == "AbstractPack.Okind" || p == "AbstractPack.Onode") {
			return true
		}
		if sp != nil {
			return ignoreFor(sp)(p)
		}
		return false
	}
	if d := rfl.Diff(gpack.Canon(orig), gpack.Canon(got), ign); d != "" {
		return fmt.Errorf("inner %s differs: %s", name, d)
	}
	if stamped && identity(got) != identity(container) {
		return fmt.Errorf("inner %s is not stamped with the container's pcode/oid/okind/onode: %v vs %v", name, identity(got), identity(container))
	}
	return nil
}

func listToSlice(l *list.List) []interface{} {
	var out []interface{}
	if l == nil {
		return nil
	}
	for e := l.Front(); e != nil; e = e.Next() {
		out = append(out, e.Value)
	}
	return out
}

func recordsEqual(orig, got []interface{}, ignore func(string) bool) error {
	if len(orig) != len(got) {
		return fmt.Errorf("GetRecords returns %d records, %d were put in", len(got), len(orig))
	}
	// long lists repeat a few originals: their canonical form is computed once per distinct original
	memo := map[interface{}][]rfl.KV{}
	verified := map[interface{}]int{}
	for i := range orig {
		if reflect.DeepEqual(orig[i], got[i]) { // identical down to the unexported fields: equal, whatever is ignored
			continue
		}
		isPtr := reflect.ValueOf(orig[i]).Kind() == reflect.Ptr
		if j, seen := verified[orig[i]]; isPtr && seen && reflect.DeepEqual(got[i], got[j]) {
			continue // same original as record j, and decoded identically to record j, which was compared in full
		}
		if isPtr {
			verified[orig[i]] = i
		}
		co, ok := memo[orig[i]]
		if !ok {
			co = rfl.Canon(orig[i], gpack.Hook)
			if reflect.ValueOf(orig[i]).Kind() == reflect.Ptr {
				memo[orig[i]] = co
			}
		}
		if d := rfl.Diff(co, rfl.Canon(got[i], gpack.Hook), ignore); d != "" {
			return fmt.Errorf("record %d differs: %s", i, d)
		}
	}
	return nil
}

// containerChecks: container and record-list packs return their inner packs / records unchanged, in order.
func containerChecks(sp *gpack.Spec, p, q pack.Pack) error {
	aux := gpack.Aux(p)
	if aux == nil {
		return nil
	}
	switch qq := q.(type) {
	case *pack.ZipPack:
		got := qq.GetRecords()
		if len(got) != len(aux.Inner) || qq.RecordCount != len(aux.Inner) {
			return fmt.Errorf("zip pack: %d inner packs put in, RecordCount=%d, GetRecords returns %d", len(aux.Inner), qq.RecordCount, len(got))
		}
		for i := range got {
			if err := innerEqual(aux.Inner[i], got[i], qq, true); err != nil {
				return fmt.Errorf("zip pack inner %d: %v", i, err)
			}
		}
	case *pack.LogSinkZipPack:
		wantZipped := len(aux.Raw) >= aux.ZipMin
		if (qq.Status == pack.ZIPPED) != wantZipped {
			return fmt.Errorf("log-sink zip: payload %d bytes, threshold %d, status byte %d", len(aux.Raw), aux.ZipMin, qq.Status)
		}
		payload := qq.Records
		if len(aux.Raw) == 0 {
			// an empty payload (no records) has no compressed form to speak of; only the record list is checked
			payload = nil
		} else if qq.Status == pack.ZIPPED {
			un, err := compressutil.UnZip(qq.Records)
			if err != nil {
				return fmt.Errorf("log-sink zip: payload flagged compressed does not decompress: %v", err)
			}
			payload = un
		}
		if !bytes.Equal(payload, aux.Raw) {
			return fmt.Errorf("log-sink zip: payload (%d bytes) is not the concatenation of the inner encodings (%d bytes)", len(payload), len(aux.Raw))
		}
		got := qq.GetRecords()
		if len(got) != len(aux.Inner) || qq.RecordCount != len(aux.Inner) {
			return fmt.Errorf("log-sink zip: %d records put in, RecordCount=%d, GetRecords returns %d", len(aux.Inner), qq.RecordCount, len(got))
		}
		for i := range got {
			if err := innerEqual(aux.Inner[i], got[i], qq, true); err != nil {
				return fmt.Errorf("log-sink zip record %d: %v", i, err)
			}
		}
	case *pack.CompositePack:
		f := reflect.ValueOf(qq).Elem().FieldByName("pack")
		if f.Len() != len(aux.Inner) {
			return fmt.Errorf("composite: %d inner packs, decoded %d", len(aux.Inner), f.Len())
		}
	case *pack.StatSqlPack:
		if int(qq.RecordCount) != wantCount(aux) {
			return fmt.Errorf("RecordCount=%d, the pack was given RecordCount %d (%d records put in)", qq.RecordCount, wantCount(aux), len(aux.Records))
		}
		return recordsEqual(aux.Records, listToSlice(qq.GetRecords()), nil)
	case *pack.StatHttpcPack:
		if int(qq.RecordCount) != wantCount(aux) {
			return fmt.Errorf("RecordCount=%d, the pack was given RecordCount %d (%d records put in)", qq.RecordCount, wantCount(aux), len(aux.Records))
		}
		return recordsEqual(aux.Records, listToSlice(qq.GetRecords()), nil)
	case *pack.StatErrorPack:
		if int(qq.RecordCount) != wantCount(aux) {
			return fmt.Errorf("RecordCount=%d, the pack was given RecordCount %d (%d records put in)", qq.RecordCount, wantCount(aux), len(aux.Records))
		}
		var got []interface{}
		for _, r := range qq.GetRecords() {
			got = append(got, r)
		}
		return recordsEqual(aux.Records, got, nil)
	case *pack.SMDownCheckPack:
		if int(qq.RecordCount) != wantCount(aux) {
			return fmt.Errorf("RecordCount=%d, the pack was given RecordCount %d (%d records put in)", qq.RecordCount, wantCount(aux), len(aux.Records))
		}
		var got []interface{}
		for _, r := range qq.GetRecords() {
			got = append(got, r)
		}
		return recordsEqual(aux.Records, got, nil)
	case *pack.StatServicePack:
		if qq.RecordCount != wantCount(aux) {
			return fmt.Errorf("RecordCount=%d, the pack was given RecordCount %d (%d records put in)", qq.RecordCount, wantCount(aux), len(aux.Records))
		}
		in := wio.NewDataInputX(qq.Records)
		n := int(in.ReadShort()) & 0xffff // the record counter is an unsigned 16-bit field
		var got []interface{}
		for i := 0; i < n; i++ {
			got = append(got, pack.ReadRec(in))
		}
		if in.Available() != 0 {
			return fmt.Errorf("record blob has %d unread bytes after %d records", in.Available(), n)
		}
		return recordsEqual(aux.Records, got, nil)
	case *pack.StatTransactionPack:
		if qq.RecordCount != wantCount(aux) {
			return fmt.Errorf("RecordCount=%d, the pack was given RecordCount %d (%d records put in)", qq.RecordCount, wantCount(aux), len(aux.Records))
		}
		return recordsEqual(aux.Records, listToSlice(qq.GetRecords()), recIgnore(aux.Version))
	case *pack.StatTransactionPack1:
		if qq.RecordCount != wantCount(aux) {
			return fmt.Errorf("RecordCount=%d, the pack was given RecordCount %d (%d records put in)", qq.RecordCount, wantCount(aux), len(aux.Records))
		}
		return recordsEqual(aux.Records, listToSlice(qq.GetRecords()), recIgnore(aux.Version))
	}
	return nil
}

// typeNames: every type entry except the record-list packs with tens of thousands of records (own test below).
func typeNames() []string {
	var out []string
	for _, sp := range gpack.Specs {
		if isLargeRecordType(sp.Name) {
			continue
		}
		out = append(out, sp.Name)
	}
	return out
}

func isLargeRecordType(name string) bool {
	for _, n := range gpack.LargeRecordTypes {
		if name == n+"/large" {
			return true
		}
	}
	return false
}

// Record-list packs holding 32767 / 32768 / 32769..62768 / 65535 records: the record counter inside the
// record blob is 16 bits wide, every reader has to take it as unsigned.
func TestLargeRecordLists(t *testing.T) {
	shard, nshards := pbt.Shard()
	k := 0
	for _, name := range gpack.LargeRecordTypes {
		name := name
		t.Run(name, func(t *testing.T) {
			for seed := uint64(1); seed <= uint64(pbt.Pick(4, 48)); seed++ {
				k++
				if k%nshards != shard { // the cases are spread over the shards
					continue
				}
				specRT.RunCase(t, gpack.Case{Type: name + "/large", Seed: seed*15485863 + uint64(pbt.Seed()), Len: 300})
			}
		})
	}
}

func drawCase(t *rapid.T, names []string) gpack.Case {
	c := gpack.Case{Type: rapid.SampledFrom(names).Draw(t, "type"), Seed: rapid.Uint64().Draw(t, "seed")}
	c.Len = rapid.SampledFrom([]int{0, 3, 20, 80, 400, 2500, 2500, 2500}).Draw(t, "len")
	c.Prefix = rapid.SliceOfN(rapid.Uint64(), 0, 12).Draw(t, "prefix")
	return c
}

var specRT = pbt.Register(pbt.Spec[gpack.Case]{
	Prop: "C03", Name: "pack-roundtrip",
	Rule:  "a pack of a type drawn from all 37 type entries (24 registered + 13 with their own Write/Read), built by constructor + reflective fill of every field from a rapid-drawn choice stream + per-type fix-ups that only establish documented preconditions; both header forms; oracle = same concrete type, canonical field-by-field equality on every carried field, exact consumption (also with foreign trailing bytes), byte-identical re-encoding, reference common header, container/record-list packs compared with what was put in; non-trivial = at least half of the pack's leaves non-default; distinct by encoded bytes",
	Quick: 5500, Thorough: 370000,
	Draw: func(t *rapid.T) gpack.Case { return drawCase(t, typeNames()) },
	Run:  run,
})

func TestPackRoundTrip(t *testing.T) { specRT.Check(t) }

// ---- several packs alive at the same time --------------------------------------------------

// SeqCase: all packs are built first, then each is encoded, decoded and compared. A pack must not
// share state with a pack built, encoded or decoded after it (reused buffers, pooled encoders).
type SeqCase struct {
	Packs []gpack.Case `json:"packs"`
	Order []int        `json:"order,omitempty"` // order in which the built packs are checked (indices mod len)
}

func runSeq(c SeqCase) *pbt.Result {
	gpack.ResetAux()
	var ps []pack.Pack
	var sps []*gpack.Spec
	for _, pc := range c.Packs {
		sp := gpack.ByName[pc.Type]
		if sp == nil {
			return pbt.Fail("unknown pack type %q in case", pc.Type)
		}
		sps = append(sps, sp)
		ps = append(ps, sp.Build(pc.Stream(), 0))
	}
	// first encodings, taken right after all packs exist; compared again at the end
	var first, held [][]byte
	for i := range ps {
		if sps[i].Normalize != nil { // encodings of these are only defined up to the documented normalisation
			first, held = append(first, nil), append(held, nil)
			continue
		}
		// held: the slice exactly as ToBytesPack returned it (a caller keeps it until it is sent); first: a private copy
		var h []byte
		if sps[i].Registered {
			h = pack.ToBytesPack(ps[i])
		}
		held = append(held, h)
		first = append(first, encode(sps[i], ps[i]))
		if h != nil && !bytes.Equal(h, first[i]) {
			return pbt.Fail("pack %d (%s): two consecutive encodings differ", i, c.Packs[i].Type)
		}
	}
	order := c.Order
	if len(order) == 0 {
		for i := range ps {
			order = append(order, i)
		}
	}
	classes := map[string]bool{}
	containers := 0
	for _, oi := range order {
		i := oi % len(ps)
		r := runBuilt(c.Packs[i], sps[i], ps[i])
		if r.Err != nil {
			return pbt.Fail("pack %d of %d alive together (types %v): %v", i, len(ps), typesOf(c.Packs), r.Err)
		}
		classes["type="+c.Packs[i].Type] = true
		switch c.Packs[i].Type {
		case "LogSinkZipPack", "ZipPack", "CompositePack", "LogSinkZipPack/large", "ZipPack/large":
			containers++
		}
	}
	for i := range ps {
		if held[i] != nil && !bytes.Equal(held[i], first[i]) {
			return pbt.Fail("pack %d (%s): the %d bytes returned by ToBytesPack changed while other packs were encoded and decoded (types %v)", i, c.Packs[i].Type, len(held[i]), typesOf(c.Packs))
		}
		if first[i] != nil {
			if now := encode(sps[i], ps[i]); !bytes.Equal(now, first[i]) {
				return pbt.Fail("pack %d (%s): its encoding changed (%d -> %d bytes) while other packs were encoded and decoded (types %v)", i, c.Packs[i].Type, len(first[i]), len(now), typesOf(c.Packs))
			}
		}
	}
	var cl []string
	for k := range classes {
		cl = append(cl, k)
	}
	sort.Strings(cl)
	if containers >= 2 {
		cl = append(cl, "two-or-more-containers")
	}
	return &pbt.Result{NT: containers >= 2, Classes: cl}
}

func typesOf(cs []gpack.Case) []string {
	var out []string
	for _, c := range cs {
		out = append(out, c.Type)
	}
	return out
}

var seqTypes = []string{"LogSinkZipPack", "LogSinkZipPack", "ZipPack", "CompositePack", "LogSinkPack", "TagCountPack", "ProfilePack", "CounterPack1", "TextPack", "StatSqlPack"}

var specSeq = pbt.Register(pbt.Spec[SeqCase]{
	Prop: "C03", Name: "packs-alive-together",
	Rule:  "2-4 packs (containers twice as likely as the other types) are all BUILT first (compression of container payloads happens at build time), then checked with the full single-pack oracle in a generated order (a pack may be checked twice), and finally every pack's encoding, and the byte slice ToBytesPack returned at the start, are compared with the encoding taken before any decoding; a pack must not share state with packs built, encoded or decoded after it; non-trivial = at least two container packs in the case; distinct by case",
	Quick: 1200, Thorough: 60000,
	Draw: func(t *rapid.T) SeqCase {
		var c SeqCase
		n := rapid.IntRange(2, 4).Draw(t, "npacks")
		for i := 0; i < n; i++ {
			names := seqTypes
			if rapid.IntRange(0, 3).Draw(t, "any") == 0 {
				names = typeNames()
			}
			pc := drawCase(t, names)
			if strings.HasSuffix(pc.Type, "/large") {
				pc.Type = strings.TrimSuffix(pc.Type, "/large")
			}
			c.Packs = append(c.Packs, pc)
		}
		m := rapid.IntRange(n, n+2).Draw(t, "nchecks")
		for i := 0; i < m; i++ {
			c.Order = append(c.Order, rapid.IntRange(0, n-1).Draw(t, "idx"))
		}
		return c
	},
	Run: runSeq,
})

func TestPacksAliveTogether(t *testing.T) { specSeq.Check(t) }

// Every type at a few fixed stream shapes, so that no type depends on the random type choice.
func TestEveryType(t *testing.T) {
	for _, name := range typeNames() {
		for seed := uint64(1); seed <= uint64(pbt.Pick(12, 200)); seed++ {
			for _, n := range []int{0, 40, 3000} {
				specRT.RunCase(t, gpack.Case{Type: name, Seed: seed*7919 + uint64(pbt.Seed()), Len: n})
			}
		}
	}
}

// TestKnownFindings probes the open findings of this property on every run.
func TestKnownFindings(t *testing.T) {
	pbt.ProbeKnown("F13", func() (bool, string) {
		p := pack.NewCounterPack1()
		p.TxcallerPOidMeter = hmap.NewLinkedMapDefault()
		m := pack.NewTxMeter()
		m.Time, m.Count, m.Error, m.Actx = 3, 4, 5, 6
		p.TxcallerPOidMeter.Put(lang.NewPOID(1, 2), m)
		b := pack.ToBytesPack(p)
		var q pack.Pack
		var perr interface{}
		func() {
			defer func() { perr = recover() }()
			q = pack.ToPack(b)
		}()
		if perr != nil {
			return true, fmt.Sprintf("decoding panics: %v", perr)
		}
		qm := q.(*pack.CounterPack1).TxcallerPOidMeter
		if qm == nil || qm.Size() != 1 {
			return true, "decoded map has wrong size"
		}
		got := qm.Get(lang.NewPOID(1, 2))
		if got == nil || got.(*pack.TxMeter).Actx != 6 || !bytes.Equal(pack.ToBytesPack(q), b) {
			return true, "decoded entry differs"
		}
		return false, "round-trips now"
	})
	pbt.ProbeKnown("F38", func() (bool, string) {
		p := pack.NewCounterPack1()
		p.DbNumActive, p.DbNumIdle = hmap.NewIntIntMapDefault(), hmap.NewIntIntMapDefault()
		p.DbNumActive.Put(1, 10)
		p.DbNumActive.Put(102, 20)
		b := pack.ToBytesPack(p)
		re := pack.ToBytesPack(pack.ToPack(b))
		if !bytes.Equal(b, re) {
			return true, "re-encoding differs in the DbNumActive section"
		}
		return false, "re-encoding is byte-identical now"
	})
}

// wantCount is the RecordCount a decoded record-list pack must carry: the number of records, unless the builder gave the
// field another value (gpack.AuxInfo.Count).
func wantCount(aux *gpack.AuxInfo) int {
	if aux.CountSet {
		return aux.Count
	}
	return len(aux.Records)
}
