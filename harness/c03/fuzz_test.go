package c03

// Native coverage-guided fuzzing (thorough tier): packs that no generator of this harness builds.
//
// The input is a type-tagged pack encoding. Whatever the decoder accepts is a pack p populated with arbitrary field
// values (the fuzzer's choice, not the builders'), and the property applies to it like to any other pack:
//   e1 = ToBytesPack(p), q = ToPack(e1): same concrete type, decoding consumes exactly e1, q equals p in every carried
//   field, and ToBytesPack(q) is byte-identical to e1.
// Inputs the decoder rejects, and decoded packs the writer rejects (a field outside what its count field can hold), are
// not constrained here (C04 deals with the former); e1 is NOT compared with the input, which may be non-canonical.
// Open findings F13 / F38 are excluded by construction and counted.

import (
	"bytes"
	"fmt"
	"reflect"
	"testing"

	wio "github.com/whatap/golib/io"
	"github.com/whatap/golib/lang/pack"

	"verif/gpack"
	"verif/pbt"
	"verif/rfl"

	"pgregory.net/rapid"
)

func fuzzRecover(f func()) (pv interface{}) {
	defer func() { pv = recover() }()
	f()
	return nil
}

func f13Applies(p pack.Pack) bool {
	c, ok := p.(*pack.CounterPack1)
	return ok && pbt.KnownOpen("F13") && c.TxcallerPOidMeter != nil && c.TxcallerPOidMeter.Size() > 0
}

// normalizeDeep applies the documented decode-side normalisations to a pack and, for a composite pack, to its inner
// packs (reached through the unexported slice: a decoded composite has no builder record).
func normalizeDeep(p pack.Pack) {
	if p == nil || reflect.ValueOf(p).IsNil() {
		return
	}
	if sp := gpack.ByName[reflect.TypeOf(p).Elem().Name()]; sp != nil && sp.Normalize != nil {
		sp.Normalize(p)
	}
	if cp, ok := p.(*pack.CompositePack); ok {
		inner := rfl.Field(cp, "pack")
		for i := 0; i < inner.Len(); i++ {
			if ip, ok := inner.Index(i).Interface().(pack.Pack); ok {
				normalizeDeep(ip)
			}
		}
	}
}

// fixpoint is the oracle; it returns "" when the decoded pack p survives, otherwise what failed.
func fixpoint(data []byte) (verdict string, decoded bool) {
	var p pack.Pack
	if fuzzRecover(func() { p = pack.ToPack(append([]byte(nil), data...)) }) != nil || p == nil || reflect.ValueOf(p).IsNil() {
		return "", false
	}
	sp := gpack.ByName[reflect.TypeOf(p).Elem().Name()]
	if sp == nil || !sp.Registered {
		return "", false
	}
	if f13Applies(p) {
		return "", false
	}
	// lazily decoded sections (tables, record blobs) are read first: before that the pack only passes the input's own,
	// possibly non-canonical, spelling of the section through
	if fuzzRecover(func() { gpack.Canon(p) }) != nil {
		return "", false // the section is rejected on access: the input was not valid
	}
	var e1 []byte
	var canonP []rfl.KV
	if fuzzRecover(func() {
		pack.ToBytesPack(p)
		// the documented decode-side normalisations (optional groups whose presence condition does not hold, ...)
		normalizeDeep(p)
		canonP = gpack.Canon(p)
		e1 = append([]byte(nil), pack.ToBytesPack(p)...)
	}) != nil {
		return "", false // the writer rejects this object (outside what the format can carry)
	}
	// sizes stay within what a count field can represent (DESIGN §7, as for the builders): an event's attribute table
	// travels behind a one-byte count that includes the three or four reserved attributes the writer adds itself
	if ep, ok := p.(*pack.EventPack); ok && ep.Attr != nil && ep.Attr.Size() > 255 {
		return "", false
	}
	var q pack.Pack
	var left int32
	if pv := fuzzRecover(func() {
		in := wio.NewDataInputX(append([]byte(nil), e1...))
		q = pack.ReadPack(in)
		left = in.Available()
	}); pv != nil {
		return "the library cannot decode its own encoding of a pack it decoded (" + sp.Name + "): " + fmt.Sprint(pv), true
	}
	if reflect.TypeOf(q) != reflect.TypeOf(p) {
		return "decoded concrete type differs: " + reflect.TypeOf(q).String() + " vs " + reflect.TypeOf(p).String(), true
	}
	if left != 0 {
		return sp.Name + ": decoding its encoding leaves bytes unread", true
	}
	var canonQ []rfl.KV
	if pv := fuzzRecover(func() { canonQ = gpack.Canon(q) }); pv != nil {
		return sp.Name + ": a lazily decoded section of the re-decoded pack cannot be read: " + fmt.Sprint(pv), true
	}
	if d := rfl.Diff(canonP, canonQ, ignoreFor(sp)); d != "" {
		return sp.Name + ": decoded pack differs from the encoded one in a carried field: " + d, true
	}
	var e2 []byte
	if pv := fuzzRecover(func() { e2 = pack.ToBytesPack(q) }); pv != nil {
		return sp.Name + ": re-encoding the decoded pack fails: " + fmt.Sprint(pv), true
	}
	if !bytes.Equal(e1, e2) {
		if f38Applies(p) && len(e1) == len(e2) {
			return "", true
		}
		return sp.Name + ": re-encoding the decoded pack is not byte-identical", true
	}
	return "", true
}

func FuzzPackFixpoint(f *testing.F) {
	for _, name := range typeNames() {
		sp := gpack.ByName[name]
		if !sp.Registered {
			continue
		}
		for seed := uint64(1); seed <= 2; seed++ {
			gpack.ResetAux()
			var b []byte
			if fuzzRecover(func() { b = encode(sp, sp.Build(rfl.NewStream(nil, seed*1009, 60), 0)) }) == nil && len(b) <= 1<<14 {
				f.Add(b)
			}
		}
	}
	f.Fuzz(func(t *testing.T, data []byte) {
		if len(data) < 2 || len(data) > 1<<14 {
			return
		}
		if v, _ := fixpoint(data); v != "" {
			t.Fatalf("%s", v)
		}
	})
}

// The campaign's oracle is also part of the rapid tiers: valid encodings of every registered type with 1-4 bytes
// overwritten, inserted or removed at generated positions (a pure function of the case, so a failure shrinks and replays).
type FixCase struct {
	Pack  gpack.Case `json:"pack"`
	Edits [][3]int   `json:"edits"` // (kind 0 overwrite / 1 insert / 2 delete, position per mille of the length, byte)
}

func (c FixCase) bytes() []byte {
	sp := gpack.ByName[c.Pack.Type]
	if sp == nil || !sp.Registered {
		return nil
	}
	gpack.ResetAux()
	var b []byte
	if fuzzRecover(func() { b = encode(sp, sp.Build(c.Pack.Stream(), 0)) }) != nil {
		return nil
	}
	for _, e := range c.Edits {
		if len(b) <= 2 {
			break
		}
		off := 2 + (len(b)-2)*e[1]/1001
		switch e[0] {
		case 0:
			b[off] = byte(e[2])
		case 1:
			b = append(b[:off], append([]byte{byte(e[2])}, b[off:]...)...)
		default:
			b = append(b[:off], b[off+1:]...)
		}
	}
	return b
}

var specFix = pbt.Register(pbt.Spec[FixCase]{
	Prop: "C03", Name: "decoded-pack-fixpoint",
	Rule:  "the valid encoding of a generated pack of a registered type with 1-4 bytes overwritten / inserted / removed at generated positions; when the decoder accepts the result, the pack it returns (field values chosen by the edit, not by the builders) must itself survive: its encoding decodes to the same type, consuming everything, equal in every carried field, and re-encodes byte-identically; rejected inputs and packs the writer rejects are not constrained; non-trivial = the decoder accepted the edited encoding; distinct by edited bytes",
	Quick: 6000, Thorough: 400000,
	Draw: func(t *rapid.T) FixCase {
		names := []string{}
		for _, n := range typeNames() {
			if gpack.ByName[n].Registered {
				names = append(names, n)
			}
		}
		c := FixCase{Pack: drawCase(t, names)}
		if c.Pack.Len > 400 {
			c.Pack.Len = 400
		}
		n := rapid.IntRange(1, 4).Draw(t, "edits")
		for i := 0; i < n; i++ {
			kind := rapid.SampledFrom([]int{0, 0, 0, 1, 2}).Draw(t, "kind")
			c.Edits = append(c.Edits, [3]int{kind, rapid.IntRange(0, 1000).Draw(t, "pos"), int(rapid.SampledFrom([]byte{0, 1, 2, 3, 4, 5, 8, 9, 0x7f, 0x80, 0xfe, 0xff, 0x14, 0x1e, 0x28, 0x32, 0x3c, 0x46, 0x50}).Draw(t, "byte"))})
		}
		return c
	},
	Run: func(c FixCase) *pbt.Result {
		b := c.bytes()
		if b == nil {
			return &pbt.Result{Classes: []string{"not-built"}}
		}
		v, dec := fixpoint(b)
		if v != "" {
			return pbt.Fail("edited encoding %x: %s", b, v)
		}
		cl := "rejected"
		if dec {
			cl = "accepted"
		}
		return &pbt.Result{NT: dec, Classes: []string{cl, c.Pack.Type + "/" + cl}, Key: b}
	},
})

func TestDecodedPackFixpoint(t *testing.T) { specFix.Check(t) }
