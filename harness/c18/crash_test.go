package c18

// write-crash-points: one SetValues is performed by a helper process under strace;
// the harness replays the recorded file-system calls against a small model (names,
// inodes, descriptors with offsets) and after EVERY call looks at what the
// configuration path holds: it must be the complete old or the complete new
// content. That enumerates every instant at which the process could stop during
// that write (process stop between system calls; no claim about power loss).
//
// When ptrace is not available the check falls back to a weaker mode (a polling
// reader during a SetValues on a large file) and says so in the evidence.

import (
	"fmt"
	"os"
	"os/exec"
	"path/filepath"
	"regexp"
	"strconv"
	"strings"
	"sync"
	"testing"
	"time"

	"pgregory.net/rapid"
	"verif/pbt"
)

const straceSet = "openat,open,creat,read,pread64,lseek,write,pwrite64,ftruncate,truncate,rename,renameat,renameat2,unlink,unlinkat,link,linkat,fsync,fdatasync,close,dup,dup2,dup3"

type CrashCase struct {
	File    File     `json:"file"`
	Pad     int      `json:"pad,omitempty"` // extra comment lines appended to the file (larger writes)
	Prefix  string   `json:"prefix,omitempty"`
	Exclude []string `json:"exclude,omitempty"`
	Set     []SetKV  `json:"set"`
	// Symlink: the configuration path is a symbolic link to a file next to it (configuration kept in a shared or
	// versioned directory and linked into the agent's home). What a reader of the configuration path sees must still be
	// the old or the new complete content at every instant; whether the link survives the write is not stated.
	Symlink bool `json:"symlink,omitempty"`
}

// ---- strace log -------------------------------------------------------------------

type sysCall struct {
	Pid  string
	Name string
	Args []string
	Ret  int64
	Raw  string
}

var (
	reUnfinished = regexp.MustCompile(`^(\d+)\s+(\w+)\((.*) <unfinished \.\.\.>$`)
	reResumed    = regexp.MustCompile(`^(\d+)\s+<\.\.\. (\w+) resumed>(.*)$`)
	reComplete   = regexp.MustCompile(`^(\d+)\s+(\w+)\((.*)$`)
)

// splitArgs splits "a, "str", {x, y}, b) = 3" into the arguments and the return value text.
func splitArgs(s string) (args []string, ret string, ok bool) {
	depth := 0
	inStr := false
	start := 0
	for i := 0; i < len(s); i++ {
		ch := s[i]
		switch {
		case inStr:
			if ch == '\\' {
				i++
			} else if ch == '"' {
				inStr = false
			}
		case ch == '"':
			inStr = true
		case ch == '{' || ch == '[' || ch == '(':
			depth++
		case ch == '}' || ch == ']':
			depth--
		case ch == ')' && depth > 0:
			depth--
		case ch == ',' && depth == 0:
			args = append(args, strings.TrimSpace(s[start:i]))
			start = i + 1
		case ch == ')' && depth == 0:
			if t := strings.TrimSpace(s[start:i]); t != "" || len(args) > 0 {
				args = append(args, t)
			}
			rest := strings.TrimSpace(s[i+1:])
			if !strings.HasPrefix(rest, "=") {
				return nil, "", false
			}
			return args, strings.TrimSpace(rest[1:]), true
		}
	}
	return nil, "", false
}

func parseStrace(log string) ([]sysCall, error) {
	var calls []sysCall
	pending := map[string]string{} // pid -> "name(args-so-far"
	for _, line := range strings.Split(log, "\n") {
		line = strings.TrimRight(line, " ")
		if line == "" || strings.Contains(line, "+++ ") || strings.Contains(line, " --- ") {
			continue
		}
		if strings.Contains(line, " ???(") || strings.Contains(line, "<... ??? resumed>") {
			continue // a thread seen by strace before it could identify the call it is in
		}
		var pid, name, rest string
		if m := reUnfinished.FindStringSubmatch(line); m != nil {
			pending[m[1]] = m[2] + "(" + m[3]
			continue
		} else if m := reResumed.FindStringSubmatch(line); m != nil {
			head, ok := pending[m[1]]
			if !ok {
				return nil, fmt.Errorf("resumed call without a beginning: %.200s", line)
			}
			delete(pending, m[1])
			full := head + m[3]
			k := strings.IndexByte(full, '(')
			pid, name, rest = m[1], full[:k], full[k+1:]
		} else if m := reComplete.FindStringSubmatch(line); m != nil {
			pid, name, rest = m[1], m[2], m[3]
		} else {
			return nil, fmt.Errorf("unrecognised strace line: %.200s", line)
		}
		args, ret, ok := splitArgs(rest)
		if !ok {
			if strings.HasSuffix(rest, "= ?") {
				continue // call interrupted by process exit
			}
			return nil, fmt.Errorf("cannot split arguments: %.200s", line)
		}
		f := strings.Fields(ret)
		if len(f) == 0 {
			return nil, fmt.Errorf("no return value: %.200s", line)
		}
		var r int64
		if f[0] == "?" {
			continue
		}
		r, err := strconv.ParseInt(f[0], 0, 64)
		if err != nil {
			return nil, fmt.Errorf("return value %q: %.200s", f[0], line)
		}
		calls = append(calls, sysCall{Pid: pid, Name: name, Args: args, Ret: r, Raw: line})
	}
	return calls, nil
}

// straceString decodes a "\x2f\x74..." literal; the flag says whether strace
// abbreviated it ("..." after the closing quote).
func straceString(a string) (string, bool, error) {
	abbreviated := strings.HasSuffix(a, "...")
	a = strings.TrimSuffix(a, "...")
	if len(a) < 2 || a[0] != '"' || a[len(a)-1] != '"' {
		return "", false, fmt.Errorf("not a string literal: %.80s", a)
	}
	a = a[1 : len(a)-1]
	out := make([]byte, 0, len(a)/4)
	for i := 0; i < len(a); {
		if a[i] == '\\' && i+3 < len(a) && a[i+1] == 'x' {
			n, err := strconv.ParseUint(a[i+2:i+4], 16, 8)
			if err != nil {
				return "", false, err
			}
			out = append(out, byte(n))
			i += 4
			continue
		}
		out = append(out, a[i])
		i++
	}
	return string(out), abbreviated, nil
}

// describeCall renders a recorded call readably (string arguments decoded and shortened).
func describeCall(c sysCall) string {
	var args []string
	for _, a := range c.Args {
		if strings.HasPrefix(a, "\"") {
			if s, _, err := straceString(a); err == nil {
				if len(s) > 48 {
					a = fmt.Sprintf("%q...(%d bytes)", s[:48], len(s))
				} else {
					a = fmt.Sprintf("%q", s)
				}
			}
		}
		args = append(args, a)
	}
	return fmt.Sprintf("%s(%s) = %d", c.Name, strings.Join(args, ", "), c.Ret)
}

// ---- file-system model ------------------------------------------------------------

type inode struct{ data []byte }

type fdesc struct {
	ino *inode
	off int64
	app bool
}

type fsModel struct {
	root  string // only paths below root are tracked
	cwd   string
	names map[string]*inode
	fds   map[int]*fdesc
}

func (m *fsModel) resolve(dirfd, p string) (string, bool) {
	if !filepath.IsAbs(p) {
		if dirfd != "AT_FDCWD" {
			return "", false
		}
		p = filepath.Join(m.cwd, p)
	}
	p = filepath.Clean(p)
	return p, strings.HasPrefix(p, m.root+string(filepath.Separator))
}

func (ino *inode) writeAt(b []byte, off int64) {
	if end := off + int64(len(b)); end > int64(len(ino.data)) {
		ino.data = append(ino.data, make([]byte, end-int64(len(ino.data)))...)
	}
	copy(ino.data[off:], b)
}

func (ino *inode) truncate(n int64) {
	if n <= int64(len(ino.data)) {
		ino.data = ino.data[:n]
	} else {
		ino.data = append(ino.data, make([]byte, n-int64(len(ino.data)))...)
	}
}

// apply replays one successful call; touched reports whether it concerned ino `watch` or name `watchPath`.
func (m *fsModel) apply(c sysCall, watchPath string) (touched bool, err error) {
	if c.Ret < 0 {
		return false, nil
	}
	arg := func(i int) string {
		if i < len(c.Args) {
			return c.Args[i]
		}
		return ""
	}
	str := func(i int) (string, error) {
		s, abbr, err := straceString(arg(i))
		if err != nil {
			return "", err
		}
		if abbr {
			return "", fmt.Errorf("strace abbreviated a string argument")
		}
		return s, nil
	}
	num := func(i int) (int64, error) { return strconv.ParseInt(strings.Fields(arg(i) + " x")[0], 0, 64) }
	watched := func(d *fdesc) bool { return d != nil && m.names[watchPath] != nil && d.ino == m.names[watchPath] }

	open := func(dirfd string, pi, fi int) error {
		p, err := str(pi)
		if err != nil {
			return err
		}
		delete(m.fds, int(c.Ret))
		full, tracked := m.resolve(dirfd, p)
		if !tracked {
			return nil
		}
		flags := arg(fi)
		ino := m.names[full]
		if ino == nil {
			if !strings.Contains(flags, "O_CREAT") {
				return fmt.Errorf("model: open of unknown tracked path %s succeeded without O_CREAT", full)
			}
			ino = &inode{}
			m.names[full] = ino
		} else if strings.Contains(flags, "O_TRUNC") {
			ino.data = nil
		}
		m.fds[int(c.Ret)] = &fdesc{ino: ino, app: strings.Contains(flags, "O_APPEND")}
		touched = full == watchPath
		return nil
	}
	rename := func(d1 string, i1 int, d2 string, i2 int) error {
		a, err := str(i1)
		if err != nil {
			return err
		}
		b, err := str(i2)
		if err != nil {
			return err
		}
		fa, ta := m.resolve(d1, a)
		fb, tb := m.resolve(d2, b)
		if !ta && !tb {
			return nil
		}
		if ta != tb {
			return fmt.Errorf("model: rename across the tracked directory: %s -> %s", fa, fb)
		}
		ino := m.names[fa]
		if ino == nil {
			return fmt.Errorf("model: rename of unknown path %s", fa)
		}
		m.names[fb] = ino
		delete(m.names, fa)
		touched = fa == watchPath || fb == watchPath
		return nil
	}
	unlink := func(dirfd string, pi int) error {
		p, err := str(pi)
		if err != nil {
			return err
		}
		full, tracked := m.resolve(dirfd, p)
		if tracked {
			delete(m.names, full)
			touched = full == watchPath
		}
		return nil
	}

	switch c.Name {
	case "openat":
		err = open(arg(0), 1, 2)
		return touched, err
	case "open":
		err = open("AT_FDCWD", 0, 1)
		return touched, err
	case "creat":
		c.Args = append(c.Args[:1:1], "O_CREAT|O_WRONLY|O_TRUNC")
		err = open("AT_FDCWD", 0, 1)
		return touched, err
	case "close":
		fd, _ := num(0)
		touched = watched(m.fds[int(fd)])
		delete(m.fds, int(fd))
	case "read", "pread64":
		fd, _ := num(0)
		if d := m.fds[int(fd)]; d != nil {
			touched = watched(d)
			if c.Name == "read" {
				d.off += c.Ret
			}
		}
	case "lseek":
		fd, _ := num(0)
		if d := m.fds[int(fd)]; d != nil {
			d.off = c.Ret
		}
	case "write", "pwrite64":
		fd, _ := num(0)
		d := m.fds[int(fd)]
		if d == nil {
			return false, nil
		}
		data, err := str(1)
		if err != nil {
			return false, err
		}
		if int64(len(data)) < c.Ret {
			return false, fmt.Errorf("model: write of %d bytes but only %d recorded", c.Ret, len(data))
		}
		touched = watched(d)
		off := d.off
		if c.Name == "pwrite64" {
			off, _ = num(3)
		} else if d.app {
			off = int64(len(d.ino.data))
		}
		d.ino.writeAt([]byte(data[:c.Ret]), off)
		if c.Name == "write" {
			d.off = off + c.Ret
		}
	case "ftruncate":
		fd, _ := num(0)
		if d := m.fds[int(fd)]; d != nil {
			n, _ := num(1)
			touched = watched(d)
			d.ino.truncate(n)
		}
	case "truncate":
		p, err := str(0)
		if err != nil {
			return false, err
		}
		if full, tracked := m.resolve("AT_FDCWD", p); tracked && m.names[full] != nil {
			n, _ := num(1)
			m.names[full].truncate(n)
			touched = full == watchPath
		}
	case "rename":
		err = rename("AT_FDCWD", 0, "AT_FDCWD", 1)
		return touched, err
	case "renameat", "renameat2":
		err = rename(arg(0), 1, arg(2), 3)
		return touched, err
	case "unlink":
		err = unlink("AT_FDCWD", 0)
		return touched, err
	case "unlinkat":
		err = unlink(arg(0), 1)
		return touched, err
	case "link", "linkat":
		var a, b string
		var da, db string
		var err error
		if c.Name == "link" {
			da, db = "AT_FDCWD", "AT_FDCWD"
			a, err = str(0)
			if err == nil {
				b, err = str(1)
			}
		} else {
			da, db = arg(0), arg(2)
			a, err = str(1)
			if err == nil {
				b, err = str(3)
			}
		}
		if err != nil {
			return false, err
		}
		fa, ta := m.resolve(da, a)
		fb, tb := m.resolve(db, b)
		if ta && tb && m.names[fa] != nil {
			m.names[fb] = m.names[fa]
			touched = fa == watchPath || fb == watchPath
		}
	case "dup", "dup2", "dup3":
		fd, _ := num(0)
		if d := m.fds[int(fd)]; d != nil {
			return false, fmt.Errorf("model: dup of a tracked descriptor is not modelled")
		}
		delete(m.fds, int(c.Ret))
	case "fsync", "fdatasync":
		fd, _ := num(0)
		touched = watched(m.fds[int(fd)])
	}
	return touched, nil
}

// ---- the check ----------------------------------------------------------------------

var (
	straceOnce sync.Once
	straceOK   bool
	straceWhy  string
)

func haveStrace() bool {
	straceOnce.Do(func() {
		if os.Getenv("VERIF_C18_NOSTRACE") != "" {
			straceWhy = "disabled by VERIF_C18_NOSTRACE"
			return
		}
		p, err := exec.LookPath("strace")
		if err != nil {
			straceWhy = "strace is not installed"
			return
		}
		dir := mkHome()
		defer os.RemoveAll(dir)
		logp := filepath.Join(dir, "probe.log")
		out, err := exec.Command(p, "-f", "-o", logp, "-e", "trace=openat,close", "true").CombinedOutput()
		b, _ := os.ReadFile(logp)
		if err != nil || !strings.Contains(string(b), "openat(") {
			straceWhy = fmt.Sprintf("strace cannot trace here (%v %.200s)", err, out)
			return
		}
		straceOK = true
	})
	return straceOK
}

// traceUnusable: the recorded trace cannot be replayed (a problem of the recording, not of the code under test). The
// case gets no verdict; the driver turns the run inconclusive when more than a few cases end like this.
func traceUnusable(format string, a ...interface{}) *pbt.Result {
	pbt.Note("write-crash-points: trace unusable, no verdict for the case: "+format, a...)
	return &pbt.Result{Classes: []string{"inconclusive:trace-unusable"}}
}

func drawCrash(t *rapid.T) CrashCase {
	pool := genKeyPool(t, rapid.IntRange(2, 6).Draw(t, "npool"))
	var c CrashCase
	c.File = genFile(t, pool, 8, true, "write-crash-points")
	c.Pad = rapid.SampledFrom([]int{0, 0, 0, 40, 400, 3000}).Draw(t, "pad")
	if rapid.IntRange(0, 3).Draw(t, "prefix?") == 0 {
		c.Prefix = "whatap."
	}
	n := rapid.IntRange(1, 3).Draw(t, "nset")
	for j := 0; j < n; j++ {
		var k string
		if rapid.Bool().Draw(t, "existing") {
			k = rapid.SampledFrom(pool).Draw(t, "poolkey")
		} else {
			k = "n" + genKey().Draw(t, "newkey")
		}
		v := ""
		if rapid.IntRange(0, 5).Draw(t, "delete?") > 0 {
			v = genValue().Draw(t, "setval")
		}
		c.Set = append(c.Set, SetKV{K: k, V: v})
	}
	for {
		if _, ok := effectiveSet(c.Set, c.Prefix, "", nil); ok {
			break
		}
		c.Set = c.Set[:len(c.Set)-1]
	}
	c.Symlink = rapid.IntRange(0, 3).Draw(t, "symlink") == 0
	return c
}

func (c *CrashCase) content(extraPad int) string {
	s := c.File.render()
	c2 := *c
	c2.Pad += extraPad
	c = &c2
	if c.Pad > 0 {
		if s != "" && !strings.HasSuffix(s, "\n") {
			s += "\n"
		}
		for i := 0; i < c.Pad; i++ {
			s += fmt.Sprintf("# padding line %04d ........................................\n", i)
		}
	}
	return s
}

func runCrash(c CrashCase) *pbt.Result {
	if err := checkCaseFile(&c.File); err != nil {
		if strings.Contains(err.Error(), "environment variable") {
			return &pbt.Result{Classes: []string{"skipped:key-is-environment-variable"}}
		}
		panic(err)
	}
	eff, ok := effectiveSet(c.Set, c.Prefix, "", c.Exclude)
	if !ok {
		panic("case precondition: colliding keys")
	}
	for k := range eff {
		if _, isEnv := os.LookupEnv(k); isEnv {
			return &pbt.Result{Classes: []string{"skipped:key-is-environment-variable"}}
		}
	}
	work := mkHome()
	defer os.RemoveAll(work)
	home := filepath.Join(work, "home")
	if err := os.Mkdir(home, 0o755); err != nil {
		panic(err)
	}
	path := filepath.Join(home, confName)
	extraPad := 0
	if !haveStrace() {
		extraPad = 6000 // about 370 KiB (the writer is quadratic in the number of lines): widens the window the polling reader can hit
	}
	oldContent := c.content(extraPad)
	realPath := path
	if c.Symlink {
		realPath = filepath.Join(home, "shared-"+confName)
	}
	if err := writeAt(realPath, oldContent, baseSec*1e9); err != nil {
		panic(err)
	}
	if c.Symlink {
		if err := os.Symlink(realPath, path); err != nil {
			return &pbt.Result{Classes: []string{"skipped:no-symlinks-here"}}
		}
	}
	spec := setValuesSpec{Home: home, Prefix: c.Prefix, Exclude: c.Exclude, Set: c.Set}
	if !haveStrace() {
		return runCrashPolling(c, spec, work, path, oldContent, eff)
	}
	logp := filepath.Join(work, "strace.log")
	wrapper := []string{"strace", "-f", "-s", "1048576", "-xx", "-o", logp, "-e", "trace=" + straceSet}
	out, exit, timedOut, err := runHelper("setvalues", spec, work, wrapper, nil, 120*time.Second)
	if err != nil {
		return traceUnusable("cannot run the helper under strace: %v", err)
	}
	if timedOut {
		return traceUnusable("the traced helper did not finish within 120 s")
	}
	if exit != 0 || !strings.Contains(out, "C18HELPER-END") {
		panic(fmt.Sprintf("harness: helper under strace failed (exit %d): %.2000s", exit, out))
	}
	newB, err := os.ReadFile(path)
	if err != nil {
		return pbt.Fail("after SetValues the configuration file cannot be read: %v", err)
	}
	newContent := string(newB)
	if err := checkWritten(oldContent, newContent, eff); err != nil {
		return pbt.Fail("the completed write is wrong: %v", err)
	}
	logB, err := os.ReadFile(logp)
	if err != nil {
		panic(err)
	}
	calls, err := parseStrace(string(logB))
	if err != nil {
		return traceUnusable("strace log: %v", err)
	}
	m := &fsModel{root: home, cwd: work, names: map[string]*inode{path: {data: []byte(oldContent)}}, fds: map[int]*fdesc{}}
	if c.Symlink {
		// the model has no links of its own: both names refer to one file until one of them is replaced, which is how a
		// reader of either name sees it (nothing here unlinks or renames the link's target)
		m.names[realPath] = m.names[path]
	}
	onPath, points := 0, 0
	var trail []string
	for i, sc := range calls {
		touched, err := m.apply(sc, path)
		if err != nil {
			return traceUnusable("%v (call %d: %.300s)", err, i, sc.Raw)
		}
		if touched {
			onPath++
			trail = append(trail, describeCall(sc))
		}
		points++
		ino := m.names[path]
		switch {
		case ino == nil:
			return pbt.Fail("crash point after call %d: the configuration path does not exist\ncalls on the path so far:\n%s", i, strings.Join(trail, "\n"))
		case string(ino.data) == newContent || string(ino.data) == oldContent:
		default:
			return pbt.Fail("crash point after call %d: the configuration path holds %d bytes that are neither the old (%d bytes) nor the new (%d bytes) complete content: %q\ncalls on the path so far:\n%s",
				i, len(ino.data), len(oldContent), len(newContent), abbreviate(string(ino.data), 200), strings.Join(trail, "\n"))
		}
	}
	if ino := m.names[path]; ino == nil || string(ino.data) != newContent {
		// the write completed correctly (checked above against the file itself), but the recorded trace does not
		// explain it: a line was lost or is of a kind the model does not know. No verdict on the crash points of this case.
		return traceUnusable("the replayed trace does not end with the content found on disk (%d calls, %d on the path)", len(calls), onPath)
	}
	crashMu.Lock()
	crashCalls += int64(points)
	if int64(onPath) > crashMaxOnPath {
		crashMaxOnPath = int64(onPath)
	}
	pbt.Extra("write-crash-points", "crash_points_evaluated_this_shard", crashCalls)
	pbt.Extra("write-crash-points", "max_syscalls_on_the_path", crashMaxOnPath)
	pbt.Extra("write-crash-points", "mode", "strace replay")
	crashMu.Unlock()
	classes := []string{"mode:strace", fmt.Sprintf("symlinked-path=%v", c.Symlink)}
	if oldContent == newContent {
		classes = append(classes, "write:content-unchanged")
	}
	if c.Pad > 0 {
		classes = append(classes, fmt.Sprintf("pad:%d", c.Pad))
	}
	for _, t := range trail {
		if strings.Contains(t, "rename") {
			classes = append(classes, "write:by-rename")
			break
		}
	}
	return &pbt.Result{NT: onPath >= 3 && oldContent != newContent, Classes: classes}
}

var (
	crashMu        sync.Mutex
	crashCalls     int64
	crashMaxOnPath int64
)

func abbreviate(s string, n int) string {
	if len(s) <= n {
		return s
	}
	return s[:n] + "…"
}

// runCrashPolling is the weaker fallback: the parent re-reads the file in a loop
// while the helper performs the SetValues.
func runCrashPolling(c CrashCase, spec setValuesSpec, work, path, oldContent string, eff map[string]string) *pbt.Result {
	stop := make(chan struct{})
	var bad string
	var wg sync.WaitGroup
	var newContent string
	var seen [][]byte
	wg.Add(1)
	go func() {
		defer wg.Done()
		for {
			select {
			case <-stop:
				return
			default:
			}
			b, err := os.ReadFile(path)
			if err != nil {
				if bad == "" {
					bad = fmt.Sprintf("the configuration file could not be read during the write: %v", err)
				}
				continue
			}
			if string(b) != oldContent && (len(seen) == 0 || string(seen[len(seen)-1]) != string(b)) {
				seen = append(seen, b)
			}
		}
	}()
	out, exit, timedOut, err := runHelper("setvalues", spec, work, nil, nil, 120*time.Second)
	close(stop)
	wg.Wait()
	if err != nil || timedOut || exit != 0 {
		panic(fmt.Sprintf("harness: helper failed (exit %d): %v %.2000s", exit, err, out))
	}
	nb, err := os.ReadFile(path)
	if err != nil {
		return pbt.Fail("after SetValues the configuration file cannot be read: %v", err)
	}
	newContent = string(nb)
	if err := checkWritten(oldContent, newContent, eff); err != nil {
		return pbt.Fail("the completed write is wrong: %v", err)
	}
	if bad != "" {
		return pbt.Fail("%s", bad)
	}
	for _, b := range seen {
		if string(b) != newContent {
			return pbt.Fail("a reader saw %d bytes that are neither the old nor the new complete content during the write: %q", len(b), abbreviate(string(b), 200))
		}
	}
	pbt.Extra("write-crash-points", "mode", "polling reader (weaker: "+straceWhy+")")
	return &pbt.Result{NT: false, Classes: []string{"mode:polling"}}
}

var crashSpec = pbt.Register(pbt.Spec[CrashCase]{
	Prop: "C18", Name: "write-crash-points",
	Rule:  "file of 0-8 generated lines plus 0/40/400/3000 padding comment lines, one SetValues of 1-3 pairs (existing/new keys, empty = remove, optional prefix) performed by a helper process under strace -f; in one case of four the configuration path is a symbolic link to a file next to it; the recorded open/read/write/truncate/rename/unlink/link/close calls are replayed against a name/inode/descriptor model and after every call the configuration path must exist and hold exactly the old or exactly the new content; the completed file is also judged by the write-back oracle; non-trivial = at least 3 recorded calls on the configuration path and the content changed",
	Quick: 120, Thorough: 6400,
	Draw: drawCrash, Run: runCrash,
})

func TestWriteCrashPoints(t *testing.T) {
	if !haveStrace() {
		pbt.Note("write-crash-points: %s; falling back to the weaker polling-reader mode", straceWhy)
	}
	crashSpec.Check(t)
}

// ---- the write fails part of the way (file size limit = disk full / quota) -----------------------------------------

type FaultCase struct {
	Crash CrashCase `json:"crash"`
	// Limit selects the file size limit of the writing process: 0..3 = 1 byte, 64 bytes, half of the new content, the new
	// content less one byte; 4 = exactly the new content (the write fits)
	Limit int `json:"limit"`
}

func runWriteFault(fc FaultCase) *pbt.Result {
	c := fc.Crash
	c.Symlink = false
	if err := checkCaseFile(&c.File); err != nil {
		if strings.Contains(err.Error(), "environment variable") {
			return &pbt.Result{Classes: []string{"skipped:key-is-environment-variable"}}
		}
		panic(err)
	}
	eff, ok := effectiveSet(c.Set, c.Prefix, "", c.Exclude)
	if !ok {
		panic("case precondition: colliding keys")
	}
	for k := range eff {
		if _, isEnv := os.LookupEnv(k); isEnv {
			return &pbt.Result{Classes: []string{"skipped:key-is-environment-variable"}}
		}
	}
	work := mkHome()
	defer os.RemoveAll(work)
	oldContent := c.content(0)
	run := func(name string, limit int) (string, *pbt.Result) {
		home := filepath.Join(work, name)
		if err := os.Mkdir(home, 0o755); err != nil {
			panic(err)
		}
		path := filepath.Join(home, confName)
		if err := writeAt(path, oldContent, baseSec*1e9); err != nil {
			panic(err)
		}
		spec := setValuesSpec{Home: home, Prefix: c.Prefix, Exclude: c.Exclude, Set: c.Set, FileLimit: limit}
		out, exit, timedOut, err := runHelper("setvalues", spec, work, nil, nil, 120*time.Second)
		if err != nil || timedOut || exit != 0 || !strings.Contains(out, "C18HELPER-END") {
			if exit == 5 {
				return "", &pbt.Result{Classes: []string{"skipped:no-file-size-limit-here"}}
			}
			panic(fmt.Sprintf("harness: helper failed (exit %d, timed out %v): %v %.2000s", exit, timedOut, err, out))
		}
		b, err := os.ReadFile(path)
		if err != nil {
			return "", pbt.Fail("after a SetValues under a file size limit of %d bytes the configuration file cannot be read: %v", limit, err)
		}
		return string(b), nil
	}
	newContent, res := run("free", 0)
	if res != nil {
		return res
	}
	if err := checkWritten(oldContent, newContent, eff); err != nil {
		return pbt.Fail("the completed write is wrong: %v", err)
	}
	limit := []int{1, 64, len(newContent) / 2, len(newContent) - 1, len(newContent)}[fc.Limit%5]
	if limit < 1 {
		limit = 1
	}
	got, res := run("limited", limit)
	if res != nil {
		return res
	}
	cls := []string{fmt.Sprintf("limit-kind=%d", fc.Limit%5)}
	switch {
	case got == oldContent:
		cls = append(cls, "result:old-content-kept")
	case got == newContent:
		cls = append(cls, "result:new-content")
		if limit < len(newContent) {
			return pbt.Fail("the writing process may not write files beyond %d bytes, yet the configuration file holds the new content of %d bytes", limit, len(newContent))
		}
	case len(got) == len(newContent) && checkWritten(oldContent, got, eff) == nil && limit >= len(newContent):
		// several new keys are appended in no particular order: another complete new content of the same size
		cls = append(cls, "result:new-content(other-key-order)")
	default:
		return pbt.Fail("the write of the new content (%d bytes) failed part of the way (file size limit %d bytes, as on a full disk); afterwards the configuration file holds %d bytes that are neither the old (%d bytes) nor the new complete content: %q", len(newContent), limit, len(got), len(oldContent), abbreviate(got, 160))
	}
	return &pbt.Result{NT: limit < len(newContent) && oldContent != newContent, Classes: cls}
}

var faultSpec = pbt.Register(pbt.Spec[FaultCase]{
	Prop: "C18", Name: "write-fails-part-of-the-way",
	Rule:  "cases as in write-crash-points (without the symbolic link); the SetValues is performed twice by a helper process on copies of the same home: once unhindered (its result, judged by the write-back oracle, is the new content) and once with the process's file size limit (RLIMIT_FSIZE, SIGXFSZ ignored) set to 1 byte, 64 bytes, half of the new content, the new content less one byte, or exactly the new content, so that writing the new content fails with EFBIG part of the way - the fault a full disk or an exhausted quota produces (seed C18-s24); afterwards the configuration file must hold exactly the old or exactly the new complete content; non-trivial = the limit is below the new content and the content would change; distinct by case",
	Quick: 60, Thorough: 2000,
	Draw: func(t *rapid.T) FaultCase {
		return FaultCase{Crash: drawCrash(t), Limit: rapid.IntRange(0, 4).Draw(t, "limit")}
	},
	Run: runWriteFault,
})

func TestWriteFailsPartOfTheWay(t *testing.T) { faultSpec.Check(t) }
