//go:build !race

package c18

const raceEnabled = false
