// C18 File configuration tracks the file, notifies observers and writes back safely.
//
// Shared parts of the package: the model of a configuration file (lines that the
// harness renders itself, so the expected key/value pairs are known by
// construction), an independent reader of the properties syntax (used to judge
// what golib wrote), the generators and the typed-getter oracle.
package c18

import (
	"fmt"
	"math"
	"os"
	"path/filepath"
	"regexp"
	"sort"
	"strconv"
	"strings"
	"sync"
	"testing"
	"time"
	"unicode"
	"unicode/utf8"

	"github.com/whatap/golib/config"
	"github.com/whatap/golib/config/conffile"
	"pgregory.net/rapid"
	"verif/pbt"
)

func TestMain(m *testing.M) {
	// The configuration path must come from WithHomePath alone.
	for _, k := range []string{"WHATAP_CONFIG_HOME", "WHATAP_CONFIG", "WHATAP_HOME"} {
		os.Unsetenv(k)
	}
	if role := os.Getenv(helperEnv); role != "" {
		// a helper whose test process has gone away (killed by the driver) must not linger
		if os.Getenv(helperParentEnv) != "" {
			go func() {
				for {
					time.Sleep(250 * time.Millisecond)
					if strconv.Itoa(os.Getppid()) != os.Getenv(helperParentEnv) {
						os.Exit(9)
					}
				}
			}()
		}
		os.Exit(helperMain(role))
	}
	if err := probeFileSystem(); err != nil {
		fmt.Printf("INCONCLUSIVE: %v\n", err)
		os.Exit(2)
	}
	pbt.Main(m, "C18")
}

func TestReplay(t *testing.T) { pbt.Replay(t) }

const confName = "whatap.conf"

// ---- file model -----------------------------------------------------------------

// Line is one physical line of a generated configuration file.
type Line struct {
	Kind  string `json:"kind"`            // "kv", "comment" or "blank"
	Key   string `json:"key,omitempty"`   // kv: the key
	Val   string `json:"val,omitempty"`   // kv: the value the line expresses (before the getters trim it)
	Style int    `json:"style,omitempty"` // kv: 0 = value written raw (only backslashes doubled), 1 = properties escapes (\t \= \: \# \uXXXX)
	Lead  int    `json:"lead,omitempty"`  // kv: blanks before the key
	SpL   int    `json:"spl,omitempty"`   // kv: blanks before '='
	SpR   int    `json:"spr,omitempty"`   // kv: blanks after '='
	Text  string `json:"text,omitempty"`  // comment / blank: the complete line
	Pad   int    `json:"pad,omitempty"`   // comment: this many '.' follow Text (lines longer than an I/O buffer)
}

// findingLongLines: write-back splits lines longer than 4096 bytes (candidate
// finding of this check; long lines are generated unless it is listed as open).
const findingLongLines = "F45"

type File struct {
	Lines          []Line `json:"lines"`
	NoFinalNewline bool   `json:"no_final_newline,omitempty"`
}

func escapeValue(v string, style int) string {
	var sb strings.Builder
	for _, r := range v {
		switch {
		case r == '\\':
			sb.WriteString(`\\`)
		case style == 1 && r == '\t':
			sb.WriteString(`\t`)
		case style == 1 && (r == '=' || r == ':' || r == '#' || r == '!'):
			sb.WriteByte('\\')
			sb.WriteRune(r)
		case style == 1 && r > 0x7e && r <= 0xffff:
			fmt.Fprintf(&sb, `\u%04X`, r)
		default:
			sb.WriteRune(r)
		}
	}
	return sb.String()
}

func (l Line) render() string {
	if l.Kind != "kv" {
		return l.Text + strings.Repeat(".", l.Pad)
	}
	return strings.Repeat(" ", l.Lead) + l.Key + strings.Repeat(" ", l.SpL) + "=" + strings.Repeat(" ", l.SpR) + escapeValue(l.Val, l.Style)
}

func (f *File) render() string {
	var parts []string
	for _, l := range f.Lines {
		parts = append(parts, l.render())
	}
	s := strings.Join(parts, "\n")
	if len(parts) > 0 && !f.NoFinalNewline {
		s += "\n"
	}
	return s
}

// kvs returns the key/value pairs of the file (keys are unique by construction).
func (f *File) kvs() map[string]string {
	m := map[string]string{}
	for _, l := range f.Lines {
		if l.Kind == "kv" {
			m[l.Key] = l.Val
		}
	}
	return m
}

func (f *File) has(kind string, pred func(Line) bool) bool {
	for _, l := range f.Lines {
		if l.Kind == kind && (pred == nil || pred(l)) {
			return true
		}
	}
	return false
}

// ---- independent reader of the properties syntax -------------------------------------

// Item is one logical line of a properties file as the reference reader sees it.
type Item struct {
	Kind string // "kv", "comment", "blank"
	Raw  string // physical text (without the line terminator)
	Key  string
	Val  string
}

const propBlanks = " \t\f"

func refUnescape(rs []rune, i int, out *[]rune) (int, error) {
	// rs[i] is the character after the backslash
	if i >= len(rs) {
		return i, fmt.Errorf("backslash at end of input")
	}
	switch r := rs[i]; r {
	case 'f':
		*out = append(*out, '\f')
	case 'n':
		*out = append(*out, '\n')
	case 'r':
		*out = append(*out, '\r')
	case 't':
		*out = append(*out, '\t')
	case 'u':
		if i+4 >= len(rs) {
			return i, fmt.Errorf("short unicode escape")
		}
		n, err := strconv.ParseUint(string(rs[i+1:i+5]), 16, 32)
		if err != nil {
			return i, fmt.Errorf("bad unicode escape")
		}
		*out = append(*out, rune(n))
		return i + 5, nil
	default:
		*out = append(*out, r)
	}
	return i + 1, nil
}

// refParse reads properties text (written from the format description: '#'/'!'
// comments, key ended by blank, '=' or ':', leading blanks of the value dropped,
// backslash escapes, a trailing odd backslash continues the line).
func refParse(content string) ([]Item, error) {
	var items []Item
	lines := strings.Split(content, "\n")
	if n := len(lines); n > 0 && lines[n-1] == "" {
		lines = lines[:n-1]
	}
	for i := 0; i < len(lines); i++ {
		raw := lines[i]
		body := strings.TrimLeft(raw, propBlanks)
		if body == "" {
			items = append(items, Item{Kind: "blank", Raw: raw})
			continue
		}
		if body[0] == '#' || body[0] == '!' {
			items = append(items, Item{Kind: "comment", Raw: raw})
			continue
		}
		// continuation lines
		logical := body
		for trailingBackslashes(logical)%2 == 1 && i+1 < len(lines) {
			i++
			raw += "\n" + lines[i]
			logical = logical[:len(logical)-1] + strings.TrimLeft(lines[i], propBlanks)
		}
		rs := []rune(logical)
		var key, val []rune
		p := 0
		for p < len(rs) {
			r := rs[p]
			if r == '\\' {
				np, err := refUnescape(rs, p+1, &key)
				if err != nil {
					return nil, err
				}
				p = np
				continue
			}
			if strings.ContainsRune(propBlanks+"=:", r) {
				break
			}
			key = append(key, r)
			p++
		}
		for p < len(rs) && strings.ContainsRune(propBlanks, rs[p]) {
			p++
		}
		if p < len(rs) && (rs[p] == '=' || rs[p] == ':') {
			p++
		}
		for p < len(rs) && strings.ContainsRune(propBlanks, rs[p]) {
			p++
		}
		for p < len(rs) {
			if rs[p] == '\\' {
				np, err := refUnescape(rs, p+1, &val)
				if err != nil {
					return nil, err
				}
				p = np
				continue
			}
			val = append(val, rs[p])
			p++
		}
		items = append(items, Item{Kind: "kv", Raw: raw, Key: string(key), Val: string(val)})
	}
	return items, nil
}

func trailingBackslashes(s string) int {
	n := 0
	for n < len(s) && s[len(s)-1-n] == '\\' {
		n++
	}
	return n
}

// itemsMap: last occurrence of a key wins; empty values are "not set".
func itemsMap(items []Item) map[string]string {
	m := map[string]string{}
	for _, it := range items {
		if it.Kind == "kv" {
			if it.Val == "" {
				delete(m, it.Key)
			} else {
				m[it.Key] = it.Val
			}
		}
	}
	return m
}

// ---- generators -----------------------------------------------------------------

var keyRe = regexp.MustCompile(`^[A-Za-z_][\w.\-]*$`)

func genKey() *rapid.Generator[string] {
	return rapid.OneOf(
		rapid.StringMatching(`[A-Za-z_][A-Za-z0-9_.\-]{0,10}`),
		rapid.SampledFrom([]string{"debug", "net_udp_port", "license", "whatap.server.host", "app-name", "_x", "K9", "a.b-c_d", "tx_max_count", "mtrace_rate"}),
	)
}

// genKeyPool draws n distinct keys.
func genKeyPool(t *rapid.T, n int) []string {
	seen := map[string]bool{}
	var pool []string
	for len(pool) < n {
		k := genKey().Draw(t, "key")
		if seen[k] || strings.HasPrefix(k, "verif.absent") {
			k = fmt.Sprintf("%s%d", k, len(pool))
		}
		if seen[k] {
			continue
		}
		seen[k] = true
		pool = append(pool, k)
	}
	return pool
}

var specials = []rune("=:#!$%\"{}\t\\ ',;|./@&*()[]<>?~^+`-_")
var sampleRunes = []rune("éüßñΩжשׁ中한글あ€₩—¡¿😀𝒳")

func genRune() *rapid.Generator[rune] {
	return rapid.OneOf(
		rapid.RuneFrom([]rune("abcdefghijklmnopqrstuvwxyzABCDEFGHIJKLMNOPQRSTUVWXYZ0123456789")),
		rapid.SampledFrom(specials),
		rapid.SampledFrom(specials),
		rapid.SampledFrom(sampleRunes),
		rapid.RuneFrom(nil, unicode.L, unicode.N, unicode.P, unicode.S),
	)
}

// sanitizeValue enforces the stated preconditions on a value: printable (or tab),
// no newline, no leading blank, no "${", no doubled backslash, no Unicode space
// other than blank/tab at the ends.
func sanitizeValue(rs []rune) string {
	out := make([]rune, 0, len(rs))
	for _, r := range rs {
		if r != '\t' && (!unicode.IsPrint(r) || r == utf8.RuneError) {
			r = '?'
		}
		if n := len(out); n > 0 {
			if out[n-1] == '$' && r == '{' {
				r = '('
			}
			if out[n-1] == '\\' && r == '\\' {
				r = '/'
			}
		}
		out = append(out, r)
	}
	if len(out) > 0 && (out[0] == ' ' || out[0] == '\t') {
		out[0] = 'x'
	}
	return string(out)
}

func genFreeValue() *rapid.Generator[string] {
	return rapid.Custom(func(t *rapid.T) string {
		rs := rapid.SliceOfN(genRune(), 1, 14).Draw(t, "runes")
		return sanitizeValue(rs)
	})
}

var boolForms = []string{"true", "false", "true", "false", "1", "0", "t", "f", "T", "F", "TRUE", "FALSE", "True", "False",
	"yes", "no", "on", "off", "tru", "2", "t rue", "truefalse", "0x1", "-1"}

var intForms = []string{"0", "1", "-1", "+7", "007", "-0", "80", "6600", "2147483647", "-2147483648", "2147483648", "-2147483649",
	"4294967297", "9223372036854775807", "-9223372036854775808", "9223372036854775808", "-9223372036854775809", "99999999999999999999",
	"12a", "1.5", "0x10", "1_000", "1e3", "١٢٣", "-", "+", "1 2", "--1", "1-", "٣", "1,000"}

var floatForms = []string{"0", "-0", "1.5", "-2.25", ".5", "5.", "1e10", "1E-3", "3.4028235e38", "3.5e38", "1e39", "-1e39", "1e-46", "1.401298464324817e-45",
	"16777217", "0.1", "NaN", "nan", "Inf", "+Inf", "-inf", "infinity", "0x1p-2", "1_0", "1,5", "abc", "1.5f", "1e", "e5", "--1.0", "1.0.0", "٣.٥"}

func genIntText() *rapid.Generator[string] {
	return rapid.OneOf(
		rapid.SampledFrom(intForms),
		rapid.Custom(func(t *rapid.T) string {
			return strconv.FormatInt(rapid.OneOf(rapid.Int64Range(-100, 100), rapid.Int64Range(math.MinInt32-3, math.MaxInt32+3), rapid.Int64()).Draw(t, "int"), 10)
		}),
	)
}

func genFloatText() *rapid.Generator[string] {
	return rapid.OneOf(
		rapid.SampledFrom(floatForms),
		rapid.Custom(func(t *rapid.T) string {
			f := rapid.Float64().Draw(t, "float")
			return strconv.FormatFloat(f, byte(rapid.SampledFrom([]rune("gfe")).Draw(t, "fmt")), -1, 64)
		}),
	)
}

var delims = []string{",", ",", ",", ";", "|", ":"}

func genListText(elem *rapid.Generator[string]) *rapid.Generator[string] {
	return rapid.Custom(func(t *rapid.T) string {
		n := rapid.IntRange(1, 5).Draw(t, "n")
		d := rapid.SampledFrom(delims).Draw(t, "listdelim")
		var sb strings.Builder
		for i := 0; i < n; i++ {
			if i > 0 {
				sb.WriteString(strings.Repeat(" ", rapid.IntRange(0, 1).Draw(t, "b1")))
				sb.WriteString(d)
				sb.WriteString(strings.Repeat(" ", rapid.IntRange(0, 1).Draw(t, "b2")))
			}
			sb.WriteString(elem.Draw(t, "elem"))
		}
		return sb.String()
	})
}

var wordGen = rapid.StringMatching(`[A-Za-z0-9_./é한-]{1,6}`)

// genValue draws a value: free text over printable Unicode or the text of a typed
// value (well-formed or malformed), optionally followed by blanks.
func genValue() *rapid.Generator[string] {
	return rapid.Custom(func(t *rapid.T) string {
		var v string
		switch rapid.IntRange(0, 9).Draw(t, "vkind") {
		case 0, 1, 2:
			v = genFreeValue().Draw(t, "free")
		case 3:
			v = rapid.SampledFrom(boolForms).Draw(t, "bool")
		case 4, 5:
			v = genIntText().Draw(t, "inttext")
		case 6:
			v = genFloatText().Draw(t, "floattext")
		case 7:
			v = genListText(rapid.OneOf(genIntText(), genIntText(), wordGen)).Draw(t, "intlist")
		case 8:
			v = genListText(wordGen).Draw(t, "strlist")
		default:
			v = rapid.SampledFrom([]string{`C:\dir\file`, `a\`, `\`, `\t`, `x\u0041`, `a=b`, `=x`, `:x`, `#x`, `!x`, `a # b`, `50%`, `"q"`, `{}`, `$HOME`, `$ {x}`, `a\ b`, "a\tb", "tab\t", `\n`}).Draw(t, "special")
		}
		switch rapid.IntRange(0, 5).Draw(t, "tail") {
		case 0:
			v += " "
		case 1:
			v += "  \t"
		}
		return sanitizeValue([]rune(v))
	})
}

var commentTexts = []string{"# comment", "#", "! bang", "# a = b = c", "#k=v", "# note =", "#  x=y  ", "! bang = 1", "# key = value", "#a=b=c", "  # indented = comment",
	"# 한글 = 값", "# trailing blanks   ", "#=", "# = x", "# see http://host/?a=1&b=2", "!x = y = z ", "# debug=true", "#\tTab = separated"}

func genComment() *rapid.Generator[string] {
	return rapid.OneOf(
		rapid.SampledFrom(commentTexts),
		rapid.Custom(func(t *rapid.T) string {
			lead := rapid.SampledFrom([]string{"#", "# ", "!", "  #", "#\t"}).Draw(t, "clead")
			body := genFreeValue().Draw(t, "cbody")
			return lead + body
		}),
	)
}

// genFile draws a file whose kv lines use distinct keys of the pool.
func genFile(t *rapid.T, pool []string, maxLines int, emptyValues bool, sub ...string) File {
	var f File
	n := rapid.IntRange(0, maxLines).Draw(t, "nlines")
	perm := rapid.Permutation(pool).Draw(t, "keyorder")
	next := 0
	for i := 0; i < n; i++ {
		k := rapid.IntRange(0, 9).Draw(t, "linekind")
		switch {
		case k <= 5 && next < len(perm):
			l := Line{Kind: "kv", Key: perm[next]}
			next++
			if emptyValues && rapid.IntRange(0, 11).Draw(t, "emptyval") == 0 {
				l.Val = ""
			} else {
				l.Val = genValue().Draw(t, "val")
			}
			l.Style = rapid.SampledFrom([]int{0, 0, 0, 1}).Draw(t, "style")
			l.Lead = rapid.SampledFrom([]int{0, 0, 0, 0, 1, 2}).Draw(t, "lead")
			l.SpL = rapid.SampledFrom([]int{0, 0, 0, 1, 2}).Draw(t, "spl")
			l.SpR = rapid.SampledFrom([]int{0, 0, 0, 1, 2}).Draw(t, "spr")
			f.Lines = append(f.Lines, l)
		case k <= 8:
			l := Line{Kind: "comment", Text: genComment().Draw(t, "comment")}
			if len(sub) > 0 && rapid.IntRange(0, 11).Draw(t, "longline?") == 0 {
				if pbt.KnownOpen(findingLongLines) {
					pbt.CountExcluded(sub[0], 1)
				} else {
					l.Pad = rapid.SampledFrom([]int{3000, 4070, 4090, 4096, 5000, 9000, 65500, 65536, 70000, 140000}).Draw(t, "pad")
				}
			}
			f.Lines = append(f.Lines, l)
		default:
			f.Lines = append(f.Lines, Line{Kind: "blank", Text: rapid.SampledFrom([]string{"", "", "  ", "\t"}).Draw(t, "blank")})
		}
	}
	// (a file cannot end without a line terminator in an empty last line)
	f.NoFinalNewline = len(f.Lines) > 0 && rapid.IntRange(0, 7).Draw(t, "nofinalnl") == 0 && f.Lines[len(f.Lines)-1].render() != ""
	return f
}

// ---- harness-side helpers ---------------------------------------------------------

// checkCaseFile is the harness self-check: the reference reader must read back
// exactly what the renderer was asked to express (otherwise the harness is wrong,
// not golib) and the case must satisfy the stated preconditions.
func checkCaseFile(f *File) error {
	seen := map[string]bool{}
	for _, l := range f.Lines {
		switch l.Kind {
		case "kv":
			if !keyRe.MatchString(l.Key) || seen[l.Key] {
				return fmt.Errorf("case precondition: key %q invalid or repeated", l.Key)
			}
			seen[l.Key] = true
			if l.Val != sanitizeValue([]rune(l.Val)) || strings.ContainsAny(l.Val, "\r\n") {
				return fmt.Errorf("case precondition: value %q outside the stated domain", l.Val)
			}
			if _, isEnv := os.LookupEnv(l.Key); isEnv {
				return fmt.Errorf("case precondition: key %q is an environment variable", l.Key)
			}
		case "comment", "blank":
			if strings.ContainsAny(l.Text, "\r\n") || l.Pad < 0 || (l.Pad > 0 && l.Kind != "comment") {
				return fmt.Errorf("case precondition: line break inside a line / padding")
			}
			b := strings.TrimLeft(l.Text, propBlanks)
			if l.Kind == "blank" && b != "" || l.Kind == "comment" && (b == "" || (b[0] != '#' && b[0] != '!')) {
				return fmt.Errorf("case precondition: %s line %q", l.Kind, l.Text)
			}
		default:
			return fmt.Errorf("case precondition: line kind %q", l.Kind)
		}
	}
	items, err := refParse(f.render())
	if err != nil {
		return fmt.Errorf("harness self-check: reference reader rejects the rendered file: %v", err)
	}
	if len(items) != len(f.Lines) {
		return fmt.Errorf("harness self-check: %d lines rendered, %d read", len(f.Lines), len(items))
	}
	for i, l := range f.Lines {
		if items[i].Kind != l.Kind || (l.Kind == "kv" && (items[i].Key != l.Key || items[i].Val != l.Val)) {
			return fmt.Errorf("harness self-check: line %d %+v read back as %+v", i, l, items[i])
		}
	}
	return nil
}

// tempBase prefers a memory-backed directory: the write-back path syncs the file,
// which on a busy disk costs far more than everything else the checks do.
var tempBase = func() string {
	if d, err := os.MkdirTemp("/dev/shm", "verif-c18-probe-"); err == nil {
		os.RemoveAll(d)
		return "/dev/shm"
	}
	return ""
}()

// guard arms the hang detector for one in-process case: a reload that never
// returns (for instance a lock held while observers call getters) cannot be
// cancelled, so the watchdog stores the case as replay file and ends the process.
var (
	wdMu sync.Mutex
	wds  = map[string]*pbt.Watchdog{}
)

const hangLimit = 30 * time.Second

func guard(check string, c interface{}) (done func()) {
	wdMu.Lock()
	w := wds[check]
	if w == nil {
		w = pbt.NewWatchdog("C18", check, hangLimit)
		wds[check] = w
	}
	wdMu.Unlock()
	w.Begin(c, "the case did not finish (a reload, getter or SetValues call never returned)")
	return w.End
}

func mkHome() string {
	d, err := os.MkdirTemp(tempBase, "verif-c18-")
	if err != nil {
		panic(err)
	}
	return d
}

// baseTime is the model time of the first version of a file; all later
// modification times are derived from it by the case (never from the clock).
const baseSec = int64(1_700_000_000)

func writeAt(path, content string, mtimeNs int64) error {
	if err := os.WriteFile(path, []byte(content), 0o644); err != nil {
		return err
	}
	return setMtime(path, mtimeNs)
}

func setMtime(path string, mtimeNs int64) error {
	tm := time.Unix(0, mtimeNs)
	if err := os.Chtimes(path, tm, tm); err != nil {
		return err
	}
	st, err := os.Stat(path)
	if err != nil {
		return err
	}
	if st.ModTime().UnixNano() != mtimeNs {
		return fmt.Errorf("file system stored mtime %d instead of %d", st.ModTime().UnixNano(), mtimeNs)
	}
	return nil
}

// probeFileSystem verifies that the temp directory keeps nanosecond modification
// times (otherwise edits inside one second cannot be expressed at all).
func probeFileSystem() error {
	home := mkHome()
	defer os.RemoveAll(home)
	p := filepath.Join(home, "probe")
	for _, ns := range []int64{baseSec*1e9 + 1, baseSec*1e9 + 999_999_999} {
		if err := writeAt(p, "x", ns); err != nil {
			return fmt.Errorf("temp directory %s unsuitable: %v", home, err)
		}
	}
	return nil
}

// ---- typed getter oracle ----------------------------------------------------------

// Defaults are the defaults handed to the typed getters in one round of checks.
type Defaults struct {
	S    string  `json:"s"`
	B    bool    `json:"b"`
	I    int32   `json:"i"`
	L    int64   `json:"l"`
	F    float64 `json:"f"` // a finite float32 value
	Set  string  `json:"set"`
	Arr  string  `json:"arr"`
	Deli string  `json:"deli"`
}

func genDefaults() *rapid.Generator[Defaults] {
	return rapid.Custom(func(t *rapid.T) Defaults {
		deli := rapid.SampledFrom(delims).Draw(t, "deli")
		return Defaults{
			S:    rapid.SampledFrom([]string{"", "dflt", "default value", "0", "né"}).Draw(t, "defs"),
			B:    rapid.Bool().Draw(t, "defb"),
			I:    rapid.OneOf(rapid.Int32Range(-5, 5), rapid.Int32()).Draw(t, "defi"),
			L:    rapid.OneOf(rapid.Int64Range(-5, 5), rapid.Int64()).Draw(t, "defl"),
			F:    float64(rapid.SampledFrom([]float32{0, 1, -1, 0.5, 1e10, -2.5e-3, math.MaxFloat32}).Draw(t, "deff")),
			Set:  rapid.SampledFrom([]string{"", "7", "1" + deli + "2", "-3" + deli + " 4 " + deli + "5"}).Draw(t, "defset"),
			Arr:  rapid.SampledFrom([]string{"", "x", "x" + deli + "y", " p " + deli + "q"}).Draw(t, "defarr"),
			Deli: deli,
		}
	})
}

// splitTokens splits on the single-character delimiter; ok is false when a token
// is blank (what such a token means is not stated, so nothing is asserted then).
func splitTokens(s, deli string) (tokens []string, ok bool) {
	if s == "" {
		return nil, true
	}
	ok = true
	for _, tk := range strings.Split(s, deli) {
		tk = strings.TrimSpace(tk)
		if tk == "" {
			ok = false
			continue
		}
		tokens = append(tokens, tk)
	}
	return tokens, ok
}

func intsOf(tokens []string) (vals []int32, allGood bool) {
	allGood = true
	for _, tk := range tokens {
		n, err := strconv.ParseInt(tk, 10, 32)
		if err != nil {
			allGood = false
			continue
		}
		vals = append(vals, int32(n))
	}
	return vals, allGood
}

func asSet(v []int32) []int32 {
	m := map[int32]bool{}
	for _, x := range v {
		m[x] = true
	}
	out := make([]int32, 0, len(m))
	for x := range m {
		out = append(out, x)
	}
	sort.Slice(out, func(i, j int) bool { return out[i] < out[j] })
	return out
}

func sameInts(a, b []int32) bool {
	if len(a) != len(b) {
		return false
	}
	for i := range a {
		if a[i] != b[i] {
			return false
		}
	}
	return true
}

func sameStrings(a, b []string) bool {
	if len(a) != len(b) {
		return false
	}
	for i := range a {
		if a[i] != b[i] {
			return false
		}
	}
	return true
}

// checkGetters compares every typed getter for key with the oracle: val is the
// value the file expresses for the key ("" with present=false: the key was never
// in the file). Returns class labels for the evidence.
func checkGetters(conf config.Config, key, val string, present bool, d Defaults, classes map[string]bool) error {
	tv := strings.TrimSpace(val)
	if !present {
		tv = ""
	}
	tag := "present"
	if !present {
		tag = "absent"
	}
	if got := conf.GetValue(key); got != tv {
		return fmt.Errorf("GetValue(%q) = %q, the file says %q (%s)", key, got, tv, tag)
	}
	wantS := tv
	if tv == "" {
		wantS = d.S
	}
	if got := conf.GetValueDef(key, d.S); got != wantS {
		return fmt.Errorf("GetValueDef(%q, %q) = %q, want %q (value %q)", key, d.S, got, wantS, tv)
	}
	// boolean
	wantB := d.B
	if b, err := strconv.ParseBool(tv); err == nil && tv != "" {
		wantB = b
		classes["bool:wellformed"] = true
	} else if present {
		classes["bool:malformed->default"] = true
	}
	if got := conf.GetBoolean(key, d.B); got != wantB {
		return fmt.Errorf("GetBoolean(%q, %v) = %v, want %v (value %q)", key, d.B, got, wantB, tv)
	}
	// int
	wantI := d.I
	if n, err := strconv.ParseInt(tv, 10, 32); err == nil {
		wantI = int32(n)
		classes["int:wellformed"] = true
	} else if present {
		classes["int:malformed->default"] = true
	}
	if got := conf.GetInt(key, int(d.I)); got != wantI {
		return fmt.Errorf("GetInt(%q, %d) = %d, want %d (value %q)", key, d.I, got, wantI, tv)
	}
	// long
	wantL := d.L
	if n, err := strconv.ParseInt(tv, 10, 64); err == nil {
		wantL = n
		classes["long:wellformed"] = true
	} else if present {
		classes["long:malformed->default"] = true
	}
	if got := conf.GetLong(key, d.L); got != wantL {
		return fmt.Errorf("GetLong(%q, %d) = %d, want %d (value %q)", key, d.L, got, wantL, tv)
	}
	// float
	wantF := float32(d.F)
	if f, err := strconv.ParseFloat(tv, 32); err == nil {
		wantF = float32(f)
		classes["float:wellformed"] = true
	} else if present {
		classes["float:malformed->default"] = true
	}
	if got := conf.GetFloat(key, float32(d.F)); math.Float32bits(got) != math.Float32bits(wantF) && !(got != got && wantF != wantF) {
		return fmt.Errorf("GetFloat(%q, %v) = %v, want %v (value %q)", key, float32(d.F), got, wantF, tv)
	}
	// int set
	src := tv
	if src == "" {
		src = d.Set
	}
	tokens, tokOK := splitTokens(src, d.Deli)
	ints, allGood := intsOf(tokens)
	gotSet := conf.GetIntSet(key, d.Set, d.Deli)
	if tokOK && allGood {
		if len(ints) > 0 {
			classes["intset:wellformed"] = true
		}
		if !sameInts(asSet(gotSet), asSet(ints)) {
			return fmt.Errorf("GetIntSet(%q, %q, %q) = %v, want the set %v (value %q)", key, d.Set, d.Deli, gotSet, asSet(ints), tv)
		}
	} else {
		// Some token is not an integer. The statement leaves two readings: the malformed element is skipped (every
		// well-formed element of the value is visible), or the value as a whole is malformed (the supplied default is
		// used). The result must be one of the two; in particular it may not be a part of the value (the elements before
		// the malformed one, say). A token that is an integer but does not fit 32 bits may or may not contribute its
		// wrapped image (not stated for the set getter).
		classes["intset:some-token-malformed"] = true
		dt, _ := splitTokens(d.Set, d.Deli)
		reading := func(toks []string) bool {
			must, may := map[int32]bool{}, map[int32]bool{}
			for _, tk := range toks {
				if n, err := strconv.ParseInt(tk, 10, 32); err == nil {
					must[int32(n)] = true
				} else if n, err := strconv.ParseInt(tk, 10, 64); err == nil {
					may[int32(n)] = true
					classes["intset:token-beyond-32-bits(not asserted)"] = true
				}
			}
			got := map[int32]bool{}
			for _, x := range gotSet {
				got[x] = true
				if !must[x] && !may[x] {
					return false
				}
			}
			for x := range must {
				if !got[x] && !may[x] {
					return false
				}
			}
			return true
		}
		if !reading(tokens) && !reading(dt) {
			return fmt.Errorf("GetIntSet(%q, %q, %q) = %v for the value %q with a malformed element: neither the well-formed elements of the value %v nor those of the default", key, d.Set, d.Deli, gotSet, tv, asSet(ints))
		}
	}
	// string array
	src = tv
	if src == "" {
		src = d.Arr
	}
	if toks, ok := splitTokens(src, d.Deli); ok {
		if len(toks) > 1 {
			classes["strarray:multi"] = true
		}
		got := conf.GetStringArray(key, d.Arr, d.Deli)
		if !sameStrings(got, toks) {
			return fmt.Errorf("GetStringArray(%q, %q, %q) = %q, want %q (value %q)", key, d.Arr, d.Deli, got, toks, tv)
		}
	} else {
		_ = conf.GetStringArray(key, d.Arr, d.Deli)
	}
	return nil
}

var absentKeys = []string{"verif.absent.one", "verif.absent.two"}

func sortedClasses(m map[string]bool) []string {
	out := make([]string, 0, len(m))
	for k := range m {
		out = append(out, k)
	}
	sort.Strings(out)
	return out
}

func newConf(home string, ob *config.ConfigObserver, extra ...conffile.FileConfigOption) *conffile.FileConfig {
	opts := []conffile.FileConfigOption{conffile.WithHomePath(home)}
	if ob != nil {
		opts = append(opts, conffile.WithConfigObserver(ob))
	}
	opts = append(opts, extra...)
	return conffile.NewForVerif(opts...)
}
