package c18

// concurrent-getters: reader goroutines spin on the getters while the main
// goroutine alternates "write a new version of the file" / "reload now". The
// scenario runs in a child process (the test binary in its "conc" role), built with
// -race in the driver's race group: a race report on the configuration map, a
// runtime fatal error (concurrent map read and map write) or a value that is not
// the value of ANY version of the key ends the child and is reported by the parent
// as a violation with the generated case as replay file.

import (
	"encoding/json"
	"fmt"
	"os"
	"path/filepath"
	"runtime"
	"sort"
	"strings"
	"sync"
	"sync/atomic"
	"testing"
	"time"

	"github.com/whatap/golib/config"
	"pgregory.net/rapid"
	"verif/pbt"
)

type ConcCase struct {
	Versions []File   `json:"versions"` // version 0 is on disk at construction, each later one is written and reloaded while the readers run
	Readers  int      `json:"readers"`
	Observer bool     `json:"observer"` // an observer that calls getters from inside the notification
	Def      Defaults `json:"def"`
	// Removed[i] (i >= 1): before version i is written the file is deleted and a reload runs while the readers
	// run (the configuration falls back to the built-in defaults); version i then re-creates the file
	Removed []bool `json:"removed,omitempty"`
}

// built-in defaults the readers watch as well: they are in force from construction on, whatever happens to the file
var builtinWatched = map[string]string{"enabled": "true", "net_udp_port": "6600"}

type concStats struct {
	Reads    []int64 `json:"reads"` // completed getter rounds per reader
	Reloads  int     `json:"reloads"`
	Removals int     `json:"removals"`
	Torn     string  `json:"torn,omitempty"`
}

type concObserver struct{ keys []string }

func (o *concObserver) ApplyConfig(conf config.Config) {
	for _, k := range o.keys {
		_ = conf.GetValue(k)
	}
}

// concChild runs inside the helper process. Exit status: 0 fine, 3 torn / stale state.
func concChild(c ConcCase) int {
	// the home lives inside the parent's scratch directory, which the parent removes
	// even when this process is ended by the runtime or the race detector
	home := filepath.Join(filepath.Dir(os.Getenv(specEnv)), "home")
	if err := os.Mkdir(home, 0o755); err != nil {
		fmt.Println("harness:", err)
		return 4
	}
	path := filepath.Join(home, confName)

	// every value a key ever has (trimmed, as GetValue reports it), plus "" (not loaded yet)
	allowed := map[string]map[string]bool{}
	for _, f := range c.Versions {
		for k, v := range f.kvs() {
			if allowed[k] == nil {
				allowed[k] = map[string]bool{"": true}
			}
			allowed[k][strings.TrimSpace(v)] = true
		}
	}
	// the built-in defaults come into force the first time the file is found missing and are merged over, never
	// removed, from then on: once that reload has returned, these keys can no longer read as ""
	var defaultsInForce atomic.Bool
	if len(c.Removed) > 0 {
		// what a configuration without a file reports: any key of the case may take its built-in default after a
		// removal (these values only widen the allowed sets; they are not what is judged here)
		nofile := filepath.Join(filepath.Dir(os.Getenv(specEnv)), "nofile-home")
		if err := os.Mkdir(nofile, 0o755); err != nil {
			fmt.Println("harness:", err)
			return 4
		}
		dc := newConf(nofile, nil)
		dc.ApplyDefault()
		for k := range allowed {
			allowed[k][dc.GetValue(k)] = true
		}
		dc.Destroy()
	}
	for k, dv := range builtinWatched {
		if allowed[k] == nil {
			allowed[k] = map[string]bool{"": true}
		}
		allowed[k][dv] = true
	}
	var keys []string
	for k := range allowed {
		keys = append(keys, k)
	}
	sort.Strings(keys)

	clock := baseSec * 1e9
	if err := writeAt(path, c.Versions[0].render(), clock); err != nil {
		fmt.Println("harness:", err)
		return 4
	}
	var ob *config.ConfigObserver
	if c.Observer {
		ob = config.NewConfigObserver()
		ob.Add("conc", &concObserver{keys: keys})
	}
	fc := newConf(home, ob)
	var conf config.Config = fc

	var stop atomic.Bool
	var tornMu sync.Mutex
	torn := ""
	counters := make([]atomic.Int64, c.Readers)
	var wg sync.WaitGroup
	d := c.Def
	for r := 0; r < c.Readers; r++ {
		wg.Add(1)
		go func(r int) {
			defer wg.Done()
			for n := 0; !stop.Load(); n++ {
				for i, k := range keys {
					inForce := defaultsInForce.Load()
					v := conf.GetValue(k)
					if _, builtin := builtinWatched[k]; builtin && inForce && v == "" {
						tornMu.Lock()
						if torn == "" {
							torn = fmt.Sprintf("reader %d: GetValue(%q) = \"\" although the built-in defaults have been in force since an earlier reload found the file missing (neither a file value nor the default)", r, k)
						}
						tornMu.Unlock()
						stop.Store(true)
					}
					if !allowed[k][v] {
						tornMu.Lock()
						if torn == "" {
							torn = fmt.Sprintf("reader %d: GetValue(%q) = %q, which no version of the file ever said", r, k, v)
						}
						tornMu.Unlock()
						stop.Store(true)
					}
					switch (n + i + r) % 9 {
					case 8:
						_ = conf.ToString()
						_ = conf.String()
					case 0:
						conf.GetValueDef(k, d.S)
					case 1:
						conf.GetBoolean(k, d.B)
					case 2:
						conf.GetInt(k, int(d.I))
					case 3:
						conf.GetLong(k, d.L)
					case 4:
						conf.GetFloat(k, float32(d.F))
					case 5:
						conf.GetIntSet(k, d.Set, d.Deli)
					case 6:
						conf.GetStringArray(k, d.Arr, d.Deli)
					case 7:
						conf.GetKeys()
					}
				}
				conf.GetValue(absentKeys[0])
				counters[r].Add(1)
			}
		}(r)
	}
	// progress-based waiting only: until every reader completed `more` further rounds
	waitRounds := func(more int64) {
		var from []int64
		for r := range counters {
			from = append(from, counters[r].Load())
		}
		for r := range counters {
			for counters[r].Load() < from[r]+more && !stop.Load() {
				runtime.Gosched()
			}
		}
	}
	waitRounds(1)
	reloads := 0
	removals := 0
	for i := 1; i < len(c.Versions) && !stop.Load(); i++ {
		if i < len(c.Removed) && c.Removed[i] {
			if err := os.Remove(path); err != nil {
				fmt.Println("harness:", err)
				stop.Store(true)
				wg.Wait()
				return 4
			}
			fc.ReloadNowForVerif()
			defaultsInForce.Store(true)
			removals++
			waitRounds(2)
		}
		clock += 1_000_000_007 // a later second: this check does not depend on sub-second mtimes
		if err := writeAt(path, c.Versions[i].render(), clock); err != nil {
			fmt.Println("harness:", err)
			stop.Store(true)
			wg.Wait()
			return 4
		}
		fc.ReloadNowForVerif()
		reloads++
		waitRounds(2)
	}
	stop.Store(true)
	wg.Wait()
	st := concStats{Reloads: reloads, Removals: removals, Torn: torn}
	for r := range counters {
		st.Reads = append(st.Reads, counters[r].Load())
	}
	if torn == "" {
		// quiescent now: the last version must be visible
		last := c.Versions[len(c.Versions)-1]
		for k, v := range last.kvs() {
			if tv := strings.TrimSpace(v); tv != "" && conf.GetValue(k) != tv {
				st.Torn = fmt.Sprintf("after the readers stopped GetValue(%q) = %q, the file says %q", k, conf.GetValue(k), tv)
			}
		}
	}
	fc.Destroy()
	b, _ := json.Marshal(st)
	fmt.Printf("C18STATS %s\n", b)
	if st.Torn != "" {
		return 3
	}
	return 0
}

func drawConc(t *rapid.T) ConcCase {
	pool := genKeyPool(t, rapid.IntRange(2, 5).Draw(t, "npool"))
	c := ConcCase{Readers: 4, Observer: rapid.Bool().Draw(t, "observer")}
	n := rapid.IntRange(3, 8).Draw(t, "nversions")
	for i := 0; i < n; i++ {
		f := genFile(t, pool, 6, false)
		if !f.has("kv", nil) { // every version changes the map
			f.Lines = append(f.Lines, Line{Kind: "kv", Key: pool[0], Val: fmt.Sprintf("v%d", i)})
			f.NoFinalNewline = false
		}
		c.Versions = append(c.Versions, f)
	}
	c.Def = genDefaults().Draw(t, "def")
	if rapid.Bool().Draw(t, "withremovals") {
		c.Removed = make([]bool, n)
		for i := 1; i < n; i++ {
			c.Removed[i] = rapid.IntRange(0, 2).Draw(t, "removed") == 0
		}
	}
	return c
}

// excerpt keeps the informative head of a race report / fatal error.
func excerpt(out, marker string, lines int) string {
	i := strings.Index(out, marker)
	if i < 0 {
		i = 0
	}
	ls := strings.Split(out[i:], "\n")
	if len(ls) > lines {
		ls = ls[:lines]
	}
	return strings.Join(ls, "\n")
}

func runConc(c ConcCase) *pbt.Result {
	if len(c.Versions) < 2 || c.Readers < 1 {
		panic("case precondition: at least two versions and one reader")
	}
	for i := range c.Versions {
		if err := checkCaseFile(&c.Versions[i]); err != nil {
			if strings.Contains(err.Error(), "environment variable") {
				return &pbt.Result{Classes: []string{"skipped:key-is-environment-variable"}}
			}
			panic(err)
		}
	}
	dir := mkHome()
	defer os.RemoveAll(dir)
	out, exit, timedOut, err := runHelper("conc", c, dir, nil, []string{"GORACE=halt_on_error=1 exitcode=66 atexit_sleep_ms=0"}, 180*time.Second)
	if err != nil {
		panic(fmt.Sprintf("harness: cannot run the helper process: %v", err))
	}
	switch {
	case timedOut:
		return pbt.Fail("readers and reload did not finish within 180 s (hang)\n%s", excerpt(out, "", 30))
	case strings.Contains(out, "DATA RACE"):
		return pbt.Fail("race detector report while getters ran concurrently with a reload:\n%s", excerpt(out, "WARNING: DATA RACE", 40))
	case strings.Contains(out, "fatal error:"):
		return pbt.Fail("runtime fatal error while getters ran concurrently with a reload:\n%s", excerpt(out, "fatal error:", 30))
	}
	var st concStats
	if i := strings.Index(out, "C18STATS "); i >= 0 {
		line := out[i+len("C18STATS "):]
		if j := strings.IndexByte(line, '\n'); j >= 0 {
			line = line[:j]
		}
		_ = json.Unmarshal([]byte(line), &st)
	}
	if exit == 3 {
		return pbt.Fail("torn or stale state: %s", st.Torn)
	}
	if exit != 0 || len(st.Reads) == 0 {
		return pbt.Fail("the helper process ended abnormally (exit %d):\n%s", exit, excerpt(out, "", 40))
	}
	minReads := st.Reads[0]
	var total int64
	for _, n := range st.Reads {
		if n < minReads {
			minReads = n
		}
		total += n
	}
	classes := []string{fmt.Sprintf("reloads:%d", st.Reloads)}
	if c.Observer {
		classes = append(classes, "observer-calls-getters")
	}
	if st.Removals > 0 {
		classes = append(classes, "file-removed-and-recreated-while-readers-run")
	}
	if raceEnabled {
		classes = append(classes, "race-detector:on")
	} else {
		classes = append(classes, "race-detector:off")
	}
	concMu.Lock()
	concRounds += total
	pbt.Extra("concurrent-getters", "getter_rounds_total_this_shard", concRounds)
	concMu.Unlock()
	return &pbt.Result{NT: st.Reloads >= 2 && minReads >= int64(2*st.Reloads), Classes: classes}
}

var (
	concMu     sync.Mutex
	concRounds int64
)

var concSpec = pbt.Register(pbt.Spec[ConcCase]{
	Prop: "C18", Name: "concurrent-getters",
	Rule:  "3-8 versions of a file over 2-5 keys; a child process (this binary, built with -race) creates the configuration on version 0, starts 4 readers spinning over GetValue + one of GetValueDef/GetBoolean/GetInt/GetLong/GetFloat/GetIntSet/GetStringArray/GetKeys/ToString+String per key, then writes and reloads every later version while the readers run, in half of the cases deleting the file and reloading (fallback to the built-in defaults) before some of the versions; the readers also watch the built-in defaults enabled and net_udp_port, which read as the default or a value a version gave them and, once a reload has found the file missing, never as empty again (optionally with an observer that calls getters inside the notification); violation = race-detector report, runtime fatal error, hang, a GetValue result that no version of the key ever had, or the last version not visible at quiescence; non-trivial = at least 2 reloads and every reader completed at least 2 rounds per reload",
	Quick: 96, Thorough: 3200,
	Draw: drawConc, Run: runConc,
})

// The name starts with TestRace so that the driver's race-detector group can select
// it with -run. It also runs in the plain group (cheap: the scenario lives in a
// child process), where the runtime's own "concurrent map read and map write"
// detection and the torn-state oracle still apply; VERIF_C18_NORACE_SKIP=1 skips it there.
func TestRaceConcurrentGetters(t *testing.T) {
	if !raceEnabled && os.Getenv("VERIF_C18_NORACE_SKIP") != "" {
		t.Skip("skipped outside the race-detector group on request")
	}
	concSpec.Check(t)
}
