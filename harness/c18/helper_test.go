package c18

// The test binary re-executes itself in a helper role (env VERIF_C18_HELPER):
//
//	setvalues  one SetValues on an existing home (run under strace by write-crash-points)
//	conc       the concurrent readers / reload scenario of concurrent-getters, so that a
//	           race report or a runtime fatal error ends the child, not the harness
//
// The role's input is a JSON file named by VERIF_C18_SPEC.

import (
	"bytes"
	"encoding/json"
	"fmt"
	"os"
	"os/exec"
	"os/signal"
	"strconv"
	"syscall"
	"time"

	"github.com/whatap/golib/config/conffile"
)

const (
	helperEnv = "VERIF_C18_HELPER"
	// helperParentEnv: pid of the process that is the helper's direct parent (set only when there is no wrapper)
	helperParentEnv = "VERIF_C18_HELPER_PARENT"
	specEnv         = "VERIF_C18_SPEC"
)

type setValuesSpec struct {
	Home    string   `json:"home"`
	Prefix  string   `json:"prefix"`
	Suffix  string   `json:"suffix"`
	Exclude []string `json:"exclude"`
	Set     []SetKV  `json:"set"`
	// FileLimit > 0: the process may not write a file beyond this many bytes (RLIMIT_FSIZE, SIGXFSZ ignored): the write of
	// the new content fails with EFBIG part of the way, like a full disk or an exhausted quota
	FileLimit int `json:"file_limit,omitempty"`
}

func helperMain(role string) int {
	raw, err := os.ReadFile(os.Getenv(specEnv))
	if err != nil {
		fmt.Println("helper: cannot read spec:", err)
		return 4
	}
	switch role {
	case "setvalues":
		var sp setValuesSpec
		if err := json.Unmarshal(raw, &sp); err != nil {
			fmt.Println("helper: bad spec:", err)
			return 4
		}
		var opts []conffile.FileConfigOption
		if sp.Prefix != "" {
			opts = append(opts, conffile.WithPrefix(sp.Prefix))
		}
		if sp.Suffix != "" {
			opts = append(opts, conffile.WithSuffix(sp.Suffix))
		}
		if len(sp.Exclude) > 0 {
			opts = append(opts, conffile.WithExcludeKeys(sp.Exclude))
		}
		fc := newConf(sp.Home, nil, opts...)
		arg := map[string]string{}
		for _, kv := range sp.Set {
			arg[kv.K] = kv.V
		}
		if sp.FileLimit > 0 {
			signal.Ignore(syscall.SIGXFSZ)
			lim := syscall.Rlimit{Cur: uint64(sp.FileLimit), Max: uint64(sp.FileLimit)}
			if err := syscall.Setrlimit(syscall.RLIMIT_FSIZE, &lim); err != nil {
				fmt.Println("helper: cannot set the file size limit:", err)
				return 5
			}
		}
		fmt.Println("C18HELPER-BEGIN")
		func() {
			defer func() { recover() }() // a write that reports its failure by panicking is as good as one that returns
			fc.SetValues(&arg)
		}()
		fmt.Println("C18HELPER-END")
		return 0
	case "conc":
		var c ConcCase
		if err := json.Unmarshal(raw, &c); err != nil {
			fmt.Println("helper: bad spec:", err)
			return 4
		}
		return concChild(c)
	}
	fmt.Println("helper: unknown role", role)
	return 4
}

// runHelper starts this test binary in a helper role (optionally under a wrapper
// command such as strace) and returns its combined output and exit code.
func runHelper(role string, spec interface{}, dir string, wrapper []string, extraEnv []string, limit time.Duration) (out string, exit int, timedOut bool, err error) {
	raw, err := json.Marshal(spec)
	if err != nil {
		return "", 0, false, err
	}
	specPath := dir + "/spec.json"
	if err := os.WriteFile(specPath, raw, 0o644); err != nil {
		return "", 0, false, err
	}
	exe, err := os.Executable()
	if err != nil {
		return "", 0, false, err
	}
	args := append(append([]string{}, wrapper...), exe)
	cmd := exec.Command(args[0], args[1:]...)
	cmd.Dir = dir
	cmd.Env = append(os.Environ(), helperEnv+"="+role, specEnv+"="+specPath)
	cmd.Env = append(cmd.Env, extraEnv...)
	if len(wrapper) == 0 {
		cmd.Env = append(cmd.Env, helperParentEnv+"="+strconv.Itoa(os.Getpid()))
	}
	var buf bytes.Buffer
	cmd.Stdout = &buf
	cmd.Stderr = &buf
	cmd.SysProcAttr = &syscall.SysProcAttr{Setpgid: true} // so that a wrapper and its child can be killed together
	if err := cmd.Start(); err != nil {
		return "", 0, false, err
	}
	done := make(chan error, 1)
	go func() { done <- cmd.Wait() }()
	select {
	case werr := <-done:
		if werr != nil {
			if ee, ok := werr.(*exec.ExitError); ok {
				return buf.String(), ee.ExitCode(), false, nil
			}
			return buf.String(), -1, false, werr
		}
		return buf.String(), 0, false, nil
	case <-time.After(limit):
		_ = syscall.Kill(-cmd.Process.Pid, syscall.SIGKILL)
		_ = cmd.Process.Kill()
		<-done
		return buf.String(), -1, true, nil
	}
}
