package c18

// write-back: SetValues on files with comments (with and without '='), blank
// lines and existing keys, with the prefix / suffix / exclusion options. The file
// golib leaves behind is read with the harness's own reader of the properties
// syntax and compared with old ∪ new.

import (
	"fmt"
	"os"
	"path/filepath"
	"sort"
	"strings"
	"testing"

	"github.com/whatap/golib/config"
	"github.com/whatap/golib/config/conffile"
	"pgregory.net/rapid"
	"verif/pbt"
)

type SetKV struct {
	K string `json:"k"`
	V string `json:"v"` // "" asks for the key to be removed
}

type WBCase struct {
	File    File      `json:"file"`
	Prefix  string    `json:"prefix,omitempty"`
	Suffix  string    `json:"suffix,omitempty"`
	Exclude []string  `json:"exclude,omitempty"`
	Sets    [][]SetKV `json:"sets"` // one SetValues call per entry
	Def     Defaults  `json:"def"`
	// Observers registered on the configuration: a change made through write-back is a change of the file like any other
	Observers int `json:"observers,omitempty"`
	// Stale: files lying next to the configuration file before the first SetValues (left by an interrupted earlier
	// write-back, an editor, a backup tool): name = configuration file name with this decoration, body of Size bytes
	Stale []StaleFile `json:"stale,omitempty"`
}

type StaleFile struct {
	Deco string `json:"deco"` // ".tmp" ".bak" "~" ".new" ".swp" ".lock"
	Size int    `json:"size"`
}

// effectiveKey is the meaning of the options: excluded keys are not written, the
// others get the prefix / suffix unless they already carry it.
func effectiveKey(k, prefix, suffix string, exclude []string) (string, bool) {
	for _, x := range exclude {
		if x == k {
			return "", false
		}
	}
	if prefix != "" && !strings.HasPrefix(k, prefix) {
		k = prefix + k
	}
	if suffix != "" && !strings.HasSuffix(k, suffix) {
		k = k + suffix
	}
	return k, true
}

// effectiveSet maps one SetValues argument to effective key -> value; ok=false
// when two entries collide on one effective key (the outcome would depend on map
// order, so the generator avoids it).
func effectiveSet(set []SetKV, prefix, suffix string, exclude []string) (map[string]string, bool) {
	out := map[string]string{}
	raw := map[string]bool{}
	for _, kv := range set {
		if raw[kv.K] {
			return nil, false
		}
		raw[kv.K] = true
		ek, written := effectiveKey(kv.K, prefix, suffix, exclude)
		if !written {
			continue
		}
		if _, dup := out[ek]; dup {
			return nil, false
		}
		out[ek] = kv.V
	}
	return out, true
}

func drawWriteBack(t *rapid.T) WBCase {
	pool := genKeyPool(t, rapid.IntRange(2, 7).Draw(t, "npool"))
	var c WBCase
	c.File = genFile(t, pool, 10, true, "write-back")
	switch rapid.IntRange(0, 5).Draw(t, "opts") {
	case 0:
		c.Prefix = rapid.SampledFrom([]string{"whatap.", "pre_", "p-"}).Draw(t, "prefix")
	case 1:
		c.Suffix = rapid.SampledFrom([]string{".x", "_s", "-0"}).Draw(t, "suffix")
	case 2:
		c.Prefix = rapid.SampledFrom([]string{"whatap.", "w"}).Draw(t, "prefix")
		c.Suffix = rapid.SampledFrom([]string{".x", "_s"}).Draw(t, "suffix")
	}
	ncalls := rapid.SampledFrom([]int{1, 1, 1, 2}).Draw(t, "ncalls")
	var candidates []string
	for i := 0; i < ncalls; i++ {
		n := rapid.IntRange(0, 4).Draw(t, "nset")
		var set []SetKV
		for j := 0; j < n; j++ {
			var k string
			switch rapid.IntRange(0, 3).Draw(t, "kkind") {
			case 0, 1: // a key of the pool (often already in the file)
				k = rapid.SampledFrom(pool).Draw(t, "poolkey")
				if c.Prefix != "" && strings.HasPrefix(k, c.Prefix) == false && rapid.Bool().Draw(t, "withprefix") {
					k = c.Prefix + k
				}
			default:
				k = "n" + genKey().Draw(t, "newkey")
			}
			v := ""
			if rapid.IntRange(0, 5).Draw(t, "delete?") > 0 {
				v = genValue().Draw(t, "setval")
			}
			set = append(set, SetKV{K: k, V: v})
			candidates = append(candidates, k)
		}
		// drop entries that would collide
		for {
			if _, ok := effectiveSet(set, c.Prefix, c.Suffix, nil); ok || len(set) == 0 {
				break
			}
			set = set[:len(set)-1]
		}
		c.Sets = append(c.Sets, set)
	}
	if len(candidates) > 0 && rapid.IntRange(0, 2).Draw(t, "exclude?") == 0 {
		c.Exclude = append(c.Exclude, rapid.SampledFrom(candidates).Draw(t, "excluded"))
		if rapid.Bool().Draw(t, "exclude-more") {
			c.Exclude = append(c.Exclude, "never-written")
		}
	}
	c.Def = genDefaults().Draw(t, "def")
	c.Observers = rapid.SampledFrom([]int{0, 0, 1, 2}).Draw(t, "observers")
	if rapid.IntRange(0, 3).Draw(t, "stale?") == 0 {
		n := rapid.IntRange(1, 2).Draw(t, "nstale")
		for i := 0; i < n; i++ {
			c.Stale = append(c.Stale, StaleFile{Deco: rapid.SampledFrom([]string{".tmp", ".tmp", ".bak", "~", ".new", ".swp", ".lock"}).Draw(t, "deco"),
				Size: rapid.SampledFrom([]int{0, 7, 300, 5000, 200000}).Draw(t, "stalesize")})
		}
	}
	return c
}

// shape is the order-relevant view of a file: comment and blank lines verbatim,
// key lines by key.
func shape(items []Item) []string {
	var out []string
	for _, it := range items {
		if it.Kind == "kv" {
			out = append(out, "K:"+it.Key)
		} else {
			out = append(out, "L:"+it.Raw)
		}
	}
	return out
}

// checkWritten judges the file after one SetValues: before/after are the file
// contents, eff the effective key -> value map of the call.
func checkWritten(before, after string, eff map[string]string) error {
	old, err := refParse(before)
	if err != nil {
		panic(fmt.Sprintf("harness: old content unreadable: %v", err))
	}
	got, err := refParse(after)
	if err != nil {
		return fmt.Errorf("the written file is not valid properties text: %v\nfile:\n%s", err, after)
	}
	// old ∪ new, empty = not set
	want := itemsMap(old)
	for k, v := range eff {
		if v == "" {
			delete(want, k)
		} else {
			want[k] = v
		}
	}
	seen := map[string]bool{}
	for _, it := range got {
		if it.Kind == "kv" {
			if seen[it.Key] && it.Val != "" {
				return fmt.Errorf("key %q appears twice in the written file\nfile:\n%s", it.Key, after)
			}
			seen[it.Key] = true
		}
	}
	have := itemsMap(got)
	var keys []string
	for k := range want {
		keys = append(keys, k)
	}
	for k := range have {
		if _, ok := want[k]; !ok {
			keys = append(keys, k)
		}
	}
	sort.Strings(keys)
	for _, k := range keys {
		w, wok := want[k]
		h, hok := have[k]
		if wok != hok || w != h {
			_, isNew := eff[k]
			kind := "untouched key"
			if isNew {
				kind = "written key"
			}
			return fmt.Errorf("%s %q: the file now says %q (present=%v), expected %q (present=%v)\nbefore:\n%s\nafter:\n%s", kind, k, h, hok, w, wok, before, after)
		}
	}
	// comment lines, blank lines and line order. Key lines whose old value was
	// empty may be dropped, kept or re-created: they are left out of the comparison.
	flex := map[string]bool{}
	oldKeys := map[string]bool{}
	for _, it := range old {
		if it.Kind == "kv" {
			if it.Val == "" {
				flex[it.Key] = true
			} else {
				oldKeys[it.Key] = true
			}
		}
	}
	for k := range oldKeys {
		delete(flex, k)
	}
	view := func(items []Item, keep func(Item) bool) []string {
		var out []string
		for _, it := range items {
			if it.Kind == "kv" && (flex[it.Key] || !keep(it)) {
				continue
			}
			out = append(out, shape([]Item{it})...)
		}
		return out
	}
	wantShape := view(old, func(it Item) bool { _, kept := have[it.Key]; return kept })
	gotShape := view(got, func(it Item) bool { return it.Val != "" })
	if len(gotShape) < len(wantShape) {
		return fmt.Errorf("lines were lost: expected the old lines %q (then new keys), the file has %q\nbefore:\n%s\nafter:\n%s", wantShape, gotShape, before, after)
	}
	for i, s := range wantShape {
		if gotShape[i] != s {
			what := "line order changed"
			if strings.HasPrefix(s, "L:") {
				what = "a comment/blank line was altered or moved"
			}
			return fmt.Errorf("%s at line %d: expected %q, the file has %q\nbefore:\n%s\nafter:\n%s", what, i, s, gotShape[i], before, after)
		}
	}
	for _, s := range gotShape[len(wantShape):] {
		if !strings.HasPrefix(s, "K:") || oldKeys[s[2:]] {
			return fmt.Errorf("unexpected line %q appended after the old lines\nbefore:\n%s\nafter:\n%s", s, before, after)
		}
	}
	return nil
}

func runWriteBack(c WBCase) *pbt.Result {
	if err := checkCaseFile(&c.File); err != nil {
		if strings.Contains(err.Error(), "environment variable") {
			return &pbt.Result{Classes: []string{"skipped:key-is-environment-variable"}}
		}
		panic(err)
	}
	defer guard("write-back", c)()
	home := mkHome()
	defer os.RemoveAll(home)
	path := filepath.Join(home, confName)
	classes := map[string]bool{}
	clock := baseSec * 1e9
	if err := writeAt(path, c.File.render(), clock); err != nil {
		panic(err)
	}
	var opts []conffile.FileConfigOption
	if c.Prefix != "" {
		opts = append(opts, conffile.WithPrefix(c.Prefix))
		classes["option:prefix"] = true
	}
	if c.Suffix != "" {
		opts = append(opts, conffile.WithSuffix(c.Suffix))
		classes["option:suffix"] = true
	}
	if len(c.Exclude) > 0 {
		opts = append(opts, conffile.WithExcludeKeys(c.Exclude))
		classes["option:exclude"] = true
	}
	var ob *config.ConfigObserver
	var observers []*recObserver
	if c.Observers > 0 {
		ob = config.NewConfigObserver()
		for i := 0; i < c.Observers; i++ {
			o := &recObserver{name: fmt.Sprintf("obs%d", i)}
			observers = append(observers, o)
			ob.Add(o.name, o)
		}
		classes["observers-registered"] = true
	}
	fc := newConf(home, ob, opts...)
	defer fc.Destroy()
	for _, o := range observers {
		o.calls = 0
	}
	for _, st := range c.Stale {
		body := strings.Repeat("stale.key.from.an.earlier.write=1\n", st.Size/34+1)[:st.Size]
		if err := os.WriteFile(filepath.Join(home, confName+st.Deco), []byte(body), 0644); err != nil {
			panic(err)
		}
		classes["stale-sibling-file:"+st.Deco] = true
	}

	commentsWithEq := c.File.has("comment", func(l Line) bool { return strings.Contains(l.Text, "=") })
	if c.File.has("comment", nil) {
		classes["file:comments"] = true
	}
	if commentsWithEq {
		classes["file:comments-containing-="] = true
	}
	if c.File.has("blank", nil) {
		classes["file:blank-lines"] = true
	}
	if c.File.has("comment", func(l Line) bool { return len(l.render()) >= 4096 }) {
		classes["file:comment-line>=4096-bytes"] = true
	}
	wrote := false
	for i, set := range c.Sets {
		eff, ok := effectiveSet(set, c.Prefix, c.Suffix, c.Exclude)
		if !ok {
			panic("case precondition: entries of one SetValues collide on an effective key")
		}
		for k, v := range eff {
			if !keyRe.MatchString(k) || v != sanitizeValue([]rune(v)) {
				panic(fmt.Sprintf("case precondition: written pair %q=%q outside the stated domain", k, v))
			}
			if _, isEnv := os.LookupEnv(k); isEnv {
				return &pbt.Result{Classes: []string{"skipped:key-is-environment-variable"}}
			}
		}
		beforeB, err := os.ReadFile(path)
		if err != nil {
			panic(err)
		}
		before := string(beforeB)
		stBefore, err := os.Stat(path)
		if err != nil {
			panic(err)
		}
		mtimeBefore := stBefore.ModTime().UnixNano()
		oldMap := map[string]string{}
		if items, err := refParse(before); err == nil {
			oldMap = itemsMap(items)
		}
		arg := map[string]string{}
		for _, kv := range set {
			arg[kv.K] = kv.V
		}
		fc.SetValues(&arg)
		afterB, err := os.ReadFile(path)
		if err != nil {
			return pbt.Fail("SetValues call %d: the configuration file cannot be read afterwards: %v", i, err)
		}
		after := string(afterB)
		if err := checkWritten(before, after, eff); err != nil {
			return pbt.Fail("SetValues call %d with %v (prefix %q suffix %q exclude %q): %v", i, set, c.Prefix, c.Suffix, c.Exclude, err)
		}
		for k, v := range eff {
			_, existed := oldMap[k]
			switch {
			case v == "" && existed:
				classes["set:removes-existing-key"] = true
			case v == "":
				classes["set:empty-value-for-new-key"] = true
			case existed:
				classes["set:overwrites-existing-key"] = true
			default:
				classes["set:adds-new-key"] = true
			}
			wrote = true
		}
		// the configuration object itself reads the written values back unchanged. The file SetValues wrote carries
		// the current time; only when the file system's clock granule made that equal to the previous modification
		// time (two writes within one tick) the harness moves it on, as a later edit would.
		stAfter, err := os.Stat(path)
		if err != nil {
			panic(err)
		}
		if stAfter.ModTime().UnixNano() == mtimeBefore {
			clock += 1_000_000_007
			if err := setMtime(path, clock); err != nil {
				panic(err)
			}
			classes["mtime-unchanged-by-write(moved on by the harness)"] = true
		}
		items, _ := refParse(after)
		final := itemsMap(items)
		for _, o := range observers {
			o.expect = map[string]string{}
			for k, v := range final {
				o.expect[k] = v
			}
		}
		fc.ReloadNowForVerif()
		if after != before {
			for _, o := range observers {
				if o.bad != "" {
					return pbt.Fail("after SetValues call %d and a reload: %s", i, o.bad)
				}
				if o.calls != 1 {
					return pbt.Fail("SetValues call %d with %v changed the file, but after the next reload observer %s has been notified %d times (a change made through write-back is a change of the file)", i, set, o.name, o.calls)
				}
			}
			if len(observers) > 0 {
				classes["observer:notified-after-write-back"] = true
			}
		}
		for _, o := range observers {
			o.calls = 0
		}
		var keys []string
		for k := range final {
			keys = append(keys, k)
		}
		sort.Strings(keys)
		for _, k := range keys {
			if err := checkGetters(fc, k, final[k], true, c.Def, classes); err != nil {
				return pbt.Fail("after SetValues call %d and a reload: %v", i, err)
			}
		}
	}
	// leftovers: nothing but the configuration file may remain in the home directory
	if ents, err := os.ReadDir(home); err == nil {
		for _, e := range ents {
			planted := false
			for _, st := range c.Stale {
				planted = planted || e.Name() == confName+st.Deco
			}
			if e.Name() != confName && !planted {
				classes["leftover-file-in-home(not asserted)"] = true
			}
		}
	}
	return &pbt.Result{NT: wrote && c.File.has("comment", nil), Classes: sortedClasses(classes)}
}

var writeBackSpec = pbt.Register(pbt.Spec[WBCase]{
	Prop: "C18", Name: "write-back",
	Rule:  "file of 0-10 lines (key lines with blanks around '=', raw or escaped values, empty values; comment lines with and without '=', indented, with trailing blanks; blank lines), options none|prefix|suffix|both and an exclusion list, 1-2 SetValues calls of 0-4 pairs (existing keys, new keys, keys already carrying the prefix, empty value = remove); after each call the file is read with the harness's own properties reader: key->value map == old ∪ new (empty = unset), comment/blank lines byte-identical and all surviving lines in their old order with new keys only appended, no key twice; then a reload must notify each of 0-2 registered observers exactly once when the call changed the file (with the new values visible inside the callback) and make every value of the file visible through all typed getters; comment lines up to 140 000 bytes; one case in four starts with 1-2 stale files next to the configuration file (its name + .tmp/.bak/~/.new/.swp/.lock, 0-200 000 bytes) as an interrupted earlier write or an editor leaves them; non-trivial = at least one pair effectively written to a file that has comment lines",
	Quick: 6000, Thorough: 600000,
	Draw: drawWriteBack, Run: runWriteBack,
})

func TestWriteBack(t *testing.T) { writeBackSpec.Check(t) }

func TestWriteBackCatalogue(t *testing.T) {
	if os.Getenv("VERIF_REPLAY") != "" {
		t.Skip("replay mode")
	}
	if i, _ := pbt.Shard(); i != 0 {
		t.Skip("catalogue runs on shard 0")
	}
	d := Defaults{S: "dflt", B: true, I: 42, L: -42, F: 0.5, Set: "7,8", Arr: "x,y", Deli: ","}
	cm := func(s string) Line { return Line{Kind: "comment", Text: s} }
	kv := func(k, v string) Line { return Line{Kind: "kv", Key: k, Val: v} }
	cases := []WBCase{
		{File: File{Lines: []Line{cm("# a = b = c"), kv("k", "1"), cm("# note ="), {Kind: "blank"}, kv("z", `C:\tmp`)}}, Sets: [][]SetKV{{{K: "k", V: "2"}, {K: "n", V: "x=y"}}}, Def: d},
		{File: File{Lines: []Line{kv("k", "1"), kv("gone", "x"), cm("!x = y = z ")}}, Sets: [][]SetKV{{{K: "gone", V: ""}}}, Def: d},
		{File: File{Lines: []Line{kv("whatap.k", "1"), cm("#c")}}, Prefix: "whatap.", Exclude: []string{"skip"}, Sets: [][]SetKV{{{K: "k", V: "2 "}, {K: "skip", V: "no"}, {K: "whatap.m", V: `a\`}}}, Def: d},
	}
	for _, c := range cases {
		writeBackSpec.RunCase(t, c)
	}
}
