package c18

// Two sub-checks about what concurrent users of one configuration object see while the reload goroutine works:
//   snapshot-is-one-version   - String() / GetKeys()+getters taken during a reload show one version of the file, not a mixture
//   observers-and-writers     - observers that read the configuration, while another goroutine applies defaults / a
//                               configuration map: everybody returns (nobody waits for a lock for ever)

import (
	"fmt"
	"os"
	"path/filepath"
	"strings"
	"sync"
	"sync/atomic"
	"testing"
	"time"

	"github.com/whatap/golib/config"
	"pgregory.net/rapid"
	"verif/pbt"
)

type SnapCase struct {
	Keys     int `json:"keys"`
	Versions int `json:"versions"`
	Readers  int `json:"readers"`
}

func snapFile(keys, gen int) string {
	var sb strings.Builder
	for i := 0; i < keys; i++ {
		fmt.Fprintf(&sb, "snap.key.%04d=g%d\n", i, gen)
	}
	return sb.String()
}

func runSnap(c SnapCase) *pbt.Result {
	home := mkHome()
	defer os.RemoveAll(home)
	path := filepath.Join(home, confName)
	clock := baseSec * 1e9
	if err := writeAt(path, snapFile(c.Keys, 0), clock); err != nil {
		panic(err)
	}
	fc := newConf(home, nil)
	defer fc.Destroy()
	var stop atomic.Bool
	var mu sync.Mutex
	torn := ""
	var snaps atomic.Int64
	var wg sync.WaitGroup
	for r := 0; r < c.Readers; r++ {
		wg.Add(1)
		go func(r int) {
			defer wg.Done()
			for !stop.Load() {
				s := fc.String()
				if r%2 == 1 {
					s = fc.ToString()
				}
				gen, n := "", 0
				for _, line := range strings.Split(s, "\n") {
					if !strings.HasPrefix(line, "snap.key.") {
						continue
					}
					v := line[strings.IndexByte(line, '=')+1:]
					n++
					if gen == "" {
						gen = v
					} else if v != gen {
						mu.Lock()
						if torn == "" {
							torn = fmt.Sprintf("one String() call made while the file was being reloaded shows keys of two versions of the file: %q next to %q (every version sets all %d keys to one value; %d key lines in the snapshot)", gen, v, c.Keys, strings.Count(s, "snap.key."))
						}
						mu.Unlock()
						stop.Store(true)
						return
					}
				}
				if n != c.Keys {
					mu.Lock()
					if torn == "" {
						torn = fmt.Sprintf("a String() snapshot shows %d of the %d keys every version of the file holds", n, c.Keys)
					}
					mu.Unlock()
					stop.Store(true)
					return
				}
				snaps.Add(1)
			}
		}(r)
	}
	for g := 1; g <= c.Versions && !stop.Load(); g++ {
		clock += 1_000_000_007
		if err := writeAt(path, snapFile(c.Keys, g), clock); err != nil {
			panic(err)
		}
		fc.ReloadNowForVerif()
	}
	stop.Store(true)
	wg.Wait()
	if torn != "" {
		return pbt.Fail("%s", torn)
	}
	return &pbt.Result{NT: snaps.Load() > int64(c.Versions), Classes: []string{fmt.Sprintf("readers=%d", c.Readers)}}
}

var specSnap = pbt.Register(pbt.Spec[SnapCase]{
	Prop: "C18", Name: "snapshot-is-one-version",
	Rule:  "a file of 50-600 keys whose values all name the version (g0, g1, ...); 20-80 versions are put in place and reloaded one after the other while 1-6 reader goroutines keep calling String() / ToString(): every snapshot must hold all keys and one version name only (getters running concurrently with a reload do not observe torn state); non-trivial = more snapshots than versions were taken; distinct by case",
	Quick: 12, Thorough: 600,
	Draw: func(t *rapid.T) SnapCase {
		return SnapCase{Keys: rapid.SampledFrom([]int{50, 200, 600}).Draw(t, "keys"), Versions: rapid.IntRange(20, 80).Draw(t, "versions"), Readers: rapid.IntRange(1, 6).Draw(t, "readers")}
	},
	Run: runSnap,
})

func TestSnapshotIsOneVersion(t *testing.T) { specSnap.Check(t) }

// ---- observers-and-writers --------------------------------------------------------------------------------

type readingObserver struct {
	keys  []string
	calls atomic.Int64
}

func (o *readingObserver) ApplyConfig(c config.Config) {
	o.calls.Add(1)
	for _, k := range o.keys {
		c.GetValue(k)
		time.Sleep(200 * time.Microsecond) // an observer that takes its time (it re-configures a component)
	}
}

type LiveCase struct {
	Versions int `json:"versions"`
	Writers  int `json:"writers"` // goroutines calling ApplyDefault / ApplyConfig(map) meanwhile
}

func runLive(c LiveCase) *pbt.Result {
	home := mkHome()
	defer os.RemoveAll(home)
	path := filepath.Join(home, confName)
	clock := baseSec * 1e9
	if err := writeAt(path, snapFile(20, 0), clock); err != nil {
		panic(err)
	}
	ob := config.NewConfigObserver()
	o := &readingObserver{keys: []string{"snap.key.0001", "snap.key.0007", "snap.key.0019", "absent"}}
	ob.Add("reader", o)
	fc := newConf(home, ob)
	defer fc.Destroy()
	var stop atomic.Bool
	var wg sync.WaitGroup
	for w := 0; w < c.Writers; w++ {
		wg.Add(1)
		go func(w int) {
			defer wg.Done()
			for n := 0; !stop.Load(); n++ {
				if (n+w)%2 == 0 {
					fc.ApplyDefault()
				} else {
					fc.ApplyConfig(map[string]string{fmt.Sprintf("applied.%d", w): fmt.Sprint(n)})
				}
				fc.GetValue("snap.key.0003")
			}
		}(w)
	}
	done := make(chan struct{})
	go func() {
		defer close(done)
		for g := 1; g <= c.Versions; g++ {
			clock += 1_000_000_007
			if err := writeAt(path, snapFile(20, g), clock); err != nil {
				panic(err)
			}
			fc.ReloadNowForVerif()
		}
	}()
	var res *pbt.Result
	select {
	case <-done:
	case <-time.After(60 * time.Second):
		res = pbt.Fail("%d reloads with an observer that reads the configuration, while %d goroutines call ApplyDefault / ApplyConfig and a getter: the reloads have not finished after 60 s (observer called %d times) - somebody waits for the configuration's lock for ever", c.Versions, c.Writers, o.calls.Load())
	}
	stop.Store(true)
	if res != nil {
		return res // the goroutines are stuck; they end with the process
	}
	wdone := make(chan struct{})
	go func() { wg.Wait(); close(wdone) }()
	select {
	case <-wdone:
	case <-time.After(30 * time.Second):
		return pbt.Fail("the reloads finished but %d goroutines calling ApplyDefault / ApplyConfig / GetValue have not returned 30 s later", c.Writers)
	}
	if o.calls.Load() < int64(c.Versions) {
		return pbt.Fail("%d versions were reloaded, the observer was notified %d times", c.Versions, o.calls.Load())
	}
	return &pbt.Result{NT: true, Classes: []string{fmt.Sprintf("writers=%d", c.Writers)}}
}

var specLive = pbt.Register(pbt.Spec[LiveCase]{
	Prop: "C18", Name: "observers-and-writers",
	Rule:  "10-40 versions of a file are reloaded while the registered observer reads four keys in its callback (200 us apart) and 1-4 other goroutines keep calling ApplyDefault / ApplyConfig(map) and a getter: all reloads and all callers must return (bounded safety: 60 s / 30 s) and the observer is notified once per version; non-trivial = every case; distinct by case",
	Quick: 8, Thorough: 300,
	Draw: func(t *rapid.T) LiveCase {
		return LiveCase{Versions: rapid.IntRange(10, 40).Draw(t, "versions"), Writers: rapid.IntRange(1, 4).Draw(t, "writers")}
	},
	Run: runLive,
})

func TestObserversAndWriters(t *testing.T) { specLive.Check(t) }
