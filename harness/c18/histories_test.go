package c18

// config-histories: edit / reload histories on a FileConfig without the polling
// goroutine (hook NewForVerif) in a private temp home. The harness is the external
// editor: it renders every version of the file itself and stamps it with a
// modification time taken from the case (several versions inside one second have
// the same second and different nanoseconds).

import (
	"fmt"
	"os"
	"path/filepath"
	"strings"
	"testing"

	"github.com/whatap/golib/config"
	"github.com/whatap/golib/config/conffile"
	"pgregory.net/rapid"
	"verif/pbt"
)

// HStep is one step of a history: optionally a new version of the file, then
// zero or more reloads; after every reload the getters are checked.
type HStep struct {
	Edit    *File    `json:"edit,omitempty"`
	DSec    int64    `json:"dsec,omitempty"` // whole seconds between this version and the previous one
	DNs     int64    `json:"dns,omitempty"`  // plus this many nanoseconds (>= 1)
	Reloads int      `json:"reloads"`
	Def     Defaults `json:"def"`
	// Remove: the file is moved away before this step's reloads (no Edit in such a step); the configuration falls
	// back to its built-in defaults. SameMtime (with Edit): the version is put in place carrying the modification
	// time of the last version that was on disk before (mv back, cp -p, restore from backup)
	Remove    bool `json:"remove,omitempty"`
	SameMtime bool `json:"same_mtime,omitempty"`
	// Replace > 0: before this step a new observer is registered under the name of observer number Replace-1 (a
	// component that was re-created registers again): from now on it is notified, the one it replaced is not
	Replace int `json:"replace,omitempty"`
	// During (with Edit and Reloads >= 1): a further version reaches the disk while the first reload of this step is
	// going on - after the reload has read the file, before it returns (an editor saving twice, a deploy tool racing the
	// poll). One more reload is then issued; after it the configuration must show this version
	During *File `json:"during,omitempty"`
}

// hookParser is the stock parser plus a one-shot callback that runs right after the file was read.
type hookParser struct {
	inner conffile.FileParser
	after func()
}

func (h *hookParser) Read(p string) (map[string]string, error) {
	m, err := h.inner.Read(p)
	if f := h.after; f != nil {
		h.after = nil
		f()
	}
	return m, err
}
func (h *hookParser) Write(p string, m *map[string]string) error { return h.inner.Write(p, m) }

type HCase struct {
	BaseNs    int64    `json:"base_ns"`           // nanosecond field of the first modification time
	Initial   *File    `json:"initial,omitempty"` // file present when the configuration object is created (nil: no file yet)
	Observers int      `json:"observers"`
	InitDef   Defaults `json:"init_def"`
	Steps     []HStep  `json:"steps"`
}

// recObserver records notifications and, inside the callback, reads every key of
// the version that is being loaded.
type recObserver struct {
	name   string
	calls  int
	expect map[string]string // what the file says right now (set by the harness before a reload)
	bad    string
}

func (o *recObserver) ApplyConfig(conf config.Config) {
	o.calls++
	for k, v := range o.expect {
		if tv := strings.TrimSpace(v); tv != "" {
			if got := conf.GetValue(k); got != tv && o.bad == "" {
				o.bad = fmt.Sprintf("observer %s was notified while GetValue(%q) = %q, the file says %q", o.name, k, got, tv)
			}
		}
	}
}

func drawHistory(t *rapid.T) HCase {
	pool := genKeyPool(t, rapid.IntRange(2, 7).Draw(t, "npool"))
	c := HCase{BaseNs: rapid.Int64Range(0, 600_000_000).Draw(t, "basens"), Observers: rapid.IntRange(0, 3).Draw(t, "observers")}
	if rapid.IntRange(0, 4).Draw(t, "hasinitial") > 0 {
		f := genFile(t, pool, 8, true)
		c.Initial = &f
	}
	c.InitDef = genDefaults().Draw(t, "initdef")
	n := rapid.IntRange(1, 6).Draw(t, "nsteps")
	for i := 0; i < n; i++ {
		var s HStep
		if i > 0 && rapid.IntRange(0, 11).Draw(t, "remove?") == 0 {
			s.Remove = true
			s.Reloads = rapid.IntRange(1, 2).Draw(t, "reloads")
			s.Def = genDefaults().Draw(t, "def")
			c.Steps = append(c.Steps, s)
			// the file comes back: the same content with its old modification time, or a new version
			var b HStep
			back := genFile(t, pool, 8, true)
			b.Edit = &back
			b.SameMtime = rapid.Bool().Draw(t, "samemtime")
			b.DSec, b.DNs = 1, 1
			b.Reloads = 1
			b.Def = genDefaults().Draw(t, "def")
			c.Steps = append(c.Steps, b)
			continue
		}
		if i > 0 && c.Observers > 0 && rapid.IntRange(0, 5).Draw(t, "replace?") == 0 {
			s.Replace = rapid.IntRange(1, c.Observers).Draw(t, "replace")
		}
		if rapid.IntRange(0, 9).Draw(t, "edit?") > 0 {
			f := genFile(t, pool, 8, true)
			s.Edit = &f
			// the new version's mtime may also be OLDER than the previous one's (a prepared file moved into place,
			// a restored backup, cp -p): any different mtime is a change
			s.DSec = rapid.SampledFrom([]int64{0, 0, 0, 0, 1, 2, 3600, -1, -2, -3600}).Draw(t, "dsec")
			s.DNs = rapid.OneOf(rapid.Int64Range(1, 1000), rapid.Int64Range(1, 90_000_000)).Draw(t, "dns")
		}
		s.Reloads = rapid.SampledFrom([]int{0, 1, 1, 1, 1, 2}).Draw(t, "reloads")
		if i == n-1 && s.Reloads == 0 {
			s.Reloads = 1
		}
		if s.Edit != nil && s.Reloads >= 1 && rapid.IntRange(0, 4).Draw(t, "during?") == 0 {
			f := genFile(t, pool, 8, true)
			s.During = &f
		}
		s.Def = genDefaults().Draw(t, "def")
		c.Steps = append(c.Steps, s)
	}
	return c
}

func runHistory(c HCase) *pbt.Result {
	files := []*File{c.Initial}
	for i := range c.Steps {
		files = append(files, c.Steps[i].Edit, c.Steps[i].During)
	}
	for _, f := range files {
		if f != nil {
			if err := checkCaseFile(f); err != nil {
				if strings.Contains(err.Error(), "environment variable") {
					return &pbt.Result{Classes: []string{"skipped:key-is-environment-variable"}}
				}
				panic(err)
			}
		}
	}
	defer guard("config-histories", c)()
	home := mkHome()
	defer os.RemoveAll(home)
	path := filepath.Join(home, confName)
	classes := map[string]bool{}

	ob := config.NewConfigObserver()
	var observers []*recObserver
	for i := 0; i < c.Observers; i++ {
		o := &recObserver{name: fmt.Sprintf("obs%d", i)}
		observers = append(observers, o)
		ob.Add(o.name, o)
	}
	setExpect := func(m map[string]string) {
		for _, o := range observers {
			o.expect = m
		}
	}

	clock := baseSec*1e9 + c.BaseNs
	var current *File      // latest version on disk
	var loadedText *string // text of the version the configuration last loaded
	pending := false       // a version was written that no reload has seen yet
	sameSecondEdits, editsBetweenReloads := 0, 0
	removedAt := int64(0)      // modification time the file carried when it was moved away
	var retired []*recObserver // observers that were replaced under their name
	lastEditSec := int64(-1)
	unseenEdits := 0

	write := func(f *File, at int64) {
		if err := writeAt(path, f.render(), at); err != nil {
			panic(err)
		}
		current = f
		pending = true
		unseenEdits++
		if unseenEdits >= 2 {
			editsBetweenReloads++
		}
		if at/1e9 == lastEditSec {
			sameSecondEdits++
			classes["edit:same-second-as-previous"] = true
		} else {
			classes["edit:later-second"] = true
		}
		lastEditSec = at / 1e9
	}

	if c.Initial != nil {
		write(c.Initial, clock)
		setExpect(c.Initial.kvs())
	} else {
		classes["no-file-at-construction"] = true
	}
	hook := &hookParser{inner: conffile.NewDefaultFileParser()}
	fc := newConf(home, ob, conffile.WithParser(hook))
	defer fc.Destroy()
	var conf config.Config = fc

	// afterLoad checks what the statement promises once a reload has run.
	afterLoad := func(what string, d Defaults) error {
		if current == nil {
			return nil
		}
		text := current.render()
		if pending {
			changed := loadedText == nil || *loadedText != text
			for _, o := range observers {
				if o.bad != "" {
					return fmt.Errorf("%s: %s", what, o.bad)
				}
				if changed && o.calls != 1 {
					return fmt.Errorf("%s: the file changed (mtime and content) but observer %s was notified %d times", what, o.name, o.calls)
				}
			}
			if changed && len(observers) > 0 {
				classes["observer:notified-after-change"] = true
			}
		}
		pending = false
		unseenEdits = 0
		loadedText = &text
		for _, o := range observers {
			o.calls = 0
		}
		for _, l := range current.Lines {
			if l.Kind != "kv" {
				continue
			}
			if strings.TrimSpace(l.Val) == "" {
				classes["kv:empty-value(not asserted)"] = true
				continue
			}
			if err := checkGetters(conf, l.Key, l.Val, true, d, classes); err != nil {
				return fmt.Errorf("%s: %v", what, err)
			}
		}
		for _, k := range absentKeys {
			if err := checkGetters(conf, k, "", false, d, classes); err != nil {
				return fmt.Errorf("%s: %v", what, err)
			}
		}
		return nil
	}

	if err := afterLoad("after construction", c.InitDef); err != nil {
		return pbt.Fail("%v", err)
	}
	for i, s := range c.Steps {
		if s.Replace > 0 && len(observers) > 0 {
			idx := (s.Replace - 1) % len(observers)
			old := observers[idx]
			old.calls, old.bad = 0, ""
			retired = append(retired, old)
			nu := &recObserver{name: old.name, expect: old.expect}
			ob.Add(old.name, nu)
			observers[idx] = nu
			classes["observer-replaced-under-its-name"] = true
		}
		if s.Remove && current != nil {
			if err := os.Remove(path); err != nil {
				panic(err)
			}
			removedAt, current, loadedText, pending = clock, nil, nil, false
			classes["file-moved-away"] = true
			for r := 0; r < s.Reloads; r++ {
				fc.ReloadNowForVerif()
			}
			for _, o := range observers {
				o.calls, o.bad = 0, ""
			}
			continue
		}
		if s.Edit != nil {
			if s.SameMtime && current == nil && removedAt != 0 {
				classes["file-back-with-its-old-modification-time"] = true
				write(s.Edit, removedAt)
			} else {
				clock += s.DSec*1e9 + s.DNs
				write(s.Edit, clock)
			}
			setExpect(s.Edit.kvs())
		}
		if s.During != nil && s.Edit != nil && s.Reloads >= 1 {
			classes["edit-lands-while-a-reload-is-reading"] = true
			hook.after = func() {
				clock += 1 + s.DNs%1000
				if err := writeAt(path, s.During.render(), clock); err != nil {
					panic(err)
				}
			}
			fc.ReloadNowForVerif()
			if hook.after != nil {
				return pbt.Fail("step %d: a version with a new modification time was on disk but the reload did not read the file", i)
			}
			for _, o := range observers {
				if o.bad != "" {
					return pbt.Fail("step %d (reload overtaken by an edit): %s", i, o.bad)
				}
				o.calls = 0
			}
			// the file has stopped changing now: the next poll has to pick the latest version up
			text := s.Edit.render()
			loadedText = &text
			current, pending, unseenEdits = s.During, true, 1
			setExpect(s.During.kvs())
		}
		for r := 0; r < s.Reloads; r++ {
			fc.ReloadNowForVerif()
			if err := afterLoad(fmt.Sprintf("step %d reload %d", i, r), s.Def); err != nil {
				return pbt.Fail("%v", err)
			}
			for _, o := range retired {
				if o.calls > 0 {
					return pbt.Fail("step %d reload %d: an observer that had been replaced by another one registered under the same name %q was still notified (%d times)", i, r, o.name, o.calls)
				}
			}
		}
	}
	if current != nil && current.has("comment", nil) {
		classes["file:with-comments"] = true
	}
	if editsBetweenReloads > 0 {
		classes["several-edits-between-reloads"] = true
	}
	return &pbt.Result{NT: sameSecondEdits > 0, Classes: sortedClasses(classes)}
}

var historySpec = pbt.Register(pbt.Spec[HCase]{
	Prop: "C18", Name: "config-histories",
	Rule:  "history = optional initial file, then 1-6 steps of (new version of the file with a modification time dsec seconds + dns nanoseconds after the previous one | no edit) followed by 0-2 reloads; in one edit step in five a further version reaches the disk while the reload is reading the file (hooked parser: after the read, before the reload returns) and one more reload must bring that version in; one step in six (from the second on) first registers a new observer under the name of an existing one, which from then on is notified in its place; one step in twelve moves the file away (reload: fall-back to the built-in defaults) and the next one brings a version back, half of the time carrying the modification time the file had before it was moved away; after every reload every non-empty key=value of the current version must be returned by GetValue/GetValueDef (trimmed) and by GetBoolean/GetInt/GetLong/GetFloat/GetIntSet/GetStringArray (strconv on the trimmed value, else the drawn default), two keys never in the file must yield the defaults, and each of 0-3 observers must have been called exactly once per changed version with the new values already visible inside the callback; non-trivial = at least one version written in the same second as the previous version",
	Quick: 6000, Thorough: 600000,
	Draw: drawHistory, Run: runHistory,
})

func TestHistories(t *testing.T) { historySpec.Check(t) }

// Boundary catalogue: the shortest histories for the known weak spots.
func TestHistoriesCatalogue(t *testing.T) {
	if os.Getenv("VERIF_REPLAY") != "" {
		t.Skip("replay mode")
	}
	if i, _ := pbt.Shard(); i != 0 {
		t.Skip("catalogue runs on shard 0")
	}
	d := Defaults{S: "dflt", B: true, I: 42, L: -42, F: 0.5, Set: "7,8", Arr: "x,y", Deli: ","}
	kv := func(k, v string) Line { return Line{Kind: "kv", Key: k, Val: v} }
	file := func(ls ...Line) *File { return &File{Lines: ls} }
	cases := []HCase{
		// two versions inside one second, reload in between
		{Observers: 1, Initial: file(kv("a", "1")), InitDef: d, Steps: []HStep{{Edit: file(kv("a", "2")), DNs: 1000, Reloads: 1, Def: d}}},
		{Observers: 2, Initial: file(kv("a", "1")), InitDef: d, Steps: []HStep{{Edit: file(kv("a", "2")), DNs: 1, Reloads: 1, Def: d}, {Edit: file(kv("a", "3"), kv("b", "x")), DNs: 5, Reloads: 2, Def: d}}},
		// typed getters on malformed text
		{Initial: file(kv("i", "12a"), kv("b", "yes"), kv("f", "1e39"), kv("l", "9223372036854775808"), kv("s", "1,2,3"), kv("arr", "p , q,r")), InitDef: d, Steps: []HStep{{Reloads: 1, Def: d}}},
		// file appears after construction
		{Observers: 1, InitDef: d, Steps: []HStep{{Reloads: 1, Def: d}, {Edit: file(kv("k", `C:\dir\f`), Line{Kind: "comment", Text: "# c = d"}), DNs: 7, Reloads: 1, Def: d}}},
	}
	for _, c := range cases {
		historySpec.RunCase(t, c)
	}
}
