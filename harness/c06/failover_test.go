package c06

// failover-histories: the client is configured with several collectors. Whichever of
// them are reachable, the client must find one again after a loss, and whatever it
// delivers anywhere must be whole frames of packs that were sent, each at most once.

import (
	"bytes"
	"fmt"
	"github.com/whatap/golib/lang/pack"
	wnet "github.com/whatap/golib/net"
	"net"
	"runtime"
	"sync"
	"sync/atomic"
	"testing"
	"time"
	"verif/ref"

	"github.com/whatap/golib/net/oneway"
	"pgregory.net/rapid"
	"verif/pbt"
)

type FAction struct {
	K    string `json:"k"`              // send | down | up
	I    int    `json:"i,omitempty"`    // down, up: server index
	Seed uint64 `json:"seed,omitempty"` // send: pack content
	Size int    `json:"size,omitempty"` // send: filler bytes
}

type FCase struct {
	Servers int       `json:"servers"` // 2 or 3
	Down0   []int     `json:"down0"`   // servers that are down when the client is created
	Actions []FAction `json:"actions"`
}

func runFailover(c FCase) *pbt.Result {
	var peers []*peer
	var addrs []string
	for i := 0; i < c.Servers; i++ {
		p, err := newPeer()
		if err != nil {
			return pbt.Fail("harness cannot listen: %v", err)
		}
		defer p.shutdown()
		peers = append(peers, p)
		addrs = append(addrs, p.addr)
	}
	up := make([]bool, c.Servers)
	for i := range up {
		up[i] = true
	}
	for _, i := range c.Down0 {
		if i < c.Servers && up[i] {
			peers[i].stopListening()
			up[i] = false
		}
	}
	anyUp := func() bool {
		for _, u := range up {
			if u {
				return true
			}
		}
		return false
	}
	cl := oneway.NewForVerif(oneway.WithServers(addrs), oneway.WithLicense(clientLicense), oneway.WithPcode(77))
	cl.Timeout = 5 * time.Second
	defer cl.Close()

	type sentF struct {
		id    int64
		frame []byte
	}
	var all []sentF
	byFrame := map[string]int{}
	// where (peer, connection) a frame was received
	find := func(frame []byte) (int, int) {
		for pi, p := range peers {
			p.mu.Lock()
			for ci, pc := range p.conns {
				fr, _, _ := splitFrames(pc.buf)
				for _, f := range fr {
					if bytes.Equal(f, frame) {
						p.mu.Unlock()
						return pi, ci
					}
				}
			}
			p.mu.Unlock()
		}
		return -1, -1
	}
	waitAnywhereFor := func(frame []byte, limit time.Duration) int {
		deadline := time.Now().Add(limit)
		for {
			if pi, _ := find(frame); pi >= 0 {
				return pi
			}
			if time.Now().After(deadline) {
				return -1
			}
			time.Sleep(500 * time.Microsecond)
		}
	}
	waitAnywhere := func(frame []byte) int { return waitAnywhereFor(frame, waitLimit) }
	current := -1 // collector the last confirmed frame arrived at (-1: nothing delivered yet)
	// healthy = a collector is listening and nothing has been taken away from under the client since the last delivery
	faulted := !anyUp()
	errSeen, attempts := false, 0
	failovers, delivered := 0, 0
	var nextID int64
	guaranteed := map[int]bool{}

	for ai, a := range c.Actions {
		switch a.K {
		case "send":
			nextID++
			p := mkPack(nextID, a.Size, a.Seed)
			f := expectedFrame(p, false)
			all = append(all, sentF{nextID, f})
			idx := len(all) - 1
			byFrame[string(f)] = idx
			err := doSend(cl, p, false)
			switch {
			case !faulted:
				if err != nil {
					return pbt.Fail("action %d: Send returned %v although collector(s) %v are listening and nothing was taken down since the last delivery (connected to %d)", ai, err, up, current)
				}
				pi := waitAnywhere(f)
				if pi < 0 {
					return pbt.Fail("action %d: Send returned nil on a healthy connection but the frame (id %d) was received by no collector within %v", ai, nextID, waitLimit)
				}
				guaranteed[idx] = true
				if current >= 0 && pi != current {
					failovers++
				}
				current = pi
				delivered++
			case err != nil:
				errSeen = true
				if anyUp() {
					attempts++
					if attempts > 3 {
						return pbt.Fail("action %d: collector(s) %v are listening (configured order 0..%d) but the client has not recovered: send number %d since the first reported error still fails (%v)", ai, up, c.Servers-1, attempts, err)
					}
				}
			default: // nil while faulted
				if errSeen && anyUp() {
					pi := waitAnywhere(f)
					if pi < 0 {
						return pbt.Fail("action %d: after the loss was reported, Send returned nil but its frame (id %d) was received by no collector within %v", ai, nextID, waitLimit)
					}
					guaranteed[idx] = true
					if pi != current {
						failovers++
					}
					current, faulted, errSeen, attempts = pi, false, false, 0
					delivered++
				}
				// nil before any error was reported: the write may have gone into a dead socket: no constraint, but when it
				// does arrive the connection is known to be good again
				if !errSeen && anyUp() {
					if pi := waitAnywhereFor(f, 150*time.Millisecond); pi >= 0 {
						guaranteed[idx] = true
						if current >= 0 && pi != current {
							failovers++
						}
						current, faulted, attempts = pi, false, 0
						delivered++
					}
				}
			}
		case "down":
			i := a.I % c.Servers
			if !up[i] {
				continue
			}
			peers[i].stopListening()
			peers[i].cutCurrent(0)
			if peers[i].nconns() > 0 {
				peers[i].waitFor(func() bool { return peers[i].conns[len(peers[i].conns)-1].closed })
			}
			up[i] = false
			if i == current || current == -1 {
				faulted, errSeen, attempts = true, false, 0
			}
		case "up":
			i := a.I % c.Servers
			if up[i] {
				continue
			}
			if err := peers[i].listenAgain(); err != nil {
				return &pbt.Result{Classes: []string{"harness-could-not-relisten"}}
			}
			up[i] = true
			attempts = 0
		}
	}
	// audit of everything every server received
	time.Sleep(20 * time.Millisecond)
	for _, p := range peers {
		p.settle(-1)
	}
	seen := map[int]string{}
	for pi, p := range peers {
		p.mu.Lock()
		for ci, pc := range p.conns {
			fr, rest, err := splitFrames(pc.buf)
			where := fmt.Sprintf("server %d connection %d", pi, ci)
			if err != nil {
				p.mu.Unlock()
				return pbt.Fail("%s: %v (after %d well-formed frames)", where, err, len(fr))
			}
			if len(rest) > 0 && !pc.cut {
				p.mu.Unlock()
				return pbt.Fail("%s, which the server never cut, ends with a partial frame of %d bytes", where, len(rest))
			}
			for k, f := range fr {
				i, ok := byFrame[string(f)]
				if !ok {
					p.mu.Unlock()
					return pbt.Fail("%s frame %d (%d bytes) is not the frame of any pack that was sent", where, k, len(f))
				}
				if prev, dup := seen[i]; dup {
					p.mu.Unlock()
					return pbt.Fail("the frame of send id %d was received twice (%s and %s)", all[i].id, prev, where)
				}
				seen[i] = where
			}
		}
		p.mu.Unlock()
	}
	for i := range guaranteed {
		if _, ok := seen[i]; !ok {
			return pbt.Fail("send id %d returned nil on a healthy connection but its frame is in no server's stream", all[i].id)
		}
	}
	return &pbt.Result{NT: failovers >= 1, Classes: []string{fmt.Sprintf("servers=%d", c.Servers), fmt.Sprintf("failovers=%d", min(failovers, 3)), fmt.Sprintf("delivered=%d", min(delivered, 5))}}
}

var specFailover = pbt.Register(pbt.Spec[FCase]{
	Prop: "C06", Name: "failover-histories",
	Rule:  "a fresh one-way client in direct mode configured with 2-3 harness-owned loopback collectors, some of them down at the start; histories of 4-30 actions: send | take collector i down (listener closed, its connection cut) | bring collector i up again; oracle = every connection of every collector carries whole frames only, each the reference frame of exactly one send, none twice anywhere; a send on a healthy connection returns nil and arrives; from the first reported error on, while at least one collector is listening - whichever position it has in the configured list - the client recovers within three sends and the first nil send arrives at a listening collector; non-trivial = at least one delivery moved to another collector; distinct by case",
	Quick: 50, Thorough: 1500,
	Draw: func(t *rapid.T) FCase {
		c := FCase{Servers: rapid.IntRange(2, 3).Draw(t, "servers")}
		for i := 0; i < c.Servers; i++ {
			if rapid.IntRange(0, 2).Draw(t, "down0") == 0 {
				c.Down0 = append(c.Down0, i)
			}
		}
		n := rapid.IntRange(4, 30).Draw(t, "n")
		for i := 0; i < n; i++ {
			k := rapid.SampledFrom([]string{"send", "send", "send", "send", "down", "up", "up"}).Draw(t, "k")
			a := FAction{K: k}
			switch k {
			case "send":
				a.Seed = rapid.Uint64().Draw(t, "seed")
				a.Size = rapid.SampledFrom([]int{0, 0, 100, 5000}).Draw(t, "size")
			default:
				a.I = rapid.IntRange(0, c.Servers-1).Draw(t, "i")
			}
			c.Actions = append(c.Actions, a)
		}
		return c
	},
	Run: runFailover,
})

func TestFailover(t *testing.T) {
	s := func(seed uint64) FAction { return FAction{K: "send", Seed: seed} }
	for _, c := range []FCase{
		// the first collector is down at the start, comes back, then the second one goes away
		{Servers: 2, Down0: []int{0}, Actions: []FAction{s(1), s(2), {K: "up", I: 0}, s(3), {K: "down", I: 1}, s(4), s(5), s(6), s(7), s(8)}},
		{Servers: 3, Down0: []int{0, 1}, Actions: []FAction{s(1), {K: "up", I: 1}, {K: "down", I: 2}, s(2), s(3), s(4), s(5), {K: "up", I: 0}, {K: "down", I: 1}, s(6), s(7), s(8), s(9)}},
		{Servers: 2, Actions: []FAction{s(1), {K: "down", I: 0}, s(2), s(3), s(4), s(5), {K: "up", I: 0}, {K: "down", I: 1}, s(6), s(7), s(8), s(9)}},
	} {
		specFailover.RunCase(t, c)
	}
	specFailover.Check(t)
}

// ---- the caller drains the queue itself (SendAndClear) -------------------------------------------------------

type DrainCase struct {
	Sizes  []int `json:"sizes"`  // filler bytes of the packs queued one after the other
	Shrink int   `json:"shrink"` // > 0: before draining, a configuration reload sets oneway_queue_size to this (below the backlog)
	Rounds int   `json:"rounds"` // the backlog is queued and drained this many times on the same connection
}

func runDrain(c DrainCase) *pbt.Result {
	mk := newPeer
	if c.Shrink > 0 {
		mk = newPeer6600
	}
	pr, err := mk()
	if err != nil {
		if c.Shrink > 0 {
			return &pbt.Result{Classes: []string{"harness-could-not-listen-on-port-6600"}}
		}
		return pbt.Fail("harness cannot listen: %v", err)
	}
	defer pr.shutdown()
	cl := oneway.NewForVerif(oneway.WithServers([]string{pr.addr}), oneway.WithLicense(clientLicense), oneway.WithPcode(77), oneway.WithUseQueue(), oneway.WithQueueSize(1000))
	cl.Timeout = 5 * time.Second
	defer func() { cl.Destroy(); cl.Close() }()
	var frames [][]byte
	var id int64
	total := 0
	if c.Shrink > 0 {
		c.Rounds = 1 // after the reload the smaller queue rightly refuses a second backlog of the same size
	}
	for round := 0; round < c.Rounds; round++ {
		for i, sz := range c.Sizes {
			id++
			p := mkPack(id, sz, uint64(i*31+round))
			if e := cl.SendFlush(p, false); e != nil {
				return pbt.Fail("pack %d refused by a queue of 1000 holding %d packs: %v", id, i, e)
			}
			frames = append(frames, expectedFrame(p, false))
			total += len(frames[len(frames)-1])
		}
		if c.Shrink > 0 && round == 0 {
			host, _, _ := net.SplitHostPort(pr.addr)
			cl.ApplyConfig(mapConf{"license": clientLicense, "whatap.server.host": host, "pcode": "77", "oneway_queue_size": fmt.Sprint(c.Shrink)})
			cl.Timeout = 5 * time.Second
		}
		if e := cl.SendAndClear(); e != nil {
			return pbt.Fail("SendAndClear on a healthy connection returned %v", e)
		}
	}
	want := bytes.Join(frames, nil)
	ok := pr.waitFor(func() bool {
		n := 0
		for _, pc := range pr.conns {
			n += len(pc.buf)
		}
		return n >= len(want)
	})
	pr.mu.Lock()
	defer pr.mu.Unlock()
	var got []byte
	for _, pc := range pr.conns {
		got = append(got, pc.buf...)
	}
	if !ok || !bytes.Equal(got, want) {
		fr, _, perr := splitFrames(got)
		var ids []int64
		byF := map[string]int64{}
		for i, f := range frames {
			byF[string(f)] = int64(i + 1)
		}
		for _, f := range fr {
			ids = append(ids, byF[string(f)])
		}
		if len(ids) > 40 {
			ids = ids[:40]
		}
		return pbt.Fail("%d packs (%d bytes) were accepted into the queue and drained with SendAndClear on a healthy connection; the collector received %d bytes, %d whole frames, in the order %v (0 = not a frame that was sent; parse error: %v)", len(frames), len(want), len(got), len(fr), ids, perr)
	}
	return &pbt.Result{NT: total > 2<<20 || c.Shrink > 0, Classes: []string{fmt.Sprintf("backlog>2MiB=%v", total/c.Rounds > 2<<20), fmt.Sprintf("queue-shrunk-by-reload=%v", c.Shrink > 0)}}
}

var specDrain = pbt.Register(pbt.Spec[DrainCase]{
	Prop: "C06", Name: "caller-drains-queue",
	Rule:  "a client in queue mode without its background goroutine: 2-60 packs (30 B .. 2.5 MB, so that single frames and whole backlogs exceed the 2 MiB write buffer) are accepted into the queue, in a third of the cases a configuration reload then sets the queue size below the backlog, and the caller drains the queue with SendAndClear, 1-2 times on the same connection; the collector must receive exactly the accepted frames, whole, once, in the order they were accepted; non-trivial = backlog above 2 MiB or queue shrunk below its content; distinct by case",
	Quick: 24, Thorough: 600,
	Draw: func(t *rapid.T) DrainCase {
		c := DrainCase{Rounds: rapid.IntRange(1, 2).Draw(t, "rounds")}
		n := rapid.IntRange(2, 60).Draw(t, "n")
		big := rapid.IntRange(0, 2).Draw(t, "shape")
		for i := 0; i < n; i++ {
			switch big {
			case 0: // small frames, one oversize frame behind them
				if i == n-1 || i == n/2 {
					c.Sizes = append(c.Sizes, 2500000)
				} else {
					c.Sizes = append(c.Sizes, rapid.SampledFrom([]int{0, 100, 3000}).Draw(t, "size"))
				}
			case 1: // a backlog that exceeds the buffer as a whole
				c.Sizes = append(c.Sizes, rapid.SampledFrom([]int{70000, 70000, 3000, 0}).Draw(t, "size"))
			default:
				c.Sizes = append(c.Sizes, rapid.SampledFrom([]int{0, 100, 3000}).Draw(t, "size"))
			}
		}
		if rapid.IntRange(0, 2).Draw(t, "shrink?") == 0 {
			c.Shrink = rapid.IntRange(1, n).Draw(t, "shrink")
		}
		return c
	},
	Run: runDrain,
})

func TestCallerDrainsQueue(t *testing.T) { specDrain.Check(t) }

// ---- producers keep sending while the owner drains the queue ---------------------------------------------------

type DrainConcCase struct {
	Producers int `json:"producers"`
	N         int `json:"n"`    // packs per producer
	Size      int `json:"size"` // filler bytes
}

func runDrainConc(c DrainConcCase) *pbt.Result {
	pr, err := newPeer()
	if err != nil {
		return pbt.Fail("harness cannot listen: %v", err)
	}
	defer pr.shutdown()
	cl := oneway.NewForVerif(oneway.WithServers([]string{pr.addr}), oneway.WithLicense(clientLicense), oneway.WithPcode(77), oneway.WithUseQueue(), oneway.WithQueueSize(1000000))
	cl.Timeout = 5 * time.Second
	defer func() { cl.Destroy(); cl.Close() }()
	type acc struct {
		frames [][]byte
	}
	accepted := make([]acc, c.Producers)
	var wg sync.WaitGroup
	start := make(chan struct{})
	var running int32 = int32(c.Producers)
	for g := 0; g < c.Producers; g++ {
		wg.Add(1)
		go func(g int) {
			defer wg.Done()
			defer atomic.AddInt32(&running, -1)
			<-start
			for k := 0; k < c.N; k++ {
				p := mkPack(int64(g)<<32|int64(k+1), c.Size, uint64(g*7919+k))
				f := expectedFrame(p, false)
				if e := cl.SendFlush(p, false); e == nil {
					accepted[g].frames = append(accepted[g].frames, f)
				}
			}
		}(g)
	}
	close(start)
	drains := 0
	var derr error
	// the first drain happens once something has been queued (a drain on a client that has never had a connection and
	// has nothing to send is outside the statement)
	for cl.Queue.Size() == 0 && atomic.LoadInt32(&running) > 0 {
		runtime.Gosched()
	}
	for atomic.LoadInt32(&running) > 0 {
		if e := cl.SendAndClear(); e != nil && derr == nil {
			derr = e
		}
		drains++
	}
	wg.Wait()
	if e := cl.SendAndClear(); e != nil && derr == nil {
		derr = e
	}
	if derr != nil {
		return pbt.Fail("SendAndClear on a healthy connection returned %v", derr)
	}
	total, nAcc := 0, 0
	byF := map[string][2]int{}
	for g := range accepted {
		for k, f := range accepted[g].frames {
			total += len(f)
			nAcc++
			byF[string(f)] = [2]int{g, k}
		}
	}
	pr.waitFor(func() bool {
		n := 0
		for _, pc := range pr.conns {
			n += len(pc.buf)
		}
		return n >= total
	})
	pr.mu.Lock()
	defer pr.mu.Unlock()
	var got []byte
	for _, pc := range pr.conns {
		got = append(got, pc.buf...)
	}
	fr, rest, perr := splitFrames(got)
	if perr != nil || len(rest) != 0 {
		return pbt.Fail("%d producers sent while the owner drained the queue %d times: the collector's stream is not a sequence of whole frames (%d bytes left over, %v)", c.Producers, drains, len(rest), perr)
	}
	seen := map[[2]int]bool{}
	last := make([]int, c.Producers)
	for i := range last {
		last[i] = -1
	}
	for _, f := range fr {
		id, ok := byF[string(f)]
		if !ok {
			return pbt.Fail("a received frame (%d bytes) is not the frame of any accepted pack", len(f))
		}
		if seen[id] {
			return pbt.Fail("the frame of pack %d of producer %d was received twice", id[1]+1, id[0])
		}
		seen[id] = true
		if id[1] < last[id[0]] {
			return pbt.Fail("packs of producer %d arrive out of order (%d after %d)", id[0], id[1]+1, last[id[0]]+1)
		}
		last[id[0]] = id[1]
	}
	if len(seen) != nAcc {
		return pbt.Fail("%d producers had %d packs accepted into the queue while the owner drained it with SendAndClear (%d calls, all returned nil, healthy connection); the collector received %d of them: %d accepted packs were neither sent nor reported", c.Producers, nAcc, drains, len(seen), nAcc-len(seen))
	}
	return &pbt.Result{NT: drains >= 2, Classes: []string{fmt.Sprintf("producers=%d", c.Producers), fmt.Sprintf("drains>=10=%v", drains >= 10)}}
}

var specDrainConc = pbt.Register(pbt.Spec[DrainConcCase]{
	Prop: "C06", Name: "producers-send-while-owner-drains",
	Rule:  "a client in queue mode without its background goroutine (queue large enough to refuse nothing): 1-4 goroutines hand 2000-20000 small packs each to SendFlush while the owner calls SendAndClear in a loop until they are done, and once more at the end (seed C06-s23); every pack whose send returned nil must be received as exactly one whole frame, per-producer order kept; sound for any schedule; non-trivial = at least two drains happened while producers were running; distinct by case",
	Quick: 8, Thorough: 200,
	Draw: func(t *rapid.T) DrainConcCase {
		return DrainConcCase{Producers: rapid.IntRange(1, 4).Draw(t, "producers"), N: rapid.SampledFrom([]int{2000, 5000, 20000}).Draw(t, "n"), Size: rapid.SampledFrom([]int{0, 0, 100}).Draw(t, "size")}
	},
	Run: runDrainConc,
})

func TestProducersSendWhileOwnerDrains(t *testing.T) { specDrainConc.Check(t) }

// ---- many senders, each with a per-send license of its own ------------------------------------------------------

type LicStressCase struct {
	Goroutines int `json:"g"`
	N          int `json:"n"`
}

func runLicStress(c LicStressCase) *pbt.Result {
	pr, err := newPeer()
	if err != nil {
		return pbt.Fail("harness cannot listen: %v", err)
	}
	defer pr.shutdown()
	cl := oneway.NewForVerif(oneway.WithServers([]string{pr.addr}), oneway.WithLicense(clientLicense), oneway.WithPcode(77))
	cl.Timeout = 5 * time.Second
	defer cl.Close()
	frames := make([][][]byte, c.Goroutines)
	errs := make([]error, c.Goroutines)
	var wg sync.WaitGroup
	start := make(chan struct{})
	for g := 0; g < c.Goroutines; g++ {
		wg.Add(1)
		go func(g int) {
			defer wg.Done()
			lic := burstLicense(g)
			<-start
			for k := 0; k < c.N; k++ {
				p := mkPack(int64(g)<<32|int64(k+1), 0, uint64(g*104729+k))
				payload := append([]byte(nil), pack.ToBytesPack(p)...)
				frames[g] = append(frames[g], ref.Frame(10, 0, p.GetPCODE(), ref.Hash64([]byte(lic)), payload))
				if e := cl.Send(p, wnet.WithLicense(lic)); e != nil && errs[g] == nil {
					errs[g] = e
				}
			}
		}(g)
	}
	close(start)
	wg.Wait()
	total := 0
	byF := map[string][2]int{}
	for g := range frames {
		if errs[g] != nil {
			return pbt.Fail("Send from goroutine %d on a healthy connection returned %v", g, errs[g])
		}
		for k, f := range frames[g] {
			total += len(f)
			byF[string(f)] = [2]int{g, k}
		}
	}
	pr.waitFor(func() bool {
		n := 0
		for _, pc := range pr.conns {
			n += len(pc.buf)
		}
		return n >= total
	})
	pr.mu.Lock()
	defer pr.mu.Unlock()
	var got []byte
	for _, pc := range pr.conns {
		got = append(got, pc.buf...)
	}
	fr, rest, perr := splitFrames(got)
	if perr != nil || len(rest) != 0 {
		return pbt.Fail("the collector's stream is not a sequence of whole frames (%d bytes left over, %v)", len(rest), perr)
	}
	seen := map[[2]int]bool{}
	for _, f := range fr {
		id, ok := byF[string(f)]
		if !ok {
			return pbt.Fail("%d goroutines sent %d packs each, every goroutine with a per-send license of its own: a received frame (%d bytes, license hash %x) is not the frame of any send - it does not carry the hash of the license given for that send", c.Goroutines, c.N, len(f), f[10:18])
		}
		if seen[id] {
			return pbt.Fail("the frame of send %d of goroutine %d was received twice", id[1]+1, id[0])
		}
		seen[id] = true
	}
	if len(seen) != len(byF) {
		return pbt.Fail("%d sends returned nil on a healthy connection, %d frames were received", len(byF), len(seen))
	}
	return &pbt.Result{NT: true, Classes: []string{fmt.Sprintf("goroutines=%d", c.Goroutines)}}
}

var specLicStress = pbt.Register(pbt.Spec[LicStressCase]{
	Prop: "C06", Name: "per-send-licenses-concurrently",
	Rule:  "2-8 goroutines send 1000-5000 small packs each through one direct-mode client, every goroutine with a per-send license of its own (seed C06-s20); every received frame must be the reference frame of exactly one send (that send's pack, project code and the hash of the license given for it), none twice, none missing; sound for any schedule; every case is non-trivial; distinct by case",
	Quick: 6, Thorough: 150,
	Draw: func(t *rapid.T) LicStressCase {
		return LicStressCase{Goroutines: rapid.IntRange(2, 8).Draw(t, "g"), N: rapid.SampledFrom([]int{1000, 2000, 5000}).Draw(t, "n")}
	},
	Run: runLicStress,
})

func TestPerSendLicensesConcurrently(t *testing.T) { specLicStress.Check(t) }
