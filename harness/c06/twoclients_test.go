package c06

// two-clients: an agent process often runs more than one one-way client (one per collector group, or one for
// counters in queue mode and one for urgent packs in direct mode). What one client puts on its connection is built
// from its own packs and its own license only, whatever the other client is sending at the same moment.

import (
	"fmt"
	"sync"
	"testing"
	"time"

	"github.com/whatap/golib/lang/pack"
	"github.com/whatap/golib/net/oneway"
	"pgregory.net/rapid"
	"verif/pbt"
)

type TwoCase struct {
	QueueA bool   `json:"queue_a"` // client A drains a queue with its own goroutine (else direct mode)
	QueueB bool   `json:"queue_b"`
	NA     int    `json:"na"`
	NB     int    `json:"nb"`
	Size   int    `json:"size"`
	Seed   uint64 `json:"seed"`
}

func runTwo(c TwoCase) *pbt.Result {
	type side struct {
		pr     *peer
		cl     *oneway.OneWayTcpClient
		lic    string
		queue  bool
		frames map[string]int // reference frame -> sequence number
		order  [][]byte
	}
	mk := func(lic string, queue bool, pcode int64) (*side, error) {
		pr, err := newPeer()
		if err != nil {
			return nil, err
		}
		opts := []oneway.OneWayTcpClientOption{oneway.WithServers([]string{pr.addr}), oneway.WithLicense(lic), oneway.WithPcode(pcode)}
		if queue {
			opts = append(opts, oneway.WithUseQueue(), oneway.WithQueueSize(100000))
		}
		cl := oneway.NewForVerif(opts...)
		cl.Timeout = 10 * time.Second
		if queue {
			cl.StartProcessForVerif()
		}
		return &side{pr: pr, cl: cl, lic: lic, queue: queue, frames: map[string]int{}}, nil
	}
	a, err := mk("license-of-client-A", c.QueueA, 101)
	if err != nil {
		return pbt.Fail("harness cannot listen: %v", err)
	}
	defer a.pr.shutdown()
	b, err := mk("license-of-client-B-which-is-longer", c.QueueB, 202)
	if err != nil {
		return pbt.Fail("harness cannot listen: %v", err)
	}
	defer b.pr.shutdown()
	defer func() { a.cl.Destroy(); a.cl.Close(); b.cl.Destroy(); b.cl.Close() }()
	packs := func(s *side, n int, base int64) []pack.Pack {
		var out []pack.Pack
		for i := 0; i < n; i++ {
			size := 0
			if i%3 == 0 {
				size = c.Size
			}
			p := mkPack(base+int64(i), size, c.Seed+uint64(base)+uint64(i))
			f := expectedFrameLic(p, false, s.lic)
			s.frames[string(f)] = i
			s.order = append(s.order, f)
			out = append(out, p)
		}
		return out
	}
	pa, pb := packs(a, c.NA, 1_000_000), packs(b, c.NB, 2_000_000)
	errs := make(chan error, 2)
	var wg sync.WaitGroup
	for _, job := range []struct {
		s  *side
		ps []pack.Pack
	}{{a, pa}, {b, pb}} {
		wg.Add(1)
		go func(s *side, ps []pack.Pack) {
			defer wg.Done()
			for i, p := range ps {
				var e error
				if s.queue {
					e = s.cl.SendFlush(p, true)
				} else {
					e = s.cl.Send(p)
				}
				if e != nil {
					errs <- fmt.Errorf("send %d of the client with %q (queue mode %v) on a healthy connection returned %v", i, s.lic, s.queue, e)
					return
				}
			}
		}(job.s, job.ps)
	}
	wg.Wait()
	close(errs)
	for e := range errs {
		return &pbt.Result{Err: e}
	}
	for _, s := range []*side{a, b} {
		want := len(s.order)
		s.pr.waitFor(func() bool {
			n := 0
			for _, pc := range s.pr.conns {
				fr, _, _ := splitFrames(pc.buf)
				n += len(fr)
			}
			return n >= want
		})
	}
	for _, s := range []*side{a, b} {
		s.pr.settle(-1)
		s.pr.mu.Lock()
		next := 0
		for ci, pc := range s.pr.conns {
			fr, rest, err := splitFrames(pc.buf)
			if err != nil {
				s.pr.mu.Unlock()
				return pbt.Fail("collector of the client with %q, connection %d: %v (the other client was sending at the same time)", s.lic, ci, err)
			}
			if len(rest) > 0 {
				s.pr.mu.Unlock()
				return pbt.Fail("collector of the client with %q: connection %d ends with a partial frame of %d bytes", s.lic, ci, len(rest))
			}
			for k, f := range fr {
				i, ok := s.frames[string(f)]
				if !ok {
					s.pr.mu.Unlock()
					return pbt.Fail("collector of the client with %q: frame %d on connection %d (%d bytes) is not the reference frame of any pack this client sent (project code, license hash, length and body are those of the pack and of this client's license) - another client was sending at the same time", s.lic, k, ci, len(f))
				}
				if i != next {
					s.pr.mu.Unlock()
					return pbt.Fail("collector of the client with %q: frame of pack %d arrives where pack %d is due", s.lic, i, next)
				}
				next++
			}
		}
		s.pr.mu.Unlock()
		if next != len(s.order) {
			return pbt.Fail("collector of the client with %q received %d of the %d packs accepted on a healthy connection", s.lic, next, len(s.order))
		}
	}
	return &pbt.Result{NT: true, Classes: []string{fmt.Sprintf("modes=%v/%v", c.QueueA, c.QueueB)}}
}

var specTwo = pbt.Register(pbt.Spec[TwoCase]{
	Prop: "C06", Name: "two-clients",
	Rule:  "two one-way clients in one process, each with its own collector, license and project code, each in queue mode (own drain goroutine) or direct mode, send 50-600 packs each (every third one of 0-60 KB) at the same time from one goroutine per client: each collector must receive exactly the reference frames of its own client's packs (that client's license hash), whole, once, in order; non-trivial = every case; distinct by case",
	Quick: 12, Thorough: 400,
	Draw: func(t *rapid.T) TwoCase {
		return TwoCase{QueueA: rapid.IntRange(0, 3).Draw(t, "qa") > 0, QueueB: rapid.Bool().Draw(t, "qb"), NA: rapid.IntRange(50, 600).Draw(t, "na"), NB: rapid.IntRange(50, 600).Draw(t, "nb"),
			Size: rapid.SampledFrom([]int{0, 300, 5000, 60000}).Draw(t, "size"), Seed: rapid.Uint64().Draw(t, "seed")}
	},
	Run: runTwo,
})

func TestTwoClients(t *testing.T) { specTwo.Check(t) }
