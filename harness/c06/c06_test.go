// C06 One-way TCP client delivers whole frames, in order, at most once, and recovers.
package c06

import (
	"strconv"
	"sync/atomic"

	"bytes"
	"encoding/binary"
	"fmt"
	"github.com/whatap/golib/config"
	"net"
	"os"
	"sync"
	"testing"
	"time"

	"github.com/whatap/golib/lang/pack"
	wnet "github.com/whatap/golib/net"
	"github.com/whatap/golib/net/oneway"
	"pgregory.net/rapid"
	"verif/gpack"
	"verif/pbt"
	"verif/ref"
	"verif/rfl"
)

func TestMain(m *testing.M)   { pbt.Main(m, "C06") }
func TestReplay(t *testing.T) { pbt.Replay(t) }

const waitLimit = 15 * time.Second // bounded-safety guard for "the frame arrives" (loopback delivery takes microseconds)

// ---- the harness-owned peer -------------------------------------------------------------

type pconn struct {
	c      *net.TCPConn
	buf    []byte
	limit  int  // close after this many bytes have been read (-1: none)
	cut    bool // the peer cut this connection (limit reached, reset, or closed on purpose)
	closed bool // reader finished
}

type peer struct {
	mu     sync.Mutex
	cond   *sync.Cond
	addr   string
	ln     net.Listener
	conns  []*pconn
	wg     sync.WaitGroup
	paused bool // the collector is busy: it does not read from its connections for a while
	slow   bool // the collector is alive but slower than the agent: 16 KiB every 2 ms
}

// newPeer listens on an ephemeral port of a loopback address that is private to this process and case
// (127.<10 + pid mod 200>.<n / 250>.<1 + n mod 250>): a client left over from an earlier case - or from another
// process running the same harness - that is still re-dialling its dead collector cannot reach this one even when
// the kernel hands the same port number out again (seen once: a foreign frame on a second connection of a healthy
// scenario while two C06 runs shared the machine).
var peerSeq atomic.Int64

func newPeer() (*peer, error) {
	var lastErr error
	for try := 0; try < 20; try++ {
		n := peerSeq.Add(1)
		p, err := newPeerAt(fmt.Sprintf("127.%d.%d.%d:0", 10+os.Getpid()%200, (n/250)%250, 1+n%250))
		if err == nil {
			return p, nil
		}
		lastErr = err
	}
	return nil, lastErr
}

var peer6600 atomic.Int64

// newPeer6600 listens on port 6600 (the port ApplyConfig always derives) of a loopback address that is private to
// this process and case: 127.6.<shard+1>.<n>.
func newPeer6600() (*peer, error) {
	shard, _ := pbt.Shard()
	var lastErr error
	for try := 0; try < 20; try++ {
		n := peer6600.Add(1)
		p, err := newPeerAt(fmt.Sprintf("127.6.%d.%d:6600", 1+(shard+os.Getpid())%250, 1+n%250))
		if err == nil {
			return p, nil
		}
		lastErr = err
	}
	return nil, lastErr
}

func newPeerAt(addr string) (*peer, error) {
	p := &peer{}
	p.cond = sync.NewCond(&p.mu)
	ln, err := net.Listen("tcp", addr)
	if err != nil {
		return nil, err
	}
	p.addr = ln.Addr().String()
	p.listenOn(ln)
	return p, nil
}

func (p *peer) listenOn(ln net.Listener) {
	p.mu.Lock()
	p.ln = ln
	p.mu.Unlock()
	p.wg.Add(1)
	go func() {
		defer p.wg.Done()
		for {
			c, err := ln.Accept()
			if err != nil {
				return
			}
			pc := &pconn{c: c.(*net.TCPConn), limit: -1}
			p.mu.Lock()
			p.conns = append(p.conns, pc)
			p.cond.Broadcast()
			p.mu.Unlock()
			p.wg.Add(1)
			go p.reader(pc)
		}
	}()
}

func (p *peer) reader(pc *pconn) {
	defer p.wg.Done()
	tmp := make([]byte, 64*1024)
	for {
		p.mu.Lock()
		if p.paused && !pc.cut {
			p.mu.Unlock()
			time.Sleep(300 * time.Microsecond)
			continue
		}
		want := len(tmp)
		if p.slow && !pc.cut {
			want = 16 * 1024
			p.mu.Unlock()
			time.Sleep(2 * time.Millisecond)
			p.mu.Lock()
		}
		if pc.limit >= 0 {
			if rem := pc.limit - len(pc.buf); rem <= 0 {
				pc.cut = true
				pc.c.SetLinger(0)
				pc.c.Close()
				pc.closed = true
				p.cond.Broadcast()
				p.mu.Unlock()
				return
			} else if rem < want {
				want = rem
			}
		}
		p.mu.Unlock()
		pc.c.SetReadDeadline(time.Now().Add(50 * time.Millisecond))
		n, err := pc.c.Read(tmp[:want])
		p.mu.Lock()
		pc.buf = append(pc.buf, tmp[:n]...)
		if n > 0 {
			p.cond.Broadcast()
		}
		if err != nil {
			if ne, ok := err.(net.Error); ok && ne.Timeout() && !pc.cut {
				p.mu.Unlock()
				continue
			}
			if pc.cut {
				pc.c.SetLinger(0) // a cut is always abortive (RST), whichever branch notices it
			}
			pc.c.Close()
			pc.closed = true
			p.cond.Broadcast()
			p.mu.Unlock()
			return
		}
		p.mu.Unlock()
	}
}

// waitFor blocks until cond() holds (evaluated under the lock) or the bounded-safety limit expires.
func (p *peer) waitFor(cond func() bool) bool {
	deadline := time.Now().Add(waitLimit)
	for {
		p.mu.Lock()
		ok := cond()
		p.mu.Unlock()
		if ok {
			return true
		}
		if time.Now().After(deadline) {
			return false
		}
		time.Sleep(500 * time.Microsecond)
	}
}

// settle waits until no connection the peer has not cut ends inside a frame (bytes a send has handed to the kernel are
// still on their way while the collector's reader has not been scheduled: on a busy machine that takes longer than any
// fixed pause), or the bounded-safety limit expires. A frame that really was torn stays torn and is judged afterwards.
// skip: index of a connection that is allowed to end inside a frame (-1: none).
func (p *peer) settle(skip int) {
	p.waitFor(func() bool {
		for ci, pc := range p.conns {
			if pc.cut || ci == skip {
				continue
			}
			if _, rest, err := splitFrames(pc.buf); err == nil && len(rest) > 0 {
				return false
			}
		}
		return true
	})
}

func (p *peer) nconns() int {
	p.mu.Lock()
	defer p.mu.Unlock()
	return len(p.conns)
}

// cutCurrent cuts the latest connection: after `after` more bytes (0: now). reset=true sends RST.
func (p *peer) cutCurrent(after int) {
	p.mu.Lock()
	defer p.mu.Unlock()
	if len(p.conns) == 0 {
		return
	}
	pc := p.conns[len(p.conns)-1]
	if pc.closed {
		return
	}
	pc.limit = len(pc.buf) + after
	pc.cut = true
}

func (p *peer) setPaused(b bool) {
	p.mu.Lock()
	p.paused = b
	if !b {
		p.slow = false
	}
	p.mu.Unlock()
}

func (p *peer) setSlow() {
	p.mu.Lock()
	p.slow = true
	p.mu.Unlock()
}

func (p *peer) stopListening() {
	p.mu.Lock()
	ln := p.ln
	p.ln = nil
	p.mu.Unlock()
	if ln != nil {
		ln.Close()
	}
}

func (p *peer) listenAgain() error {
	var ln net.Listener
	var err error
	for i := 0; i < 50; i++ {
		ln, err = net.Listen("tcp", p.addr)
		if err == nil {
			p.listenOn(ln)
			return nil
		}
		time.Sleep(20 * time.Millisecond)
	}
	return err
}

func (p *peer) shutdown() {
	p.stopListening()
	p.mu.Lock()
	for _, pc := range p.conns {
		pc.cut = true
		pc.c.Close()
	}
	p.mu.Unlock()
	p.wg.Wait()
}

// frames splits a connection's byte stream into complete frames and a remainder.
func splitFrames(b []byte) (frames [][]byte, rest []byte, err error) {
	for len(b) >= 22 {
		if b[0] != 10 || b[1] != 0 {
			return frames, b, fmt.Errorf("stream position does not start a frame: source/version bytes %d,%d", b[0], b[1])
		}
		n := int(int32(binary.BigEndian.Uint32(b[18:22])))
		if n < 0 {
			return frames, b, fmt.Errorf("negative frame length %d", n)
		}
		if len(b) < 22+n {
			break
		}
		frames = append(frames, b[:22+n])
		b = b[22+n:]
	}
	return frames, b, nil
}

// ---- cases -----------------------------------------------------------------------------------

type Action struct {
	K        string `json:"k"`                  // send | burst | cut | reset | down | up | idle | pause | resume | reconnect | reconf
	Ms       int    `json:"ms,omitempty"`       // idle: nothing is sent for this many milliseconds
	Size     int    `json:"size,omitempty"`     // filler bytes of the pack (send, burst)
	Seed     uint64 `json:"seed,omitempty"`     // pack content
	Override bool   `json:"override,omitempty"` // per-send license
	After    int    `json:"after,omitempty"`    // cut: bytes of the next frame(s) the peer still reads
	G        int    `json:"g,omitempty"`        // burst: goroutines
	M        int    `json:"m,omitempty"`        // burst: packs per goroutine
	// Reuse (send): the caller sends the pack OBJECT of its previous send again after changing its project code and
	// object id, the time left as it was (one counter pack per interval, sent to project A and then to project B)
	Reuse bool `json:"reuse,omitempty"`
}

type Case struct {
	Actions []Action `json:"actions"`
	// TimeoutMs: the client's write timeout (exported field Timeout); 0 = 5 s. Histories with an "idle" action use a
	// short one so that the connection can grow older than the timeout within the case.
	TimeoutMs int `json:"timeout_ms,omitempty"`
	// Port6600: the peer listens on port 6600 of a private loopback address, so that "reconf" actions can change the
	// client's license through ApplyConfig (which always derives port 6600)
	Port6600 bool `json:"port6600,omitempty"`
}

// mapConf is the configuration handed to ApplyConfig.
type mapConf map[string]string

func (m mapConf) ApplyDefault()       {}
func (m mapConf) GetConfFile() string { return "" }
func (m mapConf) Destroy()            {}
func (m mapConf) GetKeys() []string {
	var ks []string
	for k := range m {
		ks = append(ks, k)
	}
	return ks
}
func (m mapConf) GetValue(key string) string { return m[key] }
func (m mapConf) GetValueDef(key, def string) string {
	if v, ok := m[key]; ok && v != "" {
		return v
	}
	return def
}
func (m mapConf) GetBoolean(key string, def bool) bool { return def }
func (m mapConf) GetInt(key string, def int) int32 {
	if v, err := strconv.Atoi(m[key]); err == nil {
		return int32(v)
	}
	return int32(def)
}
func (m mapConf) GetIntSet(key, def, deli string) []int32 { return nil }
func (m mapConf) GetLong(key string, def int64) int64 {
	if v, err := strconv.ParseInt(m[key], 10, 64); err == nil {
		return v
	}
	return def
}
func (m mapConf) GetStringArray(key string, def string, deli string) []string { return nil }
func (m mapConf) GetStringHashSet(key, def, deli string) []int32              { return nil }
func (m mapConf) GetStringHashCodeSet(key, def, deli string) []int32          { return nil }
func (m mapConf) GetFloat(key string, def float32) float32                    { return def }
func (m mapConf) SetValues(v *map[string]string)                              {}
func (m mapConf) ToString() string                                            { return fmt.Sprint(map[string]string(m)) }
func (m mapConf) String() string                                              { return m.ToString() }

var _ config.Config = mapConf{}

type sent struct {
	id    int64
	frame []byte
	g     int // sender goroutine (0: the sequential harness)
}

var packTypes = []string{"TextPack", "LogSinkPack", "ParamPack", "TagCountPack", "EventPack", "HitMapPack1"}

func mkPack(id int64, size int, seed uint64) pack.Pack {
	name := packTypes[int(seed%uint64(len(packTypes)))]
	if size > 0 {
		name = "LogSinkPack"
	}
	p := gpack.ByName[name].Build(rfl.NewStream(nil, seed, 40), 0)
	if lp, ok := p.(*pack.LogSinkPack); ok && size > 0 {
		b := make([]byte, size)
		for i := range b {
			b[i] = byte('a' + (i*7+int(seed%23))%26)
		}
		lp.Content = string(b)
	}
	p.SetTime(id) // unique id of the send inside the frame
	return p
}

const clientLicense = "license-of-the-client"
const overrideLicense = "per-send-license"

func expectedFrame(p pack.Pack, override bool) []byte {
	return expectedFrameLic(p, override, clientLicense)
}

func expectedFrameLic(p pack.Pack, override bool, lic string) []byte {
	if override {
		lic = overrideLicense
	}
	payload := append([]byte(nil), pack.ToBytesPack(p)...)
	return ref.Frame(10, 0, p.GetPCODE(), ref.Hash64([]byte(lic)), payload)
}

func doSend(cl *oneway.OneWayTcpClient, p pack.Pack, override bool) error {
	if override {
		return cl.Send(p, wnet.WithLicense(overrideLicense))
	}
	return cl.Send(p)
}

type runner struct {
	pr                                  *peer
	cl                                  *oneway.OneWayTcpClient
	nextID                              int64
	all                                 []sent         // every send issued, in issue order
	byFrame                             map[string]int // frame bytes -> index in all
	guaranteed                          map[int]bool   // index in all -> must be received
	faulted                             bool
	errSeen                             bool
	attempts                            int // sends since the first error while the listener is up
	listening                           bool
	connsAtFault                        int
	faults, deliveredAfterFault, bursts int
	license                             string // the client default in force
	paused                              bool
	pausedBytes, closesWithBacklog      int
	pausedIdx                           []int
	slow                                bool
	sinceOwnerClose                     bool // Close / ApplyConfig by the owner, and no confirmed delivery since
	resetDelivered                      bool // the peer reset the connection and the RST has arrived: the next write fails visibly
	reconfs                             int
	lastPack                            pack.Pack // pack object of the previous sequential send
	forceID                             int64     // id recorded for the next send instead of the pack's time (re-sent object)
	resent                              int
}

func (r *runner) received() map[int]int { // index in all -> connection index
	out := map[int]int{}
	r.pr.mu.Lock()
	defer r.pr.mu.Unlock()
	for ci, pc := range r.pr.conns {
		fr, _, _ := splitFrames(pc.buf)
		for _, f := range fr {
			if i, ok := r.byFrame[string(f)]; ok {
				if _, dup := out[i]; !dup {
					out[i] = ci
				}
			}
		}
	}
	return out
}

func (r *runner) waitReceived(idx int, minConn int) bool {
	return r.pr.waitFor(func() bool {
		for ci, pc := range r.pr.conns {
			if ci < minConn {
				continue
			}
			fr, _, _ := splitFrames(pc.buf)
			for _, f := range fr {
				if bytes.Equal(f, r.all[idx].frame) {
					return true
				}
			}
		}
		return false
	})
}

// resume lets the collector read again and waits until it has caught up with everything accepted meanwhile.
func (r *runner) resume() string {
	r.pr.setPaused(false)
	r.paused, r.slow = false, false
	for _, i := range r.pausedIdx {
		if !r.waitReceived(i, 0) {
			return fmt.Sprintf("send id %d returned nil on a healthy connection while the collector was slow to read (%d closes by the owner happened with frames still unread) but its frame never arrived", r.all[i].id, r.closesWithBacklog)
		}
	}
	r.pausedIdx, r.pausedBytes = nil, 0
	return ""
}

func burstLicense(gi int) string {
	if gi == 0 {
		return overrideLicense
	}
	return fmt.Sprintf("%s-of-goroutine-%d", overrideLicense, gi)
}

// recordLic records a send made with the per-send license lic.
func (r *runner) recordLic(p pack.Pack, lic string, g int) int {
	payload := append([]byte(nil), pack.ToBytesPack(p)...)
	f := ref.Frame(10, 0, p.GetPCODE(), ref.Hash64([]byte(lic)), payload)
	r.all = append(r.all, sent{id: p.GetTime(), frame: f, g: g})
	r.byFrame[string(f)] = len(r.all) - 1
	return len(r.all) - 1
}

func (r *runner) record(p pack.Pack, override bool, g int) int {
	lic := r.license
	if lic == "" {
		lic = clientLicense
	}
	f := expectedFrameLic(p, override, lic)
	id := p.GetTime()
	if r.forceID != 0 {
		id = r.forceID
	}
	r.all = append(r.all, sent{id: id, frame: f, g: g})
	r.byFrame[string(f)] = len(r.all) - 1
	return len(r.all) - 1
}

func run(c Case) *pbt.Result {
	mk := newPeer
	if c.Port6600 {
		mk = newPeer6600
	}
	pr, err := mk()
	if err != nil {
		if c.Port6600 {
			return &pbt.Result{Classes: []string{"harness-could-not-listen-on-port-6600"}}
		}
		return pbt.Fail("harness cannot listen: %v", err)
	}
	defer pr.shutdown()
	cl := oneway.NewForVerif(oneway.WithServers([]string{pr.addr}), oneway.WithLicense(clientLicense), oneway.WithPcode(77))
	cl.Timeout = 5 * time.Second
	if c.TimeoutMs > 0 {
		cl.Timeout = time.Duration(c.TimeoutMs) * time.Millisecond
	}
	defer cl.Close()
	idles := 0
	r := &runner{pr: pr, cl: cl, byFrame: map[string]int{}, guaranteed: map[int]bool{}, listening: true, license: clientLicense}

	for ai, a := range c.Actions {
		if r.paused {
			// the collector reads again (and catches up) before anything but small sends and closes by the owner
			resume := false
			switch a.K {
			case "send":
				resume = !r.slow && (a.Size > 5000 || r.pausedBytes > 40000) || r.slow && (a.Size > 70000 || r.pausedBytes > 3000000)
			case "reconnect", "reconf", "pause":
			default:
				resume = true
			}
			if resume {
				if msg := r.resume(); msg != "" {
					return pbt.Fail("action %d: %s", ai, msg)
				}
			}
		}
		switch a.K {
		case "send":
			r.nextID++
			var p pack.Pack
			if a.Reuse && r.lastPack != nil && a.Size == 0 {
				// the same object again, with another project code and object id and the time it had (seed C06-s24)
				p = r.lastPack
				p.SetPCODE(p.GetPCODE() + 1)
				p.SetOID(int32(r.nextID*13 + 5))
				r.forceID = r.nextID
				r.resent++
			} else {
				p = mkPack(r.nextID, a.Size, a.Seed)
			}
			r.lastPack = p
			idx := r.record(p, a.Override, 0)
			r.forceID = 0
			err := doSend(cl, p, a.Override)
			if err != nil {
				r.resetDelivered = false
			}
			switch {
			case !r.faulted:
				if err != nil {
					return pbt.Fail("action %d: Send on a healthy connection (listener up, no fault injected) returned %v", ai, err)
				}
				r.guaranteed[idx] = true
				if r.paused {
					r.pausedBytes += len(r.all[idx].frame) // the collector will read it when it has time
					r.pausedIdx = append(r.pausedIdx, idx)
				} else if !r.waitReceived(idx, 0) {
					return pbt.Fail("action %d: Send returned nil on a healthy connection but the frame (id %d, %d bytes) was not received within %v", ai, r.nextID, len(r.all[idx].frame), waitLimit)
				} else {
					r.sinceOwnerClose = false
				}
			case err != nil:
				r.errSeen = true
				if r.listening {
					r.attempts++
					if r.attempts > 3 {
						return pbt.Fail("action %d: the listener is up but the client has not recovered: send number %d since the first reported error still fails (%v)", ai, r.attempts, err)
					}
				}
			default: // nil while faulted
				if r.resetDelivered && !r.errSeen {
					return pbt.Fail("action %d: the collector reset the connection (RST, delivered before this send) - the loss of frame id %d is detectable at the first write to the socket, yet Send returned nil", ai, r.nextID)
				}
				if r.errSeen && r.listening {
					// an error was reported, so this send went out on a re-dialled connection: it must arrive there
					if !r.waitReceived(idx, r.connsAtFault) {
						return pbt.Fail("action %d: after the loss was reported, Send returned nil but its frame (id %d) was not received on a new connection within %v", ai, r.nextID, waitLimit)
					}
					r.guaranteed[idx] = true
					r.faulted, r.errSeen, r.attempts = false, false, 0
					r.deliveredAfterFault++
				}
				// nil before any error was reported: the write went into a dead socket; loss is not detectable, no constraint
			}
			r.resetDelivered = false // only the first send after the reset is judged
		case "burst":
			if r.faulted || !r.listening {
				continue
			}
			g, m := a.G, a.M
			if g < 2 {
				g = 2
			}
			if m < 1 {
				m = 1
			}
			type job struct {
				p   pack.Pack
				idx int
			}
			jobs := make([][]job, g)
			for gi := 0; gi < g; gi++ {
				for k := 0; k < m; k++ {
					r.nextID++
					p := mkPack(r.nextID, a.Size, a.Seed+uint64(gi*131+k))
					if a.Override {
						// every goroutine sends with a per-send license of its own (seed C06-s20)
						jobs[gi] = append(jobs[gi], job{p, r.recordLic(p, burstLicense(gi), gi+1+ai*100)})
					} else {
						jobs[gi] = append(jobs[gi], job{p, r.record(p, a.Override, gi+1+ai*100)})
					}
				}
			}
			errs := make([]error, g)
			var wg sync.WaitGroup
			for gi := 0; gi < g; gi++ {
				wg.Add(1)
				go func(gi int) {
					defer wg.Done()
					for _, j := range jobs[gi] {
						var e error
						if a.Override {
							e = cl.Send(j.p, wnet.WithLicense(burstLicense(gi)))
						} else {
							e = doSend(cl, j.p, false)
						}
						if e != nil && errs[gi] == nil {
							errs[gi] = e
						}
					}
				}(gi)
			}
			wg.Wait()
			for gi, e := range errs {
				if e != nil {
					return pbt.Fail("action %d: concurrent Send from goroutine %d on a healthy connection returned %v", ai, gi, e)
				}
			}
			for gi := range jobs {
				for _, j := range jobs[gi] {
					r.guaranteed[j.idx] = true
					if !r.waitReceived(j.idx, 0) {
						return pbt.Fail("action %d: a frame sent concurrently (goroutine %d, id %d) was not received although Send returned nil", ai, gi, r.all[j.idx].id)
					}
				}
			}
			r.bursts++
		case "cut", "reset":
			if r.faulted || pr.nconns() == 0 || r.sinceOwnerClose {
				// (after the owner closed or reloaded, no frame has yet been confirmed on the client's present
				// connection: the harness does not know which of the peer's connections that is)
				continue
			}
			after := a.After
			if a.K == "reset" {
				after = 0
			}
			r.connsAtFault = pr.nconns()
			pr.cutCurrent(after)
			if after == 0 {
				// make sure the peer has really closed before the next action (otherwise the next send may still be read)
				pr.waitFor(func() bool { return pr.conns[len(pr.conns)-1].closed })
				if a.K == "reset" {
					// the peer closes with SO_LINGER 0: an RST goes out at once; give loopback time to deliver it
					time.Sleep(40 * time.Millisecond)
					r.resetDelivered = true
				}
			}
			r.faulted, r.errSeen, r.attempts = true, false, 0
			r.faults++
		case "down":
			if !r.listening {
				continue
			}
			r.connsAtFault = pr.nconns()
			pr.stopListening()
			pr.cutCurrent(0)
			if pr.nconns() > 0 {
				pr.waitFor(func() bool { return pr.conns[len(pr.conns)-1].closed })
			}
			r.listening = false
			r.faulted, r.errSeen, r.attempts = true, false, 0
			r.faults++
		case "pause":
			// the collector stops reading for a while; only little is sent meanwhile (it all fits the socket buffers)
			if r.faulted || !r.listening || pr.nconns() == 0 {
				continue
			}
			if a.Seed%2 == 1 {
				pr.setSlow() // slower than the agent: larger packs may be sent meanwhile
				r.slow = true
			} else {
				pr.setPaused(true)
			}
			r.paused = true
		case "resume":
			// handled above
		case "reconnect":
			// the owner closes the connection (as ApplyConfig does on a license change); accepted frames stay accepted
			if r.faulted || !r.listening {
				continue
			}
			if r.paused && r.pausedBytes > 0 {
				r.closesWithBacklog++
			}
			cl.Close()
			r.sinceOwnerClose = true
		case "reconf":
			// a configuration reload with another license: later sends carry its hash
			if !c.Port6600 || r.faulted || !r.listening {
				continue
			}
			if r.paused && r.pausedBytes > 0 {
				r.closesWithBacklog++
			}
			host, _, _ := net.SplitHostPort(pr.addr)
			r.license = fmt.Sprintf("license-%d-after-reload", a.Seed%5)
			cl.ApplyConfig(mapConf{"license": r.license, "whatap.server.host": host, "pcode": "77"})
			cl.Timeout = 5 * time.Second
			r.sinceOwnerClose = true
			r.reconfs++
		case "idle":
			// a quiet period; the connection stays healthy, however old it gets
			time.Sleep(time.Duration(a.Ms) * time.Millisecond)
			if !r.faulted && pr.nconns() > 0 {
				idles++
			}
		case "up":
			if r.listening {
				continue
			}
			if err := pr.listenAgain(); err != nil {
				return &pbt.Result{Classes: []string{"harness-could-not-relisten"}}
			}
			r.listening = true
			r.attempts = 0
		}
	}
	// final audit of everything every connection received
	if msg := r.resume(); msg != "" {
		return pbt.Fail("at the end: %s", msg)
	}
	time.Sleep(30 * time.Millisecond)
	pr.settle(-1)
	pr.mu.Lock()
	seen := map[int]int{}
	lastPerG := map[int]int64{}
	var auditErr error
	for ci, pc := range pr.conns {
		fr, rest, err := splitFrames(pc.buf)
		if err != nil {
			auditErr = fmt.Errorf("connection %d: %v (after %d well-formed frames)", ci, err, len(fr))
			break
		}
		if len(rest) > 0 && !pc.cut {
			auditErr = fmt.Errorf("connection %d, which the peer never cut, ends with a partial frame of %d bytes", ci, len(rest))
			break
		}
		for k, f := range fr {
			i, ok := r.byFrame[string(f)]
			if !ok {
				auditErr = fmt.Errorf("connection %d frame %d (%d bytes) is not the frame of any pack that was sent (wrong project code, license hash, length or payload)", ci, k, len(f))
				break
			}
			if prev, dup := seen[i]; dup {
				auditErr = fmt.Errorf("the frame of send id %d was received twice (connections %d and %d)", r.all[i].id, prev, ci)
				break
			}
			seen[i] = ci
			g := r.all[i].g
			if r.all[i].id <= lastPerG[g] {
				auditErr = fmt.Errorf("frames of sender %d arrive out of order: id %d after id %d", g, r.all[i].id, lastPerG[g])
				break
			}
			lastPerG[g] = r.all[i].id
		}
		if auditErr != nil {
			break
		}
	}
	pr.mu.Unlock()
	if auditErr != nil {
		return &pbt.Result{Err: auditErr}
	}
	for i := range r.guaranteed {
		if _, ok := seen[i]; !ok {
			return pbt.Fail("send id %d returned nil on a healthy connection but its frame is in no connection's stream", r.all[i].id)
		}
	}
	classes := []string{fmt.Sprintf("idle-periods-on-a-healthy-connection=%d", min(idles, 2)), fmt.Sprintf("owner-closes-with-unread-frames=%d", min(r.closesWithBacklog, 2)), fmt.Sprintf("license-reloads=%d", min(r.reconfs, 2)), fmt.Sprintf("faults=%d", min(r.faults, 3)), fmt.Sprintf("recovered=%d", min(r.deliveredAfterFault, 3)), fmt.Sprintf("bursts=%d", min(r.bursts, 2)), fmt.Sprintf("connections=%d", min(pr.nconns(), 4))}
	if r.resent > 0 {
		classes = append(classes, "pack-object-sent-again-with-another-project-code")
	}
	return &pbt.Result{NT: r.deliveredAfterFault >= 1 || r.bursts >= 1, Classes: classes}
}

func min(a, b int) int {
	if a < b {
		return a
	}
	return b
}

func drawActions(t *rapid.T, big bool) []Action {
	n := rapid.IntRange(3, 30).Draw(t, "n")
	var out []Action
	for i := 0; i < n; i++ {
		k := rapid.SampledFrom([]string{"send", "send", "send", "send", "send", "send", "burst", "cut", "reset", "down", "up", "up", "pause", "reconnect", "reconf", "resume"}).Draw(t, "k")
		a := Action{K: k}
		switch k {
		case "reconf":
			a.Seed = rapid.Uint64().Draw(t, "seed")
		case "send", "burst":
			a.Seed = rapid.Uint64().Draw(t, "seed")
			a.Override = rapid.IntRange(0, 3).Draw(t, "ovr") == 0
			sizes := []int{0, 0, 0, 100, 5000, 70000}
			if big {
				sizes = append(sizes, 300000, 2500000)
			}
			a.Size = rapid.SampledFrom(sizes).Draw(t, "size")
			if k == "send" && a.Size == 0 {
				a.Reuse = rapid.IntRange(0, 3).Draw(t, "reuse") == 0
			}
			if k == "burst" {
				a.G = rapid.IntRange(2, 8).Draw(t, "g")
				a.M = rapid.IntRange(1, 6).Draw(t, "m")
				if a.Size > 70000 {
					a.Size = 70000
				}
			}
		case "cut":
			a.After = rapid.SampledFrom([]int{0, 1, 5, 21, 22, 23, 40, 200}).Draw(t, "after")
		}
		out = append(out, a)
	}
	return out
}

var specDirect = pbt.Register(pbt.Spec[Case]{
	Prop: "C06", Name: "direct-mode-histories",
	Rule:  "histories on a fresh one-way client in direct mode against a harness-owned loopback peer: send (packs of 6 types, 30 B..2.5 MB so that frames exceed the 2 MiB write buffer in the thorough tier, with/without per-send license; one small send in four re-sends the pack object of the previous send with another project code and object id and the same time), burst (2-8 goroutines x 1-6 concurrent sends; with per-send licenses every goroutine uses a license of its own), peer faults: cut after n bytes of the next frame (mid-header, mid-payload), cut between frames, reset, listener down (k failed connects) / up; collector pauses reading or reads slowly (16 KiB per 2 ms) / resumes, the owner closes the connection (Close, or ApplyConfig with another license when the peer listens on port 6600) with or without accepted frames still unread; in a quarter of the histories the write timeout is 250-400 ms and 1-2 quiet periods longer than it are inserted (the connection stays healthy however old it is); oracle = every connection's stream is a concatenation of whole frames (a partial tail only where the peer cut), every frame equals the reference frame of exactly one send (pack's project code, hash of the license in force, exact length), none twice, per-sender order kept, every send that returned nil on a healthy connection is received, the first send after a reset whose RST has been delivered reports an error (the loss is detectable), from the first reported error on the client recovers within three sends once the listener is up and the first nil send arrives on a new connection; non-trivial = a frame delivered after a fault, or a concurrent burst; distinct by case",
	Quick: 60, Thorough: 2000,
	Draw: func(t *rapid.T) Case {
		c := Case{Actions: drawActions(t, pbt.Thorough())}
		c.Port6600 = rapid.Bool().Draw(t, "port6600")
		if rapid.IntRange(0, 2).Draw(t, "withbacklogclose") == 0 {
			// the collector is slow, a few small packs are accepted, the owner closes (or reloads the license), more packs
			block := []Action{{K: "pause"}}
			if rapid.Bool().Draw(t, "slowcollector") {
				// alive but slower than the agent: a backlog of large packs builds up in the connection
				block[0].Seed = 1
				for k := rapid.IntRange(4, 24).Draw(t, "nbacklog"); k > 0; k-- {
					block = append(block, Action{K: "send", Seed: rapid.Uint64().Draw(t, "seed"), Size: rapid.SampledFrom([]int{5000, 70000, 70000}).Draw(t, "size")})
				}
			} else {
				for k := rapid.IntRange(1, 4).Draw(t, "nbacklog"); k > 0; k-- {
					block = append(block, Action{K: "send", Seed: rapid.Uint64().Draw(t, "seed"), Size: rapid.SampledFrom([]int{0, 0, 100, 3000}).Draw(t, "size")})
				}
			}
			closeKind := "reconnect"
			if c.Port6600 && rapid.Bool().Draw(t, "byreload") {
				closeKind = "reconf"
			}
			block = append(block, Action{K: closeKind, Seed: rapid.Uint64().Draw(t, "seed")}, Action{K: "send", Seed: rapid.Uint64().Draw(t, "seed")}, Action{K: "resume"})
			at := rapid.IntRange(0, len(c.Actions)).Draw(t, "blockat")
			c.Actions = append(c.Actions[:at], append(block, c.Actions[at:]...)...)
		}
		if rapid.IntRange(0, 3).Draw(t, "withidle") == 0 {
			// 1-2 quiet periods longer than the write timeout, small frames only (a short timeout must not be what a large frame runs into)
			c.TimeoutMs = rapid.IntRange(250, 400).Draw(t, "timeout")
			for i := range c.Actions {
				if c.Actions[i].Size > 5000 {
					c.Actions[i].Size = 5000
				}
			}
			for k := rapid.IntRange(1, 2).Draw(t, "nidle"); k > 0; k-- {
				at := rapid.IntRange(1, len(c.Actions)).Draw(t, "idleat")
				idle := Action{K: "idle", Ms: c.TimeoutMs + rapid.IntRange(30, 150).Draw(t, "extra")}
				c.Actions = append(c.Actions[:at], append([]Action{idle}, c.Actions[at:]...)...)
			}
		}
		return c
	},
	Run: run,
})

func TestDirectMode(t *testing.T) {
	// fixed scenarios: recovery sequence after a cut, after a reset, after listener down/up, concurrent burst, large frame
	for _, c := range []Case{
		{Actions: []Action{{K: "send", Seed: 1}, {K: "cut", After: 0}, {K: "send", Seed: 2}, {K: "send", Seed: 3}, {K: "send", Seed: 4}, {K: "send", Seed: 5}, {K: "send", Seed: 6}}},
		{Actions: []Action{{K: "send", Seed: 1}, {K: "cut", After: 30}, {K: "send", Seed: 2, Size: 5000}, {K: "send", Seed: 3}, {K: "send", Seed: 4}, {K: "send", Seed: 5}, {K: "send", Seed: 6}}},
		{Actions: []Action{{K: "send", Seed: 1}, {K: "reset"}, {K: "send", Seed: 2}, {K: "send", Seed: 3}, {K: "send", Seed: 4}, {K: "send", Seed: 5}}},
		{Actions: []Action{{K: "send", Seed: 1}, {K: "down"}, {K: "send", Seed: 2}, {K: "send", Seed: 3}, {K: "up"}, {K: "send", Seed: 4}, {K: "send", Seed: 5}, {K: "send", Seed: 6}}},
		{Actions: []Action{{K: "burst", Seed: 9, G: 8, M: 6, Size: 5000}, {K: "send", Seed: 1, Override: true}, {K: "burst", Seed: 7, G: 4, M: 3, Override: true}}},
		{Actions: []Action{{K: "send", Seed: 1, Size: 2500000}, {K: "send", Seed: 2}, {K: "send", Seed: 3, Size: 2200000, Override: true}}},
		// the peer goes away in the middle of a frame that is larger than the client's 2 MiB write buffer
		{Actions: []Action{{K: "send", Seed: 1}, {K: "cut", After: 65536}, {K: "send", Seed: 2, Size: 2500000}, {K: "send", Seed: 3}, {K: "send", Seed: 4}, {K: "send", Seed: 5}, {K: "send", Seed: 6}}},
		{Actions: []Action{{K: "send", Seed: 1}, {K: "cut", After: 2200000}, {K: "send", Seed: 2, Size: 2500000}, {K: "send", Seed: 3, Size: 100}, {K: "send", Seed: 4}, {K: "send", Seed: 5}, {K: "send", Seed: 6}}},
		// the owner closes the connection while the collector has not yet read what was accepted
		{Actions: []Action{{K: "send", Seed: 1}, {K: "pause"}, {K: "send", Seed: 2}, {K: "send", Seed: 3, Size: 3000}, {K: "send", Seed: 4}, {K: "reconnect"}, {K: "send", Seed: 5}, {K: "resume"}, {K: "send", Seed: 6}}},
		{Actions: []Action{{K: "send", Seed: 1}, {K: "pause", Seed: 1}, {K: "send", Seed: 2, Size: 70000}, {K: "send", Seed: 3, Size: 70000}, {K: "send", Seed: 4, Size: 70000}, {K: "send", Seed: 5, Size: 70000}, {K: "send", Seed: 6, Size: 70000}, {K: "send", Seed: 7, Size: 70000}, {K: "send", Seed: 8, Size: 70000}, {K: "send", Seed: 9, Size: 70000}, {K: "send", Seed: 10, Size: 70000}, {K: "send", Seed: 11, Size: 70000}, {K: "send", Seed: 12, Size: 70000}, {K: "send", Seed: 13, Size: 70000}, {K: "reconnect"}, {K: "send", Seed: 14}, {K: "resume"}, {K: "send", Seed: 15}}},
		// the license changes through a configuration reload (peer on port 6600)
		{Port6600: true, Actions: []Action{{K: "send", Seed: 1}, {K: "reconf", Seed: 1}, {K: "send", Seed: 2}, {K: "send", Seed: 3, Override: true}, {K: "reconf", Seed: 2}, {K: "send", Seed: 4}, {K: "pause"}, {K: "send", Seed: 5}, {K: "reconf", Seed: 3}, {K: "send", Seed: 6}, {K: "resume"}}},
		// a healthy connection that is older than the write timeout
		{TimeoutMs: 300, Actions: []Action{{K: "send", Seed: 1}, {K: "send", Seed: 2}, {K: "idle", Ms: 450}, {K: "send", Seed: 3}, {K: "send", Seed: 4}, {K: "send", Seed: 5}, {K: "idle", Ms: 350}, {K: "send", Seed: 6}, {K: "send", Seed: 7}}},
	} {
		specDirect.RunCase(t, c)
	}
	specDirect.Check(t)
}

// ---- queue mode ----------------------------------------------------------------------------------

type QCase struct {
	Producers [][]Action `json:"producers"` // send actions per producer goroutine
	QueueSize int        `json:"queue_size"`
	CutAfter  int        `json:"cut_after"` // -1: no fault; otherwise the peer cuts the first connection between frames after this many frames
	// IdleMs > 0: one pack is sent and received first, then nothing is sent for this long (the drain loop's wait on the
	// empty queue, 5 s, expires in between), then the producers start: a quiet agent that becomes busy again
	IdleMs int `json:"idle_ms,omitempty"`
}

func runQueue(c QCase) *pbt.Result {
	pr, err := newPeer()
	if err != nil {
		return pbt.Fail("harness cannot listen: %v", err)
	}
	defer pr.shutdown()
	cl := oneway.NewForVerif(oneway.WithServers([]string{pr.addr}), oneway.WithLicense(clientLicense), oneway.WithPcode(77), oneway.WithUseQueue(), oneway.WithQueueSize(int32(c.QueueSize)))
	cl.Timeout = 5 * time.Second
	cl.StartProcessForVerif()
	defer func() { cl.Destroy(); cl.Close() }()
	r := &runner{pr: pr, cl: cl, byFrame: map[string]int{}, guaranteed: map[int]bool{}}
	type job struct {
		p   pack.Pack
		idx int
		ovr bool
	}
	jobs := make([][]job, len(c.Producers))
	for gi, acts := range c.Producers {
		for _, a := range acts {
			r.nextID++
			p := mkPack(r.nextID, a.Size, a.Seed)
			jobs[gi] = append(jobs[gi], job{p, r.record(p, a.Override, gi+1), a.Override})
		}
	}
	primer := -1
	if c.IdleMs > 0 {
		r.nextID++
		p := mkPack(r.nextID, 0, 4242)
		primer = r.record(p, false, 0)
		if e := cl.SendFlush(p, true); e != nil {
			return pbt.Fail("queue mode: the first pack was refused by an empty queue: %v", e)
		}
		if !r.waitReceived(primer, 0) {
			return pbt.Fail("queue mode, healthy connection: the first pack was accepted but not received within %v", waitLimit)
		}
		time.Sleep(time.Duration(c.IdleMs) * time.Millisecond)
	}
	accepted := make([][]bool, len(jobs))
	var wg sync.WaitGroup
	for gi := range jobs {
		accepted[gi] = make([]bool, len(jobs[gi]))
		wg.Add(1)
		go func(gi int) {
			defer wg.Done()
			for k, j := range jobs[gi] {
				var e error
				if j.ovr {
					e = cl.SendFlush(j.p, true, wnet.WithLicense(overrideLicense))
				} else {
					e = cl.SendFlush(j.p, true)
				}
				accepted[gi][k] = e == nil
			}
		}(gi)
	}
	if c.CutAfter >= 0 {
		// cut the first connection between frames once it has carried CutAfter complete frames
		pr.waitFor(func() bool {
			if len(pr.conns) == 0 {
				return false
			}
			fr, rest, _ := splitFrames(pr.conns[0].buf)
			return len(fr) >= c.CutAfter && len(rest) == 0
		})
		pr.cutCurrent(0)
	}
	wg.Wait()
	nAccepted := 0
	for gi := range accepted {
		for _, ok := range accepted[gi] {
			if ok {
				nAccepted++
			}
		}
	}
	if c.CutAfter < 0 {
		// healthy connection: every accepted pack must arrive
		ok := pr.waitFor(func() bool {
			n := 0
			for _, pc := range pr.conns {
				fr, _, _ := splitFrames(pc.buf)
				n += len(fr)
			}
			return n >= nAccepted+b2i(primer >= 0)
		})
		if !ok {
			return pbt.Fail("queue mode, healthy connection: %d packs accepted by SendFlush, fewer frames received within %v", nAccepted, waitLimit)
		}
	} else {
		time.Sleep(300 * time.Millisecond) // let the drain goroutine run into the fault and re-dial
	}
	pr.settle(-1)
	pr.mu.Lock()
	defer pr.mu.Unlock()
	seen := map[int]bool{}
	lastPerG := map[int]int64{}
	total := 0
	for ci, pc := range pr.conns {
		fr, rest, err := splitFrames(pc.buf)
		if err != nil {
			return pbt.Fail("connection %d: %v", ci, err)
		}
		if len(rest) > 0 && !pc.cut {
			return pbt.Fail("connection %d, never cut by the peer, ends with a partial frame of %d bytes", ci, len(rest))
		}
		for k, f := range fr {
			i, ok := r.byFrame[string(f)]
			if !ok {
				return pbt.Fail("connection %d frame %d is not the frame of any queued pack", ci, k)
			}
			if seen[i] {
				return pbt.Fail("the frame of pack id %d was received twice", r.all[i].id)
			}
			seen[i] = true
			g := r.all[i].g
			if r.all[i].id <= lastPerG[g] {
				return pbt.Fail("queue mode: packs of producer %d arrive out of order (id %d after id %d)", g, r.all[i].id, lastPerG[g])
			}
			lastPerG[g] = r.all[i].id
			total++
		}
	}
	for gi := range jobs {
		for k, j := range jobs[gi] {
			if !accepted[gi][k] && seen[j.idx] {
				return pbt.Fail("a pack SendFlush refused (queue full) was nevertheless sent")
			}
			if accepted[gi][k] && c.CutAfter < 0 && !seen[j.idx] {
				return pbt.Fail("pack id %d was accepted into the queue on a healthy connection but never received", r.all[j.idx].id)
			}
		}
	}
	return &pbt.Result{NT: len(c.Producers) >= 2 || c.CutAfter >= 0, Classes: []string{fmt.Sprintf("producers=%d", len(c.Producers)), fmt.Sprintf("fault=%v", c.CutAfter >= 0), fmt.Sprintf("refused=%v", nAccepted < int(r.nextID))}}
}

var specQueue = pbt.Register(pbt.Spec[QCase]{
	Prop: "C06", Name: "queue-mode",
	Rule:  "a fresh client in queue mode with its real drain goroutine; 1-4 producer goroutines enqueue packs (queue size 1..1000, so refusals occur); optionally the peer cuts the connection between frames; one fixed history per run sends a pack, stays quiet for 5.4 s (longer than the drain loop's wait on its queue) and then sends five packs at once; oracle (sound for any schedule) = whole frames only, each the reference frame of an accepted pack, none twice, each producer's packs in order, on a healthy connection every accepted pack arrives and no refused pack does; non-trivial = >= 2 producers or a fault; distinct by case",
	Quick: 40, Thorough: 1500,
	Draw: func(t *rapid.T) QCase {
		c := QCase{QueueSize: rapid.SampledFrom([]int{1, 3, 1000, 1000}).Draw(t, "qsize"), CutAfter: rapid.SampledFrom([]int{-1, -1, 0, 1, 3}).Draw(t, "cut")}
		np := rapid.IntRange(1, 4).Draw(t, "producers")
		for i := 0; i < np; i++ {
			n := rapid.IntRange(1, 20).Draw(t, "n")
			var acts []Action
			for j := 0; j < n; j++ {
				acts = append(acts, Action{K: "send", Seed: rapid.Uint64().Draw(t, "seed"), Size: rapid.SampledFrom([]int{0, 0, 100, 3000}).Draw(t, "size"), Override: rapid.IntRange(0, 3).Draw(t, "ovr") == 0})
			}
			c.Producers = append(c.Producers, acts)
		}
		return c
	},
	Run: runQueue,
})

func b2i(b bool) int {
	if b {
		return 1
	}
	return 0
}

func TestQueueMode(t *testing.T) {
	// a quiet period longer than the drain loop's wait on its queue, then several packs at once (one shard: it takes 5 s)
	if sh, _ := pbt.Shard(); sh == 0 {
		burst := []Action{{K: "send", Seed: 1}, {K: "send", Seed: 2, Size: 100}, {K: "send", Seed: 3}, {K: "send", Seed: 4, Size: 3000}, {K: "send", Seed: 5}}
		specQueue.RunCase(t, QCase{QueueSize: 1000, CutAfter: -1, IdleMs: 5400, Producers: [][]Action{burst}})
		if pbt.Thorough() {
			specQueue.RunCase(t, QCase{QueueSize: 1000, CutAfter: -1, IdleMs: 10600, Producers: [][]Action{burst, burst}})
		}
	}
	specQueue.Check(t)
}
