package c06

// stalled-collector: the collector neither closes nor resets, it just stops reading for a while (a full garbage
// collection, an overloaded disk). The agent's socket buffers fill, one flush runs into the write timeout after part of
// a frame has gone out, and then the collector reads again. Whatever the client does with that connection, the
// collector must go on seeing whole frames only: a frame is not continued by another frame's bytes.

import (
	"fmt"
	"testing"
	"time"

	"github.com/whatap/golib/net/oneway"
	"pgregory.net/rapid"
	"verif/pbt"
)

type StallCase struct {
	TimeoutMs int    `json:"timeout_ms"`
	Big       int    `json:"big"`   // size of the packs sent while the collector is stalled
	After     int    `json:"after"` // small packs sent after the collector reads again
	Seed      uint64 `json:"seed"`
}

func runStall(c StallCase) *pbt.Result {
	pr, err := newPeer()
	if err != nil {
		return pbt.Fail("harness cannot listen: %v", err)
	}
	defer pr.shutdown()
	cl := oneway.NewForVerif(oneway.WithServers([]string{pr.addr}), oneway.WithLicense(clientLicense), oneway.WithPcode(77))
	cl.Timeout = time.Duration(c.TimeoutMs) * time.Millisecond
	defer cl.Close()
	r := &runner{pr: pr, cl: cl, byFrame: map[string]int{}, guaranteed: map[int]bool{}}
	send := func(size int) (int, error) {
		r.nextID++
		p := mkPack(r.nextID, size, c.Seed+uint64(r.nextID))
		idx := r.record(p, false, 0)
		return idx, cl.Send(p)
	}
	var mustArrive []int
	// a healthy start
	idx, err := send(0)
	if err != nil {
		return pbt.Fail("first send on a healthy connection returned %v", err)
	}
	if !r.waitReceived(idx, 0) {
		return pbt.Fail("first send returned nil but its frame did not arrive")
	}
	// the collector stalls; the agent keeps sending until a send reports the stall
	pr.setPaused(true)
	stalledAt := -1
	for i := 0; i < 24; i++ {
		idx, err := send(c.Big)
		if err != nil {
			stalledAt = idx
			break
		}
		mustArrive = append(mustArrive, idx) // accepted in full by the connection: the collector reads it when it reads again
	}
	if stalledAt < 0 {
		// the socket buffers of this host swallowed everything: no write timeout could be provoked
		pr.setPaused(false)
		return &pbt.Result{Classes: []string{"skipped:no-write-timeout-provoked"}}
	}
	connsAtStall := pr.nconns()
	pr.setPaused(false)
	// the collector reads again; the agent goes on sending. The client may need a send or two to notice and re-dial.
	recovered := false
	for i := 0; i < c.After; i++ {
		idx, err := send(0)
		if err == nil {
			recovered = true
			mustArrive = append(mustArrive, idx)
		} else if recovered {
			return pbt.Fail("send %d after the collector resumed reading returned %v although an earlier send had succeeded again", i, err)
		} else if i >= 3 {
			return pbt.Fail("the collector reads again and its listener is up, yet send %d after the stall still fails: %v", i, err)
		}
	}
	for _, idx := range mustArrive {
		if !r.waitReceived(idx, 0) {
			return pbt.Fail("send id %d returned nil (collector stalled for a while, write timeout %d ms, a later %d-byte frame timed out half way on connection %d) but its frame never arrived as a frame", r.all[idx].id, c.TimeoutMs, len(r.all[stalledAt].frame), connsAtStall-1)
		}
	}
	time.Sleep(50 * time.Millisecond)
	pr.settle(connsAtStall - 1)
	pr.mu.Lock()
	defer pr.mu.Unlock()
	seen := map[int]bool{}
	for ci, pc := range pr.conns {
		fr, rest, err := splitFrames(pc.buf)
		if err != nil {
			return pbt.Fail("connection %d: %v", ci, err)
		}
		if len(rest) > 0 && ci != connsAtStall-1 {
			return pbt.Fail("connection %d ends with a partial frame of %d bytes although no send on it reported an error", ci, len(rest))
		}
		for k, f := range fr {
			i, ok := r.byFrame[string(f)]
			if !ok {
				return pbt.Fail("connection %d frame %d (%d bytes) is not the frame of any pack that was sent", ci, k, len(f))
			}
			if seen[i] {
				return pbt.Fail("the frame of pack id %d was received twice", r.all[i].id)
			}
			seen[i] = true
		}
	}
	return &pbt.Result{NT: true, Classes: []string{fmt.Sprintf("frames-accepted-while-stalled=%d", len(mustArrive)-c.After)}}
}

var specStall = pbt.Register(pbt.Spec[StallCase]{
	Prop: "C06", Name: "stalled-collector",
	Rule:  "direct mode, write timeout 150-400 ms: after one delivered frame the collector stops reading (it neither closes nor resets); packs of 0.6-2.5 MB are sent until a send reports the stall (write timeout after part of a frame went out; skipped when 24 packs fit into the socket buffers); the collector reads again and 3-8 small packs are sent; oracle = every connection's stream is a concatenation of whole reference frames (a partial tail only on the connection on which the send failed), none twice, every send that returned nil arrives, sends succeed again from the fourth send after the stall at the latest; non-trivial = a write timeout was provoked; distinct by case",
	Quick: 6, Thorough: 120,
	Draw: func(t *rapid.T) StallCase {
		return StallCase{TimeoutMs: rapid.IntRange(150, 400).Draw(t, "timeout"), Big: rapid.SampledFrom([]int{600000, 1200000, 2500000}).Draw(t, "big"),
			After: rapid.IntRange(3, 8).Draw(t, "after"), Seed: rapid.Uint64().Draw(t, "seed")}
	},
	Run: runStall,
})

func TestStalledCollector(t *testing.T) { specStall.Check(t) }
